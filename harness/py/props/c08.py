# C08 — output stream: GetNext/Get under every interleaving.
# proof obligations (Properties/C08.v) + correspondence of M-OUT with internal/outputstream
# (sequential programs, scripted concurrent scenarios on the real sync primitives, explicit schedules
# of the lock-protected sections under the schedsync shim) + a monitor that states the property on the
# implementation's answers against a plain sorted-map reference (no Coq model involved).
import glob, json, os, re
import vlib

PKG = "./internal/outputstream/"
CORPUS = os.path.join(vlib.ROOT, "corpus", "C08")
MAXU = 2 ** 64 - 1


# ------------------------------------------------------------------ case text
def show_msgs(msgs):
    if not msgs:
        return "-"
    out = []
    for (reply, text, rc) in msgs:
        out.append("%d/%s/%s" % (reply, text.hex() if text else "-", "+".join(str(r) for r in rc) if rc else "-"))
    return ",".join(out)


def show_batch(i, msgs):
    """canonical form both drivers print for a returned batch"""
    if not msgs:
        return "empty"
    return ",".join("%d.%d/%s/%s" % (i, reply, text.hex() if text else "-", "+".join(str(r) for r in rc) if rc else "-")
                    for (reply, text, rc) in msgs)


def tok(op):
    k = op[0]
    if k == "a":
        return "a:%d:%s" % (op[1], show_msgs(op[2]))
    if k in ("d", "g", "n", "c", "j", "r", "e"):
        return "%s:%d" % (k, op[1])
    if k == "s":
        return "s:%d:%d" % (op[1], op[2])
    return k          # l, i, k (= Close)


def case_line(c):
    return " ".join([c["kind"]] + [tok(o) for o in c["ops"]])


def norm_case(c):
    """cases survive a JSON round trip (tuples -> lists, bytes -> hex)"""
    ops = []
    for o in c["ops"]:
        if o[0] == "a":
            ops.append(["a", o[1], [[m[0], m[1].hex() if isinstance(m[1], bytes) else m[1], list(m[2])] for m in o[2]]])
        else:
            ops.append(list(o))
    return {"kind": c["kind"], "ops": ops, "valid": c.get("valid", True), "note": c.get("note", "")}


def denorm_case(c):
    ops = []
    for o in c["ops"]:
        if o[0] == "a":
            ops.append(("a", o[1], [(m[0], bytes.fromhex(m[1]) if isinstance(m[1], str) else m[1], tuple(m[2])) for m in o[2]]))
        else:
            ops.append(tuple(o))
    return {"kind": c["kind"], "ops": ops, "valid": c.get("valid", True), "note": c.get("note", "")}


# ------------------------------------------------------------------ generators
def rand_msgs(rng, n=None):
    n = n or rng.choice([1, 1, 1, 2, 2, 3, 4])
    msgs = []
    for r in range(1, n + 1):
        k = rng.random()
        if k < 0.15:
            text = b""
        elif k < 0.8:
            text = bytes(rng.choice(b"abcXYZ :#\r\n\x00\xff") for _ in range(rng.randint(1, 6)))
        else:
            text = bytes(rng.randrange(256) for _ in range(rng.randint(1, 12)))
        rc = tuple(sorted(rng.sample(range(1, 7), rng.choice([0, 1, 1, 2, 3]))))
        msgs.append((r, text, rc))
    return msgs


def pick_x(rng, keys, deleted, hi):
    """a GetNext/Get argument: existing, the tail, deleted, in a gap, newer than everything"""
    k = rng.random()
    ks = sorted(keys)
    if k < 0.35 and ks:
        return rng.choice(ks)
    if k < 0.5 and ks:
        return ks[-1]
    if k < 0.65 and deleted:
        return rng.choice(sorted(deleted))
    if k < 0.8:
        return rng.randint(0, hi + 1)
    return hi + rng.randint(1, 4)


def gen_seq(rng, length, malformed):
    """sequential program; valid programs follow the property's discipline (Add ids increasing and
    below 2^64-1, never deleting the last remaining batch); malformed ones leave it on purpose"""
    ops, keys, deleted, hi = [], {0}, set(), 0
    valid = True
    for _ in range(length):
        k = rng.random()
        if k < 0.3:
            i = max(keys) + rng.choice([1, 1, 1, 2, 3, 10])
            if malformed and rng.random() < 0.25:
                j = rng.random()
                if j < 0.4:
                    i = rng.choice(sorted(keys))          # re-add an existing id
                elif j < 0.7:
                    i = rng.randint(0, max(keys))         # not newer than the tail
                else:
                    ops.append(("a", i, []))              # empty slice: Add panics
                    valid = False
                    break
                valid = False
            ops.append(("a", i, rand_msgs(rng)))
            keys.add(i); deleted.discard(i); hi = max(hi, i)
        elif k < 0.55:
            j = rng.random()
            nz = sorted(x for x in keys if x != 0)
            if j < 0.45 and nz:
                x = nz[0]                                   # compaction: oldest first
            elif j < 0.65 and nz:
                x = rng.choice(nz)                          # any order between reads
            elif j < 0.8 and nz:
                x = max(keys)                               # the tail
            elif j < 0.9:
                x = rng.randint(0, hi + 3)
                if x in keys:
                    x = hi + 5
            else:
                x = 0 if malformed else hi + 7
            if x in keys and len(keys) == 1:
                if not malformed:
                    continue
                valid = False                               # Delete of the last batch panics
                ops.append(("d", x))
                break
            ops.append(("d", x))
            if x in keys:
                keys.discard(x); deleted.add(x)
        elif k < 0.75:
            ops.append(("g", pick_x(rng, keys, deleted, hi)))
        elif k < 0.95:
            ops.append(("n", pick_x(rng, keys, deleted, hi)))
        else:
            ops.append(("l",))
    if valid and rng.random() < 0.2:
        # Close at the end: every later GetNext answers empty, whatever successor exists
        ops.append(("k",))
        for _ in range(rng.randint(1, 3)):
            ops.append(("n", pick_x(rng, keys, deleted, hi)))
        if rng.random() < 0.3:
            ops.append(("k",))
            ops.append(("n", pick_x(rng, keys, deleted, hi)))
    return {"kind": "out", "ops": ops, "valid": valid, "note": "malformed" if malformed else "seq"}


def gen_bigcache(rng):
    """more than 1000 distinct batches are read, so that getUnlocked trims its cache (random
    eviction down to 500 entries) several times; afterwards every id is looked up again.  Results
    do not depend on what the cache holds, so the model (which never evicts) must agree."""
    n = rng.randint(1080, 1250)
    ids, i = [], 0
    for _ in range(n):
        i += rng.choice([1, 1, 1, 2])
        ids.append(i)
    ops = [("a", k, [(1, bytes([65 + k % 26, 48 + k % 10]), (1 + k % 5,))]) for k in ids]
    ops += [("g", k) for k in ids]                       # fills the cache past 1000 entries
    order = list(ids)
    rng.shuffle(order)
    for k in order[:700]:
        ops.append(("n", k - 1) if rng.random() < 0.5 else ("n", k))
    ops += [("g", k) for k in ids]                       # every id again: a batch filed under a wrong key shows
    for k in ids[:200]:
        ops.append(("n", k))
    return {"kind": "out", "ops": ops, "valid": True, "note": "bigcache"}


def gen_conc(rng, length):
    """scripted concurrent scenario: 1-3 readers around compaction, adds, cancellation"""
    ops, keys, deleted, hi = [], {0}, set(), 0
    for _ in range(rng.randint(0, 3)):
        i = max(keys) + rng.choice([1, 1, 2, 5])
        ops.append(("a", i, rand_msgs(rng, rng.choice([1, 1, 2]))))
        keys.add(i); hi = i
    readers, nreaders = [], 0
    for _ in range(length):
        k = rng.random()
        if k < 0.22 and nreaders < 3:
            nreaders += 1
            ops.append(("s", nreaders, pick_x(rng, keys, deleted, hi)))
            readers.append(nreaders)
        elif k < 0.45:
            i = max(keys) + rng.choice([1, 1, 1, 2, 3])
            ops.append(("a", i, rand_msgs(rng, rng.choice([1, 1, 2]))))
            keys.add(i); deleted.discard(i); hi = max(hi, i)
        elif k < 0.7:
            nz = sorted(x for x in keys if x != 0)
            j = rng.random()
            if j < 0.6 and nz:
                x = nz[0]                                   # oldest first while readers are active
            elif j < 0.8 and nz and len(keys) > 1:
                x = max(keys)                               # the batch readers wait behind
            else:
                x = hi + 3                                  # non-existing
            if x in keys and len(keys) == 1:
                continue
            ops.append(("d", x))
            if x in keys:
                keys.discard(x); deleted.add(x)
        elif k < 0.8 and readers:
            ops.append(("c", rng.choice(readers)))
        elif k < 0.87:
            ops.append(("i",))
        elif k < 0.93:
            ops.append(("g", pick_x(rng, keys, deleted, hi)))
        elif readers:
            ops.append(("j", rng.choice(readers)))
    if rng.random() < 0.35:
        # Close while readers are parked; readers started afterwards; nobody may stay blocked
        ops.append(("k",))
        for _ in range(rng.randint(0, 3)):
            k = rng.random()
            if k < 0.4 and nreaders < 4:
                nreaders += 1
                ops.append(("s", nreaders, pick_x(rng, keys, deleted, hi)))
                readers.append(nreaders)
            elif k < 0.6 and readers:
                ops.append(("c", rng.choice(readers)))
            elif k < 0.8:
                ops.append(("i",))
            else:
                ops.append(("k",))
    for t in readers:
        ops.append(("j", t))
    return {"kind": "outc", "ops": ops, "valid": True, "note": "conc"}


# ------------------------------------------------------------------ reference + monitor
class Ref:
    """plain sorted-map reference: what the property says, nothing about caches, links or locks.
    A reader is start (called), loop (runnable), wait (suspended, no wake-up pending) or done."""

    def __init__(self):
        self.m = {0: [(0, b"", ())]}
        self.readers = {}          # t -> dict(x, st, result, cancelled)
        self.order = []
        self.closed = False        # Close was called: every GetNext answers empty at once

    def copy(self):
        r = Ref()
        r.closed = self.closed
        r.m = dict(self.m)
        r.readers = {t: dict(v) for t, v in self.readers.items()}
        r.order = list(self.order)
        return r

    def succ(self, x):
        ks = [k for k in self.m if k > x]
        return min(ks) if ks else None

    def enabled(self, t):
        return t in self.readers and self.readers[t]["st"] in ("start", "loop")

    def step(self, t):
        """one lock-protected section of reader t; False if it cannot be scheduled"""
        if not self.enabled(t):
            return False
        r = self.readers[t]
        s = self.succ(r["x"])
        if self.closed:
            r["st"], r["result"] = "done", "empty"
        elif s is not None:
            r["st"], r["result"] = "done", show_batch(s, self.m[s])
        elif r["st"] == "start":
            r["st"] = "loop"
        elif r["cancelled"]:
            r["st"], r["result"] = "done", "empty"
        else:
            r["st"] = "wait"
        return True

    def broadcast(self):
        for r in self.readers.values():
            if r["st"] == "wait":
                r["st"] = "loop"

    def settle(self):
        for t in self.order:
            while self.step(t):
                pass

    def apply(self, op):
        """perform op; returns the result token the property demands (None: no demand)"""
        k = op[0]
        if k == "a":
            self.m[op[1]] = list(op[2]); self.broadcast(); return "a=ok"
        if k == "d":
            self.m.pop(op[1], None); return "d=ok"
        if k == "i":
            self.broadcast(); return "i=ok"
        if k == "k":
            self.closed = True; self.broadcast(); return "k=ok"
        if k == "g":
            return "g=" + (show_batch(op[1], self.m[op[1]]) if op[1] in self.m else "none")
        if k == "n":
            s = None if self.closed else self.succ(op[1])
            return "n=" + (show_batch(s, self.m[s]) if s is not None else "empty")
        if k == "s":
            if op[1] in self.readers:
                return "s=disabled"
            self.readers[op[1]] = {"x": op[2], "st": "start", "result": None, "cancelled": False}
            self.order.append(op[1]); return "s=ok"
        if k == "c":
            if op[1] not in self.readers:
                return "c=disabled"
            self.readers[op[1]]["cancelled"] = True; return "c=ok"
        if k == "r":
            return "r=ok" if self.step(op[1]) else "r=disabled"
        if k == "e":
            return "e=ok"
        if k == "j":
            r = self.readers.get(op[1])
            if r is None:
                return "j%d=unknown" % op[1]
            return "j%d=%s" % (op[1], r["result"] if r["st"] == "done" else "blocked")
        return None


def monitor(c, gline):
    """returns (signature, text) of the first property violation in the implementation's answers"""
    if not c.get("valid", True):
        return None
    toks = (gline or "").split(" ")
    if not toks or toks[0] != c["kind"]:
        return ("driver-output-unparsable", "no result line for the case")
    res = toks[1:]
    ref = Ref()
    ri = 0
    sched_dev = None            # first deviation in schedulability; a later wrong result explains it better
    for op in c["ops"]:
        if ri >= len(res):
            return ("driver-output-short", "result line ends before the program does: %s" % gline)
        got = res[ri]; ri += 1
        k = op[0]
        if got in ("stuck", "r=stuck"):
            return ("getnext-stuck", "a reader neither returned nor parked within the deadline")
        if got.endswith("=panic"):
            if got.startswith("j") or k in ("r", "s"):
                return ("getnext-panic-after-delete", "GetNext panicked (%s at %s) inside the discipline of the property" % (got, tok(op)))
            return ("op-panic-inside-discipline", "operation %s panicked although the program follows the discipline" % tok(op))
        want = ref.apply(op)
        if k == "l" or want is None:
            pass
        elif k == "g" and got != want:
            return ("get-not-what-was-added", "Get(%d) answered %s, the stream holds %s" % (op[1], got, want))
        elif k == "n" and got != want:
            sig = "getnext-returned-not-newer" if _id_of(got) is not None and _id_of(got) <= op[1] else "getnext-wrong-successor"
            if ref.closed:
                sig = "getnext-not-empty-on-closed-stream"
            return (sig, "GetNext(%d) with a cancelled context answered %s, expected %s" % (op[1], got, want))
        elif k == "r" and got != want and sched_dev is None:
            r = ref.readers.get(op[1], {})
            if got == "r=disabled":
                sched_dev = ("getnext-not-schedulable", "reader %d (GetNext(%s)) cannot be scheduled (returned early or parked in Cond.Wait) although the property demands it runs" % (op[1], r.get("x")))
            else:
                sched_dev = ("getnext-spurious-step", "reader %d could be scheduled although it should be suspended or finished" % op[1])
        elif k == "j" and got != want:
            r = ref.readers[op[1]]
            gi = _id_of(got)
            if got.endswith("=blocked") and ref.closed:
                sig = "getnext-blocked-on-closed-stream"
            elif ref.closed and r["result"] == "empty":
                sig = "getnext-not-empty-on-closed-stream"
            elif got.endswith("=blocked"):
                sig = "getnext-blocked-although-successor-exists" if r["result"] != "empty" else "getnext-blocked-after-cancel-and-wakeup"
            elif gi is not None and gi <= r["x"]:
                sig = "getnext-returned-not-newer"
            elif r["st"] != "done":
                sig = "getnext-returned-without-successor"
            else:
                sig = "getnext-wrong-successor"
            return (sig, "reader %d (GetNext(%d)) is %s, the property demands %s" % (op[1], r["x"], got, want))
        elif k in ("a", "d", "i", "s", "c", "e", "k") and got != want:
            return ("op-unexpected-result", "%s answered %s, expected %s" % (tok(op), got, want))
        if c["kind"] == "outc":
            ref.settle()
    if ri < len(res):
        extra = res[ri]
        if extra.endswith("=panic"):
            return ("getnext-panic-after-delete", "GetNext panicked (%s) inside the discipline of the property" % extra)
        if extra in ("stuck", "r=stuck"):
            return ("getnext-stuck", "a reader neither returned nor parked within the deadline")
    return sched_dev


def _id_of(token):
    m = re.match(r"[a-z0-9]+=(\d+)\.", token or "")
    return int(m.group(1)) if m else None


def nontrivial(c, gline):
    """distinct_nontrivial rule: the case reached a GetNext/Get that returned a batch"""
    return bool(re.search(r"(?:^| )(?:n|g|j\d+)=\d+\.", gline or ""))


# ------------------------------------------------------------------ running both sides
def overlay():
    return {vlib.REPO + "/internal/outputstream/zz_verif_out_test.go": vlib.HGO + "/outputstream/zz_verif_out_test.go"}


def run_go(lines, tag="out", scale=None):
    wd = vlib.workdir()
    inp, outp = os.path.join(wd, tag + ".in"), os.path.join(wd, tag + ".out")
    open(inp, "w").write("\n".join(lines) + "\n")
    if os.path.exists(outp):
        os.remove(outp)
    env = {"VERIF_IN": inp, "VERIF_OUT": outp}
    if scale:
        env["VERIF_WAIT_SCALE"] = str(scale)
    rc, out = vlib.go_test(PKG, overlay(), "^TestVerifOut$", env, timeout=1800)
    if rc != 0 or not os.path.exists(outp):
        return None, out
    return open(outp).read().split("\n")[:-1], out


def disciplined(c):
    """the schedule discipline of the property: Add ids above everything stored (and non-empty),
    Delete never removes the last remaining batch"""
    keys = {0}
    closed = False
    for op in c["ops"]:
        if op[0] == "k":
            closed = True
        elif closed and op[0] in ("a", "d", "g", "e", "l"):
            return False          # the LevelDB handle is closed: only GetNext/Interrupt/Close remain
        if op[0] == "a":
            if not op[2] or op[1] <= max(keys) or op[1] >= MAXU:
                return False
            keys.add(op[1])
        elif op[0] == "d":
            if op[1] in keys and len(keys) == 1:
                return False
            keys.discard(op[1])
    return True


def shrink(c, failing, max_rounds=40):
    """delta debugging over the operations; every round is ONE go test run over all candidates:
    first the shortest failing prefix, then all single-operation removals (those that keep the
    failure individually are also tried together).  A case that claims to be inside the
    discipline must stay inside it."""
    def ok(x):
        return not x.get("valid", True) or disciplined(x)

    def run(cands):
        if not cands:
            return []
        g, _ = run_go_mixed(cands, [case_line(x) for x in cands], "shrink")
        return g or []

    cur = c
    if len(cur["ops"]) > 300:
        # a long program (cache-trimming scenarios): only cut the tail, by bisection
        lo, hi = 1, len(cur["ops"])
        for _ in range(14):
            if hi - lo < 2:
                break
            mid = (lo + hi) // 2
            x = dict(cur, ops=cur["ops"][:mid])
            g = run([x])
            if g and failing(x, g[0]):
                hi = mid
            else:
                lo = mid
        return dict(cur, ops=cur["ops"][:hi])
    pre = [dict(cur, ops=cur["ops"][:n]) for n in range(1, len(cur["ops"]))]
    for x, g in zip(pre, run(pre)):
        if failing(x, g):
            cur = x
            break
    for _ in range(max_rounds):
        idx = [i for i in range(len(cur["ops"])) if ok(dict(cur, ops=cur["ops"][:i] + cur["ops"][i + 1:]))]
        cands = [dict(cur, ops=cur["ops"][:i] + cur["ops"][i + 1:]) for i in idx]
        good = [i for i, x, g in zip(idx, cands, run(cands)) if failing(x, g)]
        if not good:
            break
        if len(good) > 1:
            both = dict(cur, ops=[o for k, o in enumerate(cur["ops"]) if k not in set(good)])
            if ok(both) and both["ops"]:
                g = run([both])
                if g and failing(both, g[0]):
                    cur = both
                    continue
        cur = dict(cur, ops=cur["ops"][:good[0]] + cur["ops"][good[0] + 1:])
    return cur


def load_corpus():
    cases = []
    for p in sorted(glob.glob(os.path.join(CORPUS, "*.json"))):
        try:
            for c in json.load(open(p)).get("cases", []):
                c = denorm_case(c)
                c["note"] = "corpus:" + os.path.basename(p)
                cases.append(c)
        except Exception as ex:  # a broken corpus file is a harness error, not silently skipped
            raise RuntimeError("corpus file %s unreadable: %s" % (p, ex))
    return cases


LIFECYCLE_METHODS = set()       # since d929c6d Close takes messagesMu itself (closeLocked is the unexported body)


def lock_scan(src):
    """translator-lite lock summary: every exported method of OutputStream touches the LevelDB
    handle, the batch, lastseen, the cache or an *Unlocked helper only inside a messagesMu section.
    (The model makes each of those sections one atomic step; an access outside a section is a step
    the model does not have.)  Returns the list of offending 'Method: line'."""
    bad = []
    for m in re.finditer(r"^func \((\w+) \*OutputStream\) ([A-Z]\w*)\(.*?^}\n", src, re.S | re.M):
        recv, name, body = m.group(1), m.group(2), m.group(0)
        if name in LIFECYCLE_METHODS:
            continue
        crit = re.compile(r"\b%s\.(db|batch|lastseen|messagesCache|closed)\b|\b%s\.\w*Unlocked\(" % (recv, recv))
        lines = [l for l in body.split("\n")]
        held = False
        for i, l in enumerate(lines):
            code = l.split("//")[0]
            if re.search(r"\b%s\.messagesMu\.R?Lock\(\)" % recv, code):
                held = True
                continue
            if re.search(r"\b%s\.messagesMu\.R?Unlock\(\)" % recv, code) and "defer" not in code:
                nxt = next((x.strip() for x in lines[i + 1:] if x.strip() and not x.strip().startswith("//")), "")
                if not nxt.startswith("return"):
                    held = False          # an unlock directly followed by return ends only that branch
                continue
            if crit.search(code) and not held:
                bad.append("%s: %s" % (name, code.strip()))
    return bad


def source_facts():
    """translator-lite: the shape of GetNext the model's step granularity depends on"""
    src = open(os.path.join(vlib.REPO, "internal/outputstream/outputstream.go")).read()
    m = re.search(r"func \(os \*OutputStream\) GetNext\(.*?\n}\n", src, re.S)
    body = m.group(0) if m else ""
    facts = {
        "getnext_found": bool(m),
        "getnext_rlock_then_lock": 0 <= body.find("messagesMu.RLock()") < body.find("messagesMu.Lock()"),
        "getnext_waits_on_cond": "newMessage.Wait()" in body,
        "add_broadcasts": bool(re.search(r"func \(os \*OutputStream\) Add\(.*?newMessage\.Broadcast\(\).*?\n}\n", src, re.S)),
        "interrupt_broadcasts": bool(re.search(r"func \(os \*OutputStream\) InterruptGetNext\(\) \{[^}]*newMessage\.Broadcast\(\)", src, re.S)),
        "delete_does_not_broadcast": not re.search(r"func \(os \*OutputStream\) Delete\((?:(?!\nfunc ).)*Broadcast", src, re.S),
        "exported_methods_hold_messagesMu": not lock_scan(src),
        "getnext_tests_closed_in_both_sections": len(re.findall(r"if os\.closed \{", body)) >= 2,
        "close_sets_closed_and_broadcasts": bool(re.search(r"func \(\w+ \*OutputStream\) Close\(\) error \{[^}]*\.closed = true[^}]*newMessage\.Broadcast\(\)", src, re.S)),
        "unlocked_accesses": lock_scan(src),
        "wait_loop_repeats_lookup": bool(re.search(r"for \{\s*(?://[^\n]*\n\s*)*next, ok := os\.nextUnlocked\(", body)),
    }
    return facts


# ------------------------------------------------------------------ explicit schedules (schedsync)
SYNC_IMPORT = '\t"sync"\n'
SCHED_IMPORT = '\tsync "github.com/robustirc/robustirc/internal/outputstream/schedsync"\n'


def sched_overlay():
    """overlay for the schedule runs: outputstream.go is REPLACED by a copy of the current file whose
    sync import is redirected to the schedsync shim (regenerated on every run)"""
    src = open(os.path.join(vlib.REPO, "internal/outputstream/outputstream.go")).read()
    if src.count(SYNC_IMPORT) != 1:
        return None
    cp = os.path.join(vlib.workdir(), "outputstream_sched.go")
    open(cp, "w").write(src.replace(SYNC_IMPORT, SCHED_IMPORT))
    base = vlib.REPO + "/internal/outputstream/"
    return {base + "zz_verif_out_test.go": vlib.HGO + "/outputstream/zz_verif_out_test.go",
            base + "zz_verif_outsched_test.go": vlib.HGO + "/outputstream/zz_verif_outsched_test.go",
            base + "schedsync/schedsync.go": vlib.HGO + "/outputstream/schedsync/schedsync.go",
            base + "outputstream.go": cp}


def run_go_sched(lines, tag="sched"):
    ov = sched_overlay()
    if ov is None:
        return None, "outputstream.go does not import \"sync\" in the expected form; the shim cannot be wired in"
    wd = vlib.workdir()
    inp, outp = os.path.join(wd, tag + ".in"), os.path.join(wd, tag + ".out")
    open(inp, "w").write("\n".join(lines) + "\n")
    if os.path.exists(outp):
        os.remove(outp)
    rc, out = vlib.go_test(PKG, ov, "^TestVerifOutSched$", {"VERIF_IN": inp, "VERIF_OUT": outp}, timeout=900)
    if rc != 0 or not os.path.exists(outp):
        return None, out
    return open(outp).read().split("\n")[:-1], out


def enumerate_schedules(prefix, conc, cap):
    """all interleavings of the driver's operations [conc] (in program order) with the lock-protected
    sections of the readers they create; enabledness comes from the sorted-map reference.
    Returns (list of op lists, complete?)"""
    ref0 = Ref()
    for op in prefix:
        ref0.apply(op)
    out, complete = [], [True]

    def rec(ref, i, acc):
        if len(out) >= cap:
            complete[0] = False
            return
        moves = []
        if i < len(conc):
            moves.append(("main", conc[i]))
        for t in ref.order:
            if ref.enabled(t):
                moves.append(("r", t))
        if not moves:
            out.append(list(prefix) + acc + [("j", t) for t in ref.order])
            return
        for kind, mv in moves:
            r2 = ref.copy()
            if kind == "main":
                r2.apply(mv)
                rec(r2, i + 1, acc + [mv])
            else:
                r2.step(mv)
                rec(r2, i, acc + [("r", mv)])

    rec(ref0, 0, [])
    return out, complete[0]


def sched_programs(rng, n_random, big):
    A = lambda i, t: ("a", i, [(1, t, (1,))])
    progs = [
        ("D5: reader behind 5, Delete 5, Add 6", [A(5, b"A")], [("s", 1, 5), ("d", 5), A(6, b"B")]),
        ("x newer than everything stored", [], [("s", 1, 7), A(5, b"A"), A(9, b"B")]),
        ("cancel + interrupt", [A(5, b"A")], [("s", 1, 5), ("c", 1), ("i",)]),
        ("two readers, compaction", [A(3, b"A"), A(5, b"B")], [("s", 1, 3), ("s", 2, 5), ("d", 3), ("d", 5), A(8, b"C")]),
        ("deleted x, evicted cache", [A(2, b"A"), A(4, b"B")], [("g", 2), ("s", 1, 2), ("e", 2), ("d", 2), ("d", 4), A(6, b"C")]),
        # a reader parked at the tip while several Adds complete before it runs again (seeded/C08-m4)
        ("reader at the tip, two Adds before it runs", [A(5, b"A")], [("s", 1, 5), A(6, b"B"), A(7, b"C")]),
        ("reader newer than the tip, three Adds", [A(2, b"A")], [("s", 1, 3), A(3, b"B"), A(4, b"C"), A(6, b"D")]),
    ]
    for _ in range(n_random):
        keys, hi, prefix = {0}, 0, []
        for _ in range(rng.randint(0, 2)):
            hi = max(keys) + rng.choice([1, 2, 3]); keys.add(hi)
            prefix.append(A(hi, bytes([rng.choice(b"ABCDEF")])))
        conc, nread = [], 0
        for _ in range(rng.randint(3, 5 if big else 4)):
            k = rng.random()
            if (k < 0.3 and nread < 2) or nread == 0:
                nread += 1
                conc.append(("s", nread, rng.choice(sorted(keys) + [hi + 1, hi + 2])))
            elif k < 0.55:
                hi = max(list(keys) + [hi]) + rng.choice([1, 2]); keys.add(hi)
                conc.append(A(hi, bytes([rng.choice(b"ABCDEF")])))
            elif k < 0.8:
                nz = sorted(x for x in keys if x != 0)
                if nz:
                    x = rng.choice([nz[0], nz[-1]]); keys.discard(x)
                    conc.append(("d", x))
                else:
                    conc.append(("d", hi + 4))
            elif k < 0.9:
                conc.append(("c", rng.randint(1, nread)))
            else:
                conc.append(("i",))
        if rng.random() < 0.3:
            conc.append(("k",))
        progs.append(("random", prefix, conc))
    return progs


def run_stress(ck, rounds=None):
    """Get(newest) racing Add(next) on the real sync primitives; returns (info, failure or None)"""
    quick = ck.tier == "quick"
    rounds = rounds or (6000 if quick else 60000)
    budget = 8000 if quick else 60000
    wd = vlib.workdir()
    outp = os.path.join(wd, "stress.out")
    if os.path.exists(outp):
        os.remove(outp)
    rc, out = vlib.go_test(PKG, overlay(), "^TestVerifOutStress$",
                           {"VERIF_OUT": outp, "VERIF_ROUNDS": str(rounds), "VERIF_BUDGET_MS": str(budget)}, timeout=600)
    if rc != 0 or not os.path.exists(outp):
        return {"rounds": 0}, ("tie-broken:go-driver", {"what": "the stress driver did not build/run", "output": out[-3000:],
                                                        "obligation": "correspondence outdrv (stress)"}, False)
    line = open(outp).read().strip()
    m = re.match(r"stress rounds=(\d+) result=(\w+)(.*)", line)
    info = {"rounds": int(m.group(1)) if m else 0, "result": m.group(2) if m else "unparsable", "gomaxprocs_at_least": 4}
    if m and m.group(2) == "ok":
        return info, None
    detail = (m.group(3).strip() if m else line)
    what = re.search(r"what=(\S+)", detail)
    sig = {"getnext-misses-successor": "getnext-blocked-although-successor-exists",
           "racing-get-wrong": "get-not-what-was-added",
           "get-after-race-wrong": "get-not-what-was-added"}.get(what.group(1) if what else "", "stress-failed")
    return info, (sig, {"what": "Get(newest) racing Add(next): afterwards " + detail[:600],
                        "cases": [{"kind": "stress", "ops": [], "rounds": rounds, "valid": True,
                                   "note": "each round: Get(id) || Add(id+1), then GetNext(id) with a cancelled context and Get(id) are checked"}],
                        "impl_output": line[:800], "how_to_replay": "bin/check C08 --replay <this file>  (probabilistic: re-runs the stress rounds)"}, True)


def run_go_mixed(cases, lines, tag="out"):
    """out/outc cases on the real sync primitives, outs cases under the shim; results in case order"""
    idx_s = [i for i, c in enumerate(cases) if c["kind"] == "outs"]
    idx_n = [i for i, c in enumerate(cases) if c["kind"] != "outs"]
    res, log = [None] * len(cases), ""
    if idx_n:
        g, log = run_go([lines[i] for i in idx_n], tag)
        if g is None:
            return None, log
        for i, x in zip(idx_n, g):
            res[i] = x
    if idx_s:
        g, log2 = run_go_sched([lines[i] for i in idx_s], tag + "s")
        if g is None:
            return None, log2
        for i, x in zip(idx_s, g):
            res[i] = x
    return res, log


def run_sched(ck):
    """enumerate every schedule of small programs; run each on the real code under the shim and on
    the model; monitor each against the reference"""
    rng = ck.rng
    quick = ck.tier == "quick"
    progs = sched_programs(rng, 8 if quick else 80, not quick)
    cap = 400 if quick else 20000
    cases, info = [], {"programs": 0, "schedules": 0, "exhaustive_programs": 0, "distinct_nontrivial": 0}
    for name, prefix, conc in progs:
        scheds, complete = enumerate_schedules(prefix, conc, cap)
        info["programs"] += 1
        info["exhaustive_programs"] += 1 if complete else 0
        for ops in scheds:
            cases.append({"kind": "outs", "ops": ops, "valid": True, "note": "schedule of: " + name})
    info["schedules"] = len(cases)
    if not cases:
        return info, []
    lines = [case_line(c) for c in cases]
    glines, out = run_go_sched(lines)
    if glines is None:
        return info, [("tie-broken:schedsync", "", {"what": "the schedsync build of outputstream.go did not build/run against the current tree",
                                                    "output": out[-3000:], "obligation": "correspondence outdrv (explicit schedules)",
                                                    "concrete": False})]
    mlines = vlib.run_model("\n".join(lines) + "\n")
    fails, seen = [], set()
    nontriv = set()
    mism = 0
    for i, c in enumerate(cases):
        g = glines[i] if i < len(glines) else None
        if nontrivial(c, g):
            nontriv.add(lines[i])
        why = monitor(c, g)
        if why and why[0] not in seen:
            seen.add(why[0])
            # the shortest failing schedule of that signature
            best = min((j for j in range(len(cases)) if (monitor(cases[j], glines[j] if j < len(glines) else None) or ("",))[0] == why[0]),
                       key=lambda j: len(cases[j]["ops"]))
            w = monitor(cases[best], glines[best])
            fails.append((w[0], w[1], {"what": w[1], "cases": [norm_case(cases[best])], "case_line": lines[best],
                                       "impl_output": glines[best], "model_output": mlines[best] if best < len(mlines) else None,
                                       "program": cases[best]["note"], "how_to_replay": "bin/check C08 --replay <this file>",
                                       "concrete": True}))
        if g is None or i >= len(mlines) or g != mlines[i]:
            mism += 1
            if not why and "correspondence:outs" not in seen:
                seen.add("correspondence:outs")
                fails.append(("correspondence:outs", "", {"what": "model and implementation disagree on an explicit schedule; the monitor found no property violation",
                                                          "obligation": "correspondence outdrv (Out/OutConc.v step granularity vs outputstream.go under schedsync)",
                                                          "cases": [norm_case(c)], "case_line": lines[i], "impl_output": g,
                                                          "model_output": mlines[i] if i < len(mlines) else None, "concrete": False}))
    info["distinct_nontrivial"] = len(nontriv)
    info["mismatches"] = mism
    info["sample"] = {"case": lines[0], "impl": glines[0], "model": mlines[0]}
    return info, fails


def vm_agrees(sample, chunk=6000):
    """cross-check of the extraction: the same cases evaluated with vm_compute inside coqc
    (in chunks: a very long string literal overflows coqc's parser stack)"""
    ok, cur, size = True, [], 0
    for l in sample + [None]:
        if l is None or size + len(l) > chunk:
            if cur:
                text = "\n".join(cur) + "\n"
                ok = ok and (vlib.run_model_vm(text) == vlib.run_model(text))
            cur, size = [], 0
        if l is not None:
            cur.append(l); size += len(l) + 1
    return ok


def run(ck, replay):
    ck.cov["trusted_base"] += [
        "Go driver harness/go/outputstream/zz_verif_out_test.go (parks detection through sync.Cond's notifyList counters read by reflection)",
        "schedsync shim (harness/go/outputstream/schedsync): drop-in RWMutex/Cond that hands the lock-protected sections of a copy of outputstream.go (import redirected by sed, regenerated every run) to an explicit schedule",
        "python reference (sorted dict) used by the monitor; regex scan of outputstream.go for the lock/wait/broadcast shape",
        "modelled, not verified: goleveldb as an ordered map (Get/Put/Delete/Write batch/iterators), sync.RWMutex and sync.Cond semantics (each locked section atomic, Broadcast wakes every registered waiter), context cancellation; ids stay below 2^63; the random cache eviction is an environment step of the proofs - the harness triggers it with programs that read more than 1000 batches and checks that no result depends on it",
        "NOT modelled: Go scheduler fairness - liveness is proved as safety (no lost wake-up, a scheduled reader with a successor returns)"]
    ck.assumptions += [
        "Add is called with strictly increasing ids below 2^64-1 and non-empty batches whose messages all carry that id (what FSM.Apply does)",
        "Delete never removes the last remaining batch (the sentinel 0 is never deleted by Snapshot)",
        "scheduler fairness (a runnable goroutine eventually runs) - outside the model, the liveness half is partial"]
    ok = ck.proof_obligations()
    facts = source_facts()
    ck.notes["source_facts"] = facts
    for k in ("getnext_found", "getnext_rlock_then_lock", "getnext_waits_on_cond", "add_broadcasts",
              "interrupt_broadcasts", "delete_does_not_broadcast", "exported_methods_hold_messagesMu",
              "getnext_tests_closed_in_both_sections", "close_sets_closed_and_broadcasts"):
        ck.add_obligation(facts.get(k, False), "outputstream.go shape: " + k)

    stress_cases = []
    if replay:
        rc_all = json.load(open(replay)).get("cases", [])
        stress_cases = [c for c in rc_all if c.get("kind") == "stress"]
        cases = [denorm_case(c) for c in rc_all if c.get("kind") != "stress"]
        ncorpus = 0
    else:
        corpus = load_corpus()
        ncorpus = len(corpus)
        rng = ck.rng
        nseq, nmal, nconc = (700, 200, 700) if ck.tier == "quick" else (8000, 2000, 8000)
        cases = list(corpus)
        cases += [gen_seq(rng, rng.randint(4, 60), False) for _ in range(nseq)]
        cases += [gen_seq(rng, rng.randint(3, 40), True) for _ in range(nmal)]
        cases += [gen_conc(rng, rng.randint(3, 18)) for _ in range(nconc)]
        cases += [gen_bigcache(rng) for _ in range(2 if ck.tier == "quick" else 12)]
        if ck.tier == "thorough":
            cases += [gen_seq(rng, rng.randint(300, 900), False) for _ in range(40)]
    for c in cases:
        if c.get("valid", True) and not disciplined(c):
            raise RuntimeError("generator produced a case outside the discipline but marked valid: " + case_line(c))
    lines = [case_line(c) for c in cases]
    stress_info, stress_fail = {}, None
    if not replay or stress_cases:
        stress_info, stress_fail = run_stress(ck, stress_cases[0].get("rounds") if stress_cases else None)
    ck.notes["get_add_race_stress"] = stress_info
    if replay and not cases:
        ck.cov["evaluations"] = stress_info.get("rounds", 0)
        if stress_fail:
            ck.violation(stress_fail[0], stress_fail[1], concrete=stress_fail[2])
        if not ok:
            ck.violation("proof-broken", {"what": "proof obligations not discharged", "errors": ck.proof_errors}, concrete=False)
        return
    glines, goout = run_go_mixed(cases, lines)
    if glines is None:
        ck.violation("tie-broken:go-driver", {"what": "Go correspondence driver did not build/run against the current tree",
                                              "output": goout[-3000:], "obligation": "correspondence outdrv"}, concrete=False)
        return
    if not getattr(ck, "model_ok", False):
        ck.violation("tie-broken:model", {"what": "model driver could not be built", "output": ck.model_out[-3000:]}, concrete=False)
        return
    mlines = vlib.run_model("\n".join(lines) + "\n")
    if ck.tier == "thorough":
        sample = [l for l in lines if len(l) < 400][:120]
        ck.add_obligation(vm_agrees(sample), "extracted model agrees with vm_compute on %d cases" % len(sample))

    # --- explicit schedules under the schedsync shim
    sched_info, sched_fail = {}, []
    if not replay:
        sched_info, sched_fail = run_sched(ck)
    ck.notes["schedule_enumeration"] = sched_info

    ck.cov["evaluations"] = len(cases) + sched_info.get("schedules", 0) + stress_info.get("rounds", 0)
    nontriv, dist = set(), {}
    mism, monfail = [], []
    for i, c in enumerate(cases):
        g = glines[i] if i < len(glines) else None
        if nontrivial(c, g):
            nontriv.add(lines[i])
        dist[c["kind"] + ("" if c.get("valid", True) else "-malformed")] = dist.get(c["kind"] + ("" if c.get("valid", True) else "-malformed"), 0) + 1
        if g is None or i >= len(mlines) or g != mlines[i]:
            mism.append(i)
        why = monitor(c, g)
        if why:
            monfail.append((i, why))
    # the driver's wall-clock bound ("stuck") counts only if it reproduces when the case runs alone
    # with doubled and quadrupled bounds; a really stuck reader reproduces, a loaded machine does not
    stuck_info = {"stuck_verdicts": 0, "isolated_reruns": 0, "not_reproduced": 0}
    kept = []
    for i, why in monfail:
        if why[0] != "getnext-stuck" or cases[i]["kind"] == "outs" or stuck_info["stuck_verdicts"] >= 8:
            kept.append((i, why)); continue
        stuck_info["stuck_verdicts"] += 1
        real = True
        for scale in (2, 4):
            stuck_info["isolated_reruns"] += 1
            g2, _ = run_go([lines[i]], "rerun", scale)
            w2 = monitor(cases[i], g2[0]) if g2 else why
            if not w2:
                real = False; glines[i] = g2[0]; break
            if w2[0] != "getnext-stuck":
                why = w2; glines[i] = g2[0]; break
        if real:
            kept.append((i, why))
        else:
            stuck_info["not_reproduced"] += 1
    monfail = kept
    mism = [i for i in range(len(cases)) if glines[i] is None or i >= len(mlines) or glines[i] != mlines[i]]
    ck.notes["timing_reruns"] = stuck_info
    opdist = {}
    for c in cases:
        for o in c["ops"]:
            opdist[o[0]] = opdist.get(o[0], 0) + 1
    outcomes = {}
    for g in glines:
        for t in g.split(" ")[1:]:
            k = re.sub(r"\d+", "", t.split("=")[0]) + "=" + ("batch" if re.match(r"[a-z0-9]+=\d+\.", t) else t.split("=", 1)[-1])
            outcomes[k] = outcomes.get(k, 0) + 1
    ck.cov["distinct_nontrivial"] = len(nontriv) + sched_info.get("distinct_nontrivial", 0)
    ck.cov["disagreements_checked"] = len(cases) + sched_info.get("schedules", 0)
    ck.cov["traces_validated_against_impl"] = len(cases) + sched_info.get("schedules", 0)
    ck.cov["rule"] = ("corpus cases first; sequential programs (4-60 ops quick, up to 900 thorough) of Add(increasing ids, 1-4 messages, arbitrary bytes, "
                      "recipient sets)/Delete(oldest, any, tail, non-existing)/Get/GetNext(cancelled ctx; existing, tail, deleted, gap, newer than everything)/LastSeen; "
                      "malformed programs (re-added / non-increasing ids, empty batch, deleting the last batch) compared with the model only; scripted concurrent "
                      "scenarios with 1-3 real GetNext goroutines (driver waits until each is parked in Cond.Wait) around Add/Delete/cancel/Interrupt; "
                      "explicit schedules of the lock-protected sections under the schedsync shim; thousands of rounds of Get(newest) racing Add(next) on the real "
                      "primitives (GOMAXPROCS>=4) each followed by GetNext/Get checks; non-trivial = some Get/GetNext returned a batch; distinct by case text")
    ck.cov["input_distribution"] = {"cases_by_kind": dist, "operations": opdist, "impl_outcomes": outcomes, "corpus_cases": ncorpus}
    ck.cov["samples"] = [{"case": lines[i][:1500], "impl": glines[i][:1500], "model": mlines[i][:1500]} for i in
                         ([0, 1] if ncorpus else []) + [ncorpus, ncorpus + 1] if i < len(lines)][:4]

    reported = set()
    for i, (sig, text) in monfail:
        if sig in reported:
            continue
        reported.add(sig)
        c = cases[i]
        small = c
        if not replay:
            small = shrink(c, lambda x, g, sig=sig: (monitor(x, g) or ("",))[0] == sig)
        sl = case_line(small)
        sg, _ = run_go_mixed([small], [sl], "final")
        again = monitor(small, sg[0] if sg else None)
        if again and again[0] == sig:
            text = again[1]
        ck.violation(sig, {"what": text, "cases": [norm_case(small)], "case_line": sl,
                           "impl_output": sg[0] if sg else None, "model_output": (vlib.run_model(sl + "\n") or [None])[0],
                           "original_case_line": lines[i],
                           "how_to_replay": "bin/check C08 --replay <this file>"}, concrete=True)
        if len(reported) >= 4:
            break
    if stress_fail and stress_fail[0] not in reported:
        reported.add(stress_fail[0])
        ck.violation(stress_fail[0], stress_fail[1], concrete=stress_fail[2])
        if stress_fail[2]:
            monfail.append((-1, (stress_fail[0], "")))
    sched_concrete = [f for f in sched_fail if f[2].get("concrete")]
    for sig, text, rp in sched_fail:
        if sig not in reported and (rp.get("concrete") or not (monfail or sched_concrete)):
            reported.add(sig)
            conc = rp.pop("concrete")
            ck.violation(sig, rp, concrete=conc)
    if mism and not monfail and not sched_fail and not replay:
        # the tie broke without a monitor failure: search for a property-violating input around the
        # disagreeing region (same operation mix, valid programs only) before reporting the bare disagreement
        kind = cases[mism[0]]["kind"]
        extra = [gen_conc(ck.rng, ck.rng.randint(3, 18)) if kind == "outc" else gen_seq(ck.rng, ck.rng.randint(4, 60), False)
                 for _ in range(800)]
        eg, _ = run_go_mixed(extra, [case_line(x) for x in extra], "search")
        for x, g in zip(extra, eg or []):
            why = monitor(x, g)
            if why:
                small = shrink(x, lambda y, gg, sig=why[0]: (monitor(y, gg) or ("",))[0] == sig)
                sl = case_line(small)
                sg, _ = run_go_mixed([small], [sl], "final")
                ck.violation(why[0], {"what": why[1], "cases": [norm_case(small)], "case_line": sl, "impl_output": sg[0] if sg else None,
                                      "found_by": "search after a model/implementation disagreement",
                                      "how_to_replay": "bin/check C08 --replay <this file>"}, concrete=True)
                monfail.append((-1, why))
                break
    if mism and not monfail and not sched_fail:
        i = mism[0]
        c = cases[i]
        small = c
        if not replay:
            def still(x, g):
                m = vlib.run_model(case_line(x) + "\n")
                return g != (m[0] if m else None)
            small = shrink(c, still, max_rounds=25)
        sl = case_line(small)
        sg, _ = run_go_mixed([small], [sl], "final")
        ck.violation("correspondence:out", {"what": "model and implementation disagree; the monitor found no input violating the property",
                                            "obligation": "correspondence outdrv (Out/OutSeq.v, Out/OutConc.v vs internal/outputstream)",
                                            "cases": [norm_case(small)], "case_line": sl, "impl_output": sg[0] if sg else None,
                                            "model_output": (vlib.run_model(sl + "\n") or [None])[0], "mismatches": len(mism)}, concrete=False)
    if not ok:
        ck.violation("proof-broken", {"what": "proof obligations not discharged", "errors": ck.proof_errors,
                                      "obligation": ck.proof_result.get("broken_at", "Properties/C08.v"),
                                      "coq_output": ck.proof_result["output_tail"]}, concrete=False)
    bad = [o for o in ck.cov.get("extra_obligations", []) if not o["ok"]]
    if bad and not monfail:
        ck.violation("obligation:" + bad[0]["name"].replace(" ", "_"), {"what": "source-derived obligation failed", "obligations": bad,
                                                                         "source_facts": facts}, concrete=False)
