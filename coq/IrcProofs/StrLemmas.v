(* IrcProofs/StrLemmas.v — facts about the byte-string functions used by the proofs *)
From Coq Require Import List ZArith NArith Bool Arith Lia.
From Coq Require Import Strings.String Strings.Ascii.
From RV Require Import Base.Text Irc.Str Irc.Parse.
Import ListNotations.
Local Open Scope string_scope.

Lemma append_assoc (a b c : string) : (a ++ b) ++ c = a ++ (b ++ c).
Proof. induction a as [|x r IH]; cbn; [reflexivity|now rewrite IH]. Qed.

Lemma srev_app_spec s acc : srev_app s acc = srev_app s "" ++ acc.
Proof.
  revert acc. induction s as [|c r IH]; intros acc; cbn [srev_app]; [reflexivity|].
  rewrite IH. rewrite (IH (String c "")). rewrite append_assoc. reflexivity.
Qed.
Lemma srev_cons c r : srev (String c r) = srev r ++ String c "".
Proof. unfold srev. cbn [srev_app]. now rewrite srev_app_spec. Qed.

Lemma append_nil_r s : s ++ "" = s.
Proof. induction s as [|c r IH]; cbn; [reflexivity|now rewrite IH]. Qed.

Lemma srev_append a b : srev (a ++ b) = srev b ++ srev a.
Proof.
  induction a as [|c r IH]; cbn [String.append].
  - now rewrite append_nil_r.
  - rewrite !srev_cons, IH. now rewrite append_assoc.
Qed.

Lemma drop_while_keeps (f : ascii -> bool) a c b :
  f c = false -> exists a', drop_while f (a ++ String c b) = a' ++ String c b.
Proof.
  intros Hc. induction a as [|d r [a' IH]]; cbn [String.append drop_while].
  - rewrite Hc. now exists "".
  - destruct (f d).
    + now exists a'.
    + now exists (String d r).
Qed.

(* a string whose first two bytes are neither CR nor LF keeps them under trim_crlf *)
Lemma trim_crlf_keeps2 c1 c2 rest :
  is_crlf c1 = false -> is_crlf c2 = false ->
  exists rest', trim_crlf (String c1 (String c2 rest)) = String c1 (String c2 rest').
Proof.
  intros H1 H2. unfold trim_crlf. cbn [drop_while]. rewrite H1.
  rewrite !srev_cons. rewrite append_assoc. cbn [String.append].
  destruct (drop_while_keeps is_crlf (srev rest) c2 (String c1 "") H2) as [a' ->].
  rewrite srev_append. exists (srev a'). reflexivity.
Qed.

(* lines the server builds itself ("OPER ...", "PRIVMSG NickServ :...", "QUIT :...") always parse *)
Lemma parse_message_some_2 c1 c2 rest :
  (c1 = "P" \/ c1 = "O" \/ c1 = "Q")%char -> is_crlf c2 = false ->
  parse_message (String c1 (String c2 rest)) <> None.
Proof.
  intros Hc H2. unfold parse_message.
  assert (H1 : is_crlf c1 = false) by (destruct Hc as [ -> | [ -> | -> ] ]; reflexivity).
  destruct (trim_crlf_keeps2 c1 c2 rest H1 H2) as [rest' ->].
  cbn [slen String.length Nat.ltb Nat.leb].
  destruct Hc as [ -> | [ -> | -> ] ]; lazy beta iota zeta;
    (destruct (index_byte _ _) as [[|k]|]; try discriminate; destruct (sindex _ _); discriminate).
Qed.

(* ---- set_of_ids: strictly increasing, hence duplicate-free ------------------------------------- *)
From Coq Require Import Sorting.Sorted.

Lemma insert_sortedN_In x y l : In y (insert_sortedN x l) <-> y = x \/ In y l.
Proof.
  induction l as [|z l IH]; cbn [insert_sortedN].
  - cbn. intuition.
  - destruct (x <? z)%N; [cbn; intuition|]. destruct (x =? z)%N eqn:E.
    + apply N.eqb_eq in E. subst z. cbn. intuition.
    + cbn. rewrite IH. intuition.
Qed.

Lemma insert_sortedN_sorted x l : StronglySorted N.lt l -> StronglySorted N.lt (insert_sortedN x l).
Proof.
  induction l as [|z l IH]; intros Hs; cbn [insert_sortedN].
  - constructor; constructor.
  - inversion Hs as [|? ? Hs' Hall]; subst.
    destruct (x <? z)%N eqn:E1.
    + apply N.ltb_lt in E1. constructor; [exact Hs|]. constructor; [exact E1|].
      eapply Forall_impl; [|exact Hall]. intros a Ha. lia.
    + destruct (x =? z)%N eqn:E2; [exact Hs|].
      apply N.ltb_ge in E1. apply N.eqb_neq in E2. constructor; [now apply IH|].
      apply Forall_forall. intros a Ha. apply insert_sortedN_In in Ha. destruct Ha as [->|Ha]; [lia|].
      rewrite Forall_forall in Hall. now apply Hall.
Qed.

Lemma set_of_ids_sorted l : StronglySorted N.lt (set_of_ids l).
Proof.
  unfold set_of_ids. induction l as [|x l IH]; cbn [fold_right]; [constructor|]. now apply insert_sortedN_sorted.
Qed.

Lemma sorted_lt_NoDup l : StronglySorted N.lt l -> NoDup l.
Proof.
  induction 1 as [|a l Hs IH Hall]; constructor; [|exact IH].
  intros Hin. rewrite Forall_forall in Hall. specialize (Hall a Hin). lia.
Qed.

Lemma set_of_ids_NoDup l : NoDup (set_of_ids l).
Proof. apply sorted_lt_NoDup, set_of_ids_sorted. Qed.

Lemma set_of_ids_In y l : In y (set_of_ids l) <-> In y l.
Proof.
  unfold set_of_ids. induction l as [|x l IH]; cbn [fold_right]; [reflexivity|].
  rewrite insert_sortedN_In, IH. cbn. intuition.
Qed.

(* an upper-cased command never starts with a lower-case 's': client lines cannot name server_ handlers *)
Lemma to_upper_not_s x r : to_upper x <> String "s" r.
Proof.
  destruct x as [|c x']; cbn [to_upper]; [discriminate|]. intros H. injection H as H _.
  apply (f_equal N_of_ascii) in H. unfold chr in H.
  assert (Hlt : (upper_byte (byte_of c) < 256)%N).
  { unfold upper_byte, byte_of. pose proof (N_ascii_bounded c). destruct (in_range 97 122 (N_of_ascii c)); lia. }
  rewrite N_ascii_embedding in H by exact Hlt. cbn in H.
  unfold upper_byte, in_range in H. destruct ((97 <=? byte_of c)%N && (byte_of c <=? 122)%N) eqn:E.
  - apply andb_true_iff in E. destruct E as [E1 E2]. apply N.leb_le in E1, E2. lia.
  - rewrite H in E. cbn in E. discriminate.
Qed.

Lemma srev_involutive s : srev (srev s) = s.
Proof.
  induction s as [|c r IH]; [reflexivity|]. rewrite srev_cons, srev_append, IH. reflexivity.
Qed.

Fixpoint no_crlf (s : string) : bool :=
  match s with EmptyString => true | String c r => negb (is_crlf c) && no_crlf r end.

(* a non-empty CR/LF-free prefix survives trim_crlf *)
Lemma trim_crlf_keeps_prefix p rest :
  p <> "" -> no_crlf p = true -> exists rest', trim_crlf (p ++ rest) = p ++ rest'.
Proof.
  intros Hne Hp. unfold trim_crlf.
  destruct p as [|c p']; [congruence|]. cbn [no_crlf] in Hp. apply andb_true_iff in Hp. destruct Hp as [Hc Hp'].
  apply negb_true_iff in Hc. cbn [String.append drop_while]. rewrite Hc.
  change (String c (p' ++ rest)) with (String c p' ++ rest).
  (* the last character of the prefix stops the trimming from the right *)
  assert (Hlast : exists q d, srev (String c p') = String d q /\ is_crlf d = false).
  { clear Hne. revert c Hc. induction p' as [|e p'' IH]; intros c Hc.
    - exists "", c. split; [reflexivity|exact Hc].
    - cbn [no_crlf] in Hp'. apply andb_true_iff in Hp'. destruct Hp' as [He Hp''].
      apply negb_true_iff in He. destruct (IH Hp'' e He) as (q & d & Hq & Hd).
      rewrite srev_cons, Hq. exists (q ++ String c ""), d. split; [reflexivity|exact Hd]. }
  destruct Hlast as (q & d & Hq & Hd).
  rewrite srev_append, Hq. cbn [String.append].
  destruct (drop_while_keeps is_crlf (srev rest) d q Hd) as [a' Ha]. rewrite Ha.
  rewrite srev_append. rewrite <- Hq, srev_involutive. now exists (srev a').
Qed.

Lemma parse_quit q : exists ps, parse_message ("QUIT :" ++ q) = Some (IMsg None "QUIT" ps).
Proof.
  unfold parse_message.
  destruct (trim_crlf_keeps_prefix "QUIT :" q) as [rest' ->]; [discriminate|reflexivity|].
  cbn. eexists. reflexivity.
Qed.
