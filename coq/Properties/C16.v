(* C16 — configuration updates: accepted iff the body parses and names the revision in force;
   an accepted update raises the revision by exactly one and installs the parsed
   configuration; anything else changes nothing; GLINE writes the replicated configuration;
   replicas of one log agree at every position.  Posts are issued one after another
   ([cfg_step]: the proposal is applied before the next post is handled).
   Statements over Api/ConfigPost.v for every TOML parser [toml_parse]. *)
From Coq Require Import List Bool NArith String.
From RV Require Import Base.Text Api.Auth Api.ConfigPost Api.ConfigPostProofs.
Import ListNotations.
Local Open Scope string_scope.

Theorem C16_accept : forall base toml_parse (st : cstate base) hdr body,
  cs_leader st = true ->
  (accepted base toml_parse st hdr body <-> toml_parse body <> None /\ parse_uint0 hdr = Some (cs_rev st)).
Proof. exact accept_iff. Qed.
Print Assumptions C16_accept.

Theorem C16_step : forall base toml_parse (st : cstate base) hdr body,
  accepted base toml_parse st hdr body ->
  exists b bl, toml_parse body = Some (b, bl) /\
    cs_rev (cfg_step base toml_parse st hdr body) = (cs_rev st + 1)%N /\
    cs_base (cfg_step base toml_parse st hdr body) = b /\ cs_banned (cfg_step base toml_parse st hdr body) = bl.
Proof. exact accepted_step. Qed.
Print Assumptions C16_step.

Theorem C16_reject : forall base toml_parse (st : cstate base) hdr body,
  ~ accepted base toml_parse st hdr body -> cfg_step base toml_parse st hdr body = st.
Proof. exact rejected_unchanged. Qed.
Print Assumptions C16_reject.

Theorem C16_fsm_skip : forall base toml_parse (st : cstate base) d r,
  toml_parse d = None -> capply base toml_parse st (CEConfig d r) = st.
Proof. exact fsm_skips_invalid. Qed.
Print Assumptions C16_fsm_skip.

Theorem C16_fsm_install : forall base toml_parse (st : cstate base) d r b bl,
  toml_parse d = Some (b, bl) ->
  capply base toml_parse st (CEConfig d r) = mkC r b bl (cs_leader st).
Proof. exact fsm_installs_valid. Qed.
Print Assumptions C16_fsm_install.

Theorem C16_gline : forall base toml_parse (st : cstate base) a r,
  let st' := capply base toml_parse st (CEGline a r) in
  cs_rev st' = cs_rev st /\ cs_base st' = cs_base st /\
  ban_lookup a (cs_banned st') = Some r /\
  (forall x, x <> a -> ban_lookup x (cs_banned st') = ban_lookup x (cs_banned st)).
Proof. exact gline_writes_config. Qed.
Print Assumptions C16_gline.

Theorem C16_replicas : forall base toml_parse l (s1 s2 : cstate base) n,
  same_config base s1 s2 ->
  same_config base (creplay base toml_parse (firstn n l) s1) (creplay base toml_parse (firstn n l) s2).
Proof. exact replicas_same_config. Qed.
Print Assumptions C16_replicas.

Theorem C16_revision_counts : forall base toml_parse ps (st : cstate base),
  cs_leader st = true ->
  exists k, (k <= List.length ps)%nat /\
            cs_rev (run_posts base toml_parse ps st) = (cs_rev st + N.of_nat k)%N.
Proof. exact revision_counts_accepted. Qed.
Print Assumptions C16_revision_counts.
