(* Base/Text.v — byte-string utilities shared by every model and by the generic
   case-file driver: hex transport encoding, decimal numbers, splitting.
   Executable definitions only (extracted and vm_computed); proofs live elsewhere. *)
From Coq Require Export List ZArith NArith Bool.
From Coq Require Export Strings.String Strings.Ascii.
Export ListNotations.
Local Open Scope string_scope.
Local Open Scope N_scope.

(* ---- lists of characters <-> strings -------------------------------------- *)
Fixpoint string_of_list (l : list ascii) : string :=
  match l with [] => EmptyString | c :: r => String c (string_of_list r) end.
Fixpoint list_of_string (s : string) : list ascii :=
  match s with EmptyString => [] | String c r => c :: list_of_string r end.

Fixpoint srev_app (s acc : string) : string :=
  match s with EmptyString => acc | String c r => srev_app r (String c acc) end.
Definition srev (s : string) : string := srev_app s EmptyString.

Fixpoint sconcat (l : list string) : string :=
  match l with [] => EmptyString | s :: r => s ++ sconcat r end.

Fixpoint sjoin (sep : string) (l : list string) : string :=
  match l with
  | [] => EmptyString
  | [s] => s
  | s :: r => s ++ sep ++ sjoin sep r
  end.

(* ---- splitting ------------------------------------------------------------- *)
(* split_on c s: like Go's strings.Split(s, string(c)): n separators give n+1 fields. *)
Fixpoint split_on_aux (c : ascii) (s : string) (cur : string) : list string :=
  match s with
  | EmptyString => [srev cur]
  | String d r =>
      if Ascii.eqb d c then srev cur :: split_on_aux c r EmptyString
      else split_on_aux c r (String d cur)
  end.
Definition split_on (c : ascii) (s : string) : list string := split_on_aux c s EmptyString.

Definition nonempty (s : string) : bool := match s with EmptyString => false | _ => true end.

(* fields: split on single spaces, dropping empty fields *)
Definition fields (s : string) : list string := filter nonempty (split_on " "%char s).
(* lines: split on LF, dropping empty lines *)
Definition lines (s : string) : list string := filter nonempty (split_on "010"%char s).

(* ---- decimal --------------------------------------------------------------- *)
Definition digit_val (c : ascii) : option N :=
  let n := N_of_ascii c in
  if (48 <=? n) && (n <=? 57) then Some (n - 48) else None.

Fixpoint N_of_dec_aux (s : string) (acc : N) : option N :=
  match s with
  | EmptyString => Some acc
  | String c r => match digit_val c with
                  | Some d => N_of_dec_aux r (acc * 10 + d)
                  | None => None
                  end
  end.
Definition N_of_dec (s : string) : option N :=
  match s with EmptyString => None | _ => N_of_dec_aux s 0 end.

Definition Z_of_dec (s : string) : option Z :=
  match s with
  | String "-"%char r => match N_of_dec r with Some n => Some (- Z.of_N n)%Z | None => None end
  | _ => match N_of_dec s with Some n => Some (Z.of_N n) | None => None end
  end.

(* decimal printing by fuel = number of binary digits + 1 (always enough) *)
Fixpoint dec_of_N_aux (fuel : nat) (n : N) (acc : string) : string :=
  match fuel with
  | O => acc
  | S f =>
      let acc' := String (ascii_of_N (48 + n mod 10)) acc in
      if n / 10 =? 0 then acc' else dec_of_N_aux f (n / 10) acc'
  end.
Definition dec_of_N (n : N) : string := dec_of_N_aux (S (N.to_nat (N.log2 n))) n EmptyString.
Definition dec_of_Z (z : Z) : string :=
  match z with
  | Z0 => "0"
  | Zpos p => dec_of_N (Npos p)
  | Zneg p => String "-"%char (dec_of_N (Npos p))
  end.
Definition dec_of_nat (n : nat) : string := dec_of_N (N.of_nat n).

(* ---- hex transport encoding ------------------------------------------------ *)
Definition hex_val (c : ascii) : option N :=
  let n := N_of_ascii c in
  if (48 <=? n) && (n <=? 57) then Some (n - 48)
  else if (97 <=? n) && (n <=? 102) then Some (n - 87)
  else if (65 <=? n) && (n <=? 70) then Some (n - 55)
  else None.
Definition hex_digit (n : N) : ascii :=
  if n <? 10 then ascii_of_N (48 + n) else ascii_of_N (87 + n).

(* hex_decode: malformed input decodes the well-formed prefix (the harness only
   ever writes well-formed hex; "-" stands for the empty string). *)
Fixpoint hex_decode (s : string) : string :=
  match s with
  | String a (String b r) =>
      match hex_val a, hex_val b with
      | Some x, Some y => String (ascii_of_N (16 * x + y)) (hex_decode r)
      | _, _ => EmptyString
      end
  | _ => EmptyString
  end.
Fixpoint hex_encode (s : string) : string :=
  match s with
  | EmptyString => EmptyString
  | String c r => let n := N_of_ascii c in
                  String (hex_digit (n / 16)) (String (hex_digit (n mod 16)) (hex_encode r))
  end.
Definition hex_field (s : string) : string :=
  match s with EmptyString => "-" | _ => hex_encode s end.
Definition unhex_field (s : string) : string :=
  if String.eqb s "-" then EmptyString else hex_decode s.

(* ---- misc ------------------------------------------------------------------ *)
Definition nth_field (l : list string) (i : nat) : string := nth i l EmptyString.
Definition N_field (l : list string) (i : nat) : N :=
  match N_of_dec (nth_field l i) with Some n => n | None => 0 end.
Definition Z_field (l : list string) (i : nat) : Z :=
  match Z_of_dec (nth_field l i) with Some n => n | None => 0%Z end.

Fixpoint string_of_bytesN (l : list N) : string :=
  match l with [] => EmptyString | n :: r => String (ascii_of_N n) (string_of_bytesN r) end.
Fixpoint bytesN_of_string (s : string) : list N :=
  match s with EmptyString => [] | String c r => N_of_ascii c :: bytesN_of_string r end.
