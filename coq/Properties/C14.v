(* C14 — IRC state stays consistent: unique nicks, symmetric membership, no empty channels,
   members are live sessions reachable by their current nickname.
   Partial: the clauses "owned names are syntactically valid" and "limits are never exceeded" of
   the property are not part of the proved invariant yet; they are checked on the implementation
   by the invariant walk of the correspondence driver (see DESIGN.md). *)
From stdpp Require Import gmap.
From Coq Require Import Strings.String.
From RV Require Import Irc.Str Irc.State Irc.Cmds Irc.Apply.
From RV Require Import IrcProofs.Inv IrcProofs.Top IrcProofs.Examples.
Local Open Scope string_scope.

(* after every entry of every well-formed history the invariant holds (and the history ran to the end) *)
Theorem C14_inv_partial : forall e net es,
  wf_history e (init_server net) es ->
  exists sv', run e (init_server net) es = Some sv' /\ EInv sv'.
Proof. exact no_panic. Qed.
Print Assumptions C14_inv_partial.

(* one step: any state satisfying the invariant, any well-formed entry *)
Theorem C14_step : forall e sv en,
  EInv sv -> wf_entry sv en -> exists sv', entry_result (apply_entry e sv en) = Some sv' /\ EInv sv'.
Proof. exact apply_entry_ok. Qed.
Print Assumptions C14_step.

Theorem C14_unique_nicks : forall sv k1 k2 s1 s2,
  EInv sv -> sv_sessions sv !! k1 = Some s1 -> sv_sessions sv !! k2 = Some s2 ->
  s_nick s1 <> "" -> nick_to_lower (s_nick s1) = nick_to_lower (s_nick s2) -> k1 = k2.
Proof. exact unique_nicks. Qed.
Print Assumptions C14_unique_nicks.

Theorem C14_membership_symmetric : forall sv k s lc,
  EInv sv -> sv_sessions sv !! k = Some s ->
  (lc ∈ s_channels s <-> exists c, sv_channels sv !! lc = Some c /\ is_Some (c_nicks c !! nick_to_lower (s_nick s)) /\
                                    sv_nicks sv !! nick_to_lower (s_nick s) = Some k).
Proof. exact membership_symmetric. Qed.
Print Assumptions C14_membership_symmetric.

Theorem C14_channels : forall sv lc c,
  EInv sv -> sv_channels sv !! lc = Some c ->
  c_nicks c <> ∅ /\ chan_to_lower (c_name c) = lc /\
  forall n p, c_nicks c !! n = Some p ->
    exists k s, sv_nicks sv !! n = Some k /\ sv_sessions sv !! k = Some s /\ s_deleted s = false /\
                nick_to_lower (s_nick s) = n /\ lc ∈ s_channels s.
Proof. exact channels_nonempty_members_live. Qed.
Print Assumptions C14_channels.

(* the hypotheses are satisfiable *)
Theorem C14_nonvacuous : wf_history ex_env (init_server "robustirc.net") ex_history.
Proof. exact ex_history_wf. Qed.
Print Assumptions C14_nonvacuous.
