# C19 — time safeguard: proof obligations + constants/call-order scan + correspondence + physical monitor
import os, re
import vlib

S = 1000000000


def source_facts():
    """translator-lite: facts read from the current source that the theorem's reading depends on"""
    facts = {}
    ts = open(os.path.join(vlib.REPO, "internal/timesafeguard/timesafeguard.go")).read()
    m = re.search(r"const\s+ElectionTimeout\s*=\s*(\d+)\s*\*\s*time\.(Second|Millisecond)", ts)
    if m:
        facts["et_ns"] = int(m.group(1)) * (S if m.group(2) == "Second" else 1000000)
    main = open(os.path.join(vlib.REPO, "robustirc.go")).read()
    facts["raft_uses_const"] = bool(re.search(r"config\.ElectionTimeout\s*=\s*timesafeguard\.ElectionTimeout\b", main))
    def pos(pat):
        m = re.search(pat, main)
        return m.start() if m else -1
    p_sync, p_raft = pos(r"timesafeguard\.SynchronizedWithNetwork\("), pos(r"raft\.NewRaft\(")
    p_syncm, p_join = pos(r"timesafeguard\.SynchronizedWithMasterAndNetwork\("), pos(r"\bjoinMaster\(\*join\)")
    facts["check_before_raft"] = 0 <= p_sync < p_raft
    facts["check_before_join"] = 0 <= p_syncm < p_join
    # both call sites must turn an error into process exit
    facts["errors_fatal"] = len(re.findall(r"timesafeguard\.Synchronized\w+\([^\n]*\);\s*err != nil \{\s*log\.Fatal", main)) >= 2
    return facts


def gen_cases(ck, et, n):
    rng = ck.rng
    cases = []
    def theta():
        k = rng.random()
        if k < 0.35: return rng.randint(-S, S)
        if k < 0.65: return rng.choice([-1, 1]) * (et + rng.randint(-3, 3) * rng.choice([1, 1000, S // 10]))
        if k < 0.85: return rng.choice([-1, 1]) * rng.randint(et // 2, 2 * et)
        if k < 0.96: return rng.choice([-1, 1]) * rng.randint(60 * S, 7200 * S)
        return "extreme"   # further away than time.Duration can express (Sub saturates): see fixed finding N5
    def delay():
        k = rng.random()
        if k < 0.2: return 0
        if k < 0.7: return rng.randint(0, S // 5)
        return rng.randint(0, et + S // 2)
    for i in range(n):
        base = rng.choice([0, 1432323893 * S, 1758800000 * S + rng.randint(0, S)])
        peers = []
        for _ in range(rng.randint(0, 5)):
            st = base + rng.randint(0, 50 * 1000000)
            d1, d2, th = delay(), delay(), theta()
            if rng.random() < 0.25:  # exact boundary: worst == et + delta
                delta = rng.choice([-1, 0, 1])
                d1 = rng.randint(0, S // 4); d2 = rng.randint(0, S // 4)
                # want |th + d1| + d1 + d2 == et + delta
                want = et + delta - d1 - d2
                th = rng.choice([want - d1, -want - d1])
            t = st + d1
            en = t + d2
            if th == "extreme":
                # a result close to the ends of what UnixNano can express, more than 292 years from the local clock
                res = rng.choice([-(2 ** 63) + rng.randint(1000, 10 ** 15), -8 * 10 ** 18 - rng.randint(0, 10 ** 17)])
                peers.append({"st": st, "en": en, "res": res, "theta": res - t})
                continue
            if rng.random() < 0.2:
                peers.append({"st": st, "en": en, "res": None, "theta": None})
            else:
                peers.append({"st": st, "en": en, "res": t + th, "theta": th})
        cases.append({"disabled": 1 if rng.random() < 0.25 else 0, "peers": peers})
    return cases


def case_line(c, et):
    f = ["tsg", str(et), str(c["disabled"])]
    for p in c["peers"]:
        f += [str(p["st"]), str(p["en"]), "-" if p["res"] is None else str(p["res"])]
    return " ".join(f)


def run_go(lines):
    wd = vlib.workdir()
    inp, outp = os.path.join(wd, "tsg.in"), os.path.join(wd, "tsg.out")
    open(inp, "w").write("\n".join(lines) + "\n")
    if os.path.exists(outp):
        os.remove(outp)
    rc, out = vlib.go_test("./internal/timesafeguard/",
                           {vlib.REPO + "/internal/timesafeguard/zz_verif_tsg_test.go": vlib.HGO + "/timesafeguard/zz_verif_tsg_test.go"},
                           "^TestVerifTsg$", {"VERIF_IN": inp, "VERIF_OUT": outp})
    if rc != 0 or not os.path.exists(outp):
        return None, out
    return open(outp).read().split("\n")[:-1], out


def norm_line(l):
    """worstCaseDrift of the repaired code reports MaxInt64 when the difference overflows; the model computes in Z"""
    if not l:
        return l
    def f(m):
        return "drifts=" + ",".join("huge" if x not in ("-",) and (int(x) >= 2 ** 62 or int(x) < 0) else x for x in m.group(1).split(","))
    return re.sub(r"drifts=(\S+)", f, l)


def parse_out(l):
    m = re.match(r"tsg et=(-?\d+) (\S+) off=(\S+) drifts=(\S+)", l or "")
    if not m:
        return None
    return {"et": int(m.group(1)), "decision": m.group(2),
            "off": [] if m.group(3) == "-" else m.group(3).split(","),
            "drifts": [] if m.group(4) == "-" else [int(x) for x in m.group(4).split(",")]}


def monitor(c, g, et):
    """the property, checked directly on the implementation's answer (no model involved)"""
    ans = [p for p in c["peers"] if p["res"] is not None]
    if g is None:
        return "unparsable driver output"
    if g["decision"] == "accept":
        for p in ans:
            if abs(p["theta"]) >= et:
                return "accepted although peer clock offset %d ns >= election timeout %d ns" % (p["theta"], et)
    if g["decision"] == "refuse" and c["disabled"]:
        return "refused although -disable_timesafeguard is set"
    must = [p for p in ans if abs(p["res"] - p["st"]) + (p["en"] - p["st"]) >= et]
    if must and not c["disabled"]:
        if g["decision"] != "refuse":
            return "did not refuse although a peer's worst-case drift reaches the election timeout"
        want = sorted("%d:%d:%d" % (p["st"], p["en"], p["res"]) for p in must)
        if sorted(g["off"]) != want:
            return "offending peers reported %s, expected %s" % (sorted(g["off"]), want)
    if not must and g["decision"] == "refuse":
        # not required by soundness, but the node must be able to join a synchronised network
        return "refused although every answering peer is provably within the election timeout"
    return None


def run_net(ck):
    """the collection step on the real code: SynchronizedWithNetwork against fake peers (answering with a clock offset
    or failing); refuse exactly when an ANSWERING peer is far off — peers that do not answer are ignored and must not
    make the node ignore the others (collectTime keeps the results it has)."""
    rng = ck.rng
    n = 36 if ck.tier == "quick" else 200
    cases = [["dead", "off:3600", "ok"], ["off:-30", "dead"], ["dead", "dead", "off:10"], ["ok", "dead"], ["dead"], ["off:0.2", "ok"],
             ["self", "ok", "off:-3600", "dead", "ok"], ["self"], ["off:3600"], ["ok", "ok", "ok"],
             # the raft state a peer reports must not matter (an election may be running while a node restarts)
             ["ok", "off:3600@Candidate"], ["off:-30@Candidate", "ok@Leader"], ["off:10@Shutdown", "ok"], ["off:3600@Leader", "dead"],
             ["ok@Candidate", "ok@Leader"], ["off:0.2@Candidate"]]
    while len(cases) < n:
        k = rng.randint(1, 5)
        c = [rng.choice(["ok", "ok", "dead", "dead", "off:0.2", "off:-0.3", "off:3600", "off:-3600", "off:30", "off:-10", "self"]) for _ in range(k)]
        c = [p + rng.choice(["", "", "@Leader", "@Candidate", "@Shutdown", "@Follower"]) if p not in ("self", "dead") else p for p in c]
        cases.append(c)
    wd = vlib.workdir()
    inp, outp = os.path.join(wd, "tsgnet.in"), os.path.join(wd, "tsgnet.out")
    open(inp, "w").write("".join("tsgnet %d %s\n" % (i, " ".join(c)) for i, c in enumerate(cases)))
    if os.path.exists(outp):
        os.remove(outp)
    rc, out = vlib.go_test("./internal/timesafeguard/",
                           {vlib.REPO + "/internal/timesafeguard/zz_verif_tsgnet_test.go": vlib.HGO + "/timesafeguard/zz_verif_tsgnet_test.go"},
                           "^TestVerifTsgNet$", {"VERIF_IN": inp, "VERIF_OUT": outp}, timeout=900)
    if rc != 0 or not os.path.exists(outp):
        ck.add_obligation(False, "network-level driver (collectTime / SynchronizedWithNetwork) ran")
        ck.violation("tie-broken:go-driver-net", {"what": "the network-level driver did not build/run against the current tree", "output": out[-3000:],
                                                  "obligation": "correspondence tsgdrv (collection step)"}, concrete=False)
        return
    ck.add_obligation(True, "network-level driver (collectTime / SynchronizedWithNetwork) ran")
    got = {}
    for l in open(outp).read().split("\n"):
        f = l.split()
        if len(f) == 3:
            got[int(f[1])] = f[2]
    dist, seen = {}, set()
    for i, c in enumerate(cases):
        far = [p for p in c if p.startswith("off:") and abs(float(p[4:].split("@")[0])) >= 10]
        want = "refuse" if far else "accept"
        g = got.get(i)
        dist[want] = dist.get(want, 0) + 1
        if g != want and want + str(g) not in seen:
            seen.add(want + str(g))
            ck.violation("net:" + ("joined-despite-skewed-peer" if want == "refuse" else "refused-synchronised-network"),
                         {"what": "peers %s: SynchronizedWithNetwork answered %s, the property demands %s (a peer that answers with a clock %s off must be "
                                  "refused whatever the other peers do)" % (c, g, want, far or "-"),
                          "cases": ["tsgnet 0 " + " ".join(c)], "how_to_replay": "bin/check C19 (network-level cases are regenerated from the seed)"}, concrete=True)
    ck.cov["net_cases"] = len(cases)
    ck.cov["net_distribution"] = dist
    ck.cov["evaluations"] = ck.cov.get("evaluations", 0) + len(cases)


def run_responder(ck):
    """the other half of the measurement: the node that ANSWERS a status request must report a clock reading taken while it
    handles the request (the physical assumption `explains` of C19_sound: the peer read its clock between Start and End).
    A rounded or cached time would let a node whose clock is off by more than the election timeout slip in."""
    from props import c11 as api
    facts, _, _ = api.scan_routes()
    wiring = api.wiring_of(facts)
    n = 12 if ck.tier == "quick" else 120
    line = "api status N F:%s:%s:ok " % (api.hx("0"), api.hx(api.BASE_CFG)) + " ".join(["J:" + api.hx(api.PW)] * n)
    res, out = api.run_go([line], wiring, "c19status", timeout=900)
    if res is None:
        ck.add_obligation(False, "status responder probe ran")
        ck.violation("tie-broken:go-driver-status", {"what": "the API driver did not build/run against the current tree", "output": out[-3000:],
                                                     "obligation": "correspondence apidrv (C19 responder side)"}, concrete=False)
        return
    obs = [o for o in res[0][2:] if o["op"] == "J"]
    okn = [o for o in obs if "early_ns" in o]
    ck.add_obligation(len(okn) == n, "status responder probe ran (%d/%d JSON status answers)" % (len(okn), n))
    worst_early = max([int(o["early_ns"]) for o in okn] + [0])
    worst_late = max([int(o["late_ns"]) for o in okn] + [0])
    ck.cov["status_probe"] = {"requests": n, "max_ns_reported_before_request_was_sent": worst_early, "max_ns_reported_after_answer_was_read": worst_late}
    ck.cov["evaluations"] = ck.cov.get("evaluations", 0) + n
    if worst_early > 0 or worst_late > 0:
        ck.violation("status:time-not-read-during-request", {
            "what": "GET / (JSON) reported a CurrentTime %d ns BEFORE the request was sent / %d ns AFTER the answer was read (same process, same clock): "
                    "the reported time is not a clock reading taken while the request was handled, so the drift bound of the joining node "
                    "no longer covers the true offset" % (worst_early, worst_late),
            "cases": [line], "how_to_replay": "bin/check C19"}, concrete=True)


def run(ck, replay):
    ck.cov["trusted_base"] += [
        "python regex scan of robustirc.go / timesafeguard.go for the constant and the call order (translator-lite)",
        "modelled, not verified: time.Time arithmetic as Z nanoseconds (|t| < 2^62), log/flag plumbing, health.GetServerStatus (network I/O), the claim that the peer reads its clock between Start and End"]
    ck.assumptions += ["the peer's clock was read at a local instant between Start and End (physical model `explains`)",
                       "raft's election timeout is the constant main() assigns (checked by scan)"]
    ok = ck.proof_obligations()
    facts = source_facts()
    ck.notes["source_facts"] = facts
    et = facts.get("et_ns", 2 * S)
    for k in ("raft_uses_const", "check_before_raft", "check_before_join", "errors_fatal"):
        ck.add_obligation(facts.get(k, False), "main(): " + k)
    ck.add_obligation("et_ns" in facts, "ElectionTimeout constant recognised in source")

    if replay:
        import json
        rp = json.load(open(replay))
        cases = rp.get("cases", [])
    else:
        n = 400 if ck.tier == "quick" else 20000
        cases = gen_cases(ck, et, n)
        # metamorphic partner for silent peers: same case without them
    lines = [case_line(c, et) for c in cases]
    glines, goout = run_go(lines)
    if glines is None:
        ck.violation("tie-broken:go-driver", {"what": "Go correspondence driver did not build/run against the current tree",
                                              "output": goout[-3000:], "obligation": "correspondence tsgdrv"}, concrete=False)
        return
    if glines and parse_out(glines[0]) and parse_out(glines[0])["et"] != et:
        et = parse_out(glines[0])["et"]
        lines = [case_line(c, et) for c in cases]
    if not getattr(ck, "model_ok", False):
        ck.violation("tie-broken:model", {"what": "model driver could not be built", "output": ck.model_out[-3000:]}, concrete=False)
        return
    mlines = vlib.run_model("\n".join(lines) + "\n")
    if ck.tier == "thorough":
        vm = vlib.run_model_vm("\n".join(lines[:300]) + "\n")
        ck.add_obligation(vm == mlines[:300], "extracted model agrees with vm_compute on 300 cases")
    ck.cov["evaluations"] = len(cases)
    nontriv = set()
    dist = {}
    mism = []
    monfail = []
    for i, c in enumerate(cases):
        g = parse_out(glines[i]) if i < len(glines) else None
        if any(p["res"] is not None for p in c["peers"]):
            nontriv.add(lines[i])
        if g:
            dist[g["decision"]] = dist.get(g["decision"], 0) + 1
        if i >= len(glines) or i >= len(mlines) or norm_line(glines[i]) != norm_line(mlines[i]):
            mism.append(i)
        why = monitor(c, g, et)
        if why:
            monfail.append((i, why))
    # silent peers are ignored: removing them must not change the implementation's decision
    stripped = [dict(c, peers=[p for p in c["peers"] if p["res"] is not None]) for c in cases[:200]]
    s_lines, _ = run_go([case_line(c, et) for c in stripped])
    for i, c in enumerate(stripped):
        a, b = parse_out(glines[i]), parse_out(s_lines[i]) if s_lines else None
        if a and b and (a["decision"], a["off"]) != (b["decision"], b["off"]):
            monfail.append((i, "decision changes when silent peers are removed"))
    ck.cov["distinct_nontrivial"] = len(nontriv)
    ck.cov["disagreements_checked"] = len(cases)
    ck.cov["traces_validated_against_impl"] = len(cases)
    ck.cov["rule"] = ("measurements synthesised from a true clock offset theta and request/response delays (theta: small, "
                      "around +-ET, hours; boundary cases worst==ET-1/ET/ET+1; 0-5 peers, 20% silent, 25% with the safeguard disabled); "
                      "non-trivial = at least one answering peer; distinct by case text")
    ck.cov["input_distribution"] = {"decisions_by_impl": dist, "election_timeout_ns": et}
    ck.cov["samples"] = [{"case": lines[i], "impl": glines[i], "model": mlines[i]} for i in range(min(3, len(lines)))]
    for i, why in monfail[:3]:
        ck.violation("monitor:" + re.sub(r"[-0-9]+", "N", why)[:60].replace(" ", "_"),
                     {"what": why, "cases": [cases[i]], "case_line": lines[i], "impl_output": glines[i] if i < len(glines) else None,
                      "model_output": mlines[i] if i < len(mlines) else None,
                      "how_to_replay": "bin/check C19 --replay <this file>"}, concrete=True)
    if mism and not monfail:
        i = mism[0]
        ck.violation("correspondence:tsg", {"what": "model and implementation disagree; no input violating the property was found by the monitor",
                                            "obligation": "correspondence tsgdrv (Tsg/Safeguard.v vs internal/timesafeguard)",
                                            "case_line": lines[i], "cases": [cases[i]], "impl_output": glines[i] if i < len(glines) else None,
                                            "model_output": mlines[i] if i < len(mlines) else None, "mismatches": len(mism)}, concrete=False)
    if not ok:
        ck.violation("proof-broken", {"what": "proof obligations not discharged", "errors": ck.proof_errors,
                                      "obligation": ck.proof_result.get("broken_at", "Properties/C19.v"),
                                      "coq_output": ck.proof_result["output_tail"]}, concrete=False)
    if not replay:
        run_net(ck)
        run_responder(ck)
    bad = [o for o in ck.cov.get("extra_obligations", []) if not o["ok"]]
    if bad and not monfail:
        ck.violation("obligation:" + bad[0]["name"].replace(" ", "_"), {"what": "source-derived obligation failed", "obligations": bad,
                                                                         "source_facts": facts}, concrete=False)
