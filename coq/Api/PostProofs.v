(* Api/PostProofs.v — proofs about Api/Post.v (property C10). *)
From Coq Require Import List Bool NArith Ascii String Lia.
From RV Require Import Base.Text Api.Auth Api.AuthProofs Api.Post.
Import ListNotations.
Local Open Scope string_scope.

(* ---- lookups through the state updates ------------------------------------------------------ *)
Lemma lookup_map f l id :
  lookup id (map (fun ks : N * sess => (fst ks, f (fst ks) (snd ks))) l) = option_map (f id) (lookup id l).
Proof.
  induction l as [|[k s] r IH]; simpl; [reflexivity|].
  destruct (N.eqb_spec k id); [subst; reflexivity|exact IH].
Qed.

Lemma get_session_live st id s : get_session st id = GsOk s <-> live st id = Some s.
Proof.
  unfold get_session, live. destruct (lookup id (st_sessions st)) as [x|]; [destruct (s_alive x)|];
    destruct (N.ltb id (st_lastproc st)); split; intros H; try discriminate; inversion H; reflexivity.
Qed.

Lemma live_map_sessions f st k :
  live (map_sessions f st) k =
    match lookup k (st_sessions st) with
    | Some s => if s_alive (f k s) then Some (f k s) else None
    | None => None
    end.
Proof.
  unfold live, map_sessions. cbn [st_sessions]. rewrite lookup_map.
  destruct (lookup k (st_sessions st)); reflexivity.
Qed.

Lemma live_set_last st id c k :
  live (set_last st id c) k =
    if N.eqb k id then option_map (fun s => mkSess (s_auth s) (s_alive s) c) (live st k) else live st k.
Proof.
  unfold set_last. rewrite live_map_sessions. unfold live.
  destruct (lookup k (st_sessions st)) as [s|]; simpl; [|destruct (N.eqb k id); reflexivity].
  destruct (N.eqb k id); simpl; [|reflexivity]. destruct (s_alive s) eqn:E; simpl; rewrite ?E; reflexivity.
Qed.

Lemma live_kill d st k : live (kill d st) k = if memN k d then None else live st k.
Proof.
  unfold kill. rewrite live_map_sessions. unfold live.
  destruct (lookup k (st_sessions st)) as [s|]; simpl; [|destruct (memN k d); reflexivity].
  destruct (memN k d); simpl; reflexivity.
Qed.

Lemma live_set_lastproc st n k : live (set_lastproc st n) k = live st k.
Proof. reflexivity. Qed.

Lemma live_add st id a k :
  live (add_session st id a) k = if N.eqb id k then Some (mkSess a true 0%N) else live st k.
Proof. unfold live, add_session. cbn [st_sessions lookup]. destruct (N.eqb id k); reflexivity. Qed.

Lemma is_live_spec st k : is_live st k = true <-> exists s, live st k = Some s.
Proof. unfold is_live. destruct (live st k); split; intros H; eauto; try discriminate. destruct H; discriminate. Qed.

Lemma session_check_live st hdr t id :
  session_check st hdr t = inl id -> parse_uint0 t = Some id /\ is_live st id = true.
Proof.
  intros H. apply session_check_sound in H. destruct H as (h & s & _ & _ & Hp & Hg & _).
  split; [assumption|]. apply get_session_live in Hg. unfold is_live. now rewrite Hg.
Qed.

(* ---- C10_marker: the marker is written before processing ------------------------------------- *)
Definition is_client_msg (e : entry) : bool := etype_eqb (e_type e) EIrc || etype_eqb (e_type e) EMod.

(* after an IRCFromClient or MessageOfDeath entry of a session that exists, that session is
   either gone or carries the entry's client message id — whatever processing did (any oracle) *)
Lemma is_dup_spec st e : is_dup st e = true <-> e_cmid e <> 0%N /\ last_post st (e_session e) = e_cmid e.
Proof.
  unfold is_dup. rewrite andb_true_iff, negb_true_iff, N.eqb_neq, N.eqb_eq. tauto.
Qed.

Theorem marker_after_apply o st e :
  is_client_msg e = true -> is_live st (e_session e) = true ->
  is_live (apply o st e) (e_session e) = true ->
  last_post (apply o st e) (e_session e) = e_cmid e.
Proof.
  unfold is_client_msg, apply. intros Ht Hl.
  destruct (e_type e); simpl in Ht; try discriminate.
  - destruct (is_dup st e) eqn:Hd; [intros _; now apply is_dup_spec in Hd|].
    rewrite Hl. unfold is_live, last_post in *. rewrite live_set_lastproc, live_kill, live_set_last, N.eqb_refl.
    destruct (memN (e_session e) (o_deaths o)); [discriminate|].
    destruct (live st (e_session e)) as [s|]; [reflexivity|discriminate].
  - rewrite Hl. unfold is_live, last_post in *. rewrite live_set_last, N.eqb_refl.
    destruct (live st (e_session e)) as [s|]; [reflexivity|discriminate].
Qed.

Definition Inv (sid c : N) (st : state) : Prop := is_live st sid = false \/ last_post st sid = c.

(* the same, without assuming the session existed: an entry for a session that is not in the
   map is ignored, and the session is still not in the map *)
Theorem apply_establishes_inv o st e :
  is_client_msg e = true -> Inv (e_session e) (e_cmid e) (apply o st e).
Proof.
  intros Ht. destruct (is_live st (e_session e)) eqn:Hl.
  - destruct (is_live (apply o st e) (e_session e)) eqn:Hl'; [right|now left].
    now apply marker_after_apply.
  - left. unfold is_client_msg in Ht. unfold apply. destruct (e_type e); simpl in Ht; try discriminate;
      [destruct (is_dup st e)|]; now rewrite ?Hl.
Qed.

(* a session that has died stays dead unless a CreateSession with its id is applied *)
Lemma apply_other_preserves_inv o st e sid c :
  Inv sid c st ->
  (is_client_msg e = true -> e_session e <> sid) ->
  (e_type e = ECreate -> e_id e <> sid) ->
  Inv sid c (apply o st e).
Proof.
  intros HI Hcm Hcr. unfold apply.
  assert (Hset : forall k v, k <> sid -> Inv sid c (set_last st k v)).
  { intros k v Hk. unfold Inv, is_live, last_post in *. rewrite !live_set_last.
    destruct (N.eqb_spec sid k); [congruence|exact HI]. }
  assert (Hkill : forall d st', Inv sid c st' -> Inv sid c (kill d st')).
  { intros d st' H. unfold Inv, is_live, last_post in *. rewrite !live_kill.
    destruct (memN sid d); [now left|exact H]. }
  destruct (e_type e) eqn:Ht.
  - destruct (o_created o); [|exact HI]. unfold Inv, is_live, last_post in *. rewrite !live_add.
    destruct (N.eqb_spec (e_id e) sid); [exfalso; now apply Hcr|exact HI].
  - destruct (is_live st (e_session e)); [|exact HI]. now apply Hkill.
  - destruct (is_dup st e); [exact HI|].
    destruct (is_live st (e_session e)); [|exact HI]. apply Hkill. apply Hset. apply Hcm.
    unfold is_client_msg. now rewrite Ht.
  - destruct (is_live st (e_session e)); [|exact HI]. apply Hset. apply Hcm.
    unfold is_client_msg. rewrite Ht. reflexivity.
  - exact HI.
  - exact HI.
Qed.

(* ---- replicas: markers are a function of the log --------------------------------------------- *)
Lemma apply_sessions_indep o st1 st2 e :
  st_sessions st1 = st_sessions st2 -> st_sessions (apply o st1 e) = st_sessions (apply o st2 e).
Proof.
  intros H.
  assert (Hlive : forall k, live st1 k = live st2 k) by (intros k; unfold live; now rewrite H).
  assert (Hdup : is_dup st1 e = is_dup st2 e) by (unfold is_dup, last_post; now rewrite Hlive).
  assert (Hl : is_live st1 (e_session e) = is_live st2 (e_session e)) by (unfold is_live; now rewrite Hlive).
  unfold apply. rewrite Hdup, Hl.
  destruct (e_type e); try assumption.
  - destruct (o_created o); [|assumption]. unfold add_session. cbn [st_sessions]. now rewrite H.
  - destruct (is_live st2 (e_session e)); [|assumption].
    unfold set_lastproc, kill, map_sessions. cbn [st_sessions]. now rewrite H.
  - destruct (is_dup st2 e); [assumption|]. destruct (is_live st2 (e_session e)); [|assumption].
    unfold set_lastproc, kill, set_last, map_sessions. cbn [st_sessions]. now rewrite H.
  - destruct (is_live st2 (e_session e)); [|assumption].
    unfold set_last, map_sessions. cbn [st_sessions]. now rewrite H.
Qed.

Theorem replicas_agree l : forall st1 st2,
  st_sessions st1 = st_sessions st2 ->
  st_sessions (replay l st1) = st_sessions (replay l st2).
Proof.
  induction l as [|[e o] r IH]; intros st1 st2 H; simpl; [exact H|].
  apply IH. now apply apply_sessions_indep.
Qed.

Corollary replicas_markers l st1 st2 id :
  st_sessions st1 = st_sessions st2 ->
  last_post (replay l st1) id = last_post (replay l st2) id /\
  is_live (replay l st1) id = is_live (replay l st2) id.
Proof.
  intros H. pose proof (replicas_agree l _ _ H) as E. unfold last_post, is_live, live. now rewrite E.
Qed.

(* ---- duplicates in the log (commit 92a4e2e) ------------------------------------------------------ *)
Definition is_copy (sid c : N) (e : entry) : bool :=
  etype_eqb (e_type e) EIrc && N.eqb (e_session e) sid && N.eqb (e_cmid e) c.

Lemma is_copy_spec sid c e :
  is_copy sid c e = true <-> e_type e = EIrc /\ e_session e = sid /\ e_cmid e = c.
Proof.
  unfold is_copy. rewrite !andb_true_iff, !N.eqb_eq. split.
  - intros [[Ht Hs] Hc]. destruct (e_type e); simpl in Ht; try discriminate. auto.
  - intros (Ht & Hs & Hc). rewrite Ht. auto.
Qed.

(* A second copy of the session's last message — proposed by whatever handler, in whatever
   state that handler was — is the identity on the state of every node that applies it, and
   is not processed (no output). *)
Theorem dup_apply_identity o st e sid c :
  Inv sid c st -> c <> 0%N -> is_copy sid c e = true ->
  apply o st e = st /\ processes st e = false.
Proof.
  intros HI Hc0 Hcp. apply is_copy_spec in Hcp. destruct Hcp as (Ht & Hs & Hc).
  unfold apply, processes. rewrite Ht.
  destruct HI as [HI|HI].
  - assert (Hd : is_dup st e = false).
    { unfold is_dup. rewrite Hs, Hc. unfold last_post, is_live in *.
      destruct (live st sid); [discriminate|]. destruct (N.eqb_spec 0%N c); [congruence|]. now rewrite andb_false_r. }
    rewrite Hd, Hs, HI. auto.
  - assert (Hd : is_dup st e = true) by (apply is_dup_spec; rewrite Hs, Hc; auto).
    rewrite Hd. auto.
Qed.

(* entries that may follow the first copy of (sid, c) while it stays "the last message of its
   session": anything of other sessions, deletes / configuration entries, and client messages
   of sid itself only with the same client message id (the copies); no CreateSession re-uses
   the id *)
Definition tail_ok (sid c : N) (eo : entry * oracle) : Prop :=
  (is_client_msg (fst eo) = true -> e_session (fst eo) = sid -> e_cmid (fst eo) = c) /\
  (e_type (fst eo) = ECreate -> e_id (fst eo) <> sid).

Lemma apply_tail_preserves_inv o st e sid c :
  Inv sid c st -> tail_ok sid c (e, o) -> Inv sid c (apply o st e).
Proof.
  intros HI [Hcm Hcr]. cbn [fst] in *.
  destruct (is_client_msg e) eqn:Hm.
  - destruct (N.eq_dec (e_session e) sid) as [Hs|Hs].
    + rewrite <- Hs, <- (Hcm eq_refl Hs). now apply apply_establishes_inv.
    + apply apply_other_preserves_inv; auto.
  - apply apply_other_preserves_inv; auto. intros H; congruence.
Qed.

Definition drop_copies (sid c : N) (l : list (entry * oracle)) : list (entry * oracle) :=
  filter (fun eo => negb (is_copy sid c (fst eo))) l.

(* a log with any number of extra copies behaves exactly like the log without them: same
   state, same processed entries (hence same output), from every state in which the first copy
   has been applied — on every replica, since this is a statement about replay alone *)
Theorem duplicates_invisible sid c : c <> 0%N -> forall l st,
  Inv sid c st -> Forall (tail_ok sid c) l ->
  replay l st = replay (drop_copies sid c l) st /\
  replay_proc l st = replay_proc (drop_copies sid c l) st.
Proof.
  intros Hc0. induction l as [|[e o] r IH]; intros st HI Hall; [auto|].
  inversion Hall as [|? ? Hx Hr]; subst. cbn [drop_copies filter fst].
  destruct (is_copy sid c e) eqn:Hcp; cbn [negb].
  - destruct (dup_apply_identity o st e sid c HI Hc0 Hcp) as [Ha Hp].
    cbn [replay replay_proc]. rewrite Ha, Hp. cbn [app]. now apply IH.
  - cbn [replay replay_proc].
    destruct (IH (apply o st e) (apply_tail_preserves_inv _ _ _ _ _ HI Hx) Hr) as [H1 H2].
    fold (drop_copies sid c r). now rewrite H1, H2.
Qed.

Lemma replay_app l1 l2 st : replay (l1 ++ l2) st = replay l2 (replay l1 st).
Proof. revert st. induction l1 as [|[e o] r IH]; intros st; simpl; [reflexivity|apply IH]. Qed.
Lemma replay_proc_app l1 l2 st : replay_proc (l1 ++ l2) st = (replay_proc l1 st ++ replay_proc l2 (replay l1 st))%list.
Proof.
  revert st. induction l1 as [|[e o] r IH]; intros st; simpl; [reflexivity|].
  now rewrite IH, app_assoc.
Qed.

(* closed form, no invariant in the statement: ANY log that contains the first copy e1 (as a
   message or as a message of death), then entries that leave it the session's last message,
   then a second copy e2 — however e2 got there — ends in the same state and has processed the
   same entries as the log without e2 *)
Theorem second_copy_in_log st0 l1 e1 o1 l2 e2 o2 :
  is_client_msg e1 = true -> e_cmid e1 <> 0%N ->
  Forall (tail_ok (e_session e1) (e_cmid e1)) l2 ->
  is_copy (e_session e1) (e_cmid e1) e2 = true ->
  replay (l1 ++ (e1, o1) :: l2 ++ [(e2, o2)]) st0 = replay (l1 ++ (e1, o1) :: l2) st0 /\
  replay_proc (l1 ++ (e1, o1) :: l2 ++ [(e2, o2)]) st0 = replay_proc (l1 ++ (e1, o1) :: l2) st0.
Proof.
  intros Hm Hc0 Htail Hcp.
  set (sid := e_session e1) in *. set (c := e_cmid e1) in *.
  assert (HI : Inv sid c (replay (l1 ++ (e1, o1) :: l2) st0)).
  { rewrite replay_app. cbn [replay].
    assert (H0 : Inv sid c (apply o1 (replay l1 st0) e1)) by (now apply apply_establishes_inv).
    revert H0. generalize (apply o1 (replay l1 st0) e1). clear - Htail.
    induction l2 as [|[e o] r IH]; intros st H0; [exact H0|].
    inversion Htail; subst. cbn [replay]. apply IH; [assumption|]. now apply apply_tail_preserves_inv. }
  destruct (dup_apply_identity o2 _ e2 sid c HI Hc0 Hcp) as [Ha Hp].
  replace (l1 ++ (e1, o1) :: l2 ++ [(e2, o2)])%list with ((l1 ++ (e1, o1) :: l2) ++ [(e2, o2)])%list
    by (now rewrite <- app_assoc).
  rewrite replay_app, replay_proc_app. cbn [replay replay_proc]. rewrite Ha, Hp. cbn [app].
  now rewrite app_nil_r.
Qed.

(* ---- lookups on a node whose state machine lags behind its log (C17 at the API layer) ---------- *)
(* Session ids and message ids are raft indexes: along a log they strictly increase, and an entry
   refers to a session that was created earlier.  [b] bounds everything seen before the log. *)
Fixpoint ids_increase (b : N) (l : list (entry * oracle)) : Prop :=
  match l with
  | [] => True
  | (e, _) :: r => (b < e_id e)%N /\ (e_session e <= e_id e)%N /\ ids_increase (e_id e) r
  end.

Lemma lastproc_apply o st e b :
  (st_lastproc st <= b)%N -> (b < e_id e)%N -> (e_session e <= e_id e)%N ->
  (st_lastproc (apply o st e) <= e_id e)%N.
Proof.
  intros Hb Hlt Hs. unfold apply.
  destruct (e_type e); try (destruct (o_created o)); try destruct (is_dup st e);
    try destruct (is_live st (e_session e)); cbn [st_lastproc set_lastproc add_session set_last map_sessions]; lia.
Qed.

Lemma lastproc_replay l : forall st b,
  (st_lastproc st <= b)%N -> ids_increase b l ->
  exists b', (st_lastproc (replay l st) <= b')%N /\ (b <= b')%N /\
             (forall e o r, ids_increase b (l ++ (e, o) :: r) -> (b' < e_id e)%N).
Proof.
  induction l as [|[e o] r IH]; intros st b Hb Hinc; cbn [replay].
  - exists b. repeat split; [assumption|lia|]. intros e o r H. cbn in H. tauto.
  - destruct Hinc as (Hlt & Hs & Hr).
    destruct (IH (apply o st e) (e_id e) (lastproc_apply o st e b Hb Hlt Hs) Hr) as (b' & H1 & H2 & H3).
    exists b'. repeat split; [assumption|lia|]. intros e' o' r' H. cbn in H. destruct H as (_ & _ & H). now apply (H3 e' o' r').
Qed.

(* A handler that answers from a replay of any strict prefix l1 of the log never says "No such
   session" for the id of an entry that is still ahead of it — in particular for a session whose
   CreateSession entry is in the log but not yet applied: the answer is "not yet seen". *)
Theorem lagging_view_not_gone st0 b l1 e o l2 :
  (st_lastproc st0 <= b)%N -> ids_increase b (l1 ++ (e, o) :: l2) ->
  get_session (replay l1 st0) (e_id e) <> GsNoSuch.
Proof.
  intros Hb Hinc.
  assert (Hpre : ids_increase b l1).
  { clear - Hinc. revert b Hinc. induction l1 as [|[x ox] r IH]; intros b H; cbn in *; [exact I|].
    destruct H as (H1 & H2 & H3). auto. }
  destruct (lastproc_replay l1 st0 b Hb Hpre) as (b' & H1 & _ & H3).
  specialize (H3 e o l2 Hinc). unfold get_session.
  assert (N.ltb (e_id e) (st_lastproc (replay l1 st0)) = false) as Hf by (apply N.ltb_ge; lia).
  rewrite Hf. destruct (lookup (e_id e) (st_sessions (replay l1 st0))) as [s|]; [destruct (s_alive s)|]; discriminate.
Qed.

Corollary lagging_check_not_gone st0 b l1 e o l2 hdr t :
  (st_lastproc st0 <= b)%N -> ids_increase b (l1 ++ (e, o) :: l2) ->
  parse_uint0 t = Some (e_id e) ->
  session_check (replay l1 st0) hdr t <> inr RNoSuch.
Proof.
  intros Hb Hinc Hp. pose proof (lagging_view_not_gone st0 b l1 e o l2 Hb Hinc) as H.
  unfold session_check. rewrite Hp. destruct hdr as [h|]; simpl; [|discriminate].
  destruct (is_empty h); [discriminate|].
  destruct (get_session (replay l1 st0) (e_id e)) as [s| |]; [destruct (String.eqb h (s_auth s)); discriminate|congruence|discriminate].
Qed.

(* session ids present in the state are bounded as well: the id of an entry still ahead is in no map *)
Definition keys_below (b : N) (st : state) : Prop := Forall (fun ks : N * sess => (fst ks <= b)%N) (st_sessions st).

Lemma keys_map f st b : keys_below b st -> keys_below b (map_sessions f st).
Proof.
  unfold keys_below, map_sessions. cbn [st_sessions]. intros H. rewrite Forall_forall in *.
  intros ks Hin. apply in_map_iff in Hin. destruct Hin as (x & <- & Hx). cbn [fst]. now apply H.
Qed.
Lemma keys_weaken b b' st : (b <= b')%N -> keys_below b st -> keys_below b' st.
Proof. unfold keys_below. intros Hle H. rewrite Forall_forall in *. intros ks Hin. specialize (H ks Hin). cbn in *. lia. Qed.

Lemma keys_set_lastproc b st n : keys_below b st -> keys_below b (set_lastproc st n).
Proof. intros H. exact H. Qed.
Lemma keys_kill b d st : keys_below b st -> keys_below b (kill d st).
Proof. unfold kill. apply keys_map. Qed.
Lemma keys_set_last b st id c : keys_below b st -> keys_below b (set_last st id c).
Proof. unfold set_last. apply keys_map. Qed.
Lemma keys_add b st id a : keys_below b st -> (id <= b)%N -> keys_below b (add_session st id a).
Proof. intros H Hle. unfold keys_below, add_session. cbn [st_sessions]. constructor; [cbn; lia|exact H]. Qed.

Lemma keys_apply o st e b :
  keys_below b st -> (b < e_id e)%N -> keys_below (e_id e) (apply o st e).
Proof.
  intros Hk Hlt. assert (Hw : keys_below (e_id e) st) by (apply (keys_weaken b); [lia|assumption]).
  unfold apply. destruct (e_type e); try destruct (o_created o); try destruct (is_dup st e);
    try destruct (is_live st (e_session e));
    repeat first [assumption | apply keys_set_lastproc | apply keys_kill | apply keys_set_last | (apply keys_add; [|lia])].
Qed.

Lemma keys_replay l : forall st b,
  keys_below b st -> ids_increase b l ->
  exists b', keys_below b' (replay l st) /\ (b <= b')%N /\
             (forall e o r, ids_increase b (l ++ (e, o) :: r) -> (b' < e_id e)%N).
Proof.
  induction l as [|[e o] r IH]; intros st b Hk Hinc; cbn [replay].
  - exists b. repeat split; [assumption|lia|]. intros e o r H. cbn in H. tauto.
  - destruct Hinc as (Hlt & Hs & Hr).
    destruct (IH (apply o st e) (e_id e) (keys_apply o st e b Hk Hlt) Hr) as (b' & H1 & H2 & H3).
    exists b'. repeat split; [assumption|lia|]. intros e' o' r' H. cbn in H. destruct H as (_ & _ & H). now apply (H3 e' o' r').
Qed.

Lemma lookup_above b st id : keys_below b st -> (b < id)%N -> lookup id (st_sessions st) = None.
Proof.
  unfold keys_below. intros H Hlt. induction (st_sessions st) as [|[k s] r IH]; [reflexivity|].
  inversion H as [|? ? Hk Hr]; subst. cbn in Hk. cbn [lookup]. destruct (N.eqb_spec k id); [lia|now apply IH].
Qed.

(* exactly "not yet seen": the id of an entry still ahead of the applied prefix is neither found nor gone *)
Theorem lagging_view_not_yet st0 b l1 e o l2 :
  (st_lastproc st0 <= b)%N -> keys_below b st0 -> ids_increase b (l1 ++ (e, o) :: l2) ->
  get_session (replay l1 st0) (e_id e) = GsNotYet.
Proof.
  intros Hb Hk Hinc.
  assert (Hpre : ids_increase b l1).
  { clear - Hinc. revert b Hinc. induction l1 as [|[x ox] r IH]; intros b H; cbn in *; [exact I|].
    destruct H as (H1 & H2 & H3). auto. }
  destruct (lastproc_replay l1 st0 b Hb Hpre) as (b1 & H1 & _ & H3).
  destruct (keys_replay l1 st0 b Hk Hpre) as (b2 & K1 & _ & K3).
  specialize (H3 e o l2 Hinc). specialize (K3 e o l2 Hinc).
  unfold get_session. rewrite (lookup_above b2 _ _ K1 K3).
  assert (N.ltb (e_id e) (st_lastproc (replay l1 st0)) = false) as -> by (apply N.ltb_ge; lia). reflexivity.
Qed.

(* ... and therefore every session route answers it with 500 or proxies it, never with 404 — the
   status on which clients give a session up (D22).  [lm]: the route goes through sessionOrProxy. *)
Theorem lagging_gate_status st0 b l1 e o l2 lm q hd sid h :
  (st_lastproc st0 <= b)%N -> keys_below b st0 -> ids_increase b (l1 ++ (e, o) :: l2) ->
  parse_uint0 sid = Some (e_id e) -> q_hdr q = Some h -> h <> "" ->
  gate_session lm (replay l1 st0) q hd sid = Refused RNotYet 500 \/
  gate_session lm (replay l1 st0) q hd sid = Proxied.
Proof.
  intros Hb Hk Hinc Hp Hh Hne. unfold gate_session, session_check. rewrite Hp, Hh.
  destruct h as [|c r]; [congruence|]. cbn [is_empty].
  rewrite (lagging_view_not_yet st0 b l1 e o l2 Hb Hk Hinc).
  destruct lm; [destruct (st_leader (replay l1 st0))|]; auto.
Qed.

(* at the dispatcher: whichever gated session route the request matches *)
Theorem lagging_dispatch_never_404 rt st0 b l1 e o l2 q h :
  forallb gated rt = true ->
  (st_lastproc st0 <= b)%N -> keys_below b st0 -> ids_increase b (l1 ++ (e, o) :: l2) ->
  q_hdr q = Some h -> h <> "" ->
  forall r sid,
  find_route (fun _ => true) Pub (q_meth q) (sdrop (String.length public_prefix) (q_path q)) rt = Some (r, Some sid) ->
  parse_uint0 sid = Some (e_id e) ->
  has_prefix public_prefix (q_path q) = true ->
  dispatch_public rt (replay l1 st0) q = Refused RNotYet 500 \/ dispatch_public rt (replay l1 st0) q = Proxied.
Proof.
  intros Hg Hb Hk Hinc Hh Hne r sid Hf Hp Hpre. unfold dispatch_public. rewrite Hpre. cbn [negb]. rewrite Hf.
  apply find_route_spec in Hf. destruct Hf as (Hin & Hd & _ & Hpm).
  assert (Hgr : gated r = true) by (rewrite forallb_forall in Hg; now apply Hg).
  destruct (pat_match_id _ _ _ Hpm) as [suf Hpat]. unfold gated in Hgr. rewrite Hpat, Hd in Hgr.
  destruct (r_gate r); try discriminate; eapply lagging_gate_status; eauto.
Qed.

(* whatever the state: "not yet seen" is never answered with 404 *)
Theorem notyet_status rt st q c : dispatch_public rt st q = Refused RNotYet c -> c = 500%N.
Proof.
  unfold dispatch_public. destruct (negb _); [discriminate|].
  destruct (find_route _ _ _ _ _) as [[r [sid|]]|]; try discriminate.
  - destruct (r_gate r); try discriminate; unfold gate_session;
      destruct (session_check _ _ _) as [n|[]]; try destruct (st_leader st); intros H; inversion H; reflexivity.
  - destruct (r_gate r); discriminate.
Qed.

(* ---- the DELETE handler ------------------------------------------------------------------------- *)
Lemma cut_line_no_line_end d c : is_line_end c = true -> contains_char c (cut_line d) = false.
Proof.
  intros Hc. induction d as [|x r IH]; cbn [cut_line]; [reflexivity|].
  destruct (is_line_end x) eqn:E; cbn [contains_char]; [reflexivity|].
  rewrite IH, orb_false_r. destruct (Ascii.eqb_spec c x); [subst; congruence|reflexivity].
Qed.

Theorem delete_handler_propose json_quit st sid body e :
  delete_handler json_quit st sid body = PPropose e <->
  exists q, json_quit body = Some q /\ st_leader st = true /\ e = mkEntry EDelete 0 sid 0 (cut_line q) 0.
Proof.
  unfold delete_handler. destruct (json_quit body) as [q|].
  - destruct (st_leader st); simpl.
    + split; [intros H; inversion H; eauto|]. intros (q' & H & _ & ->). now inversion H.
    + split; [discriminate|]. intros (_ & _ & H & _). discriminate.
  - split; [discriminate|]. intros (q & H & _). discriminate.
Qed.

(* whatever JSON string a client sends as Quitmessage, the proposed entry carries no CR, LF or NUL *)
Theorem delete_handler_no_line_end json_quit st sid body e :
  delete_handler json_quit st sid body = PPropose e ->
  forall c, is_line_end c = true -> contains_char c (e_data e) = false.
Proof.
  intros H c Hc. apply delete_handler_propose in H. destruct H as (q & _ & _ & ->). cbn [e_data].
  now apply cut_line_no_line_end.
Qed.

(* nothing is proposed for an undecodable body or on a non-leader *)
Theorem delete_handler_bad json_quit st sid body :
  json_quit body = None -> delete_handler json_quit st sid body = PBadRequest.
Proof. unfold delete_handler. now intros ->. Qed.

(* ---- the handler -------------------------------------------------------------------------------- *)
Section Handler.
Variable json_decode : string -> option (string * N).
Variable restore : state -> state.
(* Marshal/Unmarshal keeps which sessions exist and their markers (serialize.go writes
   LastClientMessageId for every session; checked against the implementation on every run). *)
Hypothesis restore_markers : forall st id,
  is_live (restore st) id = is_live st id /\ last_post (restore st) id = last_post st id.

Notation post_handler := (post_handler json_decode).
Notation step := (step json_decode restore).
Notation run := (run json_decode restore).

Theorem handler_ack st sid body d c :
  json_decode (stake body_limit body) = Some (d, c) -> last_post st sid = c ->
  post_handler st sid body = PAck.
Proof. unfold Post.post_handler. intros -> ->. now rewrite N.eqb_refl. Qed.

(* exactly when is something proposed *)
Theorem handler_propose st sid body e :
  post_handler st sid body = PPropose e <->
  exists d c, json_decode (stake body_limit body) = Some (d, c) /\ last_post st sid <> c /\
              st_leader st = true /\ e = mkEntry EIrc 0 sid c (cut_line d) 0.
Proof.
  unfold Post.post_handler. destruct (json_decode (stake body_limit body)) as [[d c]|].
  - destruct (N.eqb_spec (last_post st sid) c).
    + split; [discriminate|]. intros (d' & c' & H & Hne & _). inversion H; subst. congruence.
    + destruct (st_leader st); simpl.
      * split; [intros H; inversion H; eauto 8|]. intros (d' & c' & H & _ & _ & ->). now inversion H.
      * split; [discriminate|]. intros (_ & _ & _ & _ & H & _). discriminate.
  - split; [discriminate|]. intros (d & c & H & _). discriminate.
Qed.

Lemma cut_line_clean d c : is_line_end c = true -> contains_char c (cut_line d) = false.
Proof.
  intros Hc. induction d as [|x r IH]; cbn [cut_line]; [reflexivity|].
  destruct (is_line_end x) eqn:E; cbn [contains_char]; [reflexivity|].
  rewrite IH, orb_false_r. destruct (Ascii.eqb_spec c x); [subst; congruence|reflexivity].
Qed.

(* ---- histories ---------------------------------------------------------------------------------- *)
(* Events that may follow the first copy of message (sid, c) without making it "no longer the
   last message of its session": repeats of that message (any body that decodes to the same
   client message id), anything addressed to other sessions, any entry that is not a client
   message of sid (deletes of sid included), and restores.  CreateSession never re-uses an id
   (ids are raft indexes).  [allowed]: every handler is caught up (it answers from the state of
   the node that applies).  [allowed_any]: handlers may answer from ANY state (EvPostFrom), and
   copies may be committed by any other means (EvApply). *)
Definition allowed (sid c : N) (ev : event) : Prop :=
  match ev with
  | EvPost t _ b _ => parse_uint0 t = Some sid -> exists d, json_decode (stake body_limit b) = Some (d, c)
  | EvPostFrom _ _ _ _ _ => False
  | EvApply e _ => (is_client_msg e = true -> e_session e <> sid) /\ (e_type e = ECreate -> e_id e <> sid)
  | EvRestore => True
  end.
Definition allowed_any (sid c : N) (ev : event) : Prop :=
  match ev with
  | EvPost t _ b _ | EvPostFrom _ t _ b _ =>
      parse_uint0 t = Some sid -> exists d, json_decode (stake body_limit b) = Some (d, c)
  | EvApply e o => tail_ok sid c (e, o)
  | EvRestore => True
  end.

Definition own (sid : N) (eo : entry * oracle) : bool := N.eqb (e_session (fst eo)) sid && is_client_msg (fst eo).
Definition own_entries (sid : N) (l : list (entry * oracle)) := filter (own sid) l.
Definition own_e (sid : N) (e : entry) : bool := N.eqb (e_session e) sid && is_client_msg e.

Lemma own_entries_app sid l x : own sid x = false -> own_entries sid (l ++ [x]) = own_entries sid l.
Proof. intros H. unfold own_entries. rewrite filter_app. simpl. rewrite H. apply app_nil_r. Qed.

(* a repeat of the last applied message changes nothing at all on the node that handles it *)
Theorem retry_is_noop s t hdr b o sid c d :
  Inv sid c (s_node s) -> parse_uint0 t = Some sid ->
  json_decode (stake body_limit b) = Some (d, c) ->
  step s (EvPost t hdr b o) = s.
Proof.
  intros HI Hp Hj. unfold Post.step, Post.post_from.
  destruct (session_check (s_node s) hdr t) as [id|r] eqn:Hs; [|reflexivity].
  apply session_check_live in Hs. destruct Hs as [Hp' Hl]. rewrite Hp in Hp'. inversion Hp'; subst id.
  destruct HI as [HI|HI]; [congruence|].
  now rewrite (handler_ack _ _ _ _ _ Hj HI).
Qed.

(* the request answered from ANY state [view]: the applying node's state and its processed
   entries do not change (at most a log entry is added, which every replica skips) *)
Theorem stale_retry_is_invisible view s t hdr b o sid c d :
  Inv sid c (s_node s) -> c <> 0%N -> parse_uint0 t = Some sid ->
  json_decode (stake body_limit b) = Some (d, c) ->
  s_node (post_from json_decode view s t hdr b o) = s_node s /\
  s_proc (post_from json_decode view s t hdr b o) = s_proc s.
Proof.
  intros HI Hc0 Hp Hj. unfold Post.post_from.
  destruct (session_check view hdr t) as [id|r] eqn:Hs; [|auto].
  apply session_check_live in Hs. destruct Hs as [Hp' _]. rewrite Hp in Hp'. inversion Hp'; subst id.
  destruct (Post.post_handler json_decode view sid b) as [| | |e] eqn:Hh; auto.
  apply handler_propose in Hh. destruct Hh as (d' & c' & Hj' & _ & _ & ->). rewrite Hj in Hj'. inversion Hj'; subst d' c'.
  unfold commit. cbn [s_node s_proc].
  destruct (dup_apply_identity o (s_node s) (with_id (mkEntry EIrc 0 sid c (cut_line d) 0) (next_index s)) sid c HI Hc0) as [Ha Hpr].
  { apply is_copy_spec. cbn. auto. }
  rewrite Ha, Hpr. now rewrite app_nil_r.
Qed.

Lemma filter_app_one {A} (f : A -> bool) l x : f x = false -> filter f (l ++ [x]) = filter f l.
Proof. intros H. rewrite filter_app. simpl. rewrite H. apply app_nil_r. Qed.

Lemma commit_other sid c s e o :
  Inv sid c (s_node s) -> tail_ok sid c (e, o) -> own_e sid e = false ->
  Inv sid c (s_node (commit s e o)) /\
  own_entries sid (s_log (commit s e o)) = own_entries sid (s_log s) /\
  filter (own_e sid) (s_proc (commit s e o)) = filter (own_e sid) (s_proc s).
Proof.
  intros HI Ht Ho. unfold commit. cbn [s_node s_log s_proc]. repeat split.
  - now apply apply_tail_preserves_inv.
  - apply own_entries_app. exact Ho.
  - destruct (processes (s_node s) e); [now apply filter_app_one|now rewrite app_nil_r].
Qed.

Lemma post_from_other view s t hdr b o sid c id :
  Inv sid c (s_node s) -> session_check view hdr t = inl id -> id <> sid ->
  Inv sid c (s_node (post_from json_decode view s t hdr b o)) /\
  own_entries sid (s_log (post_from json_decode view s t hdr b o)) = own_entries sid (s_log s) /\
  filter (own_e sid) (s_proc (post_from json_decode view s t hdr b o)) = filter (own_e sid) (s_proc s).
Proof.
  intros HI Hs Hne. unfold Post.post_from. rewrite Hs.
  destruct (Post.post_handler json_decode view id b) as [| | |e] eqn:Hh; auto.
  apply handler_propose in Hh. destruct Hh as (d & c' & _ & _ & _ & ->).
  apply commit_other; [assumption| |].
  - split; cbn; [congruence|discriminate].
  - unfold own_e. cbn. destruct (N.eqb_spec id sid); [congruence|reflexivity].
Qed.

Lemma step_preserves sid c s ev :
  Inv sid c (s_node s) -> allowed sid c ev ->
  Inv sid c (s_node (step s ev)) /\ own_entries sid (s_log (step s ev)) = own_entries sid (s_log s).
Proof.
  intros HI Hal. destruct ev as [t hdr b o|view t hdr b o|e o|]; simpl in Hal; [| contradiction | |].
  - destruct (session_check (s_node s) hdr t) as [id|r] eqn:Hs.
    + destruct (session_check_live _ _ _ _ Hs) as [Hp Hl].
      destruct (N.eq_dec id sid) as [->|Hne].
      * destruct (Hal Hp) as [d Hj]. rewrite (retry_is_noop s t hdr b o sid c d HI Hp Hj). auto.
      * cbn [Post.step]. destruct (post_from_other (s_node s) s t hdr b o sid c id HI Hs Hne) as (H1 & H2 & _). auto.
    + cbn [Post.step]. unfold Post.post_from. rewrite Hs. auto.
  - destruct Hal as [Hcm Hcr]. cbn [Post.step].
    assert (Ho : own_e sid e = false).
    { unfold own_e. destruct (is_client_msg e) eqn:Hc; [|now rewrite andb_false_r].
      destruct (N.eqb_spec (e_session e) sid); [exfalso; now apply Hcm|reflexivity]. }
    destruct (commit_other sid c s e o HI) as (H1 & H2 & _); auto.
    split; cbn [fst]; [intros Hm Hs; exfalso; now apply (Hcm Hm)|assumption].
  - cbn [Post.step s_node s_log]. split; [|reflexivity].
    destruct (restore_markers (s_node s) sid) as [Hl Hp]. unfold Inv in *. rewrite Hl, Hp. exact HI.
Qed.

(* C10 over histories, handlers caught up: once the first copy of (sid, c) has been applied on
   the node that handles the retries (Inv), no sequence of repeats — interleaved with other
   sessions' traffic, deletes, configuration entries and snapshot restores — adds an entry of
   that session to the log; every single repeat leaves log and state untouched (retry_is_noop). *)
Theorem retries_add_nothing sid c evs : forall s,
  Inv sid c (s_node s) -> Forall (allowed sid c) evs ->
  Inv sid c (s_node (run evs s)) /\ own_entries sid (s_log (run evs s)) = own_entries sid (s_log s).
Proof.
  induction evs as [|ev r IH]; intros s HI Hall; simpl; [auto|].
  inversion Hall as [|? ? Hev Hr]; subst.
  destruct (step_preserves sid c s ev HI Hev) as [HI' Hlog].
  destruct (IH _ HI' Hr) as [HI'' Hlog']. split; [assumption|]. now rewrite Hlog'.
Qed.

Lemma step_any_preserves sid c s ev :
  c <> 0%N -> Inv sid c (s_node s) -> allowed_any sid c ev ->
  Inv sid c (s_node (step s ev)) /\ filter (own_e sid) (s_proc (step s ev)) = filter (own_e sid) (s_proc s).
Proof.
  intros Hc0 HI Hal.
  assert (Hpost : forall view t hdr b o,
            (parse_uint0 t = Some sid -> exists d, json_decode (stake body_limit b) = Some (d, c)) ->
            Inv sid c (s_node (post_from json_decode view s t hdr b o)) /\
            filter (own_e sid) (s_proc (post_from json_decode view s t hdr b o)) = filter (own_e sid) (s_proc s)).
  { intros view t hdr b o Hret.
    destruct (session_check view hdr t) as [id|r] eqn:Hs.
    - destruct (session_check_live _ _ _ _ Hs) as [Hp _].
      destruct (N.eq_dec id sid) as [->|Hne].
      + destruct (Hret Hp) as [d Hj].
        destruct (stale_retry_is_invisible view s t hdr b o sid c d HI Hc0 Hp Hj) as [Hn Hpr].
        rewrite Hn, Hpr. auto.
      + destruct (post_from_other view s t hdr b o sid c id HI Hs Hne) as (H1 & _ & H3). auto.
    - unfold Post.post_from. rewrite Hs. auto. }
  destruct ev as [t hdr b o|view t hdr b o|e o|]; simpl in Hal; cbn [Post.step].
  - now apply Hpost.
  - now apply Hpost.
  - unfold commit. cbn [s_node s_proc]. split; [now apply apply_tail_preserves_inv|].
    destruct (is_copy sid c e) eqn:Hcp.
    + destruct (dup_apply_identity o (s_node s) e sid c HI Hc0 Hcp) as [_ Hpr]. rewrite Hpr. now rewrite app_nil_r.
    + destruct (processes (s_node s) e) eqn:Hpr; [|now rewrite app_nil_r].
      apply filter_app_one. unfold own_e.
      destruct (N.eqb_spec (e_session e) sid) as [Hs|Hs]; [|reflexivity]. cbn [andb].
      destruct (is_client_msg e) eqn:Hm; [|reflexivity]. exfalso.
      destruct Hal as [Hcm _]. cbn [fst] in Hcm. specialize (Hcm Hm Hs).
      (* a processed client message of sid with cmid c: it is an EIrc, hence a copy *)
      unfold processes in Hpr. unfold is_client_msg in Hm.
      destruct (e_type e) eqn:Ht; simpl in Hm; try discriminate.
      assert (is_copy sid c e = true) by (apply is_copy_spec; auto). congruence.
  - cbn [s_node s_proc]. split; [|reflexivity].
    destruct (restore_markers (s_node s) sid) as [Hl Hp]. unfold Inv in *. rewrite Hl, Hp. exact HI.
Qed.

(* C10 over histories, handlers in ANY state (this subsumes D14): once the first copy of
   (sid, c), c <> 0, has been applied on a node, no sequence of repeats — answered by handlers
   that are caught up, lagging or looking at arbitrary states, or copies committed by any other
   means — interleaved with other traffic, deletes, configuration entries and restores, makes
   that node process a client message of sid again: the message is processed at most once. *)
Theorem retries_processed_once sid c evs : c <> 0%N -> forall s,
  Inv sid c (s_node s) -> Forall (allowed_any sid c) evs ->
  Inv sid c (s_node (run evs s)) /\
  filter (own_e sid) (s_proc (run evs s)) = filter (own_e sid) (s_proc s).
Proof.
  intros Hc0. induction evs as [|ev r IH]; intros s HI Hall; simpl; [auto|].
  inversion Hall as [|? ? Hev Hr]; subst.
  destruct (step_any_preserves sid c s ev Hc0 HI Hev) as [HI' Hp].
  destruct (IH _ HI' Hr) as [HI'' Hp']. split; [assumption|]. now rewrite Hp'.
Qed.

(* the first copy establishes the invariant: as an ordinary message ... *)
Theorem first_copy_establishes s t hdr b o sid d c :
  session_check (s_node s) hdr t = inl sid ->
  json_decode (stake body_limit b) = Some (d, c) ->
  st_leader (s_node s) = true ->
  Inv sid c (s_node (step s (EvPost t hdr b o))).
Proof.
  intros Hs Hj Hlead. unfold Post.step, Post.post_from. rewrite Hs.
  destruct (Post.post_handler json_decode (s_node s) sid b) as [| | |e] eqn:Hh.
  - unfold Post.post_handler in Hh. rewrite Hj in Hh. destruct (N.eqb _ c); [discriminate|].
    rewrite Hlead in Hh. discriminate.
  - unfold Post.post_handler in Hh. rewrite Hj in Hh. destruct (N.eqb_spec (last_post (s_node s) sid) c); [now right|].
    rewrite Hlead in Hh. discriminate.
  - unfold Post.post_handler in Hh. rewrite Hj, Hlead in Hh. destruct (N.eqb _ c); discriminate.
  - apply handler_propose in Hh. destruct Hh as (d' & c' & Hj' & _ & _ & ->). rewrite Hj in Hj'. inversion Hj'; subst.
    unfold commit. cbn [s_node]. exact (apply_establishes_inv o (s_node s) (with_id (mkEntry EIrc 0 sid c' (cut_line d') 0) (next_index s)) eq_refl).
Qed.

(* ... and as a message of death (the first copy panicked and the log entry was rewritten) *)
Theorem mod_copy_establishes s e o :
  e_type e = EMod -> Inv (e_session e) (e_cmid e) (s_node (step s (EvApply e o))).
Proof. intros Ht. cbn [Post.step]. unfold commit. cbn [s_node]. apply apply_establishes_inv. unfold is_client_msg. rewrite Ht. reflexivity. Qed.
End Handler.

(* ---- non-vacuity -------------------------------------------------------------------------------- *)
Definition ex_json (b : string) : option (string * N) :=
  if String.eqb b "m1" then Some ("PRIVMSG #c :hi" ++ String "010"%char "forged", 41%N)
  else if String.eqb b "m2" then Some ("QUIT", 42%N) else None.
Definition ex_sys : sys := mkSys [] ex_state [].
Definition ex_o := mkOracle [] true.

Example ex_first_then_retries :
  let s1 := step ex_json (fun st => st) ex_sys (EvPost "0x7" (Some "aa11") "m1" ex_o) in
  let s2 := run ex_json (fun st => st) [EvPost "7" (Some "aa11") "m1" ex_o; EvRestore; EvPost "0x9" (Some "bb22") "m2" (mkOracle [9%N] true);
                                        EvPost "0x7" (Some "aa11") "m1" ex_o] s1 in
  List.length (s_log s1) = 1 /\ List.length (s_log s2) = 2 /\ last_post (s_node s2) 7%N = 41%N /\
  map (fun eo => e_data (fst eo)) (s_log s1) = ["PRIVMSG #c :hi"] /\ is_live (s_node s2) 9%N = false.
Proof. vm_compute. repeat split; reflexivity. Qed.

Example ex_allowed :
  Forall (allowed ex_json 7%N 41%N)
    [EvPost "7" (Some "aa11") "m1" ex_o; EvRestore; EvPost "0x9" (Some "bb22") "m2" (mkOracle [9%N] true); EvPost "0x7" (Some "aa11") "m1" ex_o].
Proof.
  repeat constructor; simpl; intros H; try discriminate; eexists; reflexivity.
Qed.

(* D14: the retry is answered by a handler that still sees the state BEFORE the first copy
   (ex_state: marker 0) and therefore proposes it again; the second copy lands in the log, the
   state and the processed entries stay what they were *)
Example ex_lagging_handler :
  let s1 := step ex_json (fun st => st) ex_sys (EvPost "0x7" (Some "aa11") "m1" ex_o) in
  let s2 := step ex_json (fun st => st) s1 (EvPostFrom ex_state "0x7" (Some "aa11") "m1" ex_o) in
  List.length (s_log s1) = 1 /\ List.length (s_log s2) = 2 /\ s_node s2 = s_node s1 /\
  List.length (s_proc s1) = 1 /\ s_proc s2 = s_proc s1.
Proof. vm_compute. repeat split; reflexivity. Qed.
Example ex_allowed_any :
  Forall (allowed_any ex_json 7%N 41%N)
    [EvPostFrom ex_state "0x7" (Some "aa11") "m1" ex_o; EvRestore;
     EvApply (mkEntry EIrc 9 7 41 "PRIVMSG #c :hi" 0) ex_o; EvPost "0x9" (Some "bb22") "m2" (mkOracle [9%N] true)].
Proof.
  repeat constructor; simpl; try (intros H; try discriminate; eexists; reflexivity); try discriminate; auto.
Qed.
