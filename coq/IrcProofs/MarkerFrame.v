(* IrcProofs/MarkerFrame.v — "the sub-models fit together", part 0 (used by Refine.v, RefineSys.v).

   [mframe]: a logical relation over the handler monad (skeleton of Outputs.v): NO handler writes the
   client message id (s_cmid) or the secret (s_auth) of any client session (key (id, 0)), and no handler
   adds or removes a client session: deleteSessionLocked only MARKS sessions (they are removed by
   MaybeDeleteSession, outside ProcessMessage); the services NICK handler is the only handler that creates
   sessions, under keys (link id, fnv64 nick), which are not client keys as long as the hash is not 0 — this
   is where protocol conformance of a services line (Top.conforming: "no FNV collision") is needed, and it IS
   needed: Refine.marker_frame_needs_conformance_refuted.  Only Apply.update_last_cmid and create_session
   (called from apply_entry) write markers.
   Proved for all 55 handlers ([ok_dispatch]) and for ProcessMessage ([fr_process_message]). *)
From stdpp Require Import gmap.
From Coq Require Import Strings.String Strings.Ascii ZArith NArith Lia.
From RV Require Import Base.Text Irc.Str Irc.Parse Irc.State Irc.Monad Irc.Cmds Irc.SCmds Irc.Apply.
From RV Require IrcProofs.StrLemmas.
From RV Require Import IrcProofs.Top.
Local Open Scope string_scope.

(* ================================================================================================ *)
(* A. the marker frame                                                                              *)
(* ================================================================================================ *)
(* what the marker machine knows of a session *)
Definition mk (s : session) : N * string := (s_cmid s, s_auth s).

(* client sessions (keys (id, 0)): same set, same marker, same secret *)
Definition mframe (sv sv' : server) : Prop :=
  forall id : N, mk <$> (sv_sessions sv' !! (id, 0%N)) = mk <$> (sv_sessions sv !! (id, 0%N)).
Lemma mframe_refl sv : mframe sv sv. Proof. intros id. reflexivity. Qed.
Lemma mframe_trans a b c : mframe a b -> mframe b c -> mframe a c.
Proof. intros H1 H2 id. rewrite H2, H1. reflexivity. Qed.

Definition fr_at {A} (m : M A) (sv : server) (r : rctx) : Prop :=
  match m sv r with Ok (_, sv', _) => mframe sv sv' | _ => True end.
Definition fr_ok {A} (m : M A) : Prop := forall sv r, fr_at m sv r.

Lemma fr_at_bind {A B} (m : M A) (f : A -> M B) sv r :
  fr_at m sv r -> (forall a sv1 r1, m sv r = Ok (a, sv1, r1) -> fr_at (f a) sv1 r1) -> fr_at (bindM m f) sv r.
Proof.
  unfold fr_at, bindM. intros Hm Hf. destruct (m sv r) as [[[a sv1] r1]|?|?]; [|exact Logic.I|exact Logic.I].
  specialize (Hf a sv1 r1 eq_refl). destruct (f a sv1 r1) as [[[b sv2] r2]|?|?]; [|exact Logic.I|exact Logic.I].
  eapply mframe_trans; eauto.
Qed.

Lemma fr_ok_ret {A} (a : A) : fr_ok (retM a).
Proof. intros sv r. apply mframe_refl. Qed.
Lemma fr_ok_bind {A B} (m : M A) (f : A -> M B) : fr_ok m -> (forall a, fr_ok (f a)) -> fr_ok (bindM m f).
Proof. intros Hm Hf sv r. apply fr_at_bind; [apply Hm|]. intros a sv1 r1 _. apply Hf. Qed.
Lemma fr_ok_bind_ret {A B} (a : A) (f : A -> M B) : fr_ok (f a) -> fr_ok (bindM (retM a) f).
Proof. intros H sv r. exact (H sv r). Qed.
Lemma fr_ok_bind_panic {A B} s (f : A -> M B) : fr_ok (bindM (panicM s) f).
Proof. intros sv r. exact Logic.I. Qed.
Lemma fr_ok_panic {A} s : fr_ok (@panicM A s). Proof. intros sv r. exact Logic.I. Qed.
Lemma fr_ok_gap {A} s : fr_ok (@gapM A s). Proof. intros sv r. exact Logic.I. Qed.
Lemma fr_ok_getS : fr_ok getS. Proof. intros sv r. apply mframe_refl. Qed.
Lemma fr_ok_modS f : (forall sv, mframe sv (f sv)) -> fr_ok (modS f).
Proof. intros Hf sv r. apply Hf. Qed.
Lemma fr_ok_liftR {A} (x : res A) : fr_ok (liftR x).
Proof. intros sv r. unfold fr_at, liftR. destruct x; [apply mframe_refl|exact Logic.I|exact Logic.I]. Qed.
Lemma fr_ok_replyCount : fr_ok replyCount. Proof. intros sv r. apply mframe_refl. Qed.
Lemma fr_ok_emit rc m : fr_ok (emit rc m). Proof. intros sv r. apply mframe_refl. Qed.
Lemma fr_ok_whenM b m : fr_ok m -> fr_ok (whenM b m).
Proof. intros Hm. destruct b; [exact Hm|apply fr_ok_ret]. Qed.
Lemma fr_ok_forM {A} (l : list A) (f : A -> M unit) : (forall x, fr_ok (f x)) -> fr_ok (forM l f).
Proof. intros Hf. induction l as [|x l IH]; cbn [forM]; [apply fr_ok_ret|]. apply fr_ok_bind; [apply Hf|intros _; exact IH]. Qed.

(* the two primitives that touch the session map *)
Lemma fr_ok_updSess (k : N * N) f : (forall s, mk (f s) = mk s) -> fr_ok (updSess k f).
Proof.
  intros Hf sv r id. cbn [sv_sessions set_sessions].
  destruct (sv_sessions sv !! k) as [s|] eqn:Hs; [|reflexivity].
  destruct (decide (k = (id, 0%N))) as [->|Hne].
  - rewrite lookup_insert, Hs. cbn. now rewrite Hf.
  - now rewrite lookup_insert_ne.
Qed.
Lemma fr_ok_sess_fmap f : (forall s, mk (f s) = mk s) -> fr_ok (modS (set_sessions (fmap f))).
Proof.
  intros Hf. apply fr_ok_modS. intros sv id. cbn [sv_sessions set_sessions]. rewrite lookup_fmap.
  destruct (sv_sessions sv !! (id, 0%N)); cbn; [now rewrite Hf|reflexivity].
Qed.
(* createSessionLocked under a key that is not a client key *)
Lemma fr_ok_create_session (key : N * N) auth ts : snd key <> 0%N -> fr_ok (create_session key auth ts).
Proof.
  intros Hk sv r. unfold fr_at, create_session, bindM, getS, modS, retM.
  destruct (_ && _); [apply mframe_refl|]. intros id. cbn [sv_sessions set_sessions].
  rewrite lookup_insert_ne; [reflexivity|]. intros ->. now apply Hk.
Qed.

Ltac fr_step :=
  lazymatch goal with
  | |- fr_ok (bindM (retM _) _) => apply fr_ok_bind_ret
  | |- fr_ok (bindM (panicM _) _) => apply fr_ok_bind_panic
  | |- fr_ok (bindM _ _) => apply fr_ok_bind; [|intros ?]
  | |- fr_ok (retM _) => apply fr_ok_ret
  | |- fr_ok (panicM _) => apply fr_ok_panic
  | |- fr_ok (gapM _) => apply fr_ok_gap
  | |- fr_ok getS => apply fr_ok_getS
  | |- fr_ok (updSess _ _) => apply fr_ok_updSess; intros ?; reflexivity
  | |- fr_ok (modS (set_sessions (drop_invites _))) => apply fr_ok_sess_fmap; intros ?; reflexivity
  | |- fr_ok (modS (set_sessions (fmap _))) => apply fr_ok_sess_fmap; intros ?; reflexivity
  | |- fr_ok (modS _) => apply fr_ok_modS; intros ? ?; reflexivity
  | |- fr_ok (liftR _) => apply fr_ok_liftR
  | |- fr_ok replyCount => apply fr_ok_replyCount
  | |- fr_ok (emit _ _) => apply fr_ok_emit
  | |- fr_ok (whenM _ _) => apply fr_ok_whenM
  | |- fr_ok (forM _ _) => apply fr_ok_forM; intros ?
  | |- fr_ok (if ?b then _ else _) => destruct b
  | |- fr_ok (match ?x with _ => _ end) => destruct x
  | |- fr_ok (let _ := _ in _) => cbv zeta
  end.

(* the nickname hash of a services NICK line is not 0 (part of Top.conforming) *)
Definition hz (m : imsg) : Prop :=
  nparams m <> 1 -> forall p0, nth_error (m_params m) 0 = Some p0 -> fnv64 p0 <> 0%N.

Ltac fr_unf := unfold reply_num, reply_svc, sessM, updChan, chanM, nickM, cfgM, param, prefix_name, msg_prefix,
                chanop_of, captcha_url_check, add_member, leave_channel, maybe_delete_channel,
                remove_nick_everywhere, rename_in_channels, change_nick.
Ltac fr_go := repeat (first [ fr_step | assumption | progress fr_unf ]).

Section FrameHandlers.
  Ltac unf := fr_unf.
  Ltac go := fr_go.

  Lemma ok_delete_session k : fr_ok (delete_session k).
  Proof. unfold delete_session. unf. go. Qed.
  Lemma ok_verify_captcha e k c : fr_ok (verify_captcha e k c).
  Proof. unfold verify_captcha. unf. go. Qed.
  Lemma ok_cmd_motd k m : fr_ok (cmd_motd k m).
  Proof. unfold cmd_motd. unf. go. Qed.
  Lemma ok_cmd_oper k m : fr_ok (cmd_oper k m).
  Proof. unfold cmd_oper. unf. go. Qed.
  Lemma ok_maybe_login e k m : fr_ok (maybe_login e k m).
  Proof.
    unfold maybe_login. unf. go; try apply ok_verify_captcha; try apply ok_cmd_oper; try apply ok_cmd_motd.
  Qed.
  Lemma ok_cmd_nick e k m : fr_ok (cmd_nick e k m).
  Proof. unfold cmd_nick. unf. go; try apply ok_maybe_login. Qed.
  Lemma ok_cmd_user e k m : fr_ok (cmd_user e k m).
  Proof. unfold cmd_user. unf. go; try apply ok_maybe_login. Qed.
  Lemma ok_cmd_pass e k m : fr_ok (cmd_pass e k m).
  Proof. unfold cmd_pass. unf. go; try apply ok_maybe_login. Qed.
  Lemma ok_mode_step k lc ch op md q : fr_ok (cmd_mode_chan_step k lc ch op md q).
  Proof. unfold cmd_mode_chan_step. unf. go. Qed.
  Lemma ok_mode_loop k lc ch op mds q : fr_ok (cmd_mode_chan_loop k lc ch op mds q).
  Proof.
    revert q. induction mds as [|md mds IH]; intros q; cbn [cmd_mode_chan_loop]; [apply fr_ok_ret|].
    apply fr_ok_bind; [apply ok_mode_step|]. intros st. destruct (fst st); [apply fr_ok_ret|apply IH].
  Qed.
  Lemma ok_cmd_mode k m : fr_ok (cmd_mode k m).
  Proof. unfold cmd_mode. unf. go; try apply ok_mode_loop. Qed.
  Lemma ok_cmd_topic k m : fr_ok (cmd_topic k m).
  Proof. unfold cmd_topic. unf. go. Qed.
  Lemma ok_cmd_names k m : fr_ok (cmd_names k m).
  Proof. unfold cmd_names. unf. go. Qed.
  Lemma ok_join_one e k ch key : fr_ok (join_one e k ch key).
  Proof. unfold join_one. unf. go; try apply ok_verify_captcha; try apply ok_cmd_mode; try apply ok_cmd_topic; try apply ok_cmd_names. Qed.
  Lemma ok_cmd_join e k m : fr_ok (cmd_join e k m).
  Proof. unfold cmd_join. unf. go; try apply ok_join_one. Qed.
  Lemma ok_cmd_part k m : fr_ok (cmd_part k m).
  Proof. unfold cmd_part. unf. go. Qed.
  Lemma ok_cmd_kick k m : fr_ok (cmd_kick k m).
  Proof. unfold cmd_kick. unf. go. Qed.
  Lemma ok_cmd_invite k m : fr_ok (cmd_invite k m).
  Proof. unfold cmd_invite. unf. go. Qed.
  Lemma ok_cmd_privmsg k m : fr_ok (cmd_privmsg k m).
  Proof. unfold cmd_privmsg. unf. go. Qed.
  Lemma ok_cmd_service_alias k m : fr_ok (cmd_service_alias k m).
  Proof. unfold cmd_service_alias. unf. go; try apply ok_cmd_privmsg. Qed.
  Lemma ok_cmd_who k m : fr_ok (cmd_who k m).
  Proof. unfold cmd_who. unf. go. Qed.
  Lemma ok_cmd_whois k m : fr_ok (cmd_whois k m).
  Proof. unfold cmd_whois. unf. go. Qed.
  Lemma ok_cmd_list k m : fr_ok (cmd_list k m).
  Proof. unfold cmd_list. unf. go. Qed.
  Lemma ok_cmd_away k m : fr_ok (cmd_away k m).
  Proof. unfold cmd_away. unf. go. Qed.
  Lemma ok_cmd_ison k m : fr_ok (cmd_ison k m).
  Proof. unfold cmd_ison. unf. go. Qed.
  Lemma ok_cmd_userhost k m : fr_ok (cmd_userhost k m).
  Proof. unfold cmd_userhost. unf. go. Qed.
  Lemma ok_cmd_knock k m : fr_ok (cmd_knock k m).
  Proof. unfold cmd_knock. unf. go. Qed.
  Lemma ok_cmd_ping k m : fr_ok (cmd_ping k m).
  Proof. unfold cmd_ping. unf. go. Qed.
  Lemma ok_cmd_quit k m : fr_ok (cmd_quit k m).
  Proof. unfold cmd_quit. unf. go; try apply ok_delete_session. Qed.
  Lemma ok_cmd_kill k m : fr_ok (cmd_kill k m).
  Proof. unfold cmd_kill. unf. go; try apply ok_delete_session. Qed.
  Lemma ok_cmd_gline k m : fr_ok (cmd_gline k m).
  Proof. unfold cmd_gline. unf. go; try apply ok_cmd_kill. Qed.
  (* services *)
  Lemma ok_burst_one sv t : fr_ok (burst_one sv t).
  Proof. unfold burst_one. unf. go. Qed.
  Lemma ok_cmd_server k m : fr_ok (cmd_server k m).
  Proof. unfold cmd_server. unf. go; try apply ok_burst_one. Qed.
  (* the only handler that creates sessions: under the key (link id, fnv64 nick) *)
  Lemma ok_cmd_server_nick k m : hz m -> fr_ok (cmd_server_nick k m).
  Proof.
    intros Hz. unfold cmd_server_nick. destruct (Nat.eqb (nparams m) 1) eqn:E1; [apply fr_ok_ret|].
    apply Nat.eqb_neq in E1. unfold param at 1. destruct (nth_error (m_params m) 0) as [p0|] eqn:Hp0; [|go].
    unf. go. apply fr_ok_create_session. cbn [snd]. now apply Hz.
  Qed.
  Lemma ok_quit_pseudo tk m : fr_ok (quit_pseudo tk m).
  Proof. unfold quit_pseudo. unf. go; try apply ok_delete_session. Qed.
  Lemma ok_cmd_server_quit k m : fr_ok (cmd_server_quit k m).
  Proof. unfold cmd_server_quit. unf. go; try apply ok_delete_session; try apply ok_quit_pseudo. Qed.
  Lemma ok_cmd_server_kill k m : fr_ok (cmd_server_kill k m).
  Proof. unfold cmd_server_kill. unf. go; try apply ok_delete_session. Qed.
  Lemma ok_cmd_server_join k m : fr_ok (cmd_server_join k m).
  Proof. unfold cmd_server_join. unf. go. Qed.
  Lemma ok_cmd_server_part k m : fr_ok (cmd_server_part k m).
  Proof. unfold cmd_server_part. unf. go. Qed.
  Lemma ok_cmd_server_kick k m : fr_ok (cmd_server_kick k m).
  Proof. unfold cmd_server_kick. unf. go. Qed.
  Lemma ok_cmd_server_svsjoin k m : fr_ok (cmd_server_svsjoin k m).
  Proof. unfold cmd_server_svsjoin. unf. go; try apply ok_cmd_topic; try apply ok_cmd_names. Qed.
  Lemma ok_cmd_server_svspart k m : fr_ok (cmd_server_svspart k m).
  Proof. unfold cmd_server_svspart. unf. go. Qed.
  Lemma ok_cmd_server_svsnick k m : fr_ok (cmd_server_svsnick k m).
  Proof. unfold cmd_server_svsnick. unf. go. Qed.
  Lemma ok_cmd_server_mode k m : fr_ok (cmd_server_mode k m).
  Proof. unfold cmd_server_mode. unf. go. Qed.
  Lemma ok_cmd_server_topic k m : fr_ok (cmd_server_topic k m).
  Proof. unfold cmd_server_topic. unf. go. Qed.
  Lemma ok_cmd_server_invite k m : fr_ok (cmd_server_invite k m).
  Proof. unfold cmd_server_invite. unf. go. Qed.
  Lemma ok_cmd_server_privmsg k m : fr_ok (cmd_server_privmsg k m).
  Proof. unfold cmd_server_privmsg. unf. go. Qed.
  Lemma ok_cmd_server_svshold k m : fr_ok (cmd_server_svshold k m).
  Proof. unfold cmd_server_svshold. unf. go. Qed.
  Lemma ok_cmd_server_svsmode k m : fr_ok (cmd_server_svsmode k m).
  Proof. unfold cmd_server_svsmode. unf. go. Qed.

  Lemma ok_dispatch name minp (f : handler) e k m :
    In (name, (minp, f)) commands -> (name = "server_NICK" -> hz m) -> fr_ok (f e k m).
  Proof.
    intros Hin Hz. unfold commands in Hin.
    repeat (destruct Hin as [Hin|Hin]; [injection Hin as <- <- <-|]); try contradiction; unfold noenv;
      first [ apply ok_cmd_service_alias | apply ok_cmd_away | apply ok_cmd_gline | apply ok_cmd_invite | apply ok_cmd_ison
            | apply ok_cmd_join | apply ok_cmd_kick | apply ok_cmd_kill | apply ok_cmd_knock | apply ok_cmd_list | apply ok_cmd_mode
            | apply ok_cmd_motd | apply ok_cmd_names | apply ok_cmd_nick | apply ok_cmd_oper | apply ok_cmd_part | apply ok_cmd_pass
            | apply ok_cmd_ping | apply ok_cmd_privmsg | apply ok_cmd_quit | apply ok_cmd_topic | apply ok_cmd_user
            | apply ok_cmd_userhost | apply ok_cmd_who | apply ok_cmd_whois | apply ok_cmd_server
            | apply ok_cmd_server_invite | apply ok_cmd_server_join | apply ok_cmd_server_kick | apply ok_cmd_server_kill
            | apply ok_cmd_server_mode | (apply ok_cmd_server_nick; apply Hz; reflexivity) | apply ok_cmd_server_part
            | apply ok_cmd_server_privmsg
            | apply ok_cmd_server_quit | apply ok_cmd_server_svshold | apply ok_cmd_server_svsjoin | apply ok_cmd_server_svsmode
            | apply ok_cmd_server_svsnick | apply ok_cmd_server_svspart | apply ok_cmd_server_topic ].
  Qed.
End FrameHandlers.

(* ---- ProcessMessage: the services NICK handler runs only for a session that is a link ----------- *)
Definition nick_ok (sv : server) (k : N * N) (ircmsg : option imsg) : Prop :=
  forall s m, sv_sessions sv !! k = Some s -> s_server s = true -> ircmsg = Some m ->
    to_upper (m_cmd m) = "NICK" -> hz m.

Lemma line_ok_nick_ok sv k ircmsg : line_ok sv k ircmsg -> nick_ok sv k ircmsg.
Proof.
  intros H s m Hs Hsrv Hm Hcmd. pose proof (H s m Hs Hsrv Hm) as C. rewrite Hcmd in C.
  destruct (cf_nick _ _ _ _ C eq_refl) as [H1|[H4 Hf]].
  - intros Hn. contradiction.
  - intros _ p0 Hp0. apply (Hf p0 Hp0).
Qed.

Lemma sessM_inv (k : N * N) sv r s sv1 r1 :
  sessM k sv r = Ok (s, sv1, r1) -> sv1 = sv /\ r1 = r /\ sv_sessions sv !! k = Some s.
Proof.
  unfold sessM, bindM, getS, retM, gapM. destruct (sv_sessions sv !! k) as [s0|]; [|discriminate].
  intros [= <- <- <-]. auto.
Qed.
Lemma ok_sessM (k : N * N) : fr_ok (sessM k).
Proof. fr_go. Qed.

(* the address-ban test of ProcessMessage *)
Definition ban_block (k : N * N) (ra : string) (s : session) : M bool :=
  if negb (is_empty ra) && negb (String.eqb ra (s_remoteAddr s)) then
    updSess k (ss_remoteAddr ra) ;;;
    DO g <- cfgM IN
    match g_banned g !! ra with
    | Some reason =>
        if is_empty reason then retM false
        else emit (rc_user k) (noprefix "ERROR" ["Closing Link: You are banned (" ++ reason ++ ")"]) ;;;
             delete_session k ;;; retM true
    | None => retM false
    end
  else retM false.
Lemma ok_ban_block k ra s : fr_ok (ban_block k ra s).
Proof. unfold ban_block. fr_go; apply ok_delete_session. Qed.
Lemma ban_block_false k ra s sv r sv1 r1 :
  ban_block k ra s sv r = Ok (false, sv1, r1) ->
  s_server <$> (sv_sessions sv1 !! k) = s_server <$> (sv_sessions sv !! k).
Proof.
  unfold ban_block. destruct (_ && _); [|unfold retM; intros [= <- <-]; reflexivity].
  assert (Hk : s_server <$> (sv_sessions (set_sessions (fun m : gmap (N * N) session =>
                  match m !! k with Some s0 => <[k := ss_remoteAddr ra s0]> m | None => m end) sv) !! k)
               = s_server <$> (sv_sessions sv !! k)).
  { cbn [sv_sessions set_sessions]. destruct (sv_sessions sv !! k) as [s0|] eqn:E; [|now rewrite E].
    rewrite lookup_insert. reflexivity. }
  cbv [bindM updSess modS cfgM getS retM emit].
  destruct (g_banned _ !! ra) as [reason|]; [destruct (is_empty reason)|].
  - intros [= <- <-]. exact Hk.
  - destruct (delete_session k _ _) as [[[? ?] ?]|?|?]; discriminate.
  - intros [= <- <-]. exact Hk.
Qed.

Lemma server_name_nick x : "server_" ++ x = "server_NICK" -> x = "NICK".
Proof. intros H. cbn in H. now injection H. Qed.

Ltac fr_close :=
  lazymatch goal with
  | |- fr_at ?m ?sv ?r =>
      let H := fresh in assert (H : fr_ok m) by (fr_go; try apply ok_delete_session); exact (H sv r)
  end.

Theorem fr_process_message e k ra ircmsg sv r :
  nick_ok sv k ircmsg -> fr_at (process_message e k ra ircmsg) sv r.
Proof.
  intros Hn. unfold process_message.
  apply fr_at_bind; [apply ok_sessM|]. intros s sv0 r0 Hs0. apply sessM_inv in Hs0. destruct Hs0 as (-> & -> & Hs).
  destruct ircmsg as [m|]; [|fr_close]. cbv zeta.
  apply fr_at_bind; [apply (ok_ban_block k ra s)|]. intros banned sv1 r1 Hb.
  destruct banned; [apply fr_ok_ret|]. apply (ban_block_false k ra s) in Hb.
  apply fr_at_bind; [apply ok_sessM|]. intros s1 sv1' r1' Hs1. apply sessM_inv in Hs1. destruct Hs1 as (-> & -> & Hs1).
  destruct (_ && _ && _); [fr_close|].
  destruct (assoc_str _ commands) as [[minp f]|] eqn:Hc; [|fr_close].
  destruct (Nat.ltb _ _); [fr_close|].
  eapply ok_dispatch; [eapply assoc_str_In; exact Hc|].
  intros Hname. rewrite Hs1, Hs in Hb. cbn in Hb. injection Hb as Hb. destruct (s_server s1) eqn:Hsrv.
  - apply (Hn s m Hs); [congruence|reflexivity|]. now apply server_name_nick.
  - exfalso. cbn [String.append] in Hname. revert Hname. apply StrLemmas.to_upper_not_s.
Qed.

Print Assumptions ok_dispatch.
Print Assumptions fr_process_message.
