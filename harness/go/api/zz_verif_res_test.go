//go:build verif

package api

// Correspondence driver for property C04 (injected by `go test -overlay`, never part of
// /repo).  Tied to the code by the NAME getMessages only (parameters recognised by type, see
// verifResCallPlan).  Runs the real getMessages goroutine against real OutputStreams (one per node,
// LevelDB under $TMPDIR) and plays the HTTP handler's per-session filter and the client.
//
//   res <session> <id>.<reply> <step>*
//     a:<node>:<id>:<batch>  node applies a batch (OutputStream.Add); batch = msg{,msg}*,
//                            msg = <reply>/<hex text|->/<rcpt{+rcpt}*|->
//     d:<node>:<id>          node compacts (OutputStream.Delete)
//     c:<node>               client connects to <node> with the id of the last message it received;
//                            the driver waits until the handler is parked in GetNext or has handed
//                            over a batch
//     r:<k>                  client receives up to k messages (k=0: as many as there are) until the
//                            handler is parked in GetNext with nothing in flight
//     w:<node>               another reader walks the node's whole stream (fills and trims the batch cache)
//     x                      client disconnects (context cancelled, InterruptGetNext); what is in
//                            flight is lost
//   result: res {a=ok|d=ok|c=ok|x=ok|r=<id.reply/hex{,..}|->}* last=<id>.<reply>
//   A handler goroutine that panics ends the case: c=panic / r=...!panic when the driver sees it
//   at once, <step>=handler-panic when it is noticed before a later step, <step>=deadlock when a
//   node operation cannot get the stream's mutex any more (the goroutine died inside GetNext
//   holding it).  A handler that neither parks nor sends within the deadline gives !timeout.

import (
	"bufio"
	"context"
	"encoding/hex"
	"fmt"
	"os"
	"reflect"
	"runtime"
	"strconv"
	"strings"
	"sync"
	"testing"
	"time"
	"unsafe"

	"github.com/robustirc/robustirc/internal/outputstream"
	"github.com/robustirc/robustirc/internal/robust"
)

func verifResU64(s string) uint64 {
	n, err := strconv.ParseUint(s, 10, 64)
	if err != nil {
		panic("verif: bad number " + s)
	}
	return n
}

func verifResParseBatch(id uint64, s string) []outputstream.Message {
	if s == "-" {
		return []outputstream.Message{}
	}
	var msgs []outputstream.Message
	for _, m := range strings.Split(s, ",") {
		p := strings.Split(m, "/")
		if len(p) != 3 {
			panic("verif: malformed message " + m)
		}
		data := ""
		if p[1] != "-" {
			b, err := hex.DecodeString(p[1])
			if err != nil {
				panic(err)
			}
			data = string(b)
		}
		rc := make(map[uint64]bool)
		if p[2] != "-" {
			for _, r := range strings.Split(p[2], "+") {
				rc[verifResU64(r)] = true
			}
		}
		msgs = append(msgs, outputstream.Message{Id: robust.Id{Id: id, Reply: verifResU64(p[0])}, Data: data, InterestingFor: rc})
	}
	return msgs
}

// number of goroutines logically waiting on the stream's condition variable
func verifResParked(o *outputstream.OutputStream) int {
	nl := reflect.ValueOf(o).Elem().FieldByName("newMessage").Elem().FieldByName("notify")
	return int(uint32(nl.FieldByName("wait").Uint()) - uint32(nl.FieldByName("notify").Uint()))
}

// verifResWait scales a wall-clock bound: the bounds only cost time when something is really
// stuck, so they are generous; $VERIF_WAIT_SCALE multiplies them (the check re-runs a scenario
// that timed out in isolation with larger bounds before it reports it).
func verifResWait(d time.Duration) time.Duration {
	if s, err := strconv.ParseFloat(os.Getenv("VERIF_WAIT_SCALE"), 64); err == nil && s > 0 {
		return time.Duration(float64(d) * s)
	}
	return d
}

// verifResGuard runs a node operation; false if it did not finish in time (the stream's mutex
// is held by a handler goroutine that died inside GetNext) or panicked.
func verifResGuard(d time.Duration, f func()) (done bool, panicked bool) {
	ch := make(chan bool, 1)
	go func() {
		defer func() {
			if e := recover(); e != nil {
				ch <- true
			}
		}()
		f()
		ch <- false
	}()
	select {
	case p := <-ch:
		return true, p
	case <-time.After(d):
		return false, false
	}
}

// ---- calling getMessages without depending on its exact parameter list ------------------
// The driver is tied to the NAME getMessages only.  Its parameters are recognised by type:
// the receiver, a context, the channel of message batches, robust.Id values (one: the resume
// position; two: session and resume position, their order is found by a calibration run),
// a uint64 / string (the session id); anything else gets its zero value.  A refactoring of the
// signature therefore does not break the tie; a change of behaviour is left to the monitor.
type verifResCallPlan struct {
	fn         reflect.Value
	kinds      []string
	ids        []int // indexes of the robust.Id parameters
	sessIdx    int   // which of them is the session (-1: none)
	lastIdx    int
	err        string
	calibrated string
}

var verifResPlan *verifResCallPlan

func verifResMakePlan() *verifResCallPlan {
	pl := &verifResCallPlan{fn: reflect.ValueOf((*HTTP).getMessages), sessIdx: -1, lastIdx: -1}
	t := pl.fn.Type()
	ctxT := reflect.TypeOf((*context.Context)(nil)).Elem()
	batchT := reflect.TypeOf([]*robust.Message(nil))
	hasChan := false
	for i := 0; i < t.NumIn(); i++ {
		pt := t.In(i)
		switch {
		case pt == reflect.TypeOf((*HTTP)(nil)):
			pl.kinds = append(pl.kinds, "recv")
		case pt == ctxT:
			pl.kinds = append(pl.kinds, "ctx")
		case pt == reflect.TypeOf(robust.Id{}):
			pl.kinds = append(pl.kinds, "id")
			pl.ids = append(pl.ids, i)
		case pt.Kind() == reflect.Chan && pt.Elem() == batchT && pt.ChanDir()&reflect.SendDir != 0:
			pl.kinds = append(pl.kinds, "chan")
			hasChan = true
		case pt.Kind() == reflect.Uint64:
			pl.kinds = append(pl.kinds, "sessnum")
		case pt.Kind() == reflect.String:
			pl.kinds = append(pl.kinds, "sessstr")
		default:
			pl.kinds = append(pl.kinds, "zero")
		}
	}
	if !hasChan || len(pl.ids) == 0 {
		pl.err = "getMessages has no recognisable (robust.Id, chan<- []*robust.Message) parameters: " + t.String()
		return pl
	}
	pl.lastIdx = pl.ids[len(pl.ids)-1]
	if len(pl.ids) >= 2 {
		pl.sessIdx = pl.ids[0]
	}
	return pl
}

func (pl *verifResCallPlan) call(h *HTTP, ctx context.Context, sess uint64, lastSeen robust.Id, ch chan []*robust.Message) {
	t := pl.fn.Type()
	args := make([]reflect.Value, t.NumIn())
	for i, k := range pl.kinds {
		switch k {
		case "recv":
			args[i] = reflect.ValueOf(h)
		case "ctx":
			args[i] = reflect.ValueOf(ctx)
		case "chan":
			args[i] = reflect.ValueOf(ch).Convert(t.In(i))
		case "sessnum":
			args[i] = reflect.ValueOf(sess).Convert(t.In(i))
		case "sessstr":
			args[i] = reflect.ValueOf(strconv.FormatUint(sess, 10)).Convert(t.In(i))
		case "id":
			switch i {
			case pl.lastIdx:
				args[i] = reflect.ValueOf(lastSeen)
			case pl.sessIdx:
				args[i] = reflect.ValueOf(robust.Id{Id: sess})
			default:
				args[i] = reflect.Zero(t.In(i))
			}
		default:
			args[i] = reflect.Zero(t.In(i))
		}
	}
	pl.fn.Call(args)
}

// verifResNewHTTP builds the receiver: only the output stream is needed by getMessages.
func verifResNewHTTP(o *outputstream.OutputStream) (*HTTP, string) {
	h := &HTTP{}
	v := reflect.ValueOf(h).Elem()
	f := v.FieldByName("outputUnlocked")
	if !f.IsValid() || f.Type() != reflect.TypeOf(o) {
		f = reflect.Value{}
		for i := 0; i < v.NumField(); i++ {
			if v.Field(i).Type() == reflect.TypeOf(o) {
				f = v.Field(i)
				break
			}
		}
	}
	if !f.IsValid() {
		return nil, "api.HTTP has no *outputstream.OutputStream field"
	}
	reflect.NewAt(f.Type(), unsafe.Pointer(f.UnsafeAddr())).Elem().Set(reflect.ValueOf(o))
	return h, ""
}

// verifResCalibrate finds out which robust.Id parameter is the resume position when there are
// two: with the stream {3, 6} (both for session 1) and the pair (session 1, lastseen 5.0) the
// right assignment delivers batch 6 first.
func (pl *verifResCallPlan) calibrate(tmp string) {
	if len(pl.ids) < 2 {
		return
	}
	try := func(sessIdx, lastIdx int) bool {
		o, err := outputstream.NewOutputStream(tmp)
		if err != nil {
			return false
		}
		defer o.Close()
		for _, id := range []uint64{3, 6} {
			o.Add([]outputstream.Message{{Id: robust.Id{Id: id, Reply: 1}, Data: "x", InterestingFor: map[uint64]bool{1: true}}})
		}
		h, herr := verifResNewHTTP(o)
		if herr != "" {
			return false
		}
		cand := *pl
		cand.sessIdx, cand.lastIdx = sessIdx, lastIdx
		ctx, cancel := context.WithCancel(context.Background())
		ch := make(chan []*robust.Message)
		exited := make(chan struct{})
		go func() {
			defer close(exited)
			defer func() { recover() }()
			cand.call(h, ctx, 1, robust.Id{Id: 5}, ch)
		}()
		ok := false
		select {
		case b := <-ch:
			ok = len(b) > 0 && b[0].Id.Id == 6
		case <-exited:
		case <-time.After(verifResWait(10 * time.Second)):
		}
		cancel()
		verifResGuard(verifResWait(10*time.Second), func() { o.InterruptGetNext() })
		select {
		case <-exited:
		case <-time.After(verifResWait(10 * time.Second)):
		}
		return ok
	}
	a, b := pl.ids[0], pl.ids[len(pl.ids)-1]
	switch {
	case try(a, b):
		pl.sessIdx, pl.lastIdx, pl.calibrated = a, b, "session,lastseen"
	case try(b, a):
		pl.sessIdx, pl.lastIdx, pl.calibrated = b, a, "lastseen,session"
	default:
		pl.calibrated = "undetermined"
	}
}

type verifConn struct {
	node    *outputstream.OutputStream
	cancel  context.CancelFunc
	ch      chan []*robust.Message
	exited  chan struct{}
	mu      sync.Mutex
	paniced bool
}

func verifResRunCase(f []string, tmp string) string {
	out := []string{"res"}
	if len(f) < 3 {
		return "res malformed"
	}
	sess := verifResU64(f[1])
	lp := strings.Split(f[2], ".")
	last := robust.Id{Id: verifResU64(lp[0]), Reply: verifResU64(lp[1])}
	nodes := map[string]*outputstream.OutputStream{}
	node := func(k string) *outputstream.OutputStream {
		if o, ok := nodes[k]; ok {
			return o
		}
		o, err := outputstream.NewOutputStream(tmp)
		if err != nil {
			panic(err)
		}
		nodes[k] = o
		return o
	}
	var conn *verifConn
	var pending []*robust.Message
	deadlineDur := verifResWait(10 * time.Second)

	poisoned := false
	disconnect := func() {
		if conn == nil {
			return
		}
		conn.cancel()
		c := conn
		if done, _ := verifResGuard(deadlineDur, func() { c.node.InterruptGetNext() }); !done {
			poisoned = true
		}
		select {
		case <-conn.exited:
		case <-time.After(deadlineDur):
		}
		conn = nil
		pending = nil
	}
	hasPaniced := func() bool {
		if conn == nil {
			return false
		}
		conn.mu.Lock()
		defer conn.mu.Unlock()
		return conn.paniced
	}
	// pull: try to take one batch from the handler; returns (got, quiescent, timeout)
	pull := func(deadline time.Time) (bool, bool, bool) {
		for {
			select {
			case b := <-conn.ch:
				pending = b
				return true, false, false
			default:
			}
			select {
			case <-conn.exited:
				return false, true, false
			default:
			}
			if verifResParked(conn.node) == 1 {
				return false, true, false
			}
			if time.Now().After(deadline) {
				return false, false, true
			}
			time.Sleep(100 * time.Microsecond)
		}
	}

loop:
	for _, tok := range f[3:] {
		p := strings.Split(tok, ":")
		switch p[0] {
		case "a", "d":
			if hasPaniced() {
				out = append(out, p[0]+"=handler-panic")
				poisoned = true
				break loop
			}
			o := node(p[1])
			done, panicked := verifResGuard(deadlineDur, func() {
				if p[0] == "a" {
					if err := o.Add(verifResParseBatch(verifResU64(p[2]), p[3])); err != nil {
						panic(err)
					}
				} else {
					o.Delete(robust.Id{Id: verifResU64(p[2])})
				}
			})
			if !done {
				out = append(out, p[0]+"=deadlock")
				poisoned = true
				break loop
			}
			if panicked {
				out = append(out, p[0]+"=panic")
			} else {
				out = append(out, p[0]+"=ok")
			}
		case "c":
			if hasPaniced() {
				out = append(out, p[0]+"=handler-panic")
				poisoned = true
				break loop
			}
			disconnect()
			if poisoned {
				out = append(out, "c=deadlock")
				break loop
			}
			ctx, cancel := context.WithCancel(context.Background())
			c := &verifConn{node: node(p[1]), cancel: cancel, ch: make(chan []*robust.Message), exited: make(chan struct{})}
			h, herr := verifResNewHTTP(c.node)
			if herr != "" {
				return "res harness-error:" + herr
			}
			ls := last
			go func() {
				defer close(c.exited)
				defer func() {
					if e := recover(); e != nil {
						c.mu.Lock()
						c.paniced = true
						c.mu.Unlock()
					}
				}()
				verifResPlan.call(h, ctx, sess, ls, c.ch)
			}()
			conn = c
			_, _, timeout := pull(time.Now().Add(deadlineDur))
			if hasPaniced() {
				out = append(out, "c=panic")
				poisoned = true
				break loop
			}
			if timeout {
				out = append(out, "c=ok!timeout")
			} else {
				out = append(out, "c=ok")
			}
		case "w":
			// warm-up: another reader (think of the other sessions' GetMessages requests) walks the
			// node's whole stream, so that the stream's batch cache is filled and trimmed
			o := node(p[1])
			done, _ := verifResGuard(verifResWait(60*time.Second), func() {
				cctx, ccancel := context.WithCancel(context.Background())
				ccancel()
				cur := uint64(0)
				for n := 0; n < 1000000; n++ {
					msgs := o.GetNext(cctx, robust.Id{Id: cur})
					if len(msgs) == 0 || msgs[0].Id.Id <= cur {
						break
					}
					cur = msgs[0].Id.Id
				}
			})
			if !done {
				out = append(out, "w=deadlock")
				poisoned = true
				break loop
			}
			out = append(out, "w=ok")
		case "x":
			if hasPaniced() {
				out = append(out, p[0]+"=handler-panic")
				poisoned = true
				break loop
			}
			disconnect()
			if poisoned {
				out = append(out, "x=deadlock")
				break loop
			}
			out = append(out, "x=ok")
		case "r":
			k := int(verifResU64(p[1]))
			var got []string
			mark := ""
			deadline := time.Now().Add(deadlineDur)
			for k == 0 || len(got) < k {
				if len(pending) > 0 {
					m := pending[0]
					pending = pending[1:]
					// the filter of handleGetMessages
					if m.Type != robust.Ping && !m.InterestingFor[sess] {
						continue
					}
					d := "-"
					if m.Data != "" {
						d = hex.EncodeToString([]byte(m.Data))
					}
					got = append(got, fmt.Sprintf("%d.%d/%s", m.Id.Id, m.Id.Reply, d))
					last = m.Id
					continue
				}
				if conn == nil {
					break
				}
				gotOne, _, timeout := pull(deadline)
				if hasPaniced() {
					mark = "!panic"
					break
				}
				if timeout {
					mark = "!timeout"
					break
				}
				if !gotOne {
					break
				}
			}
			s := "-"
			if len(got) > 0 {
				s = strings.Join(got, ",")
			}
			out = append(out, "r="+s+mark)
			if mark == "!panic" {
				poisoned = true
				break loop
			}
		default:
			out = append(out, p[0]+"=unknown-step")
		}
	}
	if !poisoned {
		disconnect()
	}
	if !poisoned {
		for _, o := range nodes {
			o.Close()
		}
	}
	out = append(out, fmt.Sprintf("last=%d.%d", last.Id, last.Reply))
	return strings.Join(out, " ")
}

func TestVerifRes(t *testing.T) {
	in, err := os.Open(os.Getenv("VERIF_IN"))
	if err != nil {
		t.Fatal(err)
	}
	defer in.Close()
	var cases [][]string
	sc := bufio.NewScanner(in)
	sc.Buffer(make([]byte, 1<<20), 1<<26)
	for sc.Scan() {
		f := strings.Fields(sc.Text())
		if len(f) == 0 {
			continue
		}
		cases = append(cases, f)
	}
	tmp := t.TempDir()
	results := make([]string, len(cases))
	verifResPlan = verifResMakePlan()
	if verifResPlan.err == "" {
		verifResPlan.calibrate(tmp)
	}
	t.Logf("getMessages signature: %s (plan %v, calibration %q)", verifResPlan.fn.Type(), verifResPlan.kinds, verifResPlan.calibrated)
	var wg sync.WaitGroup
	width := 4 * runtime.NumCPU()
	if width < 16 {
		width = 16
	}
	sem := make(chan struct{}, width)
	for i := range cases {
		wg.Add(1)
		sem <- struct{}{}
		go func(i int) {
			defer wg.Done()
			defer func() { <-sem }()
			defer func() {
				if e := recover(); e != nil {
					results[i] = fmt.Sprintf("res harness-error:%v", e)
				}
			}()
			if cases[i][0] != "res" {
				results[i] = "unknown-case-kind"
				return
			}
			if verifResPlan.err != "" {
				results[i] = "res harness-error:" + strings.ReplaceAll(verifResPlan.err, " ", "_")
				return
			}
			results[i] = verifResRunCase(cases[i], tmp)
		}(i)
	}
	wg.Wait()
	out, err := os.Create(os.Getenv("VERIF_OUT"))
	if err != nil {
		t.Fatal(err)
	}
	defer out.Close()
	w := bufio.NewWriter(out)
	defer w.Flush()
	for _, r := range results {
		fmt.Fprintln(w, r)
	}
}
