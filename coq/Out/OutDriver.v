(* Out/OutDriver.v — case-file driver of the output-stream and resume models.
   (op k = Close)
   out  <op>*      sequential program            (harness/go/outputstream/zz_verif_out_test.go)
   outc <step>*    scripted concurrent scenario: after every step all readers run until parked
   outs <step>*    explicit schedule under the schedsync shim: steps are labels of OutConc.cstep,
                   r:<t> = one lock-protected section of reader t
   res  <sess> <id>.<reply> <step>*   resume scenario (harness/go/api/zz_verif_res_test.go)
   Token syntax and result lines are documented in the Go drivers; both sides print the same. *)
From RV Require Import Base.Text.
From stdpp Require Import gmap.
From RV Require Import Out.OutSeq Out.OutConc Out.Resume.
Local Open Scope string_scope.

Definition colon (s : string) : list string := split_on ":"%char s.

Definition parse_rcpt (s : string) : list N :=
  if String.eqb s "-" then []
  else flat_map (fun x => match N_of_dec x with Some n => [n] | None => [] end) (split_on "+"%char s).

Definition parse_msg (s : string) : list msg :=
  match split_on "/"%char s with
  | [r; t; rc] =>
      match N_of_dec r with
      | Some rn => [Msg rn (unhex_field t) (parse_rcpt rc)]
      | None => []
      end
  | _ => []
  end.

Definition parse_batch (s : string) : batch :=
  if String.eqb s "-" then [] else flat_map parse_msg (split_on ","%char s).

Definition show_rcpt (l : list N) : string :=
  match l with [] => "-" | _ => sjoin "+" (map dec_of_N l) end.

Definition show_msg (id : N) (m : msg) : string :=
  dec_of_N id ++ "." ++ dec_of_N (m_reply m) ++ "/" ++ hex_field (m_text m) ++ "/" ++ show_rcpt (m_rcpt m).

Definition show_batch (id : N) (b : batch) : string :=
  match b with [] => "empty" | _ => sjoin "," (map (show_msg id) b) end.

Definition show_res (r : option (N * batch)) : string :=
  match r with Some (id, b) => show_batch id b | None => "empty" end.

Definition nat_field (s : string) : nat :=
  match N_of_dec s with Some n => N.to_nat n | None => O end.
Definition Nf (s : string) : N := match N_of_dec s with Some n => n | None => 0%N end.

(* ---- out / outc / outs ---------------------------------------------------------------- *)
Record ost := OSt { os_c : cstate; os_order : list nat; os_out : list string; os_stop : bool }.

Definition emit (s : ost) (c : cstate) (tok : string) : ost :=
  OSt c (os_order s) (os_out s ++ [tok]) (os_stop s).
Definition halt (s : ost) (tok : string) : ost :=
  OSt (os_c s) (os_order s) (os_out s ++ [tok]) true.

Definition do_label (s : ost) (l : label) (name : string) : ost :=
  match cstep (os_c s) l with
  | Some (Running c') => emit s c' (name ++ "=ok")
  | Some (Panicked _) => halt s (name ++ "=panic")
  | None => emit s (os_c s) (name ++ "=disabled")
  end.

Definition thread_status (c : cstate) (t : nat) : string :=
  match c_threads c !! t with
  | Some th =>
      match t_st th with
      | TDone r => show_res r
      | _ => "blocked"
      end
  | None => "unknown"
  end.

Definition out_token (sched : bool) (s : ost) (tok : string) : ost :=
  let p := colon tok in
  let k := nth_field p 0 in
  let c := os_c s in
  if String.eqb k "a" then do_label s (LAdd (Nf (nth_field p 1)) (parse_batch (nth_field p 2))) "a"
  else if String.eqb k "d" then do_label s (LDelete (Nf (nth_field p 1))) "d"
  else if String.eqb k "g" then
    let x := Nf (nth_field p 1) in
    if c_closed c then emit s c "g=disabled" else
    let '(r, o') := get (c_out c) x in
    emit s (CState o' (c_threads c) (c_closed c))
         ("g=" ++ match r with Some b => show_batch x b | None => "none" end)
  else if String.eqb k "n" then
    let '(r, o') := getnext_cancelled_c c (Nf (nth_field p 1)) in
    emit s (CState o' (c_threads c) (c_closed c)) ("n=" ++ show_res r)
  else if String.eqb k "l" then
    let '(i, r) := last_seen (c_out c) in emit s c ("l=" ++ dec_of_N i ++ "." ++ dec_of_N r)
  else if String.eqb k "i" then do_label s LInterrupt "i"
  else if String.eqb k "k" then do_label s LClose "k"
  else if String.eqb k "s" then
    let t := nat_field (nth_field p 1) in
    let s' := do_label s (LSpawn t (Nf (nth_field p 2))) "s" in
    OSt (os_c s') (os_order s' ++ [t]) (os_out s') (os_stop s')
  else if String.eqb k "c" then do_label s (LCancel (nat_field (nth_field p 1))) "c"
  else if String.eqb k "r" then
    (* explicit schedule: one section of reader t *)
    if sched then do_label s (LReader (nat_field (nth_field p 1))) "r"
    else emit s c "r=unknown-op"
  else if String.eqb k "e" then do_label s (LEvict (Nf (nth_field p 1))) "e"
  else if String.eqb k "j" then
    emit s c ("j" ++ nth_field p 1 ++ "=" ++ thread_status c (nat_field (nth_field p 1)))
  else emit s c (k ++ "=unknown-op").

Fixpoint out_run (kind : string) (s : ost) (toks : list string) : ost :=
  match toks with
  | [] => s
  | t :: r =>
      if os_stop s then s
      else
        let sched := String.eqb kind "outs" in
        let s1 := out_token sched s t in
        let s2 := if String.eqb kind "outc"
                  then OSt (settle (os_c s1) (os_order s1)) (os_order s1) (os_out s1) (os_stop s1)
                  else s1 in
        out_run kind s2 r
  end.

Definition run_out (f : list string) : string :=
  let kind := nth_field f 0 in
  let s := out_run kind (OSt cinit [] [] false) (skipn 1 f) in
  sjoin " " (kind :: os_out s).

Definition snoc (l : list string) (x : string) : list string := (l ++ [x])%list.

(* ---- res ------------------------------------------------------------------------------ *)
Definition show_omsg (m : omsg) : string :=
  dec_of_N (o_id m) ++ "." ++ dec_of_N (o_reply m) ++ "/" ++ hex_field (o_text m).
Definition show_omsgs (l : list omsg) : string :=
  match l with [] => "-" | _ => sjoin "," (map show_omsg l) end.

Definition the_node (st : rstate) (k : nat) : node :=
  match r_nodes st !! k with Some nd => nd | None => fresh_node end.

Definition count_msgs (o : state) : nat :=
  fold_right (fun kv acc => (length (e_msgs (snd kv)) + acc + 1)%nat) O (map_to_list (db o)).

Definition res_token (sess : N) (acc : rstate * list string) (tok : string) : rstate * list string :=
  let '(st, out) := acc in
  let p := colon tok in
  let k := nth_field p 0 in
  if String.eqb k "a" then
    let nk := nat_field (nth_field p 1) in
    let nd := the_node st nk in
    match add (n_out nd) (Nf (nth_field p 2)) (parse_batch (nth_field p 3)) with
    | Ok o' => (set_node st nk (Node o' (S (n_applied nd))), snoc out "a=ok")
    | Panic _ => (set_node st nk nd, snoc out "a=panic")
    end
  else if String.eqb k "d" then
    let nk := nat_field (nth_field p 1) in
    let nd := the_node st nk in
    match delete_op (n_out nd) (Nf (nth_field p 2)) with
    | Ok o' => (set_node st nk (Node o' (n_applied nd)), snoc out "d=ok")
    | Panic _ => (set_node st nk nd, snoc out "d=panic")
    end
  else if String.eqb k "c" then
    let nk := nat_field (nth_field p 1) in
    let st1 := set_node (disconnect st) nk (the_node st nk) in
    (connect st1 nk, snoc out "c=ok")
  else if String.eqb k "x" then (disconnect st, snoc out "x=ok")
  else if String.eqb k "w" then
    (* another reader walks the node's stream: it only touches the batch cache, which no result
       depends on (OutProofs.next_unlocked_spec holds for every cache satisfying the invariant) *)
    (st, snoc out "w=ok")
  else if String.eqb k "r" then
    let fuel := match r_conn st with
                | Some (nk, _) => (4 * count_msgs (n_out (the_node st nk)) + 4 * length (r_inflight st) + 64)%nat
                | None => (2 * length (r_inflight st) + 8)%nat
                end in
    let '(got, st') := recv_loop fuel sess (nat_field (nth_field p 1)) [] st in
    (st', snoc out ("r=" ++ show_omsgs got))
  else (st, snoc out (k ++ "=unknown-step")).

Definition run_res (f : list string) : string :=
  let sess := Nf (nth_field f 1) in
  let ls := match split_on "."%char (nth_field f 2) with
            | [a; b] => (Nf a, Nf b)
            | _ => (0%N, 0%N)
            end in
  let '(st, out) := fold_left (res_token sess) (skipn 3 f) (rinit ∅ ls, []) in
  sjoin " " ("res" :: snoc out ("last=" ++ dec_of_N (fst (r_last st)) ++ "." ++ dec_of_N (snd (r_last st)))).

Definition run_line (f : list string) : string :=
  if String.eqb (nth_field f 0) "res" then run_res f else run_out f.
