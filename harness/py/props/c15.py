# C15 — see DESIGN.md §4; shared IRC check logic in irc_common.py
from props import irc_common


def run(ck, replay):
    irc_common.run_irc_check(ck, "C15", "c15", replay)
