(* IrcProofs/Clean.v — no CR, LF or NUL byte in any output (property C15).

   A string is [clean] if none of its bytes is LF (10), CR (13) or NUL (0) — the same three bytes at
   which the POST handler cuts what a client posts (Api.Post.is_line_end / cut_line).  [cln] lifts
   cleanliness to every type a handler computes with: exactly those string fields of sessions,
   channels, nickname holds and the configuration that can flow into an output message are required to
   be clean (map keys, the session's auth and remote address, compiled ban patterns and the
   passwords of the configuration never reach an output, so nothing is required of them).

   The proof is a logical relation over the handler monad, as in Outputs.v, that also carries the
   cleanliness of the VALUES flowing through binds: [cl_ok m] says that, run in a clean state with
   clean outputs so far, [m] returns a clean value, a clean state and clean outputs.  It holds of every
   primitive, is closed under bind/if/match, and so of all handlers, of ProcessMessage, of every log
   entry and of every history — without the no-panic invariant (nothing is claimed of a step that
   panics: it has no outputs and no successor state). *)
From stdpp Require Import gmap.
From Coq Require Import Strings.String Strings.Ascii ZArith NArith Lia.
From RV Require Import Base.Text Irc.Str Irc.Parse Irc.State Irc.Monad Irc.Cmds Irc.SCmds Irc.Apply.
From RV Require IrcProofs.StrLemmas IrcProofs.Trim.
From RV Require Import IrcProofs.Top.
From RV Require Api.Auth Api.Post Api.PostProofs.
Local Open Scope string_scope.

(* ---- clean strings ------------------------------------------------------------------------------------ *)
(* LF, CR, NUL: literally the predicate of the POST handler's cut *)
Definition bad_char (c : ascii) : bool := RV.Api.Post.is_line_end c.

Fixpoint cleanb (s : string) : bool :=
  match s with EmptyString => true | String c r => negb (bad_char c) && cleanb r end.
Definition clean (s : string) : Prop := cleanb s = true.

Lemma bad_char_spec c :
  bad_char c = (Ascii.eqb c "010"%char || Ascii.eqb c "013"%char || Ascii.eqb c "000"%char).
Proof. reflexivity. Qed.

Lemma clean_forall s : clean s <-> forall c, bad_char c = true -> RV.Api.Auth.contains_char c s = false.
Proof.
  unfold clean. induction s as [|d r IH]; cbn [cleanb RV.Api.Auth.contains_char].
  - split; [reflexivity|reflexivity].
  - rewrite andb_true_iff, negb_true_iff, IH. split.
    + intros [Hd Hr] c Hc. rewrite (Hr c Hc), orb_false_r.
      destruct (Ascii.eqb_spec c d); [subst; congruence|reflexivity].
    + intros H. split.
      * destruct (bad_char d) eqn:E; [|reflexivity]. specialize (H d E). rewrite Ascii.eqb_refl in H. discriminate.
      * intros c Hc. specialize (H c Hc). apply orb_false_iff in H. apply H.
Qed.

(* what the POST handler commits is clean, whatever was posted *)
Lemma clean_cut_line d : clean (RV.Api.Post.cut_line d).
Proof. apply clean_forall. intros c Hc. apply RV.Api.PostProofs.cut_line_clean. exact Hc. Qed.

(* ---- the class ------------------------------------------------------------------------------------------ *)
Class Clean (A : Type) := cln : A -> Prop.
Global Hint Mode Clean ! : typeclass_instances.

Global Instance clean_string : Clean string := clean.
Global Instance clean_unit : Clean unit := fun _ => True.
Global Instance clean_bool : Clean bool := fun _ => True.
Global Instance clean_nat : Clean nat := fun _ => True.
Global Instance clean_N : Clean N := fun _ => True.
Global Instance clean_Z : Clean Z := fun _ => True.
Global Instance clean_gset {K} `{Countable K} : Clean (gset K) := fun _ => True.
Global Instance clean_option {A} `{Clean A} : Clean (option A) :=
  fun o => match o with Some a => cln a | None => True end.
Global Instance clean_prod {A B} `{Clean A} `{Clean B} : Clean (A * B) := fun p => cln (fst p) /\ cln (snd p).
Global Instance clean_list {A} `{Clean A} : Clean (list A) := Forall cln.
Global Instance clean_gmap {K A} `{Countable K} `{Clean A} : Clean (gmap K A) :=
  fun m => forall k a, m !! k = Some a -> cln a.
Global Instance clean_res {A} `{Clean A} : Clean (res A) :=
  fun x => match x with Ok a => cln a | _ => True end.

Global Instance clean_prefix : Clean prefix :=
  fun p => cln (p_name p) /\ cln (p_user p) /\ cln (p_host p).
Global Instance clean_imsg : Clean imsg :=
  fun m => cln (m_prefix m) /\ cln (m_cmd m) /\ cln (m_params m).
(* the session fields that reach outputs; s_auth, s_remoteAddr and the key sets do not *)
Global Instance clean_session : Clean session :=
  fun s => cln (s_nick s) /\ cln (s_user s) /\ cln (s_real s) /\ cln (s_away s) /\ cln (s_svid s) /\
           cln (s_pass s) /\ cln (s_prefix s).
(* of a ban only the mask is ever sent (the compiled pattern is matched against, never output) *)
Global Instance clean_chan : Clean chan :=
  fun c => cln (c_name c) /\ cln (c_topicNick c) /\ cln (c_topic c) /\ cln (c_key c) /\ cln (map fst (c_bans c)).
Global Instance clean_svshold : Clean svshold := fun h => cln (h_reason h).
(* of the configuration only the GLINE/ban reasons are sent *)
Global Instance clean_config : Clean config := fun g => cln (g_banned g).
Global Instance clean_server : Clean server :=
  fun sv => cln (sv_sessions sv) /\ cln (sv_channels sv) /\ cln (sv_svsholds sv) /\ cln (sv_netname sv) /\
            cln (sv_config sv).
Global Instance clean_modecmd : Clean modecmd :=
  fun md => bad_char (chr (mc_char md)) = false /\ cln (mc_param md).
Global Instance clean_omsg : Clean omsg := fun o => cln (o_data o).

Definition CleanState (sv : server) : Prop := cln sv.

Ltac ucl := unfold cln, clean_string, clean in *.

(* ---- bytes ---------------------------------------------------------------------------------------------- *)
Lemma chr_byte_of c : chr (byte_of c) = c.
Proof. apply ascii_N_embedding. Qed.

Lemma bad_upper c : bad_char c = false -> bad_char (chr (upper_byte (byte_of c))) = false.
Proof. destruct c as [[] [] [] [] [] [] [] []]; vm_compute; trivial. Qed.

Lemma bad_digit n : (n < 10)%N -> bad_char (ascii_of_N (48 + n)) = false.
Proof.
  intros H. assert (n = 0 \/ n = 1 \/ n = 2 \/ n = 3 \/ n = 4 \/ n = 5 \/ n = 6 \/ n = 7 \/ n = 8 \/ n = 9)%N as Hn by lia.
  repeat (destruct Hn as [->|Hn]; [reflexivity|]). subst. reflexivity.
Qed.

Lemma bad_hex_digit n : (n < 16)%N -> bad_char (hex_digit n) = false.
Proof.
  intros H.
  assert (n = 0 \/ n = 1 \/ n = 2 \/ n = 3 \/ n = 4 \/ n = 5 \/ n = 6 \/ n = 7 \/ n = 8 \/ n = 9 \/
          n = 10 \/ n = 11 \/ n = 12 \/ n = 13 \/ n = 14 \/ n = 15)%N as Hn by lia.
  repeat (destruct Hn as [->|Hn]; [reflexivity|]). subst. reflexivity.
Qed.

(* ---- strings ------------------------------------------------------------------------------------------- *)
Lemma cln_empty : cln "". Proof. reflexivity. Qed.
Lemma cln_String c r : bad_char c = false -> cln r -> cln (String c r).
Proof. ucl. cbn [cleanb]. intros -> ->. reflexivity. Qed.
Lemma cln_String_inv c r : cln (String c r) -> bad_char c = false /\ cln r.
Proof. ucl. cbn [cleanb]. rewrite andb_true_iff, negb_true_iff. trivial. Qed.

Lemma cleanb_app a b : cleanb (a ++ b) = cleanb a && cleanb b.
Proof.
  induction a as [|c a IH]; [reflexivity|].
  change (cleanb (String c a ++ b)) with (negb (bad_char c) && cleanb (a ++ b)). rewrite IH, andb_assoc. reflexivity.
Qed.
Lemma cln_app (a b : string) : cln a -> cln b -> cln (a ++ b).
Proof. ucl. rewrite cleanb_app. intros -> ->. reflexivity. Qed.

Lemma cleanb_srev_app s acc : cleanb (srev_app s acc) = cleanb s && cleanb acc.
Proof.
  revert acc. induction s as [|c s IH]; intros acc; cbn [srev_app cleanb]; [reflexivity|].
  rewrite IH. cbn [cleanb]. destruct (negb (bad_char c)), (cleanb s); reflexivity.
Qed.
Lemma cln_srev s : cln s -> cln (srev s).
Proof. ucl. unfold srev. rewrite cleanb_srev_app. intros ->. reflexivity. Qed.

Lemma cln_stake n s : cln s -> cln (stake n s).
Proof.
  revert s. induction n as [|n IH]; intros s; cbn [stake]; [reflexivity|]. destruct s as [|c r]; [reflexivity|].
  intros H. apply cln_String_inv in H. destruct H as [Hc Hr]. apply cln_String; [exact Hc|apply IH; exact Hr].
Qed.
Lemma cln_to_valid_utf8_aux k s : cln s -> cln (to_valid_utf8_aux k s).
Proof.
  revert k. induction s as [|c r IH]; intros k H; cbn [to_valid_utf8_aux]; [exact H|].
  apply cln_String_inv in H. destruct H as [Hc Hr]. destruct k as [|k].
  - destruct (lead_info (byte_of c)) as [[[n lo] hi]|]; [destruct (conts_ok n lo hi r)|];
      first [apply cln_String; [exact Hc|apply IH; exact Hr] | apply IH; exact Hr].
  - apply cln_String; [exact Hc|apply IH; exact Hr].
Qed.
Lemma cln_cap_user u : cln u -> cln (cap_user u).
Proof.
  intros H. unfold cap_user. destruct (Nat.ltb max_user_len (slen u)); [|exact H].
  unfold to_valid_utf8. apply cln_to_valid_utf8_aux, cln_stake, H.
Qed.
Lemma cln_sdrop n s : cln s -> cln (sdrop n s).
Proof.
  revert s. induction n as [|n IH]; intros s; cbn [sdrop]; [trivial|]. destruct s as [|c r]; [trivial|].
  intros H. apply cln_String_inv in H. apply IH. apply H.
Qed.

Lemma cln_to_upper s : cln s -> cln (to_upper s).
Proof.
  induction s as [|c r IH]; cbn [to_upper]; [trivial|]. intros H. apply cln_String_inv in H. destruct H as [Hc Hr].
  apply cln_String; [apply bad_upper; exact Hc|apply IH; exact Hr].
Qed.

Lemma cln_drop_while f s : cln s -> cln (drop_while f s).
Proof.
  induction s as [|c r IH]; cbn [drop_while]; [trivial|]. intros H. destruct (f c); [|exact H].
  apply IH. apply cln_String_inv in H. apply H.
Qed.
Lemma cln_trim_crlf s : cln s -> cln (trim_crlf s).
Proof. intros H. unfold trim_crlf. apply cln_srev, cln_drop_while, cln_srev, cln_drop_while, H. Qed.

Lemma cln_trim_left_fuel f s : cln s -> cln (trim_left_fuel f s).
Proof.
  revert s. induction f as [|f IH]; intros s H; cbn [trim_left_fuel]; [exact H|].
  destruct s as [|c r]; [exact H|]. pose proof (cln_String_inv _ _ H) as [Hc Hr].
  destruct (is_space_byte _); [apply IH; exact Hr|]. destruct (_ =? 194)%N; [|exact H].
  destruct r as [|d r']; [exact H|]. destruct (_ || _); [|exact H]. apply IH. apply cln_String_inv in Hr. apply Hr.
Qed.
Lemma cln_trim_right_rev_fuel f s : cln s -> cln (trim_right_rev_fuel f s).
Proof.
  revert s. induction f as [|f IH]; intros s H; cbn [trim_right_rev_fuel]; [exact H|].
  destruct s as [|c r]; [exact H|]. pose proof (cln_String_inv _ _ H) as [Hc Hr].
  destruct (is_space_byte _); [apply IH; exact Hr|]. destruct (_ || _); [|exact H].
  destruct r as [|d r']; [exact H|]. destruct (_ =? 194)%N; [|exact H]. apply IH. apply cln_String_inv in Hr. apply Hr.
Qed.
Lemma cln_trim_space s : cln s -> cln (trim_space s).
Proof. intros H. unfold trim_space. cbv zeta. apply cln_srev, cln_trim_right_rev_fuel, cln_srev, cln_trim_left_fuel, H. Qed.

Lemma cln_dec_of_N_aux f n acc : cln acc -> cln (dec_of_N_aux f n acc).
Proof.
  revert n acc. induction f as [|f IH]; intros n acc H; cbn [dec_of_N_aux]; [exact H|]. cbv zeta.
  assert (cln (String (ascii_of_N (48 + n mod 10)) acc)) as H'.
  { apply cln_String; [|exact H]. apply bad_digit. apply N.mod_lt. discriminate. }
  destruct (_ =? 0)%N; [exact H'|apply IH; exact H'].
Qed.
Lemma cln_dec_of_N n : cln (dec_of_N n).
Proof. apply cln_dec_of_N_aux. reflexivity. Qed.
Lemma cln_dec_of_Z z : cln (dec_of_Z z).
Proof. destruct z; cbn [dec_of_Z]; [reflexivity|apply cln_dec_of_N|]. apply cln_String; [reflexivity|apply cln_dec_of_N]. Qed.
Lemma cln_dec_of_nat n : cln (dec_of_nat n).
Proof. apply cln_dec_of_N. Qed.

Lemma cln_hex_of_N_aux f n acc : cln acc -> cln (hex_of_N_aux f n acc).
Proof.
  revert n acc. induction f as [|f IH]; intros n acc H; cbn [hex_of_N_aux]; [exact H|]. cbv zeta.
  assert (cln (String (hex_digit (n mod 16)) acc)) as H'.
  { apply cln_String; [|exact H]. apply bad_hex_digit. apply N.mod_lt. discriminate. }
  destruct (_ =? 0)%N; [exact H'|apply IH; exact H'].
Qed.
Lemma cln_hex_of_N n : cln (hex_of_N n).
Proof. apply cln_hex_of_N_aux. reflexivity. Qed.

Lemma cln_replace_all_fuel f old new s : cln new -> cln s -> cln (replace_all_fuel f old new s).
Proof.
  intros Hn. revert s. induction f as [|f IH]; intros s H; cbn [replace_all_fuel]; [exact H|].
  destruct (has_prefix old s).
  - apply cln_app; [exact Hn|]. apply IH. apply cln_sdrop. exact H.
  - destruct s as [|c r]; [reflexivity|]. apply cln_String_inv in H. destruct H as [Hc Hr].
    apply cln_String; [exact Hc|apply IH; exact Hr].
Qed.
Lemma cln_replace_all old new s : cln new -> cln s -> cln (replace_all old new s).
Proof. apply cln_replace_all_fuel. Qed.

Lemma cln_string_of_list l : Forall (fun c => bad_char c = false) l -> cln (string_of_list l).
Proof. induction 1; cbn [string_of_list]; [reflexivity|]. apply cln_String; assumption. Qed.

(* ---- lists of strings ---------------------------------------------------------------------------------- *)
Lemma cln_nil {A} `{Clean A} : cln (@nil A). Proof. constructor. Qed.
Lemma cln_cons {A} `{Clean A} (a : A) l : cln a -> cln l -> cln (a :: l). Proof. constructor; assumption. Qed.
Lemma cln_cons_inv {A} `{Clean A} (a : A) l : cln (a :: l) -> cln a /\ cln l.
Proof. intros HH. inversion HH; subst. split; assumption. Qed.
Lemma cln_lapp {A} `{Clean A} (a b : list A) : cln a -> cln b -> cln (a ++ b)%list.
Proof. intros Ha Hb. apply Forall_app. split; assumption. Qed.
Lemma cln_In {A} `{Clean A} (l : list A) x : cln l -> In x l -> cln x.
Proof. intros Hl Hin. unfold cln, clean_list in Hl. rewrite Forall_forall in Hl. apply Hl. exact Hin. Qed.
Lemma cln_of_In {A} `{Clean A} (l : list A) : (forall x, In x l -> cln x) -> cln l.
Proof. intros Hx. apply Forall_forall. intros x Hin. apply Hx. exact Hin. Qed.

Lemma cln_split_on_aux c s cur : cln s -> cln cur -> cln (split_on_aux c s cur).
Proof.
  revert cur. induction s as [|d r IH]; intros cur Hs Hc; cbn [split_on_aux].
  - apply cln_cons; [apply cln_srev; exact Hc|apply cln_nil].
  - apply cln_String_inv in Hs. destruct Hs as [Hd Hr]. destruct (Ascii.eqb d c).
    + apply cln_cons; [apply cln_srev; exact Hc|]. apply IH; [exact Hr|reflexivity].
    + apply IH; [exact Hr|]. apply cln_String; assumption.
Qed.
Lemma cln_split_on c s : cln s -> cln (split_on c s).
Proof. intros H. apply cln_split_on_aux; [exact H|reflexivity]. Qed.
Lemma cln_split_space s : cln s -> cln (split_space s).
Proof. apply cln_split_on. Qed.

Lemma cln_sjoin sep (l : list string) : cln sep -> cln l -> cln (sjoin sep l).
Proof.
  intros Hs. induction 1 as [|x l Hx Hl IH]; cbn [sjoin]; [reflexivity|].
  destruct l as [|y l']; [exact Hx|]. apply cln_app; [exact Hx|]. apply cln_app; [exact Hs|exact IH].
Qed.

Lemma cln_insert_sorted x (l : list string) : cln x -> cln l -> cln (insert_sorted x l).
Proof.
  intros Hx. induction 1 as [|y l Hy Hl IH]; cbn [insert_sorted]; [apply cln_cons; [exact Hx|apply cln_nil]|].
  destruct (String.leb x y); [apply cln_cons; [exact Hx|apply cln_cons; assumption]|apply cln_cons; assumption].
Qed.
Lemma cln_sort_strings (l : list string) : cln l -> cln (sort_strings l).
Proof. induction 1; cbn [sort_strings fold_right]; [apply cln_nil|]. apply cln_insert_sorted; assumption. Qed.
Lemma cln_dedup_sorted (l : list string) : cln l -> cln (dedup_sorted l).
Proof.
  unfold dedup_sorted. induction 1 as [|x l Hx Hl IH]; cbn [fold_right]; [apply cln_nil|].
  destruct (fold_right _ _ l) as [|y acc]; [apply cln_cons; [exact Hx|apply cln_nil]|].
  destruct (String.eqb x y); [exact IH|apply cln_cons; assumption].
Qed.

Lemma cln_last (l : list string) d : cln l -> cln d -> cln (last l d).
Proof. intros Hl Hd. induction Hl as [|x l Hx Hl IH]; cbn [last]; [exact Hd|]. destruct l; [exact Hx|exact IH]. Qed.
Lemma cln_removelast {A} `{Clean A} (l : list A) : cln l -> cln (removelast l).
Proof. induction 1 as [|x l Hx Hl IH]; cbn [removelast]; [apply cln_nil|]. destruct l; [apply cln_nil|apply cln_cons; assumption]. Qed.
Lemma cln_nth (l : list string) n d : cln l -> cln d -> cln (nth n l d).
Proof. intros Hl Hd. revert n. induction Hl; intros [|n]; cbn [nth]; auto. Qed.
Lemma cln_nth_error {A} `{Clean A} (l : list A) n : cln l -> cln (nth_error l n).
Proof. intros Hl. revert n. induction Hl; intros [|n]; cbn [nth_error]; try exact Logic.I; auto. Qed.
Lemma cln_hd (l : list string) d : cln l -> cln d -> cln (hd d l).
Proof. intros Hl Hd. destruct Hl; assumption. Qed.
Lemma cln_tl {A} `{Clean A} (l : list A) : cln l -> cln (tl l).
Proof. intros Hl. destruct Hl; [apply cln_nil|assumption]. Qed.
Lemma cln_lfilter {A} `{Clean A} f (l : list A) : cln l -> cln (List.filter f l).
Proof. induction 1; cbn [List.filter]; [apply cln_nil|]. destruct (f _); [apply cln_cons|]; assumption. Qed.
Lemma cln_map {A B} `{Clean A} `{Clean B} (f : A -> B) (l : list A) :
  (forall x, cln x -> cln (f x)) -> cln l -> cln (map f l).
Proof. intros Hf. induction 1; cbn [map]; [apply cln_nil|]. apply cln_cons; auto. Qed.

(* ---- trivially clean types ------------------------------------------------------------------------------- *)
Class TrivClean (A : Type) `{Clean A} := triv_cln : forall a : A, cln a.
Global Instance triv_unit : TrivClean unit. Proof. intros ?; exact Logic.I. Qed.
Global Instance triv_bool : TrivClean bool. Proof. intros ?; exact Logic.I. Qed.
Global Instance triv_nat : TrivClean nat. Proof. intros ?; exact Logic.I. Qed.
Global Instance triv_N : TrivClean N. Proof. intros ?; exact Logic.I. Qed.
Global Instance triv_Z : TrivClean Z. Proof. intros ?; exact Logic.I. Qed.
Global Instance triv_gset {K} `{Countable K} : TrivClean (gset K). Proof. intros ?; exact Logic.I. Qed.
Global Instance triv_option {A} `{TrivClean A} : TrivClean (option A).
Proof. intros [a|]; [exact (triv_cln a)|exact Logic.I]. Qed.
Global Instance triv_prod {A B} `{TrivClean A} `{TrivClean B} : TrivClean (A * B).
Proof. intros [a b]; split; [exact (triv_cln a)|exact (triv_cln b)]. Qed.
Global Instance triv_list {A} `{TrivClean A} : TrivClean (list A).
Proof. intros l. apply Forall_forall. intros x _. exact (triv_cln x). Qed.
Global Instance triv_res {A} `{TrivClean A} : TrivClean (res A).
Proof. intros [a|?|?]; [exact (triv_cln a)|exact Logic.I|exact Logic.I]. Qed.

(* ---- constructors and projections -------------------------------------------------------------------- *)
Lemma cln_Some {A} `{Clean A} (a : A) : cln a -> cln (Some a). Proof. trivial. Qed.
Lemma cln_None {A} `{Clean A} : cln (@None A). Proof. exact Logic.I. Qed.
Lemma cln_pair {A B} `{Clean A} `{Clean B} (a : A) (b : B) : cln a -> cln b -> cln (a, b). Proof. split; assumption. Qed.
Lemma cln_fst {A B} `{Clean A} `{Clean B} (p : A * B) : cln p -> cln (fst p). Proof. intros [? ?]; assumption. Qed.
Lemma cln_snd {A B} `{Clean A} `{Clean B} (p : A * B) : cln p -> cln (snd p). Proof. intros [? ?]; assumption. Qed.
Lemma cln_Ok {A} `{Clean A} (a : A) : cln a -> cln (Ok a). Proof. trivial. Qed.
Lemma cln_Panic {A} `{Clean A} s : cln (@Panic A s). Proof. exact Logic.I. Qed.
Lemma cln_Gap {A} `{Clean A} s : cln (@Gap A s). Proof. exact Logic.I. Qed.

Lemma cln_Prefix a b c : cln a -> cln b -> cln c -> cln (Prefix a b c). Proof. repeat split; assumption. Qed.
Lemma cln_p_name p : cln p -> cln (p_name p). Proof. intros (?&?&?); assumption. Qed.
Lemma cln_p_user p : cln p -> cln (p_user p). Proof. intros (?&?&?); assumption. Qed.
Lemma cln_p_host p : cln p -> cln (p_host p). Proof. intros (?&?&?); assumption. Qed.

Lemma cln_IMsg p c ps : cln p -> cln c -> cln ps -> cln (IMsg p c ps). Proof. repeat split; assumption. Qed.
Lemma cln_m_prefix m : cln m -> cln (m_prefix m). Proof. intros (?&?&?); assumption. Qed.
Lemma cln_m_cmd m : cln m -> cln (m_cmd m). Proof. intros (?&?&?); assumption. Qed.
Lemma cln_m_params m : cln m -> cln (m_params m). Proof. intros (?&?&?); assumption. Qed.
Lemma cln_trailing m : cln m -> cln (trailing m).
Proof. intros H. unfold trailing. apply cln_last; [apply cln_m_params; exact H|reflexivity]. Qed.

Lemma cln_Session k au li nick user real ch la lnp lsc op away cr inv mo svid pass srv cmid pfx del ra :
  cln nick -> cln user -> cln real -> cln away -> cln svid -> cln pass -> cln pfx ->
  cln (Session k au li nick user real ch la lnp lsc op away cr inv mo svid pass srv cmid pfx del ra).
Proof. intros. unfold cln at 1, clean_session. cbn [s_nick s_user s_real s_away s_svid s_pass s_prefix]. tauto. Qed.
Lemma cln_s_nick s : cln s -> cln (s_nick s). Proof. intros (?&?&?&?&?&?&?); assumption. Qed.
Lemma cln_s_user s : cln s -> cln (s_user s). Proof. intros (?&?&?&?&?&?&?); assumption. Qed.
Lemma cln_s_real s : cln s -> cln (s_real s). Proof. intros (?&?&?&?&?&?&?); assumption. Qed.
Lemma cln_s_away s : cln s -> cln (s_away s). Proof. intros (?&?&?&?&?&?&?); assumption. Qed.
Lemma cln_s_svid s : cln s -> cln (s_svid s). Proof. intros (?&?&?&?&?&?&?); assumption. Qed.
Lemma cln_s_pass s : cln s -> cln (s_pass s). Proof. intros (?&?&?&?&?&?&?); assumption. Qed.
Lemma cln_s_prefix s : cln s -> cln (s_prefix s). Proof. intros (?&?&?&?&?&?&?); assumption. Qed.

Lemma cln_Chan name tn tt topic nicks modes key bans :
  cln name -> cln tn -> cln topic -> cln key -> cln (map fst bans) -> cln (Chan name tn tt topic nicks modes key bans).
Proof. intros. unfold cln at 1, clean_chan. cbn [c_name c_topicNick c_topic c_key c_bans]. tauto. Qed.
Lemma cln_c_name c : cln c -> cln (c_name c). Proof. intros (?&?&?&?&?); assumption. Qed.
Lemma cln_c_topicNick c : cln c -> cln (c_topicNick c). Proof. intros (?&?&?&?&?); assumption. Qed.
Lemma cln_c_topic c : cln c -> cln (c_topic c). Proof. intros (?&?&?&?&?); assumption. Qed.
Lemma cln_c_key c : cln c -> cln (c_key c). Proof. intros (?&?&?&?&?); assumption. Qed.
Lemma cln_c_bans c : cln c -> cln (map fst (c_bans c)). Proof. intros (?&?&?&?&?); assumption. Qed.

Lemma cln_SvsHold a d r : cln r -> cln (SvsHold a d r). Proof. trivial. Qed.
Lemma cln_h_reason h : cln h -> cln (h_reason h). Proof. trivial. Qed.

Lemma cln_Config rv ex co ms mc cu ch cl ops svc banned tb wo :
  cln banned -> cln (Config rv ex co ms mc cu ch cl ops svc banned tb wo).
Proof. trivial. Qed.
Lemma cln_g_banned g : cln g -> cln (g_banned g). Proof. trivial. Qed.
Lemma cln_with_revision rv g : cln g -> cln (with_revision rv g). Proof. trivial. Qed.
Lemma cln_default_config : cln default_config.
Proof. intros k a H. cbn in H. rewrite lookup_empty in H. discriminate. Qed.

Lemma cln_Server ss sss ns cs hs net lp g :
  cln ss -> cln cs -> cln hs -> cln net -> cln g -> cln (Server ss sss ns cs hs net lp g).
Proof. intros. unfold cln at 1, clean_server. cbn [sv_sessions sv_channels sv_svsholds sv_netname sv_config]. tauto. Qed.
Lemma cln_sv_sessions sv : cln sv -> cln (sv_sessions sv). Proof. intros (?&?&?&?&?); assumption. Qed.
Lemma cln_sv_channels sv : cln sv -> cln (sv_channels sv). Proof. intros (?&?&?&?&?); assumption. Qed.
Lemma cln_sv_svsholds sv : cln sv -> cln (sv_svsholds sv). Proof. intros (?&?&?&?&?); assumption. Qed.
Lemma cln_sv_netname sv : cln sv -> cln (sv_netname sv). Proof. intros (?&?&?&?&?); assumption. Qed.
Lemma cln_sv_config sv : cln sv -> cln (sv_config sv). Proof. intros (?&?&?&?&?); assumption. Qed.
Lemma cln_server_prefix sv : cln sv -> cln (server_prefix sv).
Proof. intros H. apply cln_Prefix; [apply cln_sv_netname; exact H|reflexivity|reflexivity]. Qed.

Lemma cln_ModeCmd a c p : bad_char (chr c) = false -> cln p -> cln (ModeCmd a c p). Proof. split; assumption. Qed.
Lemma cln_mc_char md : cln md -> bad_char (chr (mc_char md)) = false. Proof. intros [? ?]; assumption. Qed.
Lemma cln_mc_param md : cln md -> cln (mc_param md). Proof. intros [? ?]; assumption. Qed.

(* ---- maps ---------------------------------------------------------------------------------------------- *)
Section Maps.
  Context {K A : Type} `{Countable K} `{Clean A}.
  Implicit Types (m : gmap K A).
  Lemma cln_gempty : cln (∅ : gmap K A).
  Proof. intros k a Hk. rewrite lookup_empty in Hk. discriminate. Qed.
  Lemma cln_lookup m k : cln m -> cln (m !! k).
  Proof. intros Hm. destruct (m !! k) as [a|] eqn:E; [exact (Hm k a E)|exact Logic.I]. Qed.
  Lemma cln_insert m k a : cln a -> cln m -> cln (<[k := a]> m).
  Proof.
    intros Ha Hm k' a' Hk. destruct (decide (k = k')) as [->|Hne].
    - rewrite lookup_insert in Hk. injection Hk as <-. exact Ha.
    - rewrite lookup_insert_ne in Hk by exact Hne. exact (Hm k' a' Hk).
  Qed.
  Lemma cln_delete m k : cln m -> cln (delete k m).
  Proof.
    intros Hm k' a' Hk. destruct (decide (k = k')) as [->|Hne].
    - rewrite lookup_delete in Hk. discriminate.
    - rewrite lookup_delete_ne in Hk by exact Hne. exact (Hm k' a' Hk).
  Qed.
  Lemma cln_fmap (f : A -> A) m : (forall a, cln a -> cln (f a)) -> cln m -> cln (f <$> m).
  Proof.
    intros Hf Hm k a Hk. rewrite lookup_fmap in Hk. destruct (m !! k) as [a0|] eqn:E; [|discriminate].
    cbn in Hk. injection Hk as <-. apply Hf. exact (Hm k a0 E).
  Qed.
  Lemma cln_mfilter (P : K * A -> Prop) `{!forall x, Decision (P x)} m : cln m -> cln (base.filter P m).
  Proof. intros Hm k a Hk. apply map_filter_lookup_Some in Hk. destruct Hk as [Hk _]. exact (Hm k a Hk). Qed.
  Lemma cln_map_to_list m kv : cln m -> In kv (map_to_list m) -> cln (snd kv).
  Proof.
    intros Hm Hin. destruct kv as [k a]. apply elem_of_list_In, elem_of_map_to_list in Hin. exact (Hm k a Hin).
  Qed.
End Maps.

(* ---- field updates ---------------------------------------------------------------------------------- *)
Ltac sess_setter :=
  intros;
  repeat match goal with Hs : @cln session _ _ |- _ => destruct Hs as (?&?&?&?&?&?&?) end;
  unfold ss_nick, ss_user_real, ss_loggedIn, ss_channels, ss_activity, ss_solved, ss_operator, ss_away, ss_invited,
         ss_modes, ss_svid, ss_pass, ss_server, ss_prefix, ss_deleted, ss_remoteAddr;
  apply cln_Session; assumption.
Lemma cln_ss_nick v s : cln v -> cln s -> cln (ss_nick v s). Proof. sess_setter. Qed.
Lemma cln_ss_user_real u r s : cln u -> cln r -> cln s -> cln (ss_user_real u r s). Proof. sess_setter. Qed.
Lemma cln_ss_loggedIn v s : cln s -> cln (ss_loggedIn v s). Proof. sess_setter. Qed.
Lemma cln_ss_channels f s : cln s -> cln (ss_channels f s). Proof. sess_setter. Qed.
Lemma cln_ss_activity a b c s : cln s -> cln (ss_activity a b c s). Proof. sess_setter. Qed.
Lemma cln_ss_solved v s : cln s -> cln (ss_solved v s). Proof. sess_setter. Qed.
Lemma cln_ss_operator v s : cln s -> cln (ss_operator v s). Proof. sess_setter. Qed.
Lemma cln_ss_away v s : cln v -> cln s -> cln (ss_away v s). Proof. sess_setter. Qed.
Lemma cln_ss_invited f s : cln s -> cln (ss_invited f s). Proof. sess_setter. Qed.
Lemma cln_ss_modes f s : cln s -> cln (ss_modes f s). Proof. sess_setter. Qed.
Lemma cln_ss_svid v s : cln v -> cln s -> cln (ss_svid v s). Proof. sess_setter. Qed.
Lemma cln_ss_pass v s : cln v -> cln s -> cln (ss_pass v s). Proof. sess_setter. Qed.
Lemma cln_ss_server v s : cln s -> cln (ss_server v s). Proof. sess_setter. Qed.
Lemma cln_ss_prefix v s : cln v -> cln s -> cln (ss_prefix v s). Proof. sess_setter. Qed.
Lemma cln_ss_deleted v s : cln s -> cln (ss_deleted v s). Proof. sess_setter. Qed.
Lemma cln_ss_remoteAddr v s : cln s -> cln (ss_remoteAddr v s). Proof. sess_setter. Qed.
Lemma cln_mk_prefix s : cln s -> cln (mk_prefix s).
Proof.
  intros Hs. apply cln_Prefix; [apply cln_s_nick; exact Hs|apply cln_s_user; exact Hs|].
  apply cln_app; [reflexivity|apply cln_hex_of_N].
Qed.
Lemma cln_update_prefix s : cln s -> cln (update_prefix s).
Proof. intros Hs. apply cln_ss_prefix; [apply cln_mk_prefix; exact Hs|exact Hs]. Qed.
Lemma cln_new_session k a ts : cln (new_session k a ts).
Proof. apply cln_Session; try reflexivity. apply cln_Prefix; reflexivity. Qed.
Lemma cln_reload_session s : cln s -> cln (reload_session s).
Proof. intros (?&?&?&?&?&?&?). apply cln_Session; assumption. Qed.

Ltac chan_setter :=
  intros;
  repeat match goal with Hc : @cln chan _ _ |- _ => destruct Hc as (?&?&?&?&?) end;
  unfold cc_nicks, cc_topic, cc_modes, cc_key, cc_bans, new_chan;
  apply cln_Chan; try assumption; try reflexivity.
Lemma cln_cc_nicks f c : cln c -> cln (cc_nicks f c). Proof. chan_setter. Qed.
Lemma cln_cc_topic n t txt c : cln n -> cln txt -> cln c -> cln (cc_topic n t txt c). Proof. chan_setter. Qed.
Lemma cln_cc_modes f c : cln c -> cln (cc_modes f c). Proof. chan_setter. Qed.
Lemma cln_cc_key k c : cln k -> cln c -> cln (cc_key k c). Proof. chan_setter. Qed.
Lemma cln_cc_bans f c : cln (map fst (f (c_bans c))) -> cln c -> cln (cc_bans f c). Proof. chan_setter. Qed.
Lemma cln_new_chan name modes : cln name -> cln (new_chan name modes). Proof. chan_setter. apply cln_nil. Qed.

Lemma cln_ban_one add mask pat bans : cln mask -> cln (map fst bans) -> cln (map fst (ban_one add mask pat bans)).
Proof.
  intros Hm Hb. unfold ban_one. destruct add.
  - rewrite map_app. apply cln_lapp; [exact Hb|]. apply cln_cons; [exact Hm|apply cln_nil].
  - induction bans as [|b bans IH]; cbn [List.filter map]; [apply cln_nil|].
    cbn [map] in Hb. apply cln_cons_inv in Hb. destruct Hb as [Hb1 Hb2].
    destruct (negb _); [cbn [map]; apply cln_cons; [exact Hb1|apply IH; exact Hb2]|apply IH; exact Hb2].
Qed.
Lemma cln_ban_both add mask pat pa bans : cln mask -> cln (map fst bans) -> cln (map fst (ban_both add mask pat pa bans)).
Proof.
  intros Hm Hb. unfold ban_both. cbv zeta. destruct (String.eqb pa pat); [apply cln_ban_one; assumption|].
  apply cln_ban_one; [exact Hm|]. apply cln_ban_one; assumption.
Qed.

Ltac srv_setter :=
  intros;
  repeat match goal with Hs : @cln server _ _ |- _ => destruct Hs as (?&?&?&?&?) end;
  unfold set_sessions, set_serverSessions, set_nicks, set_channels, set_svsholds, set_lastProcessed, set_config;
  apply cln_Server; assumption.
Lemma cln_set_sessions f sv : cln sv -> cln (f (sv_sessions sv)) -> cln (set_sessions f sv). Proof. srv_setter. Qed.
Lemma cln_set_serverSessions f sv : cln sv -> cln (set_serverSessions f sv). Proof. srv_setter. Qed.
Lemma cln_set_nicks f sv : cln sv -> cln (set_nicks f sv). Proof. srv_setter. Qed.
Lemma cln_set_channels f sv : cln sv -> cln (f (sv_channels sv)) -> cln (set_channels f sv). Proof. srv_setter. Qed.
Lemma cln_set_svsholds f sv : cln sv -> cln (f (sv_svsholds sv)) -> cln (set_svsholds f sv). Proof. srv_setter. Qed.
Lemma cln_set_lastProcessed k sv : cln sv -> cln (set_lastProcessed k sv). Proof. srv_setter. Qed.
Lemma cln_set_config f sv : cln sv -> cln (f (sv_config sv)) -> cln (set_config f sv). Proof. srv_setter. Qed.
Lemma cln_init_server net : cln net -> cln (init_server net).
Proof. intros Hn. apply cln_Server; [apply cln_gempty|apply cln_gempty|apply cln_gempty|exact Hn|apply cln_default_config]. Qed.

(* ---- parsing and rendering ---------------------------------------------------------------------------- *)
Lemma cln_parse_prefix raw : cln raw -> cln (parse_prefix raw).
Proof.
  intros H. unfold parse_prefix. cbv zeta.
  destruct (index_byte "!" raw), (index_byte "@" raw);
    repeat match goal with |- cln (if ?b then _ else _) => destruct b end;
    apply cln_Prefix; first [exact H | reflexivity | apply cln_stake; try apply cln_sdrop; exact H | apply cln_sdrop; exact H].
Qed.

Lemma cln_prefix_string p : cln p -> cln (prefix_string p).
Proof.
  intros (Hn & Hu & Hh). unfold prefix_string. apply cln_app; [exact Hn|]. apply cln_app.
  - destruct (is_empty _); [reflexivity|apply cln_app; [reflexivity|exact Hu]].
  - destruct (is_empty _); [reflexivity|apply cln_app; [reflexivity|exact Hh]].
Qed.

Lemma cln_parse_message raw0 : cln raw0 -> cln (parse_message raw0).
Proof.
  intros H0. unfold parse_message. cbv zeta. pose proof (cln_trim_crlf _ H0) as H. set (raw := trim_crlf raw0) in *. clearbody raw.
  destruct (Nat.ltb (slen raw) 2); [exact Logic.I|].
  match goal with |- cln (match ?pre with None => None | Some _ => _ end) => set (P := pre) end.
  assert (HP : match P with None => True | Some (p, _) => cln p end).
  { subst P. destruct raw as [|c r]; [exact Logic.I|].
    destruct c as [[] [] [] [] [] [] [] []]; try exact Logic.I.
    destruct (index_byte " " _); [|exact Logic.I]. destruct (Nat.ltb _ 2); [exact Logic.I|].
    apply cln_parse_prefix. apply cln_stake, cln_sdrop. exact H. }
  destruct P as [[pfx i]|]; [|exact Logic.I].
  pose proof (cln_sdrop i _ H) as Hr. set (rest := sdrop i raw) in *. clearbody rest.
  assert (forall k, cln (Some (IMsg pfx (to_upper (stake k rest)) []))) as Hnop.
  { intros k. apply cln_IMsg; [exact HP|apply cln_to_upper, cln_stake; exact Hr|apply cln_nil]. }
  destruct (index_byte " " rest) as [[|k]|].
  - apply cln_IMsg; [exact HP|apply cln_to_upper; exact Hr|apply cln_nil].
  - destruct (sindex " :" _).
    + apply cln_IMsg; [exact HP|apply cln_to_upper, cln_stake; exact Hr|]. apply cln_lapp.
      * destruct (Nat.ltb 1 _); [|apply cln_nil]. apply cln_split_space, cln_stake, cln_sdrop, cln_sdrop. exact Hr.
      * apply cln_cons; [|apply cln_nil]. apply cln_sdrop, cln_sdrop. exact Hr.
    + apply cln_IMsg; [exact HP|apply cln_to_upper, cln_stake; exact Hr|]. apply cln_split_space, cln_sdrop, cln_sdrop. exact Hr.
  - apply cln_IMsg; [exact HP|apply cln_to_upper; exact Hr|apply cln_nil].
Qed.

Lemma cln_msg_bytes_full m : cln m -> cln (msg_bytes_full m).
Proof.
  intros (Hp & Hc & Hps). unfold msg_bytes_full. apply cln_app.
  - destruct (m_prefix m) as [p|]; [|reflexivity]. apply cln_app; [reflexivity|]. apply cln_app; [|reflexivity].
    apply cln_prefix_string. exact Hp.
  - apply cln_app; [exact Hc|]. destruct (m_params m) as [|p ps] eqn:E; [reflexivity|]. rewrite <- E in *. apply cln_app.
    + destruct (Nat.ltb 1 _); [|reflexivity]. apply cln_app; [reflexivity|]. apply cln_sjoin; [reflexivity|apply cln_removelast; exact Hps].
    + apply cln_app; [reflexivity|]. cbv zeta. assert (cln (last (m_params m) "")) by (apply cln_last; [exact Hps|reflexivity]).
      destruct (needs_colon _); [apply cln_app; [reflexivity|assumption]|assumption].
Qed.
Lemma cln_msg_bytes m : cln m -> cln (msg_bytes m).
Proof.
  intros H. unfold msg_bytes. destruct (RV.IrcProofs.Trim.trim_partial_rune_stake (stake max_length (msg_bytes_full m))) as [i ->].
  apply cln_stake, cln_stake, cln_msg_bytes_full, H.
Qed.

(* ---- helpers of the handlers -------------------------------------------------------------------------- *)
Lemma cln_extract_password pw pfx : cln pw -> cln (extract_password pw pfx).
Proof.
  intros H. unfold extract_password. pose proof (cln_split_on ":" _ H) as Hl.
  match goal with |- cln (fold_left ?F ?l _) => assert (forall acc, cln acc -> cln (fold_left F l acc)) as HF end; [|apply HF; reflexivity].
  induction Hl as [|part l Hpart Hl IH]; intros acc Hacc; cbn [fold_left]; [exact Hacc|].
  apply IH. 
  assert (cln (if has_prefix (pfx ++ "=") (to_lower part) then sdrop (slen (pfx ++ "=")) part else acc)) as Hx
    by (destruct (has_prefix _ _); [apply cln_sdrop; exact Hpart|exact Hacc]).
  destruct (_ && _); [|exact Hx]. apply cln_app; [exact Hx|]. apply cln_app; [reflexivity|exact Hpart].
Qed.

Lemma mode_range_good : Forall (fun c => bad_char c = false) (map chr mode_range).
Proof. apply Forall_forall. intros c Hc. revert c Hc. apply Forall_forall. vm_compute. repeat constructor. Qed.
Lemma cln_modestr_of m : cln (modestr_of m).
Proof.
  unfold modestr_of. apply cln_app; [reflexivity|]. apply cln_string_of_list.
  pose proof mode_range_good as HG. induction mode_range as [|c l IH]; cbn [List.filter map]; [constructor|].
  cbn [map] in HG. inversion HG; subst. destruct (has_mode c m); [cbn [map]; constructor; auto|auto].
Qed.

Lemma cln_normalize_modes_aux cs (ps : list string) n a :
  Forall (fun c => bad_char c = false) cs -> cln ps -> cln (normalize_modes_aux cs ps n a).
Proof.
  intros Hcs Hps. revert n a. induction Hcs as [|c cs Hc Hcs IH]; intros n a; cbn [normalize_modes_aux]; [apply cln_nil|].
  cbv zeta. destruct (_ =? 43)%N; [apply IH|]. destruct (_ =? 45)%N; [apply IH|].
  destruct (takes_param _); (apply cln_cons; [|apply IH]); apply cln_ModeCmd; rewrite ?chr_byte_of; try exact Hc; try reflexivity.
  apply cln_nth; [exact Hps|reflexivity].
Qed.
Lemma cln_list_of_string s : cln s -> Forall (fun c => bad_char c = false) (list_of_string s).
Proof.
  induction s as [|c r IH]; cbn [list_of_string]; [constructor|]. intros H. apply cln_String_inv in H. destruct H. constructor; auto.
Qed.
Lemma high_byte_good x : (128 <= x < 256)%N -> bad_char (chr x) = false.
Proof.
  intros Hx. destruct (bad_char (chr x)) eqn:E; [|reflexivity]. exfalso.
  unfold bad_char, RV.Api.Post.is_line_end in E. apply orb_true_iff in E.
  assert (Hb : byte_of (chr x) = x) by (unfold byte_of, chr; apply N_ascii_embedding; lia).
  destruct E as [E|E]; [apply orb_true_iff in E; destruct E as [E|E]|]; apply Ascii.eqb_eq in E; rewrite E in Hb; vm_compute in Hb; lia.
Qed.
Lemma cln_rune_leads_aux k s : cln s -> Forall (fun c => bad_char c = false) (rune_leads_aux k s).
Proof.
  revert k. induction s as [|c r IH]; intros k H; cbn [rune_leads_aux]; [constructor|].
  apply cln_String_inv in H. destruct H as [Hc Hr]. destruct k as [|k]; [|apply IH; exact Hr].
  assert (H239 : bad_char (chr 239) = false) by reflexivity.
  destruct (lead_info (byte_of c)) as [[[k lo] hi]|]; [destruct (conts_ok k lo hi r)|]; constructor; auto.
Qed.
Lemma cln_rune_leads s : cln s -> Forall (fun c => bad_char c = false) (rune_leads s).
Proof. apply cln_rune_leads_aux. Qed.
Lemma cln_go_string_of_byte n : bad_char (chr n) = false -> cln (go_string_of_byte n).
Proof.
  intros H. unfold go_string_of_byte. destruct (n <? 128)%N.
  - apply cln_String; [exact H|reflexivity].
  - assert (H4 : ((n / 64) mod 4 < 4)%N) by (apply N.mod_upper_bound; lia).
    assert (H64 : (n mod 64 < 64)%N) by (apply N.mod_upper_bound; lia).
    remember ((n / 64) mod 4)%N as x eqn:Hx. remember (n mod 64)%N as y eqn:Hy. clear Hx Hy.
    apply cln_String; [apply high_byte_good; lia|]. apply cln_String; [apply high_byte_good; lia|reflexivity].
Qed.
Lemma cln_normalize_modes m : cln m -> cln (normalize_modes m).
Proof.
  intros H. unfold normalize_modes. pose proof (cln_m_params m H) as Hps.
  destruct (m_params m) as [|a [|b l]] eqn:E; try apply cln_nil. rewrite <- E.
  apply cln_normalize_modes_aux; [|rewrite E; exact Hps]. apply cln_rune_leads.
  apply cln_cons_inv in Hps. destruct Hps as [_ Hps]. apply cln_cons_inv in Hps. apply Hps.
Qed.

Lemma cln_mode_chars (l : list modecmd) :
  cln l -> cln (fold_right (fun c acc => go_string_of_byte (mc_char c) ++ acc) EmptyString l).
Proof.
  intros H. induction H as [|md l Hmd Hl IH]; cbn [fold_right]; [reflexivity|].
  apply cln_app; [apply cln_go_string_of_byte; apply Hmd|exact IH].
Qed.
Lemma cln_mode_params (l : list modecmd) : cln l -> cln (List.filter (fun p => negb (is_empty p)) (map mc_param l)).
Proof. intros H. apply cln_lfilter. apply cln_map; [|exact H]. intros md Hmd. apply Hmd. Qed.
Lemma cln_irc_params (l : list modecmd) : cln l -> cln (irc_params l).
Proof.
  intros H. unfold irc_params. cbv zeta.
  pose proof (cln_lfilter mc_add l H) as Ha. pose proof (cln_lfilter (fun c => negb (mc_add c)) l H) as Hr.
  apply cln_cons.
  - apply cln_app; (destruct (Nat.ltb _ _); [apply cln_app; [reflexivity|apply cln_mode_chars; assumption]|reflexivity]).
  - apply cln_lapp; apply cln_mode_params; assumption.
Qed.

Lemma cln_zip_keys (a b : list string) : cln a -> cln b -> cln (zip_keys a b).
Proof.
  intros Ha. revert b. induction Ha as [|x a Hx Ha IH]; intros b Hb; cbn [zip_keys]; [apply cln_nil|].
  destruct Hb as [|y b Hy Hb]; (apply cln_cons; [apply cln_pair; [exact Hx|first [exact Hy|reflexivity]]|apply IH]); [apply cln_nil|exact Hb].
Qed.

Lemma cln_assoc_str {A} `{Clean A} k (l : list (string * A)) : cln (map snd l) -> cln (assoc_str k l).
Proof.
  induction l as [|[k' v] l IH]; cbn [assoc_str map]; [intros _; exact Logic.I|]. intros Hl. apply cln_cons_inv in Hl.
  destruct Hl as [Hv Hl]. destruct (String.eqb k k'); [exact Hv|apply IH; exact Hl].
Qed.
Lemma cln_service_alias c : cln (service_alias c).
Proof. unfold service_alias. apply cln_assoc_str. cbn [map snd]. repeat (apply cln_cons; [reflexivity|]). apply cln_nil. Qed.

Lemma cln_collectM {A B} `{Clean B} (l : list A) (f : A -> res (option B)) :
  (forall x, cln (f x)) -> cln (collectM l f).
Proof.
  intros Hf. induction l as [|x l IH]; cbn [collectM]; [apply cln_nil|]. specialize (Hf x).
  destruct (f x) as [o|?|?]; try exact Logic.I. destruct (collectM l f) as [bs|?|?]; try exact Logic.I.
  destruct o as [b|]; [apply cln_cons; assumption|exact IH].
Qed.

Lemma cln_member_session sv n : cln sv -> cln (member_session sv n).
Proof.
  intros Hsv. unfold member_session. destruct (sv_nicks sv !! n) as [tk|]; [|exact Logic.I].
  destruct (sv_sessions sv !! tk) as [t|] eqn:E; [|exact Logic.I]. exact (cln_sv_sessions sv Hsv tk t E).
Qed.
