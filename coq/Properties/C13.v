(* C13 — privileged effects require the privilege.
   Two directions: (a) per command, "unentitled => nothing changes" (C13_kick … C13_join);
   (b) ONE frame over the whole dispatcher (C13_global_frame / C13_line_frame): whatever line a plain client that is
   not a channel operator of lc sends, channel lc keeps its name, modes, key, bans, the entries of all other members,
   its topic unless it is not +t and the sender is a member; the sender becomes a member only through JOIN with the
   gate `may_join` (C13_may_join: invitation for +i, no matching ban — not lifted by a captcha —, captcha or
   invitation for +x, exact key for +k); s_server / s_operator are only ever raised by SERVER with a configured services
   password resp. by presenting configured operator credentials (C13_flags); services handlers are reachable only
   through the "server_" table keys, i.e. for sessions with s_server (C13_services_need_link); $-notices need
   operator status (C13_network_notice).  A new or changed handler that touches channel state without a check breaks
   (b).  Granularity: one line; an IRC operator is entitled to MODE/KILL/GLINE only. *)
From stdpp Require Import gmap.
From Coq Require Import Strings.String List.
From RV Require Import Irc.Str Irc.Parse Irc.State Irc.Monad Irc.Cmds Irc.SCmds Irc.Apply.
From Coq Require Import NArith.
From RV Require Import IrcProofs.WP IrcProofs.Inv IrcProofs.Handlers IrcProofs.Privilege.
From RV Require Import IrcProofs.Top IrcProofs.Privilege2 IrcProofs.Privilege3.
Local Open Scope string_scope.

Theorem C13_kick : forall k m sv r p0,
  InvM sv -> present sv k -> 2 <= nparams m -> nth_error (m_params m) 0 = Some p0 ->
  ~ is_chanop sv k (chan_to_lower p0) -> wp (cmd_kick k m) (unchanged sv) sv r.
Proof. exact kick_needs_chanop. Qed.
Print Assumptions C13_kick.

Theorem C13_mode : forall k m sv r p0 s,
  InvM sv -> sv_sessions sv !! k = Some s -> s_deleted s = false -> 1 <= nparams m ->
  nth_error (m_params m) 0 = Some p0 -> chan_to_lower p0 ∈ s_channels s ->
  ~ is_chanop sv k (chan_to_lower p0) -> ~ is_oper sv k -> wp (cmd_mode k m) (unchanged sv) sv r.
Proof. exact mode_needs_priv. Qed.
Print Assumptions C13_mode.

Theorem C13_topic_membership : forall k m sv r p0 s,
  sv_sessions sv !! k = Some s -> 1 <= nparams m -> nth_error (m_params m) 0 = Some p0 ->
  chan_to_lower p0 ∉ s_channels s -> wp (cmd_topic k m) (unchanged sv) sv r.
Proof. exact topic_needs_membership. Qed.
Print Assumptions C13_topic_membership.

Theorem C13_topic_chanop : forall k m sv r p0 s c,
  InvM sv -> sv_sessions sv !! k = Some s -> s_deleted s = false -> 2 <= nparams m ->
  nth_error (m_params m) 0 = Some p0 -> sv_channels sv !! chan_to_lower p0 = Some c ->
  has_mode 116 (c_modes c) = true -> ~ is_chanop sv k (chan_to_lower p0) -> wp (cmd_topic k m) (unchanged sv) sv r.
Proof. exact topic_needs_chanop. Qed.
Print Assumptions C13_topic_chanop.

Theorem C13_invite : forall k m sv r nickname channelname s c,
  InvM sv -> sv_sessions sv !! k = Some s -> 2 <= nparams m ->
  nth_error (m_params m) 0 = Some nickname -> nth_error (m_params m) 1 = Some channelname ->
  sv_channels sv !! chan_to_lower channelname = Some c -> has_mode 105 (c_modes c) = true ->
  ~ is_chanop sv k (chan_to_lower channelname) -> wp (cmd_invite k m) (unchanged sv) sv r.
Proof. exact invite_needs_chanop. Qed.
Print Assumptions C13_invite.

Theorem C13_kill : forall k m sv r, present sv k -> ~ is_oper sv k -> wp (cmd_kill k m) (unchanged sv) sv r.
Proof. exact kill_needs_oper. Qed.
Print Assumptions C13_kill.

Theorem C13_gline : forall k m sv r, present sv k -> ~ is_oper sv k -> wp (cmd_gline k m) (unchanged sv) sv r.
Proof. exact gline_needs_oper. Qed.
Print Assumptions C13_gline.

Theorem C13_oper : forall k m sv r p0 p1,
  present sv k -> nth_error (m_params m) 0 = Some p0 -> nth_error (m_params m) 1 = Some p1 ->
  auth_oper (sv_config sv) p0 p1 = false -> wp (cmd_oper k m) (unchanged sv) sv r.
Proof. exact oper_needs_credentials. Qed.
Print Assumptions C13_oper.

Theorem C13_server : forall k m sv r s,
  sv_sessions sv !! k = Some s ->
  existsb (fun pw => String.eqb (s_pass s) ("services=" ++ pw)) (g_services (sv_config sv)) = false ->
  wp (cmd_server k m) (unchanged sv) sv r.
Proof. exact server_needs_password. Qed.
Print Assumptions C13_server.

Theorem C13_join : forall k e channelname key sv r s c,
  sv_sessions sv !! k = Some s -> sv_channels sv !! chan_to_lower channelname = Some c ->
  let invited := in_set (chan_to_lower channelname) (s_invited s) in
  (has_mode 105 (c_modes c) && negb invited = true) \/
  (has_mode 105 (c_modes c) && negb invited = false /\ has_mode 120 (c_modes c) && negb invited = false /\
   (banned (c_bans c) (prefix_string (s_prefix s)) (s_nick s ++ "!" ++ s_user s ++ "@" ++ s_remoteAddr s) = true \/
    (banned (c_bans c) (prefix_string (s_prefix s)) (s_nick s ++ "!" ++ s_user s ++ "@" ++ s_remoteAddr s) = false /\
     has_mode 107 (c_modes c) && negb (String.eqb (c_key c) key) = true))) ->
  wp (join_one e k channelname key) (unchanged sv) sv r.
Proof. exact join_refused. Qed.
Print Assumptions C13_join.

(* ---- C13 as a frame over the whole dispatcher (IrcProofs/Privilege2.v, Privilege3.v) ---- *)
Theorem C13_global_frame : forall e sv id un session cmid ra data sv' out s lc c,
  EInv sv -> apply_entry e sv (EMessage id un session cmid ra data) = OOk sv' out ->
  sv_sessions sv !! (session, 0%N) = Some s -> s_server s = false ->
  (s_operator s = false \/ forall m, parse_message data = Some m -> oper_cmd (to_upper (m_cmd m)) = false) ->
  sv_channels sv !! lc = Some c -> ~ is_chanop sv (session, 0%N) lc ->
  frame_words (session, 0%N) lc
    (fun c => exists m, parse_message data = Some m /\ to_upper (m_cmd m) = "JOIN" /\
                        may_join e (acting_view ra (stamped (timestamp id un) data cmid s)) lc c (offered m)) sv sv' s c.
Proof. exact C13_frame. Qed.
Print Assumptions C13_global_frame.

Theorem C13_line_frame : forall e k ra m sv r sv' r' s lc,
  InvM sv -> sv_sessions sv !! k = Some s -> s_deleted s = false -> s_server s = false ->
  (s_operator s = false \/ oper_cmd (to_upper (m_cmd m)) = false) ->
  process_message e k ra (Some m) sv r = Ok (tt, sv', r') -> ~ is_chanop sv k lc ->
  chan_protected_same k lc (fun c => to_upper (m_cmd m) = "JOIN" /\ may_join e (acting_view ra s) lc c (offered m)) sv sv'.
Proof. exact line_frame. Qed.
Print Assumptions C13_line_frame.

Theorem C13_frame_session_end : forall e sv id un session quitmsg sv' out s lc,
  EInv sv -> apply_entry e sv (EDelete id un session quitmsg) = OOk sv' out ->
  sv_sessions sv !! (session, 0%N) = Some s -> s_server s = false -> ~ is_chanop sv (session, 0%N) lc ->
  chan_protected_same (session, 0%N) lc (fun _ => False) sv sv'.
Proof. exact entry_frame_delete. Qed.
Print Assumptions C13_frame_session_end.

Theorem C13_may_join : forall e s lc c Off,
  may_join e s lc c Off <->
  (has_mode 105 (c_modes c) = true -> lc ∈ s_invited s) /\
  banned (c_bans c) (prefix_string (s_prefix s)) (s_nick s ++ "!" ++ s_user s ++ "@" ++ s_remoteAddr s) = false /\
  ((has_mode 120 (c_modes c) = true /\ (recent s = true \/ exists ch key, Off ch key /\ captcha_valid e s key = true)) \/
   ((has_mode 120 (c_modes c) = true -> lc ∈ s_invited s) /\
    (has_mode 107 (c_modes c) = true -> exists ch, chan_to_lower ch = lc /\ Off ch (c_key c)))).
Proof. exact may_join_unfold. Qed.
Print Assumptions C13_may_join.

Theorem C13_flags : forall e sv en sv',
  entry_result (apply_entry e sv en) = Some sv' -> entry_flags_ok en sv sv'.
Proof. exact entry_flags. Qed.
Print Assumptions C13_flags.

Theorem C13_line_flags : forall e k ra m sv r sv' r' s,
  sv_sessions sv !! k = Some s -> process_message e k ra (Some m) sv r = Ok (tt, sv', r') ->
  flags_grow_only_by_auth k s m (line_cred m) sv sv'.
Proof. exact line_flags. Qed.
Print Assumptions C13_line_flags.

Theorem C13_services_need_link : forall e k ra m sv r s,
  sv_sessions sv !! k = Some s -> s_server s = false ->
  pw (process_message e k ra (Some m))
     (fun _ sv' _ =>
        (exists r1 r2, delete_session k (view_state k ra s sv) r1 = Ok (tt, sv', r2)) \/ sv' = view_state k ra s sv \/
        (exists name minp (f : handler) r1 r2, In (name, (minp, f)) commands /\ has_prefix "server_" name = false /\
           f e k m (view_state k ra s sv) r1 = Ok (tt, sv', r2))) sv r.
Proof. exact services_commands_need_link. Qed.
Print Assumptions C13_services_need_link.

Theorem C13_network_notice : forall k m sv r s target p1 rest,
  sv_sessions sv !! k = Some s -> s_operator s = false ->
  m_params m = target :: p1 :: rest -> has_prefix "#" target = false -> has_prefix "$" target = true ->
  exists o, cmd_privmsg k m sv r = Ok (tt, sv, RCtx (r_msgid r) (o :: r_out r)) /\ o_rcpt o = [fst k] /\
            o_data o = msg_bytes (srvmsg sv "481" [s_nick s; "Permission Denied - You're not an IRC operator"]).
Proof. exact network_notice_needs_oper. Qed.
Print Assumptions C13_network_notice.
