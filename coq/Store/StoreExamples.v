(* Store/StoreExamples.v — non-vacuity: the hypotheses of the C18/C09 theorems are met by
   concrete values (an abstract-JSON instance, a message using every field, a raft log entry,
   a batch, an operation program with both key classes, a deletion, a JSON store reopened in
   protobuf mode). *)
From Coq Require Import List NArith ZArith Bool Lia ZifyN ZifyNat ZifyBool.
From Coq Require Import Strings.String Strings.Ascii.
From RV Require Import Base.Text Store.Wire Store.Proto Store.Batch Store.KV Store.StoreDriver.
From RV Require Import Store.WireProofs Store.ProtoProofs Store.BatchProofs Store.KVProofs Store.StoreProofs.
Import ListNotations.
Local Open Scope string_scope.
Local Open Scope N_scope.

(* the driver's stand-in for legacy JSON satisfies the abstract-codec hypothesis *)
Example json_codec_inhabited :
  json_codec_ok standin_enc_log standin_dec_log (fun l => json_year_ok l = true).
Proof.
  intros l W Y. unfold standin_enc_log. rewrite Y. eexists. split; [reflexivity|].
  split; [|split; [reflexivity|discriminate]].
  unfold standin_dec_log. rewrite Ascii.eqb_refl.
  rewrite unmarshal_marshal_log by (now apply wf_pb_of_log). now rewrite log_of_pb_of_log.
Qed.

Definition ex_msg : msg :=
  Msg (7, 2) (18446744073709551615, 0) 2 "PRIVMSG #c :hi" (-5) ["a"; ""; "b"] "m:1" 18446744073709551615 3 "::1".

Ltac splits := repeat match goal with |- _ /\ _ => split end.
Ltac text := match goal with
  | |- text_ok _ => unfold text_ok, ProtoProofs.U64; split; vm_compute; reflexivity
  | |- str_ok _ => unfold str_ok, ProtoProofs.U64; vm_compute; reflexivity
  end.

Example msg_premises_met : wf_msg ex_msg /\ decode_msg (encode_msg ex_msg) = ROk ex_msg.
Proof.
  assert (W : wf_msg ex_msg).
  { unfold wf_msg, ex_msg. cbn [m_id m_session m_type m_data m_unixnano m_servers m_master m_cmid m_revision m_remote fst snd].
    splits; try (unfold ProtoProofs.U64; lia); try (unfold two31, two63; lia); try text.
    repeat constructor. }
  split; [exact W|now apply decode_encode_msg].
Qed.

Definition ex_log : rlog := RLog 5 2 0 (encode_for_raft ex_msg) "x" (-62135596800) 999999999.

Lemma ex_log_wf : wf_log ex_log.
Proof.
  unfold wf_log, ex_log. cbn [l_index l_term l_type l_data l_ext l_sec l_nsec].
  splits; try (unfold ProtoProofs.U64; lia); try (unfold two63, billion; lia); text.
Qed.

Example log_premises_met : forall jd, read_store jd (encode_log ex_log) = ROk ex_log.
Proof. intros jd. apply read_store_encode_log, ex_log_wf. Qed.

Definition ex_batch : batch := Batch 18446744073709551615 [BMsg 5 1 "hello" [9; 3]; BMsg 5 2 "" []].
Ltac ltU := match goal with |- (_ < _)%N => vm_compute; reflexivity end.
Example batch_premises_met : wf_batch ex_batch /\ unmarshal_batch (marshal_batch ex_batch) = Some ex_batch.
Proof.
  split; [|vm_compute; reflexivity].
  unfold wf_batch, ex_batch. cbn [b_next b_msgs]. splits; try ltU.
  constructor; [|constructor; [|constructor]]; unfold wf_bmsg; cbn [bm_id bm_reply bm_data bm_rcpt]; splits; try ltU.
  - constructor; [ltU|constructor; [ltU|constructor]].
  - constructor.
Qed.

(* an operation program inside the domain of C09_convert: JSON store, both key classes, a
   deletion, then reopening in protobuf mode (conversion), then reads *)
Definition no_json (_ : string) : option msg := None.
Definition ex_noop : rlog := RLog 4 2 1 "" "" 1758800000 0.
Definition ex_ops : list op :=
  [OStoreLogs [ex_noop; ex_log]; OSet "CurrentTerm" "t"; OSetU64 "LastVoteTerm" 7;
   ODeleteRange 4 4; OReopen true; OGetLog 5; OFirst; OLast; OGet "CurrentTerm"; OGetU64 "LastVoteTerm"].

Lemma ex_log_convertible : convertible no_json 0 ex_log.
Proof.
  intros _. exists ex_msg. split; [|split].
  - unfold msg_index. cbn [l_data ex_log]. rewrite from_bytes_proto by apply msg_premises_met. reflexivity.
  - apply msg_premises_met.
  - text.
Qed.

Lemma ex_noop_wf : wf_log ex_noop.
Proof.
  unfold wf_log, ex_noop. cbn [l_index l_term l_type l_data l_ext l_sec l_nsec].
  splits; try (unfold ProtoProofs.U64; lia); try (unfold two63, billion; lia); text.
Qed.

Example program_premises_met :
  run_ok standin_enc_log standin_dec_log no_json 0 (fun l => json_year_ok l = true) true
         (convertible no_json 0) Repaired (empty_store false) ex_ops /\
  snd (run standin_enc_log standin_dec_log no_json 0 Repaired (empty_store false) ex_ops) =
    [ObsOk; ObsOk; ObsOk; ObsOk; ObsOk; ObsLog ex_log; ObsIndex 5; ObsIndex 5;
     ObsBytes (Some "t"); ObsU64 7].
Proof.
  split; [|vm_compute; reflexivity].
  unfold ex_ops.
  repeat match goal with
         | |- run_ok _ _ _ _ _ _ _ _ _ (_ :: _) => split
         | |- run_ok _ _ _ _ _ _ _ _ _ [] => exact I
         end;
    try match goal with |- op_ok _ _ _ _ _ _ => cbn [op_ok] end;
    try exact I; try reflexivity; try (unfold ProtoProofs.U64; lia).
  - constructor; [|constructor; [|constructor]].
    + split; [apply ex_noop_wf|]. split; [intros H; discriminate|reflexivity].
    + split; [apply ex_log_wf|]. split; [apply ex_log_convertible|reflexivity].
Qed.
