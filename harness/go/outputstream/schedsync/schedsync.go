//go:build verif

// Package schedsync is a drop-in replacement for the parts of package sync that
// internal/outputstream uses (RWMutex, Cond, NewCond, Locker).  It is never part of /repo: for
// the schedule-enumeration runs of property C08 the check compiles a copy of outputstream.go
// whose "sync" import is redirected here (go test -overlay).
//
// With no Controller installed (Ctl == nil) everything behaves exactly like package sync.
// With a Controller, every goroutine started through Controller.Spawn stops
//   - before it acquires (Lock or RLock) a mutex that guards a condition variable, and
//   - inside Cond.Wait (after releasing the mutex),
//
// and continues only when the driver calls Controller.Step for it.  Exactly one controlled
// goroutine runs at a time, so one Step executes exactly one lock-protected section of the real
// code (plus the lock-free code up to the next stop).  Cond.Broadcast marks every waiting
// goroutine as woken; a goroutine waiting without a pending wake-up cannot be stepped.
// The goroutine that installed the Controller (the driver) is never stopped.
package schedsync

import (
	"sync"
	"time"
)

type Locker = sync.Locker
type Mutex = sync.Mutex
type WaitGroup = sync.WaitGroup
type Once = sync.Once

type Event struct {
	Tid  int
	Kind string // "lock", "rlock", "wait", "done", "panic", "disabled", "stuck"
}

type thread struct {
	id    int
	grant chan struct{}
	state string
	woken bool
	cond  *Cond
}

type Controller struct {
	current int // thread that is running; 0 = the driver
	threads map[int]*thread
	events  chan Event
}

// StuckAfter bounds one section of a controlled thread (only reached when a thread blocks on a
// mutex held by a thread that died inside its section); the driver may enlarge it.
var StuckAfter = 30 * time.Second

// Ctl is the installed controller (nil: plain sync behaviour).
var Ctl *Controller

func NewController() *Controller {
	return &Controller{threads: make(map[int]*thread), events: make(chan Event)}
}

// yield is called by the running controlled goroutine at a scheduling point.
func (c *Controller) yield(kind string) {
	t := c.threads[c.current]
	t.state = kind
	c.current = 0
	c.events <- Event{t.id, kind}
	<-t.grant
}

// Spawn starts f as controlled thread tid and runs it up to its first scheduling point.
func (c *Controller) Spawn(tid int, f func()) Event {
	t := &thread{id: tid, grant: make(chan struct{}), state: "new"}
	c.threads[tid] = t
	c.current = tid
	go func() {
		defer func() {
			if e := recover(); e != nil {
				t.state = "panic"
				c.current = 0
				c.events <- Event{tid, "panic"}
				return
			}
			t.state = "done"
			c.current = 0
			c.events <- Event{tid, "done"}
		}()
		f()
	}()
	return <-c.events
}

// Enabled reports whether Step(tid) would run the thread.
func (c *Controller) Enabled(tid int) bool {
	t := c.threads[tid]
	if t == nil || t.state == "done" || t.state == "panic" {
		return false
	}
	return t.state != "wait" || t.woken
}

// State returns the scheduling state of a thread ("lock", "rlock", "wait", "woken", "done", "panic").
func (c *Controller) State(tid int) string {
	t := c.threads[tid]
	if t == nil {
		return "unknown"
	}
	if t.state == "wait" && t.woken {
		return "woken"
	}
	return t.state
}

// Step lets thread tid execute its next lock-protected section.
func (c *Controller) Step(tid int) Event {
	if !c.Enabled(tid) {
		return Event{tid, "disabled"}
	}
	t := c.threads[tid]
	c.current = tid
	t.grant <- struct{}{}
	select {
	case ev := <-c.events:
		return ev
	case <-time.After(StuckAfter):
		return Event{tid, "stuck"}
	}
}

type RWMutex struct {
	real       sync.RWMutex
	controlled bool
}

func (m *RWMutex) stop(kind string) {
	if c := Ctl; c != nil && m.controlled && c.current != 0 {
		c.yield(kind)
	}
}

func (m *RWMutex) Lock()    { m.stop("lock"); m.real.Lock() }
func (m *RWMutex) Unlock()  { m.real.Unlock() }
func (m *RWMutex) RLock()   { m.stop("rlock"); m.real.RLock() }
func (m *RWMutex) RUnlock() { m.real.RUnlock() }
func (m *RWMutex) TryLock() bool {
	return m.real.TryLock()
}

type rawLocker struct{ m *RWMutex }

func (r rawLocker) Lock()   { r.m.real.Lock() }
func (r rawLocker) Unlock() { r.m.real.Unlock() }

type Cond struct {
	L    Locker
	real *sync.Cond
	raw  Locker
}

// NewCond marks the mutex as a scheduling point: it guards shared state that threads wait on.
func NewCond(l Locker) *Cond {
	c := &Cond{L: l, raw: l}
	if m, ok := l.(*RWMutex); ok {
		m.controlled = true
		c.raw = rawLocker{m}
	}
	c.real = sync.NewCond(c.raw)
	return c
}

func (c *Cond) Wait() {
	ctl := Ctl
	if ctl == nil || ctl.current == 0 {
		c.real.Wait()
		return
	}
	t := ctl.threads[ctl.current]
	t.cond = c
	t.woken = false
	c.raw.Unlock()
	ctl.yield("wait")
	c.raw.Lock()
}

func (c *Cond) Broadcast() {
	if ctl := Ctl; ctl != nil {
		for _, t := range ctl.threads {
			if t.state == "wait" && t.cond == c {
				t.woken = true
			}
		}
	}
	c.real.Broadcast()
}

func (c *Cond) Signal() { c.Broadcast() }
