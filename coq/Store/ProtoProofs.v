(* Store/ProtoProofs.v — round trips of the three protobuf messages, agreement of the two
   RobustMessage encoders, id defaulting, agreement of the RaftLog readers, snapshot framing. *)
From Coq Require Import List NArith ZArith Bool Lia ZifyN ZifyNat ZifyBool.
From Coq Require Import Strings.String Strings.Ascii.
From RV Require Import Store.Wire Store.WireProofs Store.Proto.
Import ListNotations.
Local Open Scope string_scope.
Local Open Scope N_scope.

Ltac Zify.zify_post_hook ::= Z.div_mod_to_equations.

Definition U64 : N := 18446744073709551616.
Definition str_ok (s : string) : Prop := slen s < U64.
Definition text_ok (s : string) : Prop := slen s < U64 /\ valid_utf8 s = true.

(* ---- field lists behind the emitters --------------------------------------------------------- *)
Definition f_varint (num n : N) : list (N * wval) := if n =? 0 then [] else [(num, VVarint n)].
Definition f_fixed64 (num n : N) : list (N * wval) := if n =? 0 then [] else [(num, VFixed64 n)].
Definition f_bytes (num : N) (s : string) : list (N * wval) :=
  match s with EmptyString => [] | _ => [(num, VBytes s)] end.
Definition f_sub (num : N) (o : option string) : list (N * wval) :=
  match o with None => [] | Some b => [(num, VBytes b)] end.
Definition f_rep (num : N) (l : list string) : list (N * wval) := map (fun s => (num, VBytes s)) l.

Lemma enc_f_varint num n : enc_fields (f_varint num n) = opt_varint num n.
Proof. unfold f_varint, opt_varint. destruct (n =? 0); simpl; [reflexivity|apply app_nil_r_s]. Qed.
Lemma enc_f_fixed64 num n : enc_fields (f_fixed64 num n) = opt_fixed64 num n.
Proof. unfold f_fixed64, opt_fixed64. destruct (n =? 0); simpl; [reflexivity|apply app_nil_r_s]. Qed.
Lemma enc_f_bytes num s : enc_fields (f_bytes num s) = opt_bytes num s.
Proof. destruct s; simpl; [reflexivity|apply app_nil_r_s]. Qed.
Lemma enc_f_sub num o : enc_fields (f_sub num o) = opt_sub num o.
Proof. destruct o; simpl; [apply app_nil_r_s|reflexivity]. Qed.
Lemma enc_f_rep num l : enc_fields (f_rep num l) = rep_bytes num l.
Proof. induction l as [|s l IH]; simpl; [reflexivity|now rewrite IH]. Qed.

Lemma ok_f_varint num n : 0 < num -> num < 536870912 -> n < U64 -> Forall field_ok (f_varint num n).
Proof. intros. unfold f_varint. destruct (n =? 0); constructor; [|constructor]. repeat split; assumption. Qed.
Lemma ok_f_fixed64 num n : 0 < num -> num < 536870912 -> n < U64 -> Forall field_ok (f_fixed64 num n).
Proof. intros. unfold f_fixed64. destruct (n =? 0); constructor; [|constructor]. repeat split; assumption. Qed.
Lemma ok_f_bytes num s : 0 < num -> num < 536870912 -> str_ok s -> Forall field_ok (f_bytes num s).
Proof. intros. destruct s; constructor; [|constructor]. repeat split; assumption. Qed.
Lemma ok_f_sub num o : 0 < num -> num < 536870912 -> (forall b, o = Some b -> str_ok b) -> Forall field_ok (f_sub num o).
Proof. intros ? ? H. destruct o; constructor; [|constructor]. repeat split; try assumption. now apply H. Qed.
Lemma ok_f_rep num l : 0 < num -> num < 536870912 -> Forall str_ok l -> Forall field_ok (f_rep num l).
Proof.
  intros ? ? H. induction H; simpl; constructor; [|assumption]. repeat split; assumption.
Qed.

Lemma fold_opt_app {A B} (f : A -> B -> option A) l1 l2 a :
  fold_opt f (l1 ++ l2) a = match fold_opt f l1 a with Some a' => fold_opt f l2 a' | None => None end.
Proof.
  revert a. induction l1 as [|x l1 IH]; intros a; simpl; [reflexivity|].
  destruct (f a x); [apply IH|reflexivity].
Qed.

(* ---- sizes of the small sub-messages ---------------------------------------------------------- *)
Lemma length_app_s a b : String.length (a ++ b) = (String.length a + String.length b)%nat.
Proof. induction a as [|c a IH]; simpl; [reflexivity|now rewrite IH]. Qed.

Lemma enc_varint_fuel_length f n : (String.length (enc_varint_fuel f n) <= f)%nat.
Proof.
  revert n. induction f as [|f IH]; intros n; simpl; [lia|].
  destruct (n <? 128); simpl; [lia|]. specialize (IH (n / 128)). lia.
Qed.

Lemma opt_varint_length num n : num < 16 -> (String.length (opt_varint num n) <= 11)%nat.
Proof.
  intros H. unfold opt_varint. destruct (n =? 0); simpl; [lia|].
  unfold enc_field, enc_tag. rewrite length_app_s. cbn [wt_of enc_wval].
  pose proof (enc_varint_fuel_length 10 n). fold (enc_varint n) in H0.
  assert (String.length (enc_varint (num * 8 + 0)) = 1%nat).
  { unfold enc_varint. cbn [enc_varint_fuel]. destruct (N.ltb_spec (num * 8 + 0) 128); [reflexivity|lia]. }
  lia.
Qed.

Lemma opt_fixed64_length num n : num < 16 -> (String.length (opt_fixed64 num n) <= 9)%nat.
Proof.
  intros H. unfold opt_fixed64. destruct (n =? 0); simpl; [lia|].
  unfold enc_field, enc_tag. rewrite length_app_s. cbn [wt_of enc_wval]. rewrite enc_le_length.
  assert (String.length (enc_varint (num * 8 + 1)) = 1%nat).
  { unfold enc_varint. cbn [enc_varint_fuel]. destruct (N.ltb_spec (num * 8 + 1) 128); [reflexivity|lia]. }
  lia.
Qed.

Lemma marshal_id_ok i : str_ok (marshal_id i).
Proof.
  unfold str_ok, marshal_id, U64. rewrite slen_length, length_app_s.
  pose proof (opt_fixed64_length 1 (pi_id i)). pose proof (opt_fixed64_length 2 (pi_reply i)). lia.
Qed.

Lemma marshal_ts_ok t : str_ok (marshal_ts t).
Proof.
  unfold str_ok, marshal_ts, U64. rewrite slen_length, length_app_s.
  pose proof (opt_varint_length 1 (u64_of_Z (fst t))). pose proof (opt_varint_length 2 (u64_of_Z (snd t))). lia.
Qed.

(* ---- RobustId ---------------------------------------------------------------------------------- *)
Definition wf_pb_id (i : pb_id) : Prop := pi_id i < U64 /\ pi_reply i < U64.

Definition fields_id (i : pb_id) : list (N * wval) := f_fixed64 1 (pi_id i) ++ f_fixed64 2 (pi_reply i).

Lemma marshal_id_fields i : marshal_id i = enc_fields (fields_id i).
Proof. unfold marshal_id, fields_id. now rewrite enc_fields_app, !enc_f_fixed64. Qed.

Theorem unmarshal_marshal_id i : wf_pb_id i -> unmarshal_id_into pb_id_zero (marshal_id i) = Some i.
Proof.
  intros [H1 H2]. unfold unmarshal_id_into. rewrite marshal_id_fields.
  rewrite parse_message_enc_fields.
  - destruct i as [a b]. unfold fields_id, f_fixed64. cbn [pi_id pi_reply] in *.
    destruct (N.eqb_spec a 0), (N.eqb_spec b 0); subst; reflexivity.
  - apply Forall_app. split; apply ok_f_fixed64; unfold U64 in *; lia || assumption.
Qed.

(* ---- RobustMessage ----------------------------------------------------------------------------- *)
Definition opt_ok {A} (P : A -> Prop) (o : option A) : Prop := match o with Some a => P a | None => True end.

Definition wf_pb_msg (m : pb_msg) : Prop :=
  opt_ok wf_pb_id (pm_id m) /\ opt_ok wf_pb_id (pm_session m) /\
  (- two31 <= pm_type m < two31)%Z /\ text_ok (pm_data m) /\
  (- two63 <= pm_unixnano m < two63)%Z /\ Forall text_ok (pm_servers m) /\ text_ok (pm_master m) /\
  pm_cmid m < U64 /\ pm_revision m < U64 /\ text_ok (pm_remote m).

Definition fields_msg (m : pb_msg) : list (N * wval) :=
  f_sub 1 (option_map marshal_id (pm_id m)) ++
  f_sub 2 (option_map marshal_id (pm_session m)) ++
  f_varint 3 (u64_of_Z (pm_type m)) ++
  f_bytes 4 (pm_data m) ++
  f_varint 5 (u64_of_Z (pm_unixnano m)) ++
  f_rep 6 (pm_servers m) ++
  f_bytes 7 (pm_master m) ++
  f_varint 8 (pm_cmid m) ++
  f_varint 9 (pm_revision m) ++
  f_bytes 10 (pm_remote m).

Lemma marshal_msg_fields m : marshal_msg m = enc_fields (fields_msg m).
Proof.
  unfold marshal_msg, fields_msg.
  now rewrite !enc_fields_app, !enc_f_sub, !enc_f_varint, !enc_f_bytes, enc_f_rep.
Qed.

Lemma fields_msg_ok m : wf_pb_msg m -> Forall field_ok (fields_msg m).
Proof.
  intros (H1 & H2 & H3 & [H4 _] & H5 & H6 & [H7 _] & H8 & H9 & [H10 _]).
  unfold fields_msg. repeat (apply Forall_app; split).
  - apply ok_f_sub; try lia. intros b E. destruct (pm_id m); inversion E. apply marshal_id_ok.
  - apply ok_f_sub; try lia. intros b E. destruct (pm_session m); inversion E. apply marshal_id_ok.
  - apply ok_f_varint; try lia. apply u64_of_Z_bound.
  - apply ok_f_bytes; try lia; try assumption.
  - apply ok_f_varint; try lia. apply u64_of_Z_bound.
  - apply ok_f_rep; try lia. eapply Forall_impl; [|exact H6]. now intros s [? _].
  - apply ok_f_bytes; try lia; try assumption.
  - apply ok_f_varint; try lia; try assumption.
  - apply ok_f_varint; try lia; try assumption.
  - apply ok_f_bytes; try lia; try assumption.
Qed.

(* one lemma per field: what the fold does with the (zero or one) fields emitted for it *)
Section Steps.
Variables (a b : option pb_id) (c : Z) (d : string) (e : Z) (f : list string) (g : string) (h i : N) (j : string).

Lemma st_id x : wf_pb_id x ->
  fold_opt upd_msg (f_sub 1 (Some (marshal_id x))) (PbMsg None b c d e f g h i j) = Some (PbMsg (Some x) b c d e f g h i j).
Proof. intros H. cbn [f_sub fold_opt upd_msg pm_id]. rewrite unmarshal_marshal_id by assumption. reflexivity. Qed.

Lemma st_session x : wf_pb_id x ->
  fold_opt upd_msg (f_sub 2 (Some (marshal_id x))) (PbMsg a None c d e f g h i j) = Some (PbMsg a (Some x) c d e f g h i j).
Proof. intros H. cbn [f_sub fold_opt upd_msg pm_session]. rewrite unmarshal_marshal_id by assumption. reflexivity. Qed.

Lemma st_type t : (- two31 <= t < two31)%Z ->
  fold_opt upd_msg (f_varint 3 (u64_of_Z t)) (PbMsg a b 0 d e f g h i j) = Some (PbMsg a b t d e f g h i j).
Proof.
  intros H. unfold f_varint. destruct (N.eqb_spec (u64_of_Z t) 0) as [E|E].
  - apply u64_of_Z_zero in E; [subst; reflexivity|unfold two31, two63 in *; lia].
  - cbn [fold_opt upd_msg]. unfold set_pm_type. cbn [pm_id pm_session pm_type pm_data pm_unixnano pm_servers pm_master pm_cmid pm_revision pm_remote].
    now rewrite i32_u64.
Qed.

Lemma st_data s : valid_utf8 s = true ->
  fold_opt upd_msg (f_bytes 4 s) (PbMsg a b c "" e f g h i j) = Some (PbMsg a b c s e f g h i j).
Proof.
  intros H. destruct s as [|ch s]; [reflexivity|].
  cbn [f_bytes fold_opt upd_msg]. now rewrite H.
Qed.

Lemma st_nano t : (- two63 <= t < two63)%Z ->
  fold_opt upd_msg (f_varint 5 (u64_of_Z t)) (PbMsg a b c d 0 f g h i j) = Some (PbMsg a b c d t f g h i j).
Proof.
  intros H. unfold f_varint. destruct (N.eqb_spec (u64_of_Z t) 0) as [E|E].
  - apply u64_of_Z_zero in E; [subst; reflexivity|assumption].
  - cbn [fold_opt upd_msg]. unfold set_pm_unixnano. cbn [pm_id pm_session pm_type pm_data pm_unixnano pm_servers pm_master pm_cmid pm_revision pm_remote].
    now rewrite i64_u64.
Qed.

Lemma st_servers l : forall f0, forallb valid_utf8 l = true ->
  fold_opt upd_msg (f_rep 6 l) (PbMsg a b c d e f0 g h i j) = Some (PbMsg a b c d e (f0 ++ l)%list g h i j).
Proof.
  induction l as [|s l IH]; intros f0 H.
  - simpl. now rewrite app_nil_r.
  - simpl in H. apply andb_true_iff in H. destruct H as [Hs Hl].
    cbn [f_rep map fold_opt upd_msg]. rewrite Hs.
    unfold set_pm_servers. cbn [pm_id pm_session pm_type pm_data pm_unixnano pm_servers pm_master pm_cmid pm_revision pm_remote].
    fold (f_rep 6 l). rewrite IH by assumption. now rewrite <- app_assoc.
Qed.

Lemma st_master s : valid_utf8 s = true ->
  fold_opt upd_msg (f_bytes 7 s) (PbMsg a b c d e f "" h i j) = Some (PbMsg a b c d e f s h i j).
Proof.
  intros H. destruct s as [|ch s]; [reflexivity|].
  cbn [f_bytes fold_opt upd_msg]. now rewrite H.
Qed.

Lemma st_cmid n :
  fold_opt upd_msg (f_varint 8 n) (PbMsg a b c d e f g 0 i j) = Some (PbMsg a b c d e f g n i j).
Proof. unfold f_varint. destruct (N.eqb_spec n 0); [subst|]; reflexivity. Qed.

Lemma st_revision n :
  fold_opt upd_msg (f_varint 9 n) (PbMsg a b c d e f g h 0 j) = Some (PbMsg a b c d e f g h n j).
Proof. unfold f_varint. destruct (N.eqb_spec n 0); [subst|]; reflexivity. Qed.

Lemma st_remote s : valid_utf8 s = true ->
  fold_opt upd_msg (f_bytes 10 s) (PbMsg a b c d e f g h i "") = Some (PbMsg a b c d e f g h i s).
Proof.
  intros H. destruct s as [|ch s]; [reflexivity|].
  cbn [f_bytes fold_opt upd_msg]. now rewrite H.
Qed.
End Steps.

Lemma forallb_utf8 l : Forall text_ok l -> forallb valid_utf8 l = true.
Proof. induction 1 as [|s l [_ H] _ IH]; simpl; [reflexivity|now rewrite H, IH]. Qed.

(* proto.Unmarshal(proto.Marshal(p)) = p for every RobustMessage within the wire domain *)
Theorem unmarshal_marshal_msg p : wf_pb_msg p -> unmarshal_msg (marshal_msg p) = Some p.
Proof.
  intros W. pose proof (fields_msg_ok p W) as Hok.
  unfold unmarshal_msg. rewrite marshal_msg_fields, parse_message_enc_fields by assumption.
  destruct W as (H1 & H2 & H3 & [_ H4] & H5 & H6 & [_ H7] & H8 & H9 & [_ H10]).
  destruct p as [a b c d e f g h i j].
  cbn [pm_id pm_session pm_type pm_data pm_unixnano pm_servers pm_master pm_cmid pm_revision pm_remote] in *.
  unfold fields_msg, pb_msg_zero.
  cbn [pm_id pm_session pm_type pm_data pm_unixnano pm_servers pm_master pm_cmid pm_revision pm_remote].
  assert (Ea : fold_opt upd_msg (f_sub 1 (option_map marshal_id a)) (PbMsg None None 0 "" 0 [] "" 0 0 "")
               = Some (PbMsg a None 0 "" 0 [] "" 0 0 "")).
  { destruct a as [x|]; [apply st_id; exact H1|reflexivity]. }
  assert (Eb : fold_opt upd_msg (f_sub 2 (option_map marshal_id b)) (PbMsg a None 0 "" 0 [] "" 0 0 "")
               = Some (PbMsg a b 0 "" 0 [] "" 0 0 "")).
  { destruct b as [x|]; [apply st_session; exact H2|reflexivity]. }
  rewrite fold_opt_app, Ea; cbv beta iota.
  rewrite fold_opt_app, Eb; cbv beta iota.
  rewrite fold_opt_app, st_type by assumption; cbv beta iota.
  rewrite fold_opt_app, st_data by assumption; cbv beta iota.
  rewrite fold_opt_app, st_nano by assumption; cbv beta iota.
  rewrite fold_opt_app, st_servers by (now apply forallb_utf8); cbv beta iota. cbn [app].
  rewrite fold_opt_app, st_master by assumption; cbv beta iota.
  rewrite fold_opt_app, st_cmid; cbv beta iota.
  rewrite fold_opt_app, st_revision; cbv beta iota. now rewrite st_remote.
Qed.

(* ---- robust.Message ----------------------------------------------------------------------------- *)
Definition wf_msg (m : msg) : Prop :=
  fst (m_id m) < U64 /\ snd (m_id m) < U64 /\ fst (m_session m) < U64 /\ snd (m_session m) < U64 /\
  (- two31 <= m_type m < two31)%Z /\ text_ok (m_data m) /\ (- two63 <= m_unixnano m < two63)%Z /\
  Forall text_ok (m_servers m) /\ text_ok (m_master m) /\ m_cmid m < U64 /\ m_revision m < U64 /\
  text_ok (m_remote m).

Lemma wf_proto_message m : wf_msg m -> wf_pb_msg (proto_message m).
Proof.
  intros (H1 & H2 & H3 & H4 & H5 & H6 & H7 & H8 & H9 & H10 & H11 & H12).
  unfold wf_pb_msg, proto_message, wf_pb_id.
  cbn [pm_id pm_session pm_type pm_data pm_unixnano pm_servers pm_master pm_cmid pm_revision pm_remote opt_ok pi_id pi_reply].
  rewrite i32_idem by assumption. repeat split; try assumption; try apply H5; try apply H6; try apply H7; try apply H9; try apply H12.
Qed.

Lemma msg_of_proto_message m : wf_msg m -> msg_of_pb (proto_message m) = ROk m.
Proof.
  intros W. destruct W as (_ & _ & _ & _ & H5 & _).
  destruct m as [[i1 i2] [s1 s2] t d n sv ma cm rv ra]. unfold proto_message, msg_of_pb.
  cbn [pm_id pm_session pm_type pm_data pm_unixnano pm_servers pm_master pm_cmid pm_revision pm_remote
       m_id m_session m_type m_data m_unixnano m_servers m_master m_cmid m_revision m_remote fst snd pi_id pi_reply] in *.
  now rewrite i32_idem.
Qed.

(* C18: the ProtoMessage encoder round-trips *)
Theorem decode_encode_msg m : wf_msg m -> decode_msg (encode_msg m) = ROk m.
Proof.
  intros W. unfold decode_msg, encode_msg.
  rewrite unmarshal_marshal_msg by (now apply wf_proto_message). now apply msg_of_proto_message.
Qed.

(* C18: CopyToProtoMessage into ANY allocated destination builds the very message ProtoMessage
   builds (nothing of the destination survives), hence the same bytes *)
Theorem copy_agrees m dst i0 s0 :
  pm_id dst = Some i0 -> pm_session dst = Some s0 -> copy_to_proto m dst = ROk (proto_message m).
Proof.
  intros Hi Hs. unfold copy_to_proto. rewrite Hi.
  destruct dst as [a b c d e f g h i j]. cbn [pm_id pm_session] in *. subst.
  reflexivity.
Qed.

Theorem encoders_agree m dst i0 s0 :
  pm_id dst = Some i0 -> pm_session dst = Some s0 -> encode_msg_copy dst m = ROk (encode_msg m).
Proof. intros Hi Hs. unfold encode_msg_copy. now rewrite (copy_agrees m dst i0 s0). Qed.

Theorem copy_unallocated_panics m dst :
  pm_id dst = None \/ pm_session dst = None -> copy_to_proto m dst = RPanic.
Proof.
  intros [H|H]; unfold copy_to_proto.
  - now rewrite H.
  - destruct dst as [a b c d e f g h i j]. cbn [pm_id pm_session] in *. subst b. destruct a; reflexivity.
Qed.

Theorem decode_encode_msg_copy m dst i0 s0 b :
  wf_msg m -> pm_id dst = Some i0 -> pm_session dst = Some s0 ->
  encode_msg_copy dst m = ROk b -> decode_msg b = ROk m.
Proof.
  intros W Hi Hs E. rewrite (encoders_agree m dst i0 s0 Hi Hs) in E. inversion E. now apply decode_encode_msg.
Qed.

(* the checked variants (proto.Marshal's UTF-8 error) coincide inside the domain *)
Lemma wf_msg_utf8 m : wf_msg m -> pb_msg_utf8 (proto_message m) = true.
Proof.
  intros (_ & _ & _ & _ & _ & [_ H6] & _ & H8 & [_ H9] & _ & _ & [_ H12]).
  unfold pb_msg_utf8, proto_message.
  cbn [pm_data pm_servers pm_master pm_remote]. now rewrite H6, H9, H12, forallb_utf8.
Qed.
Theorem encode_msg_checked_ok m : wf_msg m -> encode_msg_checked m = Some (encode_msg m).
Proof. intros W. unfold encode_msg_checked, marshal_msg_checked. now rewrite wf_msg_utf8. Qed.

(* ---- 'p' discrimination and id defaulting ------------------------------------------------------ *)
Section FromBytes.
Variable json_dec_msg : string -> option msg.

Theorem from_bytes_proto m idx :
  wf_msg m -> from_bytes json_dec_msg (encode_for_raft m) idx = ROk (default_id m idx).
Proof.
  intros W. unfold from_bytes, encode_for_raft. cbn [starts_p tail]. rewrite Ascii.eqb_refl.
  now rewrite decode_encode_msg.
Qed.

(* legacy JSON: any encoder that round-trips through the abstract decoder and never starts with
   'p' is decoded by the JSON branch, with the same id defaulting *)
Theorem from_bytes_json (json_enc_msg : msg -> string) m idx :
  json_dec_msg (json_enc_msg m) = Some m -> starts_p (json_enc_msg m) = false ->
  from_bytes json_dec_msg (json_enc_msg m) idx = ROk (default_id m idx).
Proof. intros H1 H2. unfold from_bytes. now rewrite H2, H1. Qed.

(* id defaulting: the id comes from the raft index exactly when the encoded id is 0 *)
Theorem default_id_spec m idx :
  fst (m_id (default_id m idx)) = (if fst (m_id m) =? 0 then idx else fst (m_id m)) /\
  (fst (m_id m) <> 0 -> default_id m idx = m) /\
  snd (m_id (default_id m idx)) = snd (m_id m) /\ m_session (default_id m idx) = m_session m /\
  m_type (default_id m idx) = m_type m /\ m_data (default_id m idx) = m_data m /\
  m_unixnano (default_id m idx) = m_unixnano m /\ m_servers (default_id m idx) = m_servers m /\
  m_master (default_id m idx) = m_master m /\ m_cmid (default_id m idx) = m_cmid m /\
  m_revision (default_id m idx) = m_revision m /\ m_remote (default_id m idx) = m_remote m.
Proof.
  unfold default_id. destruct (N.eqb_spec (fst (m_id m)) 0) as [E|E]; repeat split; try reflexivity; try contradiction.
Qed.

(* decoding is the same on every node: it is a function of the bytes and the raft index *)
Theorem from_bytes_deterministic b idx1 idx2 :
  idx1 = idx2 -> from_bytes json_dec_msg b idx1 = from_bytes json_dec_msg b idx2.
Proof. now intros ->. Qed.
End FromBytes.

(* ---- RaftLog ------------------------------------------------------------------------------------- *)
Definition wf_ts (t : Z * Z) : Prop := (- two63 <= fst t < two63)%Z /\ (- two31 <= snd t < two31)%Z.
Definition wf_pb_log (l : pb_log) : Prop :=
  pl_index l < U64 /\ pl_term l < U64 /\ (- two31 <= pl_type l < two31)%Z /\
  str_ok (pl_data l) /\ str_ok (pl_ext l) /\ opt_ok wf_ts (pl_at l).

Definition fields_ts (t : Z * Z) : list (N * wval) := f_varint 1 (u64_of_Z (fst t)) ++ f_varint 2 (u64_of_Z (snd t)).
Lemma marshal_ts_fields t : marshal_ts t = enc_fields (fields_ts t).
Proof. unfold marshal_ts, fields_ts. now rewrite enc_fields_app, !enc_f_varint. Qed.

Theorem unmarshal_marshal_ts t : wf_ts t -> unmarshal_ts_into (0, 0)%Z (marshal_ts t) = Some t.
Proof.
  intros [H1 H2]. unfold unmarshal_ts_into. rewrite marshal_ts_fields.
  rewrite parse_message_enc_fields.
  - destruct t as [s n]. unfold fields_ts, f_varint. cbn [fst snd] in *.
    destruct (N.eqb_spec (u64_of_Z s) 0) as [E1|E1], (N.eqb_spec (u64_of_Z n) 0) as [E2|E2];
      try (apply u64_of_Z_zero in E1; [subst s|assumption]);
      try (apply u64_of_Z_zero in E2; [subst n|unfold two31, two63 in *; lia]);
      cbn [app fold_left upd_ts fst snd]; rewrite ?i64_u64, ?i32_u64 by assumption; reflexivity.
  - apply Forall_app. split; apply ok_f_varint; try lia; apply u64_of_Z_bound.
Qed.

Definition fields_log (l : pb_log) : list (N * wval) :=
  f_varint 1 (pl_index l) ++ f_varint 2 (pl_term l) ++ f_varint 3 (u64_of_Z (pl_type l)) ++
  f_bytes 4 (pl_data l) ++ f_bytes 5 (pl_ext l) ++ f_sub 6 (option_map marshal_ts (pl_at l)).

Lemma marshal_log_fields l : marshal_log l = enc_fields (fields_log l).
Proof.
  unfold marshal_log, fields_log. now rewrite !enc_fields_app, !enc_f_varint, !enc_f_bytes, enc_f_sub.
Qed.

Lemma fields_log_ok l : wf_pb_log l -> Forall field_ok (fields_log l).
Proof.
  intros (H1 & H2 & H3 & H4 & H5 & H6). unfold fields_log. repeat (apply Forall_app; split).
  - apply ok_f_varint; try lia; try assumption.
  - apply ok_f_varint; try lia; try assumption.
  - apply ok_f_varint; try lia. apply u64_of_Z_bound.
  - apply ok_f_bytes; try lia; try assumption.
  - apply ok_f_bytes; try lia; try assumption.
  - apply ok_f_sub; try lia. intros b E. destruct (pl_at l); inversion E. apply marshal_ts_ok.
Qed.

Section LogSteps.
Variables (a b : N) (c : Z) (d e : string) (f : option (Z * Z)).
Lemma sl_index n : fold_opt upd_log (f_varint 1 n) (PbLog 0 b c d e f) = Some (PbLog n b c d e f).
Proof. unfold f_varint. destruct (N.eqb_spec n 0); [subst|]; reflexivity. Qed.
Lemma sl_term n : fold_opt upd_log (f_varint 2 n) (PbLog a 0 c d e f) = Some (PbLog a n c d e f).
Proof. unfold f_varint. destruct (N.eqb_spec n 0); [subst|]; reflexivity. Qed.
Lemma sl_type t : (- two31 <= t < two31)%Z ->
  fold_opt upd_log (f_varint 3 (u64_of_Z t)) (PbLog a b 0 d e f) = Some (PbLog a b t d e f).
Proof.
  intros H. unfold f_varint. destruct (N.eqb_spec (u64_of_Z t) 0) as [E|E].
  - apply u64_of_Z_zero in E; [subst; reflexivity|unfold two31, two63 in *; lia].
  - cbn [fold_opt upd_log pl_index pl_term pl_type pl_data pl_ext pl_at]. now rewrite i32_u64.
Qed.
Lemma sl_data s : fold_opt upd_log (f_bytes 4 s) (PbLog a b c "" e f) = Some (PbLog a b c s e f).
Proof. destruct s; reflexivity. Qed.
Lemma sl_ext s : fold_opt upd_log (f_bytes 5 s) (PbLog a b c d "" f) = Some (PbLog a b c d s f).
Proof. destruct s; reflexivity. Qed.
Lemma sl_at t : opt_ok wf_ts t ->
  fold_opt upd_log (f_sub 6 (option_map marshal_ts t)) (PbLog a b c d e None) = Some (PbLog a b c d e t).
Proof.
  intros H. destruct t as [t|]; [|reflexivity].
  cbn [option_map f_sub fold_opt upd_log pl_at]. rewrite unmarshal_marshal_ts by exact H. reflexivity.
Qed.
End LogSteps.

(* proto.Unmarshal(proto.Marshal(l)) = l for every RaftLog: all six fields *)
Theorem unmarshal_marshal_log l : wf_pb_log l -> unmarshal_log (marshal_log l) = Some l.
Proof.
  intros W. pose proof (fields_log_ok l W) as Hok.
  unfold unmarshal_log. rewrite marshal_log_fields, parse_message_enc_fields by assumption.
  destruct W as (H1 & H2 & H3 & H4 & H5 & H6). destruct l as [a b c d e f].
  cbn [pl_index pl_term pl_type pl_data pl_ext pl_at] in *.
  unfold fields_log, pb_log_zero. cbn [pl_index pl_term pl_type pl_data pl_ext pl_at].
  rewrite fold_opt_app, sl_index; cbv beta iota. rewrite fold_opt_app, sl_term; cbv beta iota.
  rewrite fold_opt_app, sl_type by assumption; cbv beta iota.
  rewrite fold_opt_app, sl_data; cbv beta iota. rewrite fold_opt_app, sl_ext; cbv beta iota. now rewrite sl_at.
Qed.

(* ---- raft.Log ------------------------------------------------------------------------------------- *)
Definition wf_log (l : rlog) : Prop :=
  l_index l < U64 /\ l_term l < U64 /\ l_type l < 256 /\ str_ok (l_data l) /\ str_ok (l_ext l) /\
  (- two63 <= l_sec l < two63)%Z /\ (0 <= l_nsec l < billion)%Z.

Lemma wf_pb_of_log l : wf_log l -> wf_pb_log (pb_of_log l).
Proof.
  intros (H1 & H2 & H3 & H4 & H5 & H6 & H7). unfold wf_pb_log, pb_of_log, wf_ts, billion, two31 in *.
  cbn [pl_index pl_term pl_type pl_data pl_ext pl_at opt_ok fst snd]. repeat split; try assumption; lia.
Qed.

Lemma as_time_id s n : (- two63 <= s < two63)%Z -> (0 <= n < billion)%Z -> as_time (Some (s, n)) = (s, n).
Proof.
  intros Hs Hn. unfold as_time, billion in *.
  assert (n / 1000000000 = 0)%Z as -> by lia. assert (n mod 1000000000 = n)%Z as -> by lia.
  rewrite Z.add_0_r. now rewrite i64_idem.
Qed.

Lemma log_of_pb_of_log l : wf_log l -> log_of_pb_store (pb_of_log l) = l.
Proof.
  intros (H1 & H2 & H3 & H4 & H5 & H6 & H7). destruct l as [i t ty d e s n].
  unfold log_of_pb_store, pb_of_log. cbn [l_index l_term l_type l_data l_ext l_sec l_nsec pl_index pl_term pl_type pl_data pl_ext pl_at] in *.
  rewrite as_time_id by assumption. f_equal. unfold u8_of_Z. lia.
Qed.

Section Readers.
Variable json_dec_log : string -> option rlog.

(* C18: decode_log (encode_log l) = l, all six fields, through the store's reader *)
Theorem read_store_encode_log l : wf_log l -> read_store json_dec_log (encode_log l) = ROk l.
Proof.
  intros W. unfold read_store, read_with, encode_log. cbn [starts_p tail]. rewrite Ascii.eqb_refl.
  rewrite unmarshal_marshal_log by (now apply wf_pb_of_log). now rewrite log_of_pb_of_log.
Qed.

(* what StoreLogProto writes for a pb.RaftLog reads back as the reader's copy of its fields *)
Theorem read_store_encode_pblog p :
  wf_pb_log p -> read_store json_dec_log (encode_pblog p) = ROk (log_of_pb_store p).
Proof.
  intros W. unfold read_store, read_with, encode_pblog. cbn [starts_p tail]. rewrite Ascii.eqb_refl.
  now rewrite unmarshal_marshal_log.
Qed.

(* C18: the copies of the reader agree on EVERY stored value (not only on well-formed ones) *)
Theorem readers_agree v :
  read_snapshot json_dec_log v = read_store json_dec_log v /\
  read_dump json_dec_log v = read_store json_dec_log v /\
  read_canary json_dec_log v = read_store json_dec_log v /\
  (v <> EmptyString -> read_frombytes json_dec_log v = read_store json_dec_log v).
Proof.
  repeat split; try reflexivity. intros H. destruct v; [contradiction|reflexivity].
Qed.

(* raftlog.FromBytes and GetLog also agree on the empty value when JSON rejects it *)
Theorem frombytes_empty : json_dec_log EmptyString = None ->
  read_frombytes json_dec_log EmptyString = read_store json_dec_log EmptyString.
Proof. intros H. unfold read_frombytes, read_store, read_with. cbn [starts_p]. now rewrite H. Qed.

(* FSM.decodeProtobuf sees the same index and data as the store's reader and re-stores the
   record verbatim under the key of that index *)
Theorem restore_agrees v :
  starts_p v = true ->
  match read_restore v, read_store json_dec_log v with
  | ROk (i, d, (k, v')), ROk l => i = l_index l /\ d = l_data l /\ k = be8 (l_index l) /\ v' = v
  | RErr, RErr => True
  | _, _ => False
  end.
Proof.
  intros H. destruct v as [|c r]; [discriminate|]. cbn [starts_p] in H.
  unfold read_restore, read_store, read_with. cbn [starts_p tail]. rewrite H. cbn [negb].
  destruct (unmarshal_log r) as [p|]; [|exact I].
  unfold log_of_pb_store. destruct (as_time (pl_at p)). cbn [l_index l_data]. repeat split.
Qed.

Theorem restore_encode_log l : wf_log l ->
  read_restore (encode_log l) = ROk (l_index l, l_data l, (be8 (l_index l), encode_log l)).
Proof.
  intros W. unfold read_restore, encode_log. rewrite Ascii.eqb_refl. cbn [negb].
  rewrite unmarshal_marshal_log by (now apply wf_pb_of_log). reflexivity.
Qed.
End Readers.

(* ---- snapshot framing ----------------------------------------------------------------------------- *)
Lemma unframe_frame l : forall fuel,
  Forall str_ok l -> (String.length (frame_records l) <= fuel)%nat ->
  unframe_records fuel (frame_records l) = Some l.
Proof.
  induction l as [|v l IH]; intros fuel Hok Hf.
  - destruct fuel; reflexivity.
  - inversion Hok as [|x y Hv Hok']; subst.
    cbn [frame_records] in *.
    assert (Hlen : String.length (be8 (slen v) ++ v ++ frame_records l) =
                   (8 + String.length v + String.length (frame_records l))%nat).
    { rewrite !length_app_s. unfold be8. now rewrite enc_be_length, Nat.add_assoc. }
    destruct fuel as [|fuel]; [lia|].
    assert (E : exists c r, be8 (slen v) ++ v ++ frame_records l = String c r).
    { unfold be8. cbn [enc_be append]. eauto. }
    destruct E as [c [r E]].
    assert (P : unframe_records (S fuel) (be8 (slen v) ++ v ++ frame_records l) =
                match dec_be 8 (be8 (slen v) ++ v ++ frame_records l) with
                | Some (len, r0) => match split_at r0 len with
                                    | Some (v0, r') => match unframe_records fuel r' with
                                                       | Some l0 => Some (v0 :: l0)
                                                       | None => None
                                                       end
                                    | None => None
                                    end
                | None => None
                end).
    { rewrite E. reflexivity. }
    rewrite P, dec_enc_be8 by exact Hv. rewrite split_at_app.
    rewrite IH; [reflexivity|assumption|lia].
Qed.

Theorem restore_persist_stream l : Forall str_ok l -> restore_stream (persist_stream l) = Some l.
Proof.
  intros H. unfold restore_stream, persist_stream. cbn [starts_p tail]. rewrite Ascii.eqb_refl.
  apply unframe_frame; [exact H|]. simpl. lia.
Qed.
