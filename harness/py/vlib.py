# vlib.py — shared machinery of /verif/bin/check (python3 stdlib only).
import fcntl, hashlib, json, os, random, re, shutil, subprocess, sys, time

ROOT = "/verif"
REPO = os.environ.get("VERIF_REPO", "/repo")  # VERIF_REPO: development only (scratch worktrees); registered commands use /repo
BUILD = os.path.join(ROOT, "build")
COQ = os.path.join(ROOT, "coq")
HGO = os.path.join(ROOT, "harness", "go")
EVID = os.environ.get("VERIF_EVIDENCE_DIR") or os.path.join(ROOT, "evidence")
REPLAYS = os.path.join(EVID, "replays")
DEFAULT_SEED = 20250925

STD_AXIOMS = {  # standard-library axioms that may appear; none is expected
    "functional_extensionality_dep", "proof_irrelevance", "classic", "JMeq_eq",
    "Eq_rect_eq.eq_rect_eq", "eq_rect_eq", "propositional_extensionality",
}

TRUSTED_BASE_COMMON = [
    "Coq 8.16.1 kernel (coqc, full .vo build; vm_compute used, native_compute not used)",
    "Print Assumptions output of every theorem in Properties/<id>.v (parsed on every run)",
    "extraction with ExtrOcamlBasic only (its Extract Inductive bool/option/unit/list/prod/sumbool/sumor and inlined andb/orb/negb/fst/snd), OCaml 4.13.1, ocaml/main.ml glue (stdin/stdout <-> Coq string)",
    "correspondence harness: Go drivers injected with go test -overlay (build tag verif), python generators/canonicalisers in /verif/harness/py",
]


def go_env():
    e = dict(os.environ)
    e.update({"GOFLAGS": "-mod=mod", "GOPROXY": "off", "GOSUMDB": "off", "GOTOOLCHAIN": "local",
              "CARGO_NET_OFFLINE": "true", "PIP_NO_INDEX": "1"})
    return e


def sh(cmd, timeout=600, cwd=None, env=None, stdin=None):
    """run a command, return (rc, combined output); rc=124 on timeout"""
    try:
        p = subprocess.run(cmd, cwd=cwd, env=env, input=stdin, stdout=subprocess.PIPE,
                           stderr=subprocess.STDOUT, timeout=timeout, shell=isinstance(cmd, str))
        out = p.stdout.decode("utf-8", "replace") if isinstance(p.stdout, bytes) else p.stdout
        return p.returncode, out
    except subprocess.TimeoutExpired as ex:
        o = ex.stdout or b""
        return 124, (o.decode("utf-8", "replace") if isinstance(o, bytes) else o) + "\n[timeout]"


class Lock:
    def __init__(self, name):
        os.makedirs(BUILD, exist_ok=True)
        self.path = os.path.join(BUILD, name + ".lock")

    def __enter__(self):
        self.f = open(self.path, "w")
        fcntl.flock(self.f, fcntl.LOCK_EX)
        return self

    def __exit__(self, *a):
        fcntl.flock(self.f, fcntl.LOCK_UN)
        self.f.close()


# ------------------------------------------------------------------ Coq side
def coq_files():
    lines = open(os.path.join(COQ, "_CoqProject")).read().split("\n")
    return [l.strip() for l in lines if l.strip().endswith(".v")]


def coq_make(targets=None, timeout=3000, remove=()):
    """(incremental) full .vo build of the development, or of given targets; serialised by a lock.
    [remove]: files deleted under the same lock before the build (forces a re-check of those targets)"""
    with Lock("coq"):
        for f in remove:
            try:
                os.remove(f)
            except FileNotFoundError:
                pass
        mk = os.path.join(COQ, "Makefile")
        cp = os.path.join(COQ, "_CoqProject")
        if not os.path.exists(mk) or os.path.getmtime(mk) < os.path.getmtime(cp):
            rc, out = sh(["coq_makefile", "-f", "_CoqProject", "-o", "Makefile"], cwd=COQ, timeout=120)
            if rc != 0:
                return rc, out
        cmd = ["make", "-j16"] + (targets or [])
        return sh(cmd, cwd=COQ, timeout=timeout)


GATE_RE = re.compile(r"\b(Admitted|admit|Axiom|Axioms|Parameter|Parameters|Conjecture|Hypothesis|Variable|Variables|Hypotheses)\b|Unset\s+Guard|bypass_check|type-in-type|impredicative-set|Admit\s+Obligations|Unset\s+Positivity|Unset\s+Universe")


def strip_coq_comments(src):
    out, depth, i = [], 0, 0
    while i < len(src):
        if src.startswith("(*", i):
            depth += 1; i += 2
        elif src.startswith("*)", i) and depth > 0:
            depth -= 1; i += 2
        else:
            if depth == 0:
                out.append(src[i])
            elif src[i] == "\n":
                out.append("\n")
            i += 1
    return "".join(out)


def grep_gate():
    """no Admitted/admit/Axiom/Parameter/Conjecture, no Variable/Hypothesis outside a Section,
    no disabled kernel checks, anywhere in the development. Returns list of offending lines."""
    bad = []
    for rel in coq_files() + ["Extract.v"]:
        p = os.path.join(COQ, rel)
        if not os.path.exists(p):
            continue
        src = strip_coq_comments(open(p).read())
        depth = 0
        for n, line in enumerate(src.split("\n"), 1):
            if re.match(r"\s*Section\b", line):
                depth += 1
            for m in GATE_RE.finditer(line):
                w = m.group(0)
                if w.split()[0] in ("Variable", "Variables", "Hypothesis", "Hypotheses") and depth > 0:
                    continue
                bad.append("%s:%d: %s" % (rel, n, line.strip()))
            if re.match(r"\s*End\b", line) and depth > 0:
                depth -= 1
    for f in ("_CoqProject",):
        t = open(os.path.join(COQ, f)).read()
        if "type-in-type" in t or "impredicative-set" in t or "-vos" in t:
            bad.append(f + ": forbidden flag")
    return bad


def _proof_cache_key(rel):
    """the property file's text and the newest .v/.vo of the development (anything rebuilt or edited invalidates)"""
    h = hashlib.sha256(open(os.path.join(COQ, rel), "rb").read())
    newest = 0.0
    for root, _, fs in os.walk(COQ):
        for f in fs:
            if f.endswith(".v") or (f.endswith(".vo") and "Properties" not in root):
                newest = max(newest, os.path.getmtime(os.path.join(root, f)))
    h.update(repr(newest).encode())
    return h.hexdigest()


def check_property_file(prop):
    """re-compile Properties/<prop>.v from scratch; return dict with obligations/discharged/axioms.
    With VERIF_REUSE_PROOFS=1 (set only by seedtest.py, whose runs differ in /repo alone: the Coq side does not read
    /repo) the result of the last full re-check of the very same development is reused."""
    rel = "Properties/%s.v" % prop
    cache = os.path.join(BUILD, "proofcache", prop + ".json")
    if os.environ.get("VERIF_REUSE_PROOFS") == "1" and os.path.exists(cache):
        try:
            c = json.load(open(cache))
            if c.get("key") == _proof_cache_key(rel) and not c["res"]["errors"]:
                c["res"]["reused"] = True
                return c["res"]
        except Exception:
            pass
    res = _check_property_file(prop)
    try:
        os.makedirs(os.path.dirname(cache), exist_ok=True)
        with open(cache + ".%d" % os.getpid(), "w") as f:
            json.dump({"key": _proof_cache_key(rel), "res": res}, f)
        os.replace(cache + ".%d" % os.getpid(), cache)
    except Exception:
        pass
    return res


def _check_property_file(prop):
    rel = "Properties/%s.v" % prop
    src = open(os.path.join(COQ, rel)).read()
    code = strip_coq_comments(src)
    theorems = re.findall(r"^\s*(?:Theorem|Lemma|Corollary|Example)\s+([A-Za-z0-9_']+)", code, re.M)
    printed = re.findall(r"Print Assumptions\s+([A-Za-z0-9_']+)", code)
    res = {"file": rel, "theorems": theorems, "obligations": len(theorems), "discharged": 0,
           "axioms": {}, "errors": [], "output_tail": ""}
    missing = [t for t in theorems if t not in printed]
    if missing:
        res["errors"].append("no Print Assumptions for: " + ", ".join(missing))
    t0 = time.time()
    # phase 1 brings everything the property file depends on up to date (its output, which may contain the Print
    # Assumptions lines of other files, is only looked at when it fails); phase 2 re-checks the property file alone
    rc, out = coq_make([rel[:-2] + ".vo"], timeout=3000)
    if rc == 0:
        rc, out = coq_make([rel[:-2] + ".vo"], timeout=3000,
                           remove=[os.path.join(COQ, rel[:-2] + ext) for ext in (".vo", ".vos", ".vok", ".glob")])
    res["coq_wall_s"] = round(time.time() - t0, 1)
    res["output_tail"] = out[-3000:]
    if rc != 0:
        res["errors"].append("coq build failed (rc=%d)" % rc)
        m = re.search(r'File "\./([^"]+)", line (\d+)', out)
        if m:
            res["broken_at"] = "%s:%s" % (m.group(1), m.group(2))
        return res
    # parse Print Assumptions blocks in order
    blocks = re.findall(r"(Closed under the global context|Axioms:\n(?:.+\n?)+?(?=\n|Closed under|Axioms:|\Z))", out)
    closed = 0
    for name, blk in zip(printed, blocks):
        if blk.startswith("Closed"):
            res["axioms"][name] = []
            closed += 1
        else:
            ax = re.findall(r"^([A-Za-z0-9_.']+)\s*:", blk, re.M)
            res["axioms"][name] = ax
            if all(a.split(".")[-1] in STD_AXIOMS or a in STD_AXIOMS for a in ax):
                closed += 1
            else:
                res["errors"].append("theorem %s depends on non-standard axioms: %s" % (name, ax))
    if len(blocks) != len(printed):
        res["errors"].append("expected %d Print Assumptions results, saw %d" % (len(printed), len(blocks)))
    res["discharged"] = min(closed, len(theorems)) if not missing else 0
    return res


def coqchk(prop, timeout=3000):
    """independent re-check of Properties/<prop>.vo and everything it depends on (thorough tier)"""
    with Lock("coq"):
        t0 = time.time()
        rc, out = sh(["coqchk", "-silent", "-o", "-Q", ".", "RV", "RV.Properties.%s" % prop], cwd=COQ, timeout=timeout)
    m = re.search(r"\* Axioms:(.*?)\n\s*\n\* Constants", out, re.S)
    axioms = [] if (m and "<none>" in m.group(1)) else ([l.strip() for l in m.group(1).strip().split("\n") if l.strip()] if m else None)
    bad = [k for k in ("type-in-type", "unsafe (co)fixpoints", "positivity is assumed") if re.search(re.escape(k) + r":\s*(?!<none>)\S", out)]
    return {"rc": rc, "axioms": axioms, "relies_on_unchecked": bad, "wall_s": round(time.time() - t0, 1), "tail": out[-600:]}


def build_model(timeout=1200):
    """extract Driver.Main.run and build build/ocaml/model; rebuilt when any .vo is newer"""
    with Lock("ocaml"):
        d = os.path.join(BUILD, "ocaml")
        os.makedirs(d, exist_ok=True)
        exe = os.path.join(d, "model")
        dep = os.path.join(COQ, "Driver", "Main.vo")
        srcs = [dep, os.path.join(COQ, "Extract.v"), os.path.join(ROOT, "ocaml", "main.ml")]
        for root, _, fs in os.walk(COQ):
            for f in fs:
                if f.endswith(".vo") and "Properties" not in root and "Proofs" not in f:
                    srcs.append(os.path.join(root, f))
        if os.path.exists(exe) and all(os.path.getmtime(s) <= os.path.getmtime(exe) for s in srcs if os.path.exists(s)):
            return 0, "up to date"
        rc, out = sh(["coqc", "-Q", COQ, "RV", "-o", os.path.join(d, "Extract.vo"), os.path.join(COQ, "Extract.v")],
                     cwd=d, timeout=timeout)
        if rc != 0:
            return rc, out
        shutil.copy(os.path.join(ROOT, "ocaml", "main.ml"), os.path.join(d, "main.ml"))
        rc, out2 = sh(["ocamlfind", "ocamlopt", "-O3", "-w", "-a", "model.mli", "model.ml", "main.ml", "-o", "model.tmp"],
                      cwd=d, timeout=timeout)
        if rc == 0:
            os.replace(os.path.join(d, "model.tmp"), exe)
        return rc, out + out2


def run_model(text, timeout=900):
    exe = os.path.join(BUILD, "ocaml", "model")
    def big_stack():
        import resource
        try:
            resource.setrlimit(resource.RLIMIT_STACK, (resource.RLIM_INFINITY, resource.RLIM_INFINITY))
        except Exception:
            pass
    p = subprocess.run([exe], input=text.encode(), stdout=subprocess.PIPE, stderr=subprocess.PIPE, timeout=timeout,
                       preexec_fn=big_stack)
    if p.returncode != 0:
        raise RuntimeError("model driver failed: " + p.stderr.decode("utf-8", "replace")[-2000:])
    return p.stdout.decode("latin-1").split("\n")[:-1]


def run_model_vm(text, timeout=900):
    """evaluate the same cases with vm_compute inside coqc (cross-check of extraction); one
    definition per case line so that no string literal gets large"""
    d = os.path.join(BUILD, "vm", str(os.getpid()))
    os.makedirs(d, exist_ok=True)
    v = os.path.join(d, "cases.v")
    lines = [l for l in text.split("\n") if l]
    with open(v, "w") as f:
        f.write('From RV Require Import Base.Text Driver.Main.\nLocal Open Scope string_scope.\n')
        for i, l in enumerate(lines):
            esc = l.replace('"', '""')
            # long lines are passed in pieces and concatenated inside Coq
            pieces = [esc[k:k + 4000] for k in range(0, len(esc), 4000)] or [""]
            f.write('Definition in%d : string := %s.\n' % (i, " ++ ".join('"%s"' % p for p in pieces)))
            f.write('Definition out%d := Eval vm_compute in hex_encode (run_line in%d).\nPrint out%d.\n' % (i, i, i))

    def big_stack():
        import resource
        try:
            resource.setrlimit(resource.RLIMIT_STACK, (resource.RLIM_INFINITY, resource.RLIM_INFINITY))
        except Exception:
            pass
    try:
        p = subprocess.run(["coqc", "-Q", COQ, "RV", v], cwd=d, stdout=subprocess.PIPE, stderr=subprocess.STDOUT,
                           timeout=timeout, preexec_fn=big_stack)
        rc, out = p.returncode, p.stdout.decode("utf-8", "replace")
    except subprocess.TimeoutExpired:
        rc, out = 124, "[timeout]"
    shutil.rmtree(d, ignore_errors=True)
    if rc != 0:
        raise RuntimeError("coqc cases.v failed: " + out[-2000:])
    res = []
    for m in re.finditer(r'out\d+\s*=\s*"([0-9a-f\s]*)"', out):
        res.append(bytes.fromhex(re.sub(r"\s+", "", m.group(1))).decode("latin-1"))
    if len(res) != len(lines):
        raise RuntimeError("cannot parse vm_compute output: %d results for %d lines: %s" % (len(res), len(lines), out[-500:]))
    return res


# ------------------------------------------------------------------ Go side
def go_test(pkg_dir, overlay, run, env_extra=None, timeout=900, race=False, extra_args=None, tags="verif"):
    """go test in /repo's working tree with harness files injected by overlay.
    overlay: {virtual path under /repo: real file under /verif/harness/go}"""
    work = os.path.join(BUILD, "tmp", str(os.getpid()))
    os.makedirs(work, exist_ok=True)
    ov = os.path.join(work, "overlay-%s.json" % hashlib.md5((pkg_dir + run).encode()).hexdigest()[:8])
    with open(ov, "w") as f:
        json.dump({"Replace": overlay}, f)
    env = go_env()
    env["TMPDIR"] = work
    if env_extra:
        env.update(env_extra)
    cmd = ["go", "test", "-tags", tags, "-vet=off", "-overlay", ov, "-count=1", "-run", run]
    if race:
        cmd.append("-race")
    cmd += ["-timeout", "%ds" % max(60, timeout - 10)]
    cmd += (extra_args or [])
    cmd.append(pkg_dir)
    return sh(cmd, cwd=REPO, env=env, timeout=timeout)


def workdir():
    d = os.path.join(BUILD, "tmp", str(os.getpid()))
    os.makedirs(d, exist_ok=True)
    return d


def cleanup_workdir():
    shutil.rmtree(os.path.join(BUILD, "tmp", str(os.getpid())), ignore_errors=True)


# ------------------------------------------------------------------ findings
def known_findings(prop):
    """lines of /verif/known_findings.txt: 'open: property=Cxx sig=<signature> <text>' / 'fixed: ...'"""
    res = []
    p = os.path.join(ROOT, "known_findings.txt")
    if not os.path.exists(p):
        return res
    for line in open(p):
        line = line.strip()
        m = re.match(r"open:\s+property=(\S+)\s+sig=(\S+)\s+(.*)", line)
        if m and m.group(1) == prop:
            res.append({"sig": m.group(2), "text": m.group(3)})
    return res


class Check:
    """one run of one property's check: collects obligations, cases, violations, evidence"""

    def __init__(self, prop, tier, seed, level="proof"):
        self.prop, self.tier, self.seed, self.level = prop, tier, seed, level
        self.t0 = time.time()
        self.rng = random.Random(seed)
        self.cov = {"evaluations": 0, "distinct_nontrivial": 0, "rule": "", "samples": [],
                    "obligations": 0, "discharged": 0, "checker_cmd": "", "trusted_base": list(TRUSTED_BASE_COMMON),
                    "disagreements_checked": 0}
        self.assumptions = []
        self.violations = []       # (signature, replay dict, concrete?)
        self.known_printed = []
        self.notes = {}

    # -- proof obligations
    def proof_obligations(self, extra_gen_obligations=0):
        gate = grep_gate()
        r = check_property_file(self.prop)
        self.cov["obligations"] = r["obligations"] + extra_gen_obligations
        self.cov["discharged"] = r["discharged"]
        self.cov["checker_cmd"] = "make -C /verif/coq Properties/%s.vo  (coqc 8.16.1, full .vo; Print Assumptions parsed)" % self.prop
        self.cov["theorems"] = r["theorems"]
        self.cov["axioms_per_theorem"] = r["axioms"]
        self.cov["coq_wall_s"] = r.get("coq_wall_s")
        errs = list(r["errors"])
        if gate:
            errs.append("grep gate: " + "; ".join(gate[:5]))
            self.cov["discharged"] = 0
        if self.tier == "thorough" and not errs:
            c = coqchk(self.prop)
            okc = c["rc"] == 0 and c["axioms"] is not None and not c["relies_on_unchecked"] and \
                all(a.split(".")[-1] in STD_AXIOMS for a in (c["axioms"] or []))
            self.cov["obligations"] += 1
            self.cov["discharged"] += 1 if okc else 0
            self.cov["coqchk"] = {k: c[k] for k in ("rc", "axioms", "relies_on_unchecked", "wall_s")}
            if not okc:
                errs.append("coqchk failed or reports axioms/unchecked constructs: %s" % c["tail"][-300:])
        self.proof_errors = errs
        self.proof_result = r
        return not errs

    def add_obligation(self, ok, name):
        self.cov["obligations"] += 1
        if ok:
            self.cov["discharged"] += 1
        self.cov.setdefault("extra_obligations", []).append({"name": name, "ok": bool(ok)})

    def violation(self, sig, replay, concrete=True):
        self.violations.append((sig, replay, concrete))

    # -- final verdict
    def finish(self):
        os.makedirs(REPLAYS, exist_ok=True)
        known = known_findings(self.prop)
        rc = 0
        lines = []
        seen_known = set()
        n = 0
        for sig, replay, concrete in self.violations:
            k = [x for x in known if x["sig"] == sig]
            if k and concrete:
                if sig not in seen_known:
                    seen_known.add(sig)
                    lines.append("KNOWN-FINDING: property=%s %s (sig=%s)" % (self.prop, k[0]["text"], sig))
                continue
            n += 1
            if n > 5:
                continue
            path = os.path.join(REPLAYS, "%s-%s-%d.json" % (self.prop, self.tier, n))
            replay = dict(replay)
            replay.update({"property": self.prop, "signature": sig, "seed": self.seed, "tier": self.tier,
                           "concrete_failing_input": bool(concrete)})
            with open(path, "w") as f:
                json.dump(replay, f, indent=1, default=str)
            tail = "" if concrete else " no-failing-input-found"
            lines.append("VIOLATION property=%s replay=%s%s" % (self.prop, path, tail))
            rc = 1
        ev = {
            "property_id": self.prop, "tier": self.tier, "seed": int(self.seed), "level": self.level,
            "coverage": self.cov, "assumptions": self.assumptions,
            "wall_s": round(time.time() - self.t0, 2), "violations": n,
            "known_findings_printed": sorted(seen_known),
        }
        ev["coverage"].update(self.notes)
        os.makedirs(EVID, exist_ok=True)
        tmp = os.path.join(EVID, ".%s.json.%d" % (self.prop, os.getpid()))
        with open(tmp, "w") as f:
            json.dump(ev, f, indent=1, default=str)
        os.replace(tmp, os.path.join(EVID, "%s.json" % self.prop))
        for l in lines:
            print(l)
        print("%s %s tier=%s seed=%d obligations=%d/%d evaluations=%d distinct_nontrivial=%d violations=%d wall=%.1fs" % (
            "PASS" if rc == 0 else "FAIL", self.prop, self.tier, self.seed, self.cov["discharged"],
            self.cov["obligations"], self.cov["evaluations"], self.cov["distinct_nontrivial"], n, time.time() - self.t0))
        cleanup_workdir()
        return rc


def diff_lines(a, b):
    """indices where two line lists differ (length mismatch counts)"""
    bad = []
    for i in range(max(len(a), len(b))):
        x = a[i] if i < len(a) else "<missing>"
        y = b[i] if i < len(b) else "<missing>"
        if x != y:
            bad.append(i)
    return bad
