// lockscan — translator-lite for property C20 (lock discipline).
//
// Reads the Go packages of the repository given by -dir with full type information and
// produces, for every function of the module, the list of accesses to fields of the
// *tracked* struct types (and tracked package-level variables) together with the set of
// (lock, mode) pairs that are definitely held at that point.  The table is written as JSON
// (for the python check) and as Coq (Gen/LockSummary.v); the Coq side decides, with the
// hand-written guard map, whether the table satisfies the discipline.
//
// Rules (see /verif/harness/scan/lockscan/README in the final report / DESIGN §4 C20):
//   - type based: a selector X.f where X has (pointer to) tracked struct type T is an access to
//     "T.f" wherever it occurs; a bare identifier naming a tracked package-level variable is an
//     access to "pkg.var".
//   - write = the selector is (the in-place root of) an assignment target, ++/--, delete(), copy()
//     destination, or the receiver of a pointer-receiver method call on a struct-valued field;
//     everything else is a read. *p for a tracked struct pointer p reads (or writes) every field.
//   - alias escape: a by-value copy of guarded state whose type contains maps, slices or pointers to
//     untracked module types (a struct-valued field such as IRCServer.Config, *p of a tracked struct,
//     or a map/slice below them) shares that storage with the original.  When the copy is returned, or
//     used after a lock that was held at the copy has been released, the scanner emits an additional
//     READ entry for the field ("alias": true) with the locks held at that later point, so that the
//     ordinary discipline decides.  Overwriting the reference fields of a copied tracked struct
//     (GetSessions) removes them from the copy's shared set.  Call results are opaque.
//   - locks are named "T.field" (mutex stored in a field of named struct T) or "pkg.var".
//     Lock/RLock/Unlock/RUnlock are followed flow-sensitively through straight-line code,
//     if/else, switch, select and loops; `defer X.Unlock()` means: held to the end.
//     sync.Cond.Wait leaves the held set unchanged.
//   - functions that are not entry points get the meet of the held sets of all their call sites
//     as "held at entry" (fixpoint); dynamic calls through a func-typed struct field go to every
//     function stored into that field anywhere in the module (ircCommand.Func, FSM.ReplaceState).
//   - entry points (held at entry = nothing): exported functions and methods, main(), function
//     literals and function values that escape (go statements, callbacks), with the three
//     raft.FSM methods Apply/Snapshot/Restore holding the pseudo lock "raft.fsm" exclusively.
//   - exemptions (all listed in the output): package initialisation; accesses through a local
//     variable that was allocated by a composite literal/new in the same function and has not
//     been published yet, and accesses through the receiver of unexported methods that are only
//     ever called on such fresh values; the start-up phase of main() before its first go statement
//     and functions only called from there.
//   - fail-open: AST shapes that are not understood are listed as "unrecognised" and do not
//     produce table entries that could fail the obligation on their own.
package main

import (
	"encoding/json"
	"flag"
	"fmt"
	"go/ast"
	"go/printer"
	"go/token"
	"go/types"
	"os"
	"path/filepath"
	"sort"
	"strings"

	"golang.org/x/tools/go/packages"
)

// ---------------------------------------------------------------- configuration (mirrors Conc/GuardMap.v)

const modPath = "github.com/robustirc/robustirc"

// tracked struct types: short name -> package path suffix
var trackedStructs = map[string]string{
	"IRCServer":    "/internal/ircserver",
	"Session":      "/internal/ircserver",
	"channel":      "/internal/ircserver",
	"OutputStream": "/internal/outputstream",
	"LevelDBStore": "/internal/raftstore",
	"HTTP":         "/internal/api",
	"FSM":          "",
}

// tracked package-level variables of package main
var trackedGlobals = map[string]bool{"ircServer": true, "outputStream": true, "ircStore": true}

// raft.FSM methods: hashicorp/raft calls them serially from its runFSM goroutine
var fsmSerial = map[string]bool{"Apply": true, "Snapshot": true, "Restore": true}

const fsmPseudoLock = "raft.fsm"

// ---------------------------------------------------------------- lock sets

type Mode int

const (
	Sh Mode = 1
	Ex Mode = 2
)

type Held map[string]Mode

func (h Held) clone() Held {
	r := Held{}
	for k, v := range h {
		r[k] = v
	}
	return r
}

func meet(a, b Held) Held {
	r := Held{}
	for k, v := range a {
		if w, ok := b[k]; ok {
			if w < v {
				v = w
			}
			r[k] = v
		}
	}
	return r
}

func union(a, b Held) Held {
	r := a.clone()
	for k, v := range b {
		if r[k] < v {
			r[k] = v
		}
	}
	return r
}

func eqHeld(a, b Held) bool {
	if len(a) != len(b) {
		return false
	}
	for k, v := range a {
		if b[k] != v {
			return false
		}
	}
	return true
}

func (h Held) list() [][2]string {
	var ks []string
	for k := range h {
		ks = append(ks, k)
	}
	sort.Strings(ks)
	r := [][2]string{}
	for _, k := range ks {
		m := "S"
		if h[k] == Ex {
			m = "X"
		}
		r = append(r, [2]string{k, m})
	}
	return r
}

// ---------------------------------------------------------------- program representation

type Access struct {
	Field   string
	Write   bool
	Local   Held
	Pos     token.Pos
	Fresh   bool // through a not-yet-published local allocated in this function
	ViaRecv bool // base identifier is the receiver of the enclosing method
	Startup bool // in main() before its first go statement
	Alias   bool // not a syntactic access: a shallow copy of the field is used/returned here, after its critical section
}

type CallSite struct {
	Callee    *Fn
	Local     Held
	Pos       token.Pos
	FreshRecv bool // receiver argument is a fresh local
	OwnRecv   bool // receiver argument is the caller's own receiver
	Startup   bool
	Spawn     bool // go statement: callee runs in a new goroutine holding nothing
	Dynamic   bool
}

type Fn struct {
	ID      string
	File    string
	Name    string
	Pkg     *packages.Package
	Body    *ast.BlockStmt
	Type    *ast.FuncType
	Obj     *types.Func
	RecvVar *types.Var
	IsInit  bool // init() or package-level initialiser: runs before main
	Pos     token.Pos

	Root    bool
	RootWhy string
	Assumed Held

	Accesses []Access
	Calls    []CallSite

	// results of the interprocedural phase
	EntryTop     bool
	Entry        Held
	FreshOnly    bool
	StartupOnly  bool
	WeakestCall  string
	nCallers     int
	litCounter   int
	enclosingLit *Fn
}

type Note struct {
	Pos  string `json:"pos"`
	What string `json:"what"`
}

type Scanner struct {
	fset       *token.FileSet
	pkgs       []*packages.Package
	fns        []*Fn
	byObj      map[*types.Func]*Fn
	byLit      map[*ast.FuncLit]*Fn
	fieldFlow  map[*types.Var][]*Fn // func-typed struct field -> functions stored into it
	notes      []Note
	noteSeen   map[string]bool
	root       string
	allFields  map[string]bool
	fieldName  map[*types.Var]string // field object of a tracked struct -> "T.f"
	instSites  []InstSite
	instSeen   map[string]bool
	dynCalls   []dynCall
	mainFn     *Fn
	startupEnd token.Pos
}

func (s *Scanner) note(pos token.Pos, what string) {
	p := s.pos(pos)
	k := p + "|" + what
	if s.noteSeen[k] {
		return
	}
	s.noteSeen[k] = true
	s.notes = append(s.notes, Note{p, what})
}

func (s *Scanner) pos(p token.Pos) string {
	if !p.IsValid() {
		return "-"
	}
	pp := s.fset.Position(p)
	rel, err := filepath.Rel(s.root, pp.Filename)
	if err != nil || strings.HasPrefix(rel, "..") {
		rel = pp.Filename
	}
	return fmt.Sprintf("%s:%d", rel, pp.Line)
}

func (s *Scanner) relFile(p token.Pos) string {
	pp := s.fset.Position(p)
	rel, err := filepath.Rel(s.root, pp.Filename)
	if err != nil || strings.HasPrefix(rel, "..") {
		rel = pp.Filename
	}
	return rel
}

// ---------------------------------------------------------------- type helpers

func deref(t types.Type) (types.Type, bool) {
	if p, ok := t.Underlying().(*types.Pointer); ok {
		return p.Elem(), true
	}
	return t, false
}

// trackedStructName returns the short name if t (after at most one deref) is a tracked struct.
func trackedStructName(t types.Type) (string, bool) {
	if t == nil {
		return "", false
	}
	t, _ = deref(t)
	n, ok := t.(*types.Named)
	if !ok {
		return "", false
	}
	obj := n.Obj()
	if obj.Pkg() == nil {
		return "", false
	}
	suffix, ok := trackedStructs[obj.Name()]
	if !ok || obj.Pkg().Path() != modPath+suffix {
		return "", false
	}
	if _, ok := n.Underlying().(*types.Struct); !ok {
		return "", false
	}
	return obj.Name(), true
}

func isSyncType(t types.Type, names ...string) bool {
	t, _ = deref(t)
	n, ok := t.(*types.Named)
	if !ok || n.Obj().Pkg() == nil || n.Obj().Pkg().Path() != "sync" {
		return false
	}
	if len(names) == 0 {
		return true
	}
	for _, x := range names {
		if n.Obj().Name() == x {
			return true
		}
	}
	return false
}

// value-typed sync.* fields are synchronisation objects, not data
func isValueSyncField(v *types.Var) bool {
	if _, isPtr := v.Type().Underlying().(*types.Pointer); isPtr {
		return false
	}
	return isSyncType(v.Type())
}

// ---------------------------------------------------------------- walker

type walker struct {
	s        *Scanner
	fn       *Fn
	info     *types.Info
	held     Held
	fresh    map[*types.Var]token.Pos // fresh local -> position at which it is published
	inDefer  bool
	deferred map[string]bool // locks whose Unlock is deferred (held to the end of the function)
	tainted  map[*types.Var]*taint
}

// taint: a local variable holds a by-value (shallow) copy of guarded state whose type contains maps,
// slices or pointers to untracked module types; the copy shares that storage with the original.
type taint struct {
	fields     map[string]bool // guarded fields whose storage is shared
	heldAtCopy Held            // locks held locally when the copy was made
}

func inModule(n *types.Named) bool {
	return n.Obj().Pkg() != nil && (n.Obj().Pkg().Path() == modPath || strings.HasPrefix(n.Obj().Pkg().Path(), modPath+"/"))
}

// sharesRefs: a by-value copy of a t still shares mutable storage with the original: maps, slices,
// pointers to untracked module types or to unnamed types.  Pointers to tracked structs are followed by
// the type-based access rule; pointers to types of other modules (leveldb.DB, raft.Raft, time.Location,
// regexp.Regexp, sync.*) are treated as internally synchronised / immutable.
func sharesRefs(t types.Type, seen map[types.Type]bool) bool {
	if t == nil || seen[t] {
		return false
	}
	seen[t] = true
	switch u := t.(type) {
	case *types.Named:
		return sharesRefs(u.Underlying(), seen)
	case *types.Map, *types.Slice:
		return true
	case *types.Pointer:
		if _, ok := trackedStructName(u); ok {
			return false
		}
		if n, ok := u.Elem().(*types.Named); ok {
			return inModule(n)
		}
		return true
	case *types.Struct:
		for i := 0; i < u.NumFields(); i++ {
			if sharesRefs(u.Field(i).Type(), seen) {
				return true
			}
		}
	case *types.Array:
		return sharesRefs(u.Elem(), seen)
	}
	return false
}

// guardedRoot: e is an in-place path (selectors on struct values) at or below a guarded field
func (w *walker) guardedRoot(e ast.Expr) string {
	sel, ok := stripParens(e).(*ast.SelectorExpr)
	if !ok {
		return ""
	}
	if name, _, ok := w.fieldOf(sel); ok {
		return name
	}
	if selinfo, ok := w.info.Selections[sel]; ok && selinfo.Kind() == types.FieldVal && !selinfo.Indirect() {
		return w.guardedRoot(sel.X)
	}
	return ""
}

// copySource: evaluating e yields a by-value copy of guarded state that shares storage with it
func (w *walker) copySource(e ast.Expr) map[string]bool {
	e = stripParens(e)
	tv, ok := w.info.Types[e]
	if !ok || !sharesRefs(tv.Type, map[types.Type]bool{}) {
		return nil
	}
	switch x := e.(type) {
	case *ast.StarExpr:
		if ptv, ok := w.info.Types[x.X]; ok {
			if name, ok := trackedStructName(ptv.Type); ok {
				if _, isPtr := ptv.Type.Underlying().(*types.Pointer); isPtr {
					tt, _ := deref(ptv.Type)
					st := tt.Underlying().(*types.Struct)
					r := map[string]bool{}
					for i := 0; i < st.NumFields(); i++ {
						if !isValueSyncField(st.Field(i)) && sharesRefs(st.Field(i).Type(), map[types.Type]bool{}) {
							r[name+"."+st.Field(i).Name()] = true
						}
					}
					return r
				}
			}
		}
	case *ast.SelectorExpr:
		if f := w.guardedRoot(x); f != "" {
			return map[string]bool{f: true}
		}
	}
	return nil
}

func (w *walker) localVar(id *ast.Ident) *types.Var {
	var o types.Object = w.info.Uses[id]
	if o == nil {
		o = w.info.Defs[id]
	}
	v, ok := o.(*types.Var)
	if !ok || v.IsField() || v.Pkg() == nil || v.Parent() == v.Pkg().Scope() {
		return nil
	}
	return v
}

// valueTaint: the guarded fields whose storage the value of e shares (call results are opaque)
func (w *walker) valueTaint(e ast.Expr) (map[string]bool, Held) {
	out := map[string]bool{}
	var held Held
	var visit func(e ast.Expr)
	add := func(f map[string]bool, h Held) {
		for k := range f {
			out[k] = true
		}
		if held == nil {
			held = h
		}
	}
	visit = func(e ast.Expr) {
		e = stripParens(e)
		if src := w.copySource(e); src != nil {
			add(src, w.held.clone())
			return
		}
		switch x := e.(type) {
		case *ast.Ident:
			if v := w.localVar(x); v != nil {
				if t := w.tainted[v]; t != nil {
					add(t.fields, t.heldAtCopy)
				}
			}
		case *ast.UnaryExpr:
			if x.Op == token.AND {
				visit(x.X)
			}
		case *ast.SelectorExpr:
			if id, ok := stripParens(x.X).(*ast.Ident); ok {
				if v := w.localVar(id); v != nil {
					if t := w.tainted[v]; t != nil {
						if tv, ok := w.info.Types[x]; ok && sharesRefs(tv.Type, map[types.Type]bool{}) {
							one := map[string]bool{}
							if name, ok := trackedStructName(v.Type()); ok && t.fields[name+"."+x.Sel.Name] {
								one[name+"."+x.Sel.Name] = true
								add(one, t.heldAtCopy)
							} else if !ok {
								add(t.fields, t.heldAtCopy)
							}
						}
					}
				}
			}
		case *ast.CompositeLit:
			for _, el := range x.Elts {
				if kv, ok := el.(*ast.KeyValueExpr); ok {
					visit(kv.Value)
				} else {
					visit(el)
				}
			}
		case *ast.CallExpr:
			if id, ok := stripParens(x.Fun).(*ast.Ident); ok && id.Name == "append" {
				if _, ok := w.info.Uses[id].(*types.Builtin); ok {
					for _, a := range x.Args {
						visit(a)
					}
				}
			}
		}
	}
	visit(e)
	if len(out) == 0 {
		return nil, nil
	}
	return out, held
}

// taints are joined at control-flow merges: a variable (field) is tainted after the merge if it is
// tainted on any path that reaches it
func (w *walker) cloneTaints() map[*types.Var]*taint {
	r := map[*types.Var]*taint{}
	for v, t := range w.tainted {
		c := &taint{fields: map[string]bool{}, heldAtCopy: t.heldAtCopy}
		for f := range t.fields {
			c.fields[f] = true
		}
		r[v] = c
	}
	return r
}

func joinTaints(a, b map[*types.Var]*taint) map[*types.Var]*taint {
	r := map[*types.Var]*taint{}
	for _, m := range []map[*types.Var]*taint{a, b} {
		for v, t := range m {
			c := r[v]
			if c == nil {
				c = &taint{fields: map[string]bool{}, heldAtCopy: t.heldAtCopy}
				r[v] = c
			}
			for f := range t.fields {
				c.fields[f] = true
			}
		}
	}
	return r
}

func (w *walker) recordAlias(fields map[string]bool, local Held, pos token.Pos) {
	var fs []string
	for f := range fields {
		fs = append(fs, f)
	}
	sort.Strings(fs)
	for _, f := range fs {
		w.fn.Accesses = append(w.fn.Accesses, Access{Field: f, Local: local.clone(), Pos: pos, Alias: true})
	}
}

// useTainted: a use of the tainted copy v that can reach the shared storage; an alias escape if a lock
// that was held when the copy was made has been released in the meantime
func (w *walker) useTainted(v *types.Var, only string, pos token.Pos) {
	t := w.tainted[v]
	if t == nil {
		return
	}
	released := false
	for l := range t.heldAtCopy {
		if _, still := w.held[l]; !still {
			released = true
		}
	}
	if !released {
		return
	}
	if only != "" {
		if t.fields[only] {
			w.recordAlias(map[string]bool{only: true}, w.held, pos)
		}
		return
	}
	w.recordAlias(t.fields, w.held, pos)
}

// assignTaint: bookkeeping for `l = r` (also :=, var, container stores)
func (w *walker) assignTaint(l, r ast.Expr) {
	l = stripParens(l)
	var fields map[string]bool
	var held Held
	if r != nil {
		fields, held = w.valueTaint(r)
	}
	// overwriting one reference field of a copied tracked struct: that field is no longer shared
	if sel, ok := l.(*ast.SelectorExpr); ok {
		if id, ok := stripParens(sel.X).(*ast.Ident); ok {
			if v := w.localVar(id); v != nil {
				if t := w.tainted[v]; t != nil && fields == nil {
					if name, ok := trackedStructName(v.Type()); ok {
						delete(t.fields, name+"."+sel.Sel.Name)
						if len(t.fields) == 0 {
							delete(w.tainted, v)
						}
					}
					return
				}
			}
		}
	}
	// destination variable: the identifier itself or the root of a container/field store
	root := l
	whole := true
	for {
		switch x := root.(type) {
		case *ast.IndexExpr:
			root, whole = stripParens(x.X), false
			continue
		case *ast.SelectorExpr:
			root, whole = stripParens(x.X), false
			continue
		case *ast.StarExpr:
			root, whole = stripParens(x.X), false
			continue
		}
		break
	}
	id, ok := root.(*ast.Ident)
	if !ok {
		return
	}
	v := w.localVar(id)
	if v == nil {
		if fields != nil {
			w.s.note(l.Pos(), "a shallow copy of guarded state is stored into non-local storage (alias not followed)")
		}
		return
	}
	if fields == nil {
		if whole {
			delete(w.tainted, v)
		}
		return
	}
	t := w.tainted[v]
	if t == nil || whole {
		t = &taint{fields: map[string]bool{}, heldAtCopy: held}
		w.tainted[v] = t
	}
	for f := range fields {
		t.fields[f] = true
	}
}

func (w *walker) isStartup(p token.Pos) bool { return false } // decided after all functions are walked

// sameModuloDeferred: two lock sets differ only in locks that are released by a deferred Unlock
func (w *walker) sameModuloDeferred(a, b Held) bool {
	for k, v := range a {
		if b[k] != v && !w.deferred[k] {
			return false
		}
	}
	for k, v := range b {
		if a[k] != v && !w.deferred[k] {
			return false
		}
	}
	return true
}

// unstableBase: the expression denoting the instance (of a tracked struct) may denote DIFFERENT instances
// at different evaluations: a call returning a tracked struct pointer (api.ircServer(), currentIRCServer()),
// a tracked package-level pointer (ircServer) or a tracked pointer field (HTTP.ircServerUnlocked,
// FSM.ircstore), all of which FSM.Restore swaps.  "" = stable (rooted in a local variable, parameter or
// receiver).  Locks are identified by (type, field): a lock taken on one evaluation and an access or
// unlock on another evaluation look consistent to the discipline but may concern two instances.
func (w *walker) unstableBase(e ast.Expr) (string, string) {
	switch x := stripParens(e).(type) {
	case *ast.Ident:
		if g, ok := w.globalOf(x); ok {
			return "the package-level variable " + g, g
		}
	case *ast.UnaryExpr:
		return w.unstableBase(x.X)
	case *ast.StarExpr:
		return w.unstableBase(x.X)
	case *ast.IndexExpr:
		return w.unstableBase(x.X)
	case *ast.TypeAssertExpr:
		return w.unstableBase(x.X)
	case *ast.SelectorExpr:
		if selinfo, ok := w.info.Selections[x]; ok && selinfo.Kind() == types.FieldVal {
			if name, fv, ok := w.fieldOf(x); ok {
				if _, isPtr := fv.Type().Underlying().(*types.Pointer); isPtr {
					if _, tracked := trackedStructName(fv.Type()); tracked {
						return "the instance pointer field " + name, name
					}
				}
			}
			return w.unstableBase(x.X)
		}
	case *ast.CallExpr:
		if tv, ok := w.info.Types[x]; ok {
			if _, tracked := trackedStructName(tv.Type); tracked {
				var b strings.Builder
				printer.Fprint(&b, w.s.fset, x.Fun)
				return "the result of a call to " + b.String() + "()", ""
			}
		}
	}
	return "", ""
}

func (s *Scanner) instSite(fn *Fn, pos token.Pos, what, base string, local Held) {
	key := fn.ID + "|" + what
	if s.instSeen[key] {
		return
	}
	s.instSeen[key] = true
	s.instSites = append(s.instSites, InstSite{Fn: fn.ID, What: what, Pos: s.pos(pos), Base: base, local: local.clone(), fn: fn})
}

// InstSite: a mutex operation, or an access made under a locally held lock, on an instance expression
// that is re-evaluated (instance consistency, see unstableBase)
type InstSite struct {
	Fn    string      `json:"fn"`
	What  string      `json:"what"`
	Pos   string      `json:"pos"`
	Base  string      `json:"base_field"` // tracked variable/field the instance is read from; "" for a call result
	Held  [][2]string `json:"held"`       // held at entry + locally held at the site
	local Held
	fn    *Fn
}

func (w *walker) record(field string, write bool, pos token.Pos, base ast.Expr) {
	if base != nil && len(w.held) > 0 {
		if why, bf := w.unstableBase(base); why != "" {
			w.s.instSite(w.fn, pos, "access to "+field+" under a locally held lock through "+why, bf, w.held)
		}
	}
	a := Access{Field: field, Write: write, Local: w.held.clone(), Pos: pos, Startup: w.isStartup(pos)}
	if id := rootIdent(base); id != nil {
		if v, ok := w.info.Uses[id].(*types.Var); ok {
			if pub, isFresh := w.fresh[v]; isFresh && pos < pub {
				a.Fresh = true
			}
			if w.fn.RecvVar != nil && v == w.fn.RecvVar {
				// only a direct selector on the receiver counts
				if bid, ok := stripParens(base).(*ast.Ident); ok && bid == id {
					a.ViaRecv = true
				}
			}
		}
	}
	w.fn.Accesses = append(w.fn.Accesses, a)
}

func stripParens(e ast.Expr) ast.Expr {
	for {
		p, ok := e.(*ast.ParenExpr)
		if !ok {
			return e
		}
		e = p.X
	}
}

// rootIdent: the identifier at the bottom of a chain of selectors on struct *values*, parens only.
func rootIdent(e ast.Expr) *ast.Ident {
	e = stripParens(e)
	if id, ok := e.(*ast.Ident); ok {
		return id
	}
	return nil
}

// fieldOf resolves a selector expression to (tracked field name, field var) if it selects a field
// of a tracked struct through shared memory.
func (w *walker) fieldOf(sel *ast.SelectorExpr) (string, *types.Var, bool) {
	selinfo, ok := w.info.Selections[sel]
	if !ok || selinfo.Kind() != types.FieldVal {
		return "", nil, false
	}
	fv, ok := selinfo.Obj().(*types.Var)
	if !ok {
		return "", nil, false
	}
	// fieldName knows every field of the tracked structs (also when reached through embedding)
	full, ok := w.s.fieldName[fv]
	if !ok {
		return "", nil, false
	}
	if isValueSyncField(fv) {
		return "", nil, false
	}
	// private copy: no pointer indirection between a local variable of struct type and the field
	if !selinfo.Indirect() {
		if id := rootIdent(sel.X); id != nil {
			if v, ok := w.info.Uses[id].(*types.Var); ok && !v.IsField() && v.Parent() != v.Pkg().Scope() {
				return "", nil, false
			}
		}
	}
	return full, fv, true
}

func (w *walker) globalOf(id *ast.Ident) (string, bool) {
	v, ok := w.info.Uses[id].(*types.Var)
	if !ok || v.Pkg() == nil || v.Parent() != v.Pkg().Scope() {
		return "", false
	}
	if v.Pkg().Path() == modPath && trackedGlobals[v.Name()] {
		return "main." + v.Name(), true
	}
	return "", false
}

// lockName names the mutex denoted by e: "T.f" or "pkg.var".
func (w *walker) lockName(e ast.Expr) (string, bool) {
	e = stripParens(e)
	if u, ok := e.(*ast.UnaryExpr); ok && u.Op == token.AND {
		e = stripParens(u.X)
	}
	switch x := e.(type) {
	case *ast.SelectorExpr:
		if selinfo, ok := w.info.Selections[x]; ok && selinfo.Kind() == types.FieldVal {
			t, _ := deref(selinfo.Recv())
			if n, ok := t.(*types.Named); ok {
				return n.Obj().Name() + "." + x.Sel.Name, true
			}
			return "", false
		}
		// pkg.Var
		if v, ok := w.info.Uses[x.Sel].(*types.Var); ok && v.Pkg() != nil && v.Parent() == v.Pkg().Scope() {
			return v.Pkg().Name() + "." + v.Name(), true
		}
	case *ast.Ident:
		if v, ok := w.info.Uses[x].(*types.Var); ok && v.Pkg() != nil && v.Parent() == v.Pkg().Scope() {
			return v.Pkg().Name() + "." + v.Name(), true
		}
	}
	return "", false
}

// containsCall reports whether the expression contains a function call (lock base not a pure path).
func containsCall(e ast.Expr) bool {
	found := false
	ast.Inspect(e, func(n ast.Node) bool {
		if _, ok := n.(*ast.CallExpr); ok {
			found = true
		}
		return !found
	})
	return found
}

// ---- expressions

func (w *walker) exprs(es []ast.Expr) {
	for _, e := range es {
		w.expr(e)
	}
}

func (w *walker) allFields(t types.Type, write bool, pos token.Pos, base ast.Expr) {
	name, ok := trackedStructName(t)
	if !ok {
		return
	}
	tt, _ := deref(t)
	st := tt.Underlying().(*types.Struct)
	for i := 0; i < st.NumFields(); i++ {
		f := st.Field(i)
		if isValueSyncField(f) {
			continue
		}
		w.record(name+"."+f.Name(), write, pos, base)
	}
}

// expr walks an expression evaluated for its value (reads).
func (w *walker) expr(e ast.Expr) {
	switch x := e.(type) {
	case nil:
	case *ast.Ident:
		if g, ok := w.globalOf(x); ok {
			w.record(g, false, x.Pos(), nil)
		}
		w.funcValue(x, x)
		if v := w.localVar(x); v != nil && w.tainted[v] != nil {
			w.useTainted(v, "", x.Pos())
		}
	case *ast.BasicLit:
	case *ast.ParenExpr:
		w.expr(x.X)
	case *ast.SelectorExpr:
		if name, _, ok := w.fieldOf(x); ok {
			w.record(name, false, x.Sel.Pos(), x.X)
		}
		if id, ok := stripParens(x.X).(*ast.Ident); ok && w.info.Selections[x] != nil && w.info.Selections[x].Kind() == types.FieldVal {
			if v := w.localVar(id); v != nil && w.tainted[v] != nil {
				// a field of a tainted copy: only reference-carrying parts reach the shared storage
				if tv, ok := w.info.Types[x]; ok && sharesRefs(tv.Type, map[types.Type]bool{}) {
					only := ""
					if name, ok := trackedStructName(v.Type()); ok {
						only = name + "." + x.Sel.Name
					}
					w.useTainted(v, only, x.Sel.Pos())
				}
				return
			}
		}
		if _, isSel := w.info.Selections[x]; isSel {
			w.expr(x.X)
			if w.info.Selections[x].Kind() != types.FieldVal {
				w.funcValue(x, x.Sel) // method value / method expression
			}
		} else {
			// qualified identifier pkg.Name
			w.funcValue(x, x.Sel)
		}
	case *ast.StarExpr:
		if tv, ok := w.info.Types[x.X]; ok {
			if _, isPtr := tv.Type.Underlying().(*types.Pointer); isPtr {
				w.allFields(tv.Type, false, x.Pos(), x.X)
				if name, ok := trackedStructName(tv.Type); ok {
					tt, _ := deref(tv.Type)
					var shared []string
					st := tt.Underlying().(*types.Struct)
					for i := 0; i < st.NumFields(); i++ {
						switch st.Field(i).Type().Underlying().(type) {
						case *types.Map, *types.Slice, *types.Pointer:
							if !isSyncType(st.Field(i).Type()) {
								shared = append(shared, st.Field(i).Name())
							}
						}
					}
					if len(shared) > 0 {
						w.s.note(x.Pos(), "shallow copy of "+name+": the copy shares "+strings.Join(shared, ", ")+" with the original; uses of the copy (e.g. by templates) are not tracked")
					}
				}
			}
		}
		w.expr(x.X)
	case *ast.UnaryExpr:
		if x.Op == token.AND {
			if sel, ok := stripParens(x.X).(*ast.SelectorExpr); ok {
				if name, _, ok := w.fieldOf(sel); ok {
					w.s.note(x.Pos(), "address of guarded field "+name+" taken (treated as a read)")
				}
			}
		}
		w.expr(x.X)
	case *ast.BinaryExpr:
		w.expr(x.X)
		w.expr(x.Y)
	case *ast.IndexExpr:
		w.expr(x.X)
		w.expr(x.Index)
	case *ast.IndexListExpr:
		w.expr(x.X)
		w.exprs(x.Indices)
	case *ast.SliceExpr:
		w.expr(x.X)
		w.expr(x.Low)
		w.expr(x.High)
		w.expr(x.Max)
	case *ast.TypeAssertExpr:
		w.expr(x.X)
	case *ast.KeyValueExpr:
		w.expr(x.Key)
		w.expr(x.Value)
	case *ast.CompositeLit:
		w.compositeLit(x)
	case *ast.FuncLit:
		w.funcLitValue(x, false)
	case *ast.CallExpr:
		w.call(x, false, false)
	case *ast.ArrayType, *ast.MapType, *ast.ChanType, *ast.FuncType, *ast.InterfaceType, *ast.StructType, *ast.Ellipsis:
	default:
		w.s.note(e.Pos(), fmt.Sprintf("expression shape %T not analysed", e))
	}
}

func (w *walker) compositeLit(x *ast.CompositeLit) {
	tv := w.info.Types[x]
	var st *types.Struct
	if tv.Type != nil {
		t, _ := deref(tv.Type)
		st, _ = t.Underlying().(*types.Struct)
	}
	for _, el := range x.Elts {
		if kv, ok := el.(*ast.KeyValueExpr); ok && st != nil {
			// struct literal: key is a field name, not an access
			if kid, ok := kv.Key.(*ast.Ident); ok {
				if fv, ok := w.info.Uses[kid].(*types.Var); ok && fv.IsField() {
					if _, isFunc := fv.Type().Underlying().(*types.Signature); isFunc {
						if w.flowToField(fv, kv.Value) {
							continue
						}
					}
				}
			}
			w.expr(kv.Value)
			continue
		}
		w.expr(el)
	}
}

// flowToField records that the function denoted by val is stored into func-typed field fv.
func (w *walker) flowToField(fv *types.Var, val ast.Expr) bool {
	val = stripParens(val)
	var target *Fn
	switch v := val.(type) {
	case *ast.FuncLit:
		target = w.funcLitValue(v, true)
	case *ast.Ident:
		if f, ok := w.info.Uses[v].(*types.Func); ok {
			target = w.s.byObj[f.Origin()]
		}
	case *ast.SelectorExpr:
		if f, ok := w.info.Uses[v.Sel].(*types.Func); ok {
			target = w.s.byObj[f.Origin()]
			if _, isSel := w.info.Selections[v]; isSel {
				w.expr(v.X)
			}
		}
	}
	if target == nil {
		return false
	}
	w.s.fieldFlow[fv] = append(w.s.fieldFlow[fv], target)
	return true
}

// funcValue: a reference to a module function that is not in call position escapes.
func (w *walker) funcValue(e ast.Expr, id *ast.Ident) {
	f, ok := w.info.Uses[id].(*types.Func)
	if !ok {
		return
	}
	if t := w.s.byObj[f.Origin()]; t != nil && !t.Root {
		t.Root = true
		t.RootWhy = "function value escapes at " + w.s.pos(e.Pos())
	}
}

// funcLitValue registers a function literal as its own function. If toField it is a dynamic call
// target only; otherwise it escapes and is an entry point holding nothing.
func (w *walker) funcLitValue(x *ast.FuncLit, toField bool) *Fn {
	if f, ok := w.s.byLit[x]; ok {
		return f
	}
	outer := w.fn
	for outer.enclosingLit != nil {
		outer = outer.enclosingLit
	}
	outer.litCounter++
	f := &Fn{
		ID:   fmt.Sprintf("%s$%d", outer.ID, outer.litCounter),
		File: outer.File, Name: fmt.Sprintf("%s$%d", outer.Name, outer.litCounter),
		Pkg: w.fn.Pkg, Body: x.Body, Type: x.Type, Pos: x.Pos(), enclosingLit: w.fn,
	}
	if !toField {
		f.Root = true
		f.RootWhy = "function literal escapes (callback / go statement / stored in a variable)"
	}
	w.s.byLit[x] = f
	w.s.fns = append(w.s.fns, f)
	// captured fresh locals are published here
	ast.Inspect(x.Body, func(n ast.Node) bool {
		if id, ok := n.(*ast.Ident); ok {
			if v, ok := w.info.Uses[id].(*types.Var); ok {
				if pub, isFresh := w.fresh[v]; isFresh && x.Pos() < pub {
					w.fresh[v] = x.Pos()
				}
			}
		}
		return true
	})
	return f
}

var terminators = map[string]bool{
	"log.Fatal": true, "log.Fatalf": true, "log.Fatalln": true, "log.Panic": true, "log.Panicf": true, "log.Panicln": true,
	"os.Exit": true, "glog.Fatal": true, "glog.Fatalf": true, "glog.Fatalln": true, "glog.Exit": true, "glog.Exitf": true,
}

func (w *walker) isTerminatorCall(c *ast.CallExpr) bool {
	switch f := stripParens(c.Fun).(type) {
	case *ast.Ident:
		if f.Name == "panic" {
			if _, ok := w.info.Uses[f].(*types.Builtin); ok {
				return true
			}
		}
	case *ast.SelectorExpr:
		if pid, ok := f.X.(*ast.Ident); ok {
			if pn, ok := w.info.Uses[pid].(*types.PkgName); ok {
				return terminators[pn.Imported().Name()+"."+f.Sel.Name]
			}
		}
	}
	return false
}

// call handles a call expression. deferred: the call is the operand of a defer statement.
func (w *walker) call(c *ast.CallExpr, deferred bool, spawn bool) {
	fun := stripParens(c.Fun)

	// conversion
	if tv, ok := w.info.Types[fun]; ok && tv.IsType() {
		w.exprs(c.Args)
		return
	}

	// immediately invoked function literal: inline
	if lit, ok := fun.(*ast.FuncLit); ok {
		w.exprs(c.Args)
		if spawn {
			w.funcLitValue(lit, false)
			return
		}
		saved := w.inDefer
		w.inDefer = w.inDefer || deferred
		h := w.held.clone()
		w.stmts(lit.Body.List)
		w.held = h // a literal that changes the lock set is noted inside lockOp when deferred
		w.inDefer = saved
		return
	}

	// builtins
	if id, ok := fun.(*ast.Ident); ok {
		if b, ok := w.info.Uses[id].(*types.Builtin); ok {
			switch b.Name() {
			case "delete":
				if len(c.Args) == 2 {
					w.lhs(c.Args[0])
					w.expr(c.Args[1])
					return
				}
			case "copy":
				if len(c.Args) == 2 {
					w.lhs(c.Args[0])
					w.expr(c.Args[1])
					return
				}
			case "clear":
				if len(c.Args) == 1 {
					w.lhs(c.Args[0])
					return
				}
			}
			w.exprs(c.Args)
			return
		}
	}

	// method calls
	if sel, ok := fun.(*ast.SelectorExpr); ok {
		if selinfo, ok := w.info.Selections[sel]; ok && selinfo.Kind() == types.MethodVal {
			recvT := selinfo.Recv()
			m := selinfo.Obj().(*types.Func)
			// mutex operations
			if isSyncType(recvT, "Mutex", "RWMutex") {
				w.lockOp(sel, m.Name(), deferred, c)
				return
			}
			if isSyncType(recvT, "Cond") {
				// Wait releases and re-acquires the associated mutex: held set unchanged
				w.expr(sel.X)
				return
			}
			// receiver evaluation: pointer-receiver method on a struct-valued tracked field mutates it
			wrote := false
			if inner, ok := stripParens(sel.X).(*ast.SelectorExpr); ok {
				if name, fv, ok := w.fieldOf(inner); ok {
					sig := m.Type().(*types.Signature)
					_, recvIsPtr := sig.Recv().Type().Underlying().(*types.Pointer)
					_, fieldIsPtr := fv.Type().Underlying().(*types.Pointer)
					_, fieldIsIface := fv.Type().Underlying().(*types.Interface)
					if recvIsPtr && !fieldIsPtr && !fieldIsIface {
						w.record(name, true, inner.Sel.Pos(), inner.X)
						w.expr(inner.X)
						wrote = true
					}
				}
			}
			if !wrote {
				w.expr(sel.X)
			}
			w.exprs(c.Args)
			w.argPublishes(c.Args)
			if callee := w.s.byObj[m.Origin()]; callee != nil {
				cs := CallSite{Callee: callee, Local: w.held.clone(), Pos: c.Pos(), Startup: w.isStartup(c.Pos()), Spawn: spawn}
				if spawn {
					cs.Local = Held{}
				}
				if id := rootIdent(sel.X); id != nil {
					if v, ok := w.info.Uses[id].(*types.Var); ok {
						if pub, isFresh := w.fresh[v]; isFresh && c.Pos() < pub {
							cs.FreshRecv = true
						}
						if w.fn.RecvVar != nil && v == w.fn.RecvVar {
							cs.OwnRecv = true
						}
					}
				}
				w.fn.Calls = append(w.fn.Calls, cs)
			}
			return
		}
		// call through a func-typed struct field: dynamic dispatch to everything stored there
		if selinfo, ok := w.info.Selections[sel]; ok && selinfo.Kind() == types.FieldVal {
			fv := selinfo.Obj().(*types.Var)
			w.expr(sel) // reading the field itself
			w.exprs(c.Args)
			w.argPublishes(c.Args)
			w.fn.Calls = append(w.fn.Calls, CallSite{Callee: nil, Local: w.held.clone(), Pos: c.Pos(), Dynamic: true,
				Startup: w.isStartup(c.Pos()), Spawn: spawn})
			w.s.dynCalls = append(w.s.dynCalls, dynCall{w.fn, len(w.fn.Calls) - 1, fv})
			return
		}
		// pkg.Func(...)
		if f, ok := w.info.Uses[sel.Sel].(*types.Func); ok {
			w.exprs(c.Args)
			w.argPublishes(c.Args)
			if callee := w.s.byObj[f.Origin()]; callee != nil {
				cs := CallSite{Callee: callee, Local: w.held.clone(), Pos: c.Pos(), Startup: w.isStartup(c.Pos()), Spawn: spawn}
				if spawn {
					cs.Local = Held{}
				}
				w.fn.Calls = append(w.fn.Calls, cs)
			}
			return
		}
	}

	// plain function call f(...)
	if id, ok := fun.(*ast.Ident); ok {
		if f, ok := w.info.Uses[id].(*types.Func); ok {
			w.exprs(c.Args)
			w.argPublishes(c.Args)
			if callee := w.s.byObj[f.Origin()]; callee != nil {
				cs := CallSite{Callee: callee, Local: w.held.clone(), Pos: c.Pos(), Startup: w.isStartup(c.Pos()), Spawn: spawn}
				if spawn {
					cs.Local = Held{}
				}
				w.fn.Calls = append(w.fn.Calls, cs)
			}
			return
		}
	}

	// anything else (local func variables, results of calls, interface values ...): callee unknown
	w.expr(fun)
	w.exprs(c.Args)
	w.argPublishes(c.Args)
}

// argPublishes: a fresh local passed as an argument (bare or by address) is published from here on;
// v.f / &v.f hand out one field only and do not publish v.
func (w *walker) argPublishes(args []ast.Expr) {
	for _, a := range args {
		w.publishBareUses(a)
	}
}

func (w *walker) lockOp(sel *ast.SelectorExpr, method string, deferred bool, c *ast.CallExpr) {
	name, ok := w.lockName(sel.X)
	if !ok {
		w.s.note(c.Pos(), "mutex expression not nameable (local or computed mutex): "+method+" ignored")
		w.expr(sel.X)
		return
	}
	// evaluate the path to the mutex (reads of pointer-typed mutex fields etc.)
	w.expr(sel.X)
	if bsel, ok := stripParens(sel.X).(*ast.SelectorExpr); ok {
		if why, base := w.unstableBase(bsel.X); why != "" {
			w.s.instSite(w.fn, c.Pos(), method+" of "+name+" on "+why, base, w.held)
		}
	}
	switch method {
	case "Lock", "RLock":
		if deferred {
			w.s.note(c.Pos(), "deferred "+method+" ignored")
			return
		}
		if w.inDefer {
			w.s.note(c.Pos(), method+" inside a deferred function literal ignored")
			return
		}
		m := Ex
		if method == "RLock" {
			m = Sh
		}
		if old, has := w.held[name]; has {
			w.s.note(c.Pos(), fmt.Sprintf("%s of %s while already held locally (mode %d)", method, name, old))
		}
		if w.held[name] < m {
			w.held[name] = m
		}
	case "Unlock", "RUnlock":
		if deferred {
			w.deferred[name] = true
			return // held to the end of the function
		}
		if w.inDefer {
			return
		}
		if _, has := w.held[name]; !has {
			w.s.note(c.Pos(), method+" of "+name+" which is not held locally (lock handed in by the caller?); ignored")
			return
		}
		delete(w.held, name)
	default:
		w.s.note(c.Pos(), "mutex method "+method+" not modelled")
	}
}

// lhs walks an assignment target: records the write on the in-place root and reads for the rest.
func (w *walker) lhs(e ast.Expr) {
	switch x := stripParens(e).(type) {
	case *ast.Ident:
		if g, ok := w.globalOf(x); ok {
			w.record(g, true, x.Pos(), nil)
		}
	case *ast.SelectorExpr:
		if name, _, ok := w.fieldOf(x); ok {
			w.record(name, true, x.Sel.Pos(), x.X)
			w.expr(x.X)
			return
		}
		selinfo, ok := w.info.Selections[x]
		if !ok {
			// pkg.Var
			return
		}
		if selinfo.Kind() == types.FieldVal {
			if _, isPtr := selinfo.Recv().Underlying().(*types.Pointer); !isPtr {
				// field of a struct value stored in place: the write lands inside X
				w.lhs(x.X)
				return
			}
		}
		w.expr(x.X)
	case *ast.IndexExpr:
		w.expr(x.Index)
		w.lhs(x.X)
	case *ast.SliceExpr:
		w.expr(x.Low)
		w.expr(x.High)
		w.expr(x.Max)
		w.lhs(x.X)
	case *ast.StarExpr:
		if tv, ok := w.info.Types[x.X]; ok {
			if _, ok := trackedStructName(tv.Type); ok {
				w.allFields(tv.Type, true, x.Pos(), x.X)
				w.expr(x.X)
				return
			}
		}
		w.lhs(x.X)
	case *ast.CallExpr, *ast.TypeAssertExpr:
		w.expr(x)
	default:
		w.expr(e)
	}
}

// ---- statements. Returns true if control cannot continue past the statement list.

func (w *walker) stmts(list []ast.Stmt) bool {
	for _, st := range list {
		if w.stmt(st) {
			return true
		}
	}
	return false
}

func (w *walker) noteFresh(lhs ast.Expr, rhs ast.Expr, end token.Pos) {
	id, ok := lhs.(*ast.Ident)
	if !ok {
		return
	}
	v, ok := w.info.Defs[id].(*types.Var)
	if !ok {
		return
	}
	r := stripParens(rhs)
	if u, ok := r.(*ast.UnaryExpr); ok && u.Op == token.AND {
		r = stripParens(u.X)
	}
	isAlloc := false
	switch y := r.(type) {
	case *ast.CompositeLit:
		isAlloc = true
	case *ast.CallExpr:
		if fid, ok := y.Fun.(*ast.Ident); ok && fid.Name == "new" {
			if _, ok := w.info.Uses[fid].(*types.Builtin); ok {
				isAlloc = true
			}
		}
	}
	if !isAlloc {
		return
	}
	if _, ok := trackedStructName(v.Type()); !ok {
		return
	}
	w.fresh[v] = end // published at the end of the function unless found earlier
}

// publishBareUses: any use of a fresh local other than as selector base publishes it (except in return).
func (w *walker) publishBareUses(n ast.Node) {
	if n == nil {
		return
	}
	var visit func(n ast.Node) bool
	visit = func(n ast.Node) bool {
		switch x := n.(type) {
		case *ast.SelectorExpr:
			if _, ok := stripParens(x.X).(*ast.Ident); ok {
				return false // v.f / v.m(): not a bare use
			}
			return true
		case *ast.Ident:
			if v, ok := w.info.Uses[x].(*types.Var); ok {
				if pub, isFresh := w.fresh[v]; isFresh && x.Pos() < pub {
					w.fresh[v] = x.Pos()
				}
			}
		case *ast.FuncLit:
			return false // handled when the literal is registered
		}
		return true
	}
	ast.Inspect(n, visit)
}

func (w *walker) stmt(st ast.Stmt) bool {
	switch x := st.(type) {
	case nil:
		return false
	case *ast.EmptyStmt:
		return false
	case *ast.BlockStmt:
		return w.stmts(x.List)
	case *ast.LabeledStmt:
		return w.stmt(x.Stmt)
	case *ast.ExprStmt:
		w.publishBareUses(x.X)
		if c, ok := stripParens(x.X).(*ast.CallExpr); ok {
			w.call(c, false, false)
			return w.isTerminatorCall(c)
		}
		w.expr(x.X)
		return false
	case *ast.SendStmt:
		w.publishBareUses(x)
		w.expr(x.Chan)
		w.expr(x.Value)
		return false
	case *ast.IncDecStmt:
		w.lhs(x.X)
		w.expr(x.X)
		return false
	case *ast.AssignStmt:
		for _, r := range x.Rhs {
			w.publishBareUses(r)
		}
		// RHS first (evaluation order is irrelevant for the held set)
		for i, r := range x.Rhs {
			handled := false
			if len(x.Lhs) == len(x.Rhs) {
				// storing a function into a func-typed struct field
				if sel, ok := stripParens(x.Lhs[i]).(*ast.SelectorExpr); ok {
					if selinfo, ok := w.info.Selections[sel]; ok && selinfo.Kind() == types.FieldVal {
						if fv := selinfo.Obj().(*types.Var); fv != nil {
							if _, isFunc := fv.Type().Underlying().(*types.Signature); isFunc {
								handled = w.flowToField(fv, r)
							}
						}
					}
				}
			}
			if !handled {
				w.expr(r)
			}
		}
		for _, l := range x.Lhs {
			if x.Tok == token.DEFINE {
				if id, ok := l.(*ast.Ident); ok {
					if _, isDef := w.info.Defs[id]; isDef && w.info.Defs[id] != nil {
						continue
					}
				}
			}
			w.lhs(l)
			if x.Tok != token.ASSIGN && x.Tok != token.DEFINE {
				w.expr(l) // op-assignment also reads
			}
		}
		if x.Tok == token.DEFINE && len(x.Lhs) == len(x.Rhs) {
			for i := range x.Lhs {
				w.noteFresh(x.Lhs[i], x.Rhs[i], w.fn.Body.End())
			}
		}
		if len(x.Lhs) == len(x.Rhs) {
			for i := range x.Lhs {
				w.assignTaint(x.Lhs[i], x.Rhs[i])
			}
		} else {
			for i := range x.Lhs {
				w.assignTaint(x.Lhs[i], nil)
			}
		}
		return false
	case *ast.GoStmt:
		w.publishBareUses(x.Call)
		w.call(x.Call, false, true)
		return false
	case *ast.DeferStmt:
		w.publishBareUses(x.Call)
		w.call(x.Call, true, false)
		return false
	case *ast.ReturnStmt:
		w.exprs(x.Results)
		// a shallow copy of guarded state that is returned outlives every lock taken in this function
		for _, r := range x.Results {
			if fields, _ := w.valueTaint(r); fields != nil {
				left := Held{}
				for l, m := range w.held {
					if !w.deferred[l] {
						left[l] = m
					}
				}
				w.recordAlias(fields, left, r.Pos())
			}
		}
		return true
	case *ast.BranchStmt:
		return x.Tok != token.FALLTHROUGH
	case *ast.DeclStmt:
		if gd, ok := x.Decl.(*ast.GenDecl); ok {
			for _, sp := range gd.Specs {
				if vs, ok := sp.(*ast.ValueSpec); ok {
					for _, v := range vs.Values {
						w.publishBareUses(v)
						w.expr(v)
					}
					if len(vs.Names) == len(vs.Values) {
						for i := range vs.Names {
							w.noteFresh(vs.Names[i], vs.Values[i], w.fn.Body.End())
							w.assignTaint(vs.Names[i], vs.Values[i])
						}
					}
				}
			}
		}
		return false
	case *ast.IfStmt:
		w.stmt(x.Init)
		w.publishBareUses(x.Cond)
		w.expr(x.Cond)
		h0 := w.held.clone()
		a0 := w.cloneTaints()
		t1 := w.stmts(x.Body.List)
		h1 := w.held
		a1 := w.tainted
		w.held = h0.clone()
		w.tainted = a0
		t2 := false
		if x.Else != nil {
			t2 = w.stmt(x.Else)
		}
		h2 := w.held
		a2 := w.tainted
		switch {
		case t1 && t2:
			w.held = h0
			return true
		case t1:
			w.held = h2
		case t2:
			w.held = h1
			w.tainted = a1
		default:
			w.tainted = joinTaints(a1, a2)
			if !w.sameModuloDeferred(h1, h2) {
				w.s.note(x.Pos(), "branches of if leave different lock sets; continuing with their intersection")
			}
			w.held = meet(h1, h2)
		}
		return false
	case *ast.ForStmt:
		w.stmt(x.Init)
		if x.Cond != nil {
			w.publishBareUses(x.Cond)
			w.expr(x.Cond)
		}
		h0 := w.held.clone()
		a0 := w.cloneTaints()
		t := w.stmts(x.Body.List)
		w.tainted = joinTaints(a0, w.tainted) // the body may run zero times
		if !t {
			w.stmt(x.Post)
			if !w.sameModuloDeferred(h0, w.held) {
				w.s.note(x.Pos(), "loop body changes the lock set; continuing with the intersection")
			}
		}
		w.held = meet(h0, w.held)
		if t {
			w.held = h0
		}
		if x.Cond == nil && !hasBreak(x.Body) {
			return true // for { ... } without break never falls through
		}
		return false
	case *ast.RangeStmt:
		w.publishBareUses(x.X)
		w.expr(x.X)
		if x.Tok == token.ASSIGN {
			if x.Key != nil {
				w.lhs(x.Key)
			}
			if x.Value != nil {
				w.lhs(x.Value)
			}
		}
		h0 := w.held.clone()
		a0 := w.cloneTaints()
		t := w.stmts(x.Body.List)
		w.tainted = joinTaints(a0, w.tainted) // the body may run zero times
		if !t && !w.sameModuloDeferred(h0, w.held) {
			w.s.note(x.Pos(), "loop body changes the lock set; continuing with the intersection")
		}
		if t {
			w.held = h0
		} else {
			w.held = meet(h0, w.held)
		}
		return false
	case *ast.SwitchStmt:
		w.stmt(x.Init)
		if x.Tag != nil {
			w.publishBareUses(x.Tag)
			w.expr(x.Tag)
		}
		return w.clauses(x.Body, x.Pos(), false)
	case *ast.TypeSwitchStmt:
		w.stmt(x.Init)
		w.stmt(x.Assign)
		return w.clauses(x.Body, x.Pos(), false)
	case *ast.SelectStmt:
		return w.clauses(x.Body, x.Pos(), true)
	default:
		w.s.note(st.Pos(), fmt.Sprintf("statement shape %T not analysed", st))
		return false
	}
}

func hasBreak(b *ast.BlockStmt) bool {
	found := false
	var visit func(n ast.Node, depth int)
	visit = func(n ast.Node, depth int) {
		ast.Inspect(n, func(m ast.Node) bool {
			if found || m == nil {
				return false
			}
			switch y := m.(type) {
			case *ast.FuncLit:
				return false
			case *ast.ForStmt, *ast.RangeStmt, *ast.SwitchStmt, *ast.TypeSwitchStmt, *ast.SelectStmt:
				if m != n {
					// unlabeled break inside binds to the inner statement; labeled ones are rare: look for labels only
					ast.Inspect(m, func(k ast.Node) bool {
						if br, ok := k.(*ast.BranchStmt); ok && br.Tok == token.BREAK && br.Label != nil {
							found = true
						}
						if br, ok := k.(*ast.BranchStmt); ok && br.Tok == token.GOTO {
							found = true
						}
						return !found
					})
					return false
				}
			case *ast.BranchStmt:
				if y.Tok == token.BREAK || y.Tok == token.GOTO {
					found = true
				}
			}
			return true
		})
	}
	visit(b, 0)
	return found
}

func (w *walker) clauses(body *ast.BlockStmt, pos token.Pos, isSelect bool) bool {
	h0 := w.held.clone()
	a0 := w.cloneTaints()
	aOut := map[*types.Var]*taint{}
	var outs []Held
	hasDefault := false
	for _, cl := range body.List {
		w.held = h0.clone()
		w.tainted = joinTaints(a0, nil)
		var list []ast.Stmt
		switch c := cl.(type) {
		case *ast.CaseClause:
			if c.List == nil {
				hasDefault = true
			}
			for _, e := range c.List {
				w.publishBareUses(e)
				w.expr(e)
			}
			list = c.Body
		case *ast.CommClause:
			if c.Comm == nil {
				hasDefault = true
			} else {
				w.stmt(c.Comm)
			}
			list = c.Body
		}
		if !w.stmts(list) {
			outs = append(outs, w.held)
			aOut = joinTaints(aOut, w.tainted)
		}
	}
	if !hasDefault && !isSelect {
		outs = append(outs, h0)
		aOut = joinTaints(aOut, a0)
	}
	w.tainted = aOut
	if len(outs) == 0 {
		w.tainted = a0
		w.held = h0
		return len(body.List) > 0
	}
	r := outs[0]
	for _, o := range outs[1:] {
		if !w.sameModuloDeferred(r, o) {
			w.s.note(pos, "clauses of switch/select leave different lock sets; continuing with their intersection")
		}
		r = meet(r, o)
	}
	w.held = r
	return false
}

// ---------------------------------------------------------------- driver

type dynCall struct {
	caller *Fn
	idx    int
	field  *types.Var
}

func main() {
	dir := flag.String("dir", "/repo", "repository working tree")
	outJSON := flag.String("json", "", "write the summary as JSON to this file")
	outV := flag.String("coq", "", "write Gen/LockSummary.v to this file")
	flag.Parse()

	abs, _ := filepath.Abs(*dir)
	if r, err := filepath.EvalSymlinks(abs); err == nil {
		abs = r
	}
	cfg := &packages.Config{
		Mode: packages.NeedName | packages.NeedFiles | packages.NeedCompiledGoFiles | packages.NeedSyntax |
			packages.NeedTypes | packages.NeedTypesInfo | packages.NeedImports | packages.NeedDeps,
		Dir:   abs,
		Tests: false,
	}
	pkgs, err := packages.Load(cfg, ".", "./internal/...")
	if err != nil {
		fmt.Fprintln(os.Stderr, "lockscan: load:", err)
		os.Exit(2)
	}
	nerr := 0
	for _, p := range pkgs {
		for _, e := range p.Errors {
			fmt.Fprintln(os.Stderr, "lockscan: package error:", e)
			nerr++
		}
	}
	if nerr > 0 {
		os.Exit(2)
	}
	s := &Scanner{byObj: map[*types.Func]*Fn{}, byLit: map[*ast.FuncLit]*Fn{}, fieldFlow: map[*types.Var][]*Fn{},
		noteSeen: map[string]bool{}, root: abs, allFields: map[string]bool{}, fieldName: map[*types.Var]string{}, instSeen: map[string]bool{}}
	for _, p := range pkgs {
		if p.PkgPath == modPath || strings.HasPrefix(p.PkgPath, modPath+"/internal/") {
			s.pkgs = append(s.pkgs, p)
			s.fset = p.Fset
		}
	}
	sort.Slice(s.pkgs, func(i, j int) bool { return s.pkgs[i].PkgPath < s.pkgs[j].PkgPath })
	if len(s.pkgs) == 0 {
		fmt.Fprintln(os.Stderr, "lockscan: no packages of", modPath, "found under", abs)
		os.Exit(2)
	}
	s.collect()
	s.walkAll()
	s.interprocedural()
	s.output(*outJSON, *outV)
}

// collect creates Fn records for all function declarations and package initialisers.
func (s *Scanner) collect() {
	for _, p := range s.pkgs {
		// declared fields of tracked structs
		for short, suffix := range trackedStructs {
			if p.PkgPath != modPath+suffix {
				continue
			}
			obj := p.Types.Scope().Lookup(short)
			if obj == nil {
				s.notes = append(s.notes, Note{"-", "tracked struct " + short + " not found in " + p.PkgPath})
				continue
			}
			st, ok := obj.Type().Underlying().(*types.Struct)
			if !ok {
				continue
			}
			for i := 0; i < st.NumFields(); i++ {
				s.fieldName[st.Field(i)] = short + "." + st.Field(i).Name()
				if !isValueSyncField(st.Field(i)) {
					s.allFields[short+"."+st.Field(i).Name()] = true
				}
			}
		}
		if p.PkgPath == modPath {
			for g := range trackedGlobals {
				if p.Types.Scope().Lookup(g) != nil {
					s.allFields["main."+g] = true
				} else {
					s.notes = append(s.notes, Note{"-", "tracked package-level variable " + g + " not found"})
				}
			}
		}
		for _, f := range p.Syntax {
			file := s.relFile(f.Pos())
			for _, d := range f.Decls {
				switch x := d.(type) {
				case *ast.FuncDecl:
					if x.Body == nil {
						continue
					}
					obj, _ := p.TypesInfo.Defs[x.Name].(*types.Func)
					name := x.Name.Name
					var recvVar *types.Var
					if x.Recv != nil && len(x.Recv.List) == 1 {
						t := x.Recv.List[0].Type
						if st, ok := t.(*ast.StarExpr); ok {
							t = st.X
						}
						if id, ok := t.(*ast.Ident); ok {
							name = id.Name + "." + name
						}
						if len(x.Recv.List[0].Names) == 1 {
							recvVar, _ = p.TypesInfo.Defs[x.Recv.List[0].Names[0]].(*types.Var)
						}
					}
					fn := &Fn{ID: file + ":" + name, File: file, Name: name, Pkg: p, Body: x.Body, Type: x.Type, Obj: obj, RecvVar: recvVar, Pos: x.Pos()}
					switch {
					case x.Name.Name == "init" && x.Recv == nil:
						fn.IsInit, fn.Root, fn.RootWhy = true, true, "init function"
					case x.Name.Name == "main" && x.Recv == nil && p.PkgPath == modPath:
						fn.Root, fn.RootWhy = true, "main()"
					case ast.IsExported(x.Name.Name):
						fn.Root, fn.RootWhy = true, "exported"
						if strings.HasPrefix(name, "FSM.") && fsmSerial[x.Name.Name] && p.PkgPath == modPath {
							fn.Assumed = Held{fsmPseudoLock: Ex}
							fn.RootWhy = "raft.FSM method (called serially by raft's FSM goroutine)"
						}
					}
					s.fns = append(s.fns, fn)
					if obj != nil {
						s.byObj[obj] = fn
					}
				case *ast.GenDecl:
					if x.Tok == token.VAR {
						for _, sp := range x.Specs {
							vs := sp.(*ast.ValueSpec)
							if len(vs.Values) == 0 || len(vs.Names) == 0 {
								continue
							}
							var initStmts []ast.Stmt
							for _, v := range vs.Values {
								initStmts = append(initStmts, &ast.ExprStmt{X: v})
							}
							nm := vs.Names[0].Name
							s.fns = append(s.fns, &Fn{ID: file + ":" + nm, File: file, Name: nm, Pkg: p, IsInit: true, Pos: vs.Pos(),
								Root: true, RootWhy: "package-level variable initialiser",
								Body: &ast.BlockStmt{List: initStmts, Lbrace: vs.Pos(), Rbrace: vs.End()}})
						}
					}
				}
			}
		}
	}
}

// GlobalAlias: a package-level variable of struct (or array) type that contains maps, slices or
// pointers to module types is copied BY VALUE; the copy shares that storage with the variable and with
// every other copy, whatever per-instance lock later guards it (config.DefaultConfig.Banned).
type GlobalAlias struct {
	Var string `json:"var"`
	Fn  string `json:"fn"`
	Pos string `json:"pos"`
}

func (s *Scanner) globalAliases() []GlobalAlias {
	var out []GlobalAlias
	seen := map[string]bool{}
	for _, fn := range s.fns {
		if fn.Body == nil || fn.enclosingLit != nil {
			continue // literals are visited as part of their enclosing function
		}
		info := fn.Pkg.TypesInfo
		var stack []ast.Node
		ast.Inspect(fn.Body, func(n ast.Node) bool {
			if n == nil {
				stack = stack[:len(stack)-1]
				return false
			}
			stack = append(stack, n)
			var id *ast.Ident
			var whole ast.Node = n
			switch x := n.(type) {
			case *ast.Ident:
				id = x
			case *ast.SelectorExpr:
				if pid, ok := x.X.(*ast.Ident); ok {
					if _, isPkg := info.Uses[pid].(*types.PkgName); isPkg {
						id = x.Sel
					}
				}
			}
			if id == nil {
				return true
			}
			v, ok := info.Uses[id].(*types.Var)
			if !ok || v.Pkg() == nil || v.Parent() != v.Pkg().Scope() || v.IsField() {
				return true
			}
			if !(v.Pkg().Path() == modPath || strings.HasPrefix(v.Pkg().Path(), modPath+"/")) {
				return true
			}
			switch v.Type().Underlying().(type) {
			case *types.Struct, *types.Array:
			default:
				return true
			}
			if !sharesRefs(v.Type(), map[types.Type]bool{}) {
				return true
			}
			// the parent decides: pkg.Var.f, pkg.Var[i], &pkg.Var and assignment targets are not copies
			pi := len(stack) - 2
			if _, isSel := whole.(*ast.Ident); isSel && pi >= 0 {
				if ps, ok := stack[pi].(*ast.SelectorExpr); ok && ps.Sel == id {
					return true // the Sel half of pkg.Var: handled at the SelectorExpr node
				}
			}
			for pi >= 0 {
				if _, ok := stack[pi].(*ast.ParenExpr); !ok {
					break
				}
				pi--
			}
			if pi >= 0 {
				switch p := stack[pi].(type) {
				case *ast.SelectorExpr:
					if p.X == whole || stripParens(p.X) == whole {
						return true
					}
				case *ast.IndexExpr:
					if stripParens(p.X) == whole {
						return true
					}
				case *ast.UnaryExpr:
					if p.Op == token.AND {
						return true
					}
				case *ast.AssignStmt:
					for _, l := range p.Lhs {
						if stripParens(l) == whole {
							return true
						}
					}
				case *ast.RangeStmt:
					if stripParens(p.X) == whole {
						return true
					}
				}
			}
			name := v.Pkg().Name() + "." + v.Name()
			key := name + "|" + fn.ID
			if !seen[key] {
				seen[key] = true
				out = append(out, GlobalAlias{name, fn.ID, s.pos(whole.Pos())})
			}
			return true
		})
	}
	sort.Slice(out, func(i, j int) bool {
		if out[i].Var != out[j].Var {
			return out[i].Var < out[j].Var
		}
		return out[i].Fn < out[j].Fn
	})
	return out
}

func (s *Scanner) instSitesSorted() []InstSite {
	var out []InstSite
	for _, x := range s.instSites {
		if x.fn.EntryTop {
			continue // unreachable function
		}
		x.Held = union(x.fn.Entry, x.local).list()
		out = append(out, x)
	}
	sort.Slice(out, func(i, j int) bool {
		if out[i].Fn != out[j].Fn {
			return out[i].Fn < out[j].Fn
		}
		return out[i].Pos < out[j].Pos
	})
	return out
}

func (s *Scanner) walkAll() {
	for i := 0; i < len(s.fns); i++ { // s.fns grows while function literals are discovered
		fn := s.fns[i]
		if fn.Body == nil {
			continue
		}
		w := &walker{s: s, fn: fn, info: fn.Pkg.TypesInfo, held: Held{}, fresh: map[*types.Var]token.Pos{}, deferred: map[string]bool{}, tainted: map[*types.Var]*taint{}}
		if !w.stmts(fn.Body.List) {
			for l := range w.held {
				if !w.deferred[l] {
					s.note(fn.Body.End(), "function "+fn.ID+" returns while still holding "+l+" (not propagated to its callers)")
				}
			}
		}
		if fn.Name == "main" && fn.Pkg.PkgPath == modPath && fn.RecvVar == nil && fn.Obj != nil {
			s.mainFn = fn
		}
	}
}

// interprocedural: resolve dynamic calls, compute held-at-entry by fixpoint, and the two
// "only called from an exempt context" properties.
func (s *Scanner) interprocedural() {
	// start-up phase of main(): up to the first top-level go statement that can reach module state
	// (a go statement running a function literal that touches no tracked state and calls no module
	// function is skipped).
	if m := s.mainFn; m != nil {
		s.startupEnd = m.Body.End()
		for _, st := range m.Body.List {
			g, ok := st.(*ast.GoStmt)
			if !ok {
				continue
			}
			harmless := false
			if lit, ok := stripParens(g.Call.Fun).(*ast.FuncLit); ok {
				if f := s.byLit[lit]; f != nil && len(f.Accesses) == 0 {
					harmless = true
					for _, c := range f.Calls {
						if c.Callee != nil || c.Dynamic {
							harmless = false
						}
					}
				}
			}
			if !harmless {
				s.startupEnd = g.Pos()
				break
			}
		}
		for i := range m.Accesses {
			m.Accesses[i].Startup = m.Accesses[i].Pos < s.startupEnd
		}
		for i := range m.Calls {
			m.Calls[i].Startup = m.Calls[i].Pos < s.startupEnd
		}
	}
	for _, d := range s.dynCalls {
		targets := s.fieldFlow[d.field]
		if len(targets) == 0 {
			s.note(d.caller.Calls[d.idx].Pos, "call through func-typed field "+d.field.Name()+" with no known target in the module")
		}
		base := d.caller.Calls[d.idx]
		for _, t := range targets {
			cs := base
			cs.Callee = t
			d.caller.Calls = append(d.caller.Calls, cs)
		}
	}
	for _, f := range s.fns {
		if f.Root {
			f.Entry = f.Assumed.clone()
		} else {
			f.EntryTop = true
		}
		f.FreshOnly = !f.Root && f.RecvVar != nil
		f.StartupOnly = !f.Root
	}
	// callers count
	for _, f := range s.fns {
		for _, c := range f.Calls {
			if c.Callee != nil {
				c.Callee.nCallers++
			}
		}
	}
	for changed := true; changed; {
		changed = false
		for _, f := range s.fns {
			if f.EntryTop {
				continue // unreachable so far: contributes nothing
			}
			for _, c := range f.Calls {
				t := c.Callee
				if t == nil || t.Root {
					continue
				}
				var ctx Held
				if c.Spawn {
					ctx = Held{}
				} else {
					ctx = union(f.Entry, c.Local)
				}
				if t.EntryTop {
					t.EntryTop, t.Entry, t.WeakestCall = false, ctx, f.ID+" at "+s.pos(c.Pos)
					changed = true
				} else {
					m := meet(t.Entry, ctx)
					if !eqHeld(m, t.Entry) {
						t.Entry, t.WeakestCall = m, f.ID+" at "+s.pos(c.Pos)
						changed = true
					}
				}
			}
		}
	}
	// FreshOnly / StartupOnly: greatest fixpoints
	for changed := true; changed; {
		changed = false
		for _, f := range s.fns {
			if f.EntryTop {
				continue
			}
			for _, c := range f.Calls {
				t := c.Callee
				if t == nil || t.Root {
					continue
				}
				if t.FreshOnly && !(c.FreshRecv || (c.OwnRecv && f.FreshOnly)) {
					t.FreshOnly = false
					changed = true
				}
				if t.StartupOnly && !(c.Startup || f.StartupOnly) {
					t.StartupOnly = false
					changed = true
				}
			}
		}
	}
	for _, f := range s.fns {
		if f.nCallers == 0 || f.EntryTop {
			f.FreshOnly, f.StartupOnly = false, false
		}
	}
}

type Entry struct {
	Fn    string      `json:"fn"`
	File  string      `json:"file"`
	Func  string      `json:"func"`
	Field string      `json:"field"`
	Kind  string      `json:"kind"`
	Held  [][2]string `json:"held"`
	Pos   []string    `json:"pos"`
	Alias bool        `json:"alias,omitempty"`
}

type Exempt struct {
	Fn     string `json:"fn"`
	Field  string `json:"field"`
	Kind   string `json:"kind"`
	Pos    string `json:"pos"`
	Reason string `json:"reason"`
}

type FnInfo struct {
	ID          string      `json:"fn"`
	Root        bool        `json:"entry_point"`
	Why         string      `json:"why,omitempty"`
	Entry       [][2]string `json:"held_at_entry"`
	WeakestCall string      `json:"weakest_call_site,omitempty"`
	Unreachable bool        `json:"unreachable,omitempty"`
	FreshOnly   bool        `json:"only_called_on_fresh_receiver,omitempty"`
	StartupOnly bool        `json:"only_called_during_startup,omitempty"`
	Accesses    int         `json:"accesses"`
	File        string      `json:"file"`
	Start       int         `json:"start_line"`
	End         int         `json:"end_line"`
	Callers     []string    `json:"callers,omitempty"` // only for functions with alias-escape entries
}

func coqStr(s string) string { return "\"" + strings.ReplaceAll(s, "\"", "\"\"") + "\"" }

func (s *Scanner) output(outJSON, outV string) {
	entries := map[string]*Entry{}
	var order []string
	var exempt []Exempt
	var fninfo []FnInfo
	for _, f := range s.fns {
		fi := FnInfo{ID: f.ID, Root: f.Root, Why: f.RootWhy, Entry: f.Entry.list(), WeakestCall: f.WeakestCall,
			Unreachable: f.EntryTop, FreshOnly: f.FreshOnly, StartupOnly: f.StartupOnly, Accesses: len(f.Accesses), File: f.File}
		if f.Body != nil {
			fi.Start, fi.End = s.fset.Position(f.Body.Pos()).Line, s.fset.Position(f.Body.End()).Line
			if f.Type != nil && f.Type.Pos().IsValid() {
				fi.Start = s.fset.Position(f.Type.Pos()).Line
			}
		}
		for _, a := range f.Accesses {
			if a.Alias {
				seen := map[string]bool{}
				for _, g := range s.fns {
					for _, c := range g.Calls {
						if c.Callee == f && !seen[g.ID] && len(fi.Callers) < 40 {
							seen[g.ID] = true
							fi.Callers = append(fi.Callers, g.ID)
						}
					}
				}
				break
			}
		}
		fninfo = append(fninfo, fi)
		if f.EntryTop {
			if len(f.Accesses) > 0 {
				s.note(f.Pos, "function "+f.ID+" accesses tracked state but has no call site reachable from an entry point; its accesses are not in the table")
			}
			continue
		}
		for _, a := range f.Accesses {
			kind := "R"
			if a.Write {
				kind = "W"
			}
			reason := ""
			switch {
			case f.IsInit:
				reason = "package initialisation (runs before main)"
			case a.Fresh:
				reason = "through a local allocated in this function and not yet published"
			case a.ViaRecv && f.FreshOnly:
				reason = "through the receiver of an unexported method that is only called on freshly allocated, unpublished values"
			case a.Startup:
				reason = "start-up phase of main(): before its first go statement that can reach module state (raft goroutines exist from raft.NewRaft on but enter the module only through FSM methods; InstallSnapshot needs the HTTP server)"
			case f.StartupOnly:
				reason = "function only called from the start-up phase of main()"
			}
			if reason != "" {
				exempt = append(exempt, Exempt{f.ID, a.Field, kind, s.pos(a.Pos), reason})
				continue
			}
			held := union(f.Entry, a.Local)
			hl := held.list()
			key := f.ID + "|" + a.Field + "|" + kind + "|" + fmt.Sprint(hl) + fmt.Sprint(a.Alias)
			e, ok := entries[key]
			if !ok {
				e = &Entry{Fn: f.ID, File: f.File, Func: f.Name, Field: a.Field, Kind: kind, Held: hl, Alias: a.Alias}
				entries[key] = e
				order = append(order, key)
			}
			if len(e.Pos) < 6 {
				e.Pos = append(e.Pos, s.pos(a.Pos))
			}
		}
	}
	sort.Strings(order)
	var list []*Entry
	for _, k := range order {
		list = append(list, entries[k])
	}
	var fields []string
	for f := range s.allFields {
		fields = append(fields, f)
	}
	sort.Strings(fields)
	sort.Slice(exempt, func(i, j int) bool {
		if exempt[i].Pos != exempt[j].Pos {
			return exempt[i].Pos < exempt[j].Pos
		}
		return exempt[i].Field < exempt[j].Field
	})
	sort.Slice(s.notes, func(i, j int) bool { return s.notes[i].Pos < s.notes[j].Pos })
	sort.Slice(fninfo, func(i, j int) bool { return fninfo[i].ID < fninfo[j].ID })

	if outJSON != "" {
		out := map[string]interface{}{
			"repo": s.root, "entries": list, "exempt": exempt, "unrecognised": s.notes, "functions": fninfo,
			"declared_fields": fields, "n_functions": len(s.fns), "global_alias_sites": s.globalAliases(), "instance_mismatch_sites": s.instSitesSorted(),
		}
		b, _ := json.MarshalIndent(out, "", " ")
		if err := os.WriteFile(outJSON, b, 0644); err != nil {
			fmt.Fprintln(os.Stderr, "lockscan:", err)
			os.Exit(2)
		}
	}
	if outV != "" {
		var sb strings.Builder
		sb.WriteString("(* GENERATED by /verif/harness/scan/lockscan from the current source tree. Do not edit. *)\n")
		sb.WriteString("From Coq Require Import String List.\nFrom RV Require Import Conc.Lockset.\nImport ListNotations.\nLocal Open Scope string_scope.\n\n")
		sb.WriteString("Definition gen_lock_summary : list entry := [\n")
		for i, e := range list {
			k := "Rd"
			if e.Kind == "W" {
				k = "Wr"
			}
			var hs []string
			for _, h := range e.Held {
				m := "Sh"
				if h[1] == "X" {
					m = "Ex"
				}
				hs = append(hs, "("+coqStr(h[0])+", "+m+")")
			}
			sep := ";"
			if i == len(list)-1 {
				sep = ""
			}
			fmt.Fprintf(&sb, "  mkEntry %s %s %s [%s]%s\n", coqStr(e.Fn), coqStr(e.Field), k, strings.Join(hs, "; "), sep)
		}
		sb.WriteString("].\n\nDefinition gen_declared_fields : list string := [\n")
		for i, f := range fields {
			sep := ";"
			if i == len(fields)-1 {
				sep = ""
			}
			fmt.Fprintf(&sb, "  %s%s\n", coqStr(f), sep)
		}
		sb.WriteString("].\n\n(* by-value copies of package-level struct variables that contain maps/slices: (variable, function) *)\n")
		sb.WriteString("Definition gen_global_alias_sites : list (string * string) := [\n")
		ga := s.globalAliases()
		for i, g := range ga {
			sep := ";"
			if i == len(ga)-1 {
				sep = ""
			}
			fmt.Fprintf(&sb, "  (%s, %s)%s\n", coqStr(g.Var), coqStr(g.Fn), sep)
		}
		sb.WriteString("].\n\n(* functions with a mutex operation / locked access on a re-evaluated instance expression *)\n")
		sb.WriteString("Definition gen_instance_mismatch_sites : list inst_site := [\n")
		isites := s.instSitesSorted()
		for i, x := range isites {
			var hs []string
			for _, h := range x.Held {
				m := "Sh"
				if h[1] == "X" {
					m = "Ex"
				}
				hs = append(hs, "("+coqStr(h[0])+", "+m+")")
			}
			sep := ";"
			if i == len(isites)-1 {
				sep = ""
			}
			fmt.Fprintf(&sb, "  mkInst %s %s %s [%s]%s\n", coqStr(x.Fn), coqStr(x.What), coqStr(x.Base), strings.Join(hs, "; "), sep)
		}
		sb.WriteString("].\n")
		if err := os.WriteFile(outV, []byte(sb.String()), 0644); err != nil {
			fmt.Fprintln(os.Stderr, "lockscan:", err)
			os.Exit(2)
		}
	}
	fmt.Printf("lockscan: %d functions, %d table entries, %d exempted accesses, %d unrecognised shapes, %d declared fields\n",
		len(s.fns), len(list), len(exempt), len(s.notes), len(fields))
}
