(* Irc/Apply.v — ProcessMessage, the command table, FSM.applyRobustMessage, MaybeDeleteSession,
   Marshal/Unmarshal as a state transformer, ExpireSessions, GetSession. *)
From stdpp Require Import gmap.
From Coq Require Import Strings.String Strings.Ascii ZArith NArith.
From RV Require Import Base.Text Irc.Str Irc.Parse Irc.State Irc.Monad Irc.Cmds Irc.SCmds.
Local Open Scope string_scope.

Definition handler := env -> skey -> imsg -> M unit.
Definition noenv (h : skey -> imsg -> M unit) : handler := fun _ => h.

(* Commands: name -> (MinParams, Func).  Must agree with the table generated from the source
   (Gen/CmdTable.v, obligation cmd_table_agrees). *)
Definition commands : list (string * (nat * handler)) :=
  [ ("NICKSERV", (0, noenv cmd_service_alias)); ("CHANSERV", (0, noenv cmd_service_alias));
    ("OPERSERV", (0, noenv cmd_service_alias)); ("MEMOSERV", (0, noenv cmd_service_alias));
    ("HOSTSERV", (0, noenv cmd_service_alias)); ("BOTSERV", (0, noenv cmd_service_alias));
    ("NS", (0, noenv cmd_service_alias)); ("CS", (0, noenv cmd_service_alias));
    ("OS", (0, noenv cmd_service_alias)); ("MS", (0, noenv cmd_service_alias));
    ("HS", (0, noenv cmd_service_alias)); ("BS", (0, noenv cmd_service_alias));
    ("AWAY", (0, noenv cmd_away)); ("GLINE", (2, noenv cmd_gline)); ("INVITE", (2, noenv cmd_invite));
    ("ISON", (1, noenv cmd_ison)); ("JOIN", (1, cmd_join)); ("KICK", (2, noenv cmd_kick));
    ("KILL", (2, noenv cmd_kill)); ("KNOCK", (1, noenv cmd_knock)); ("LIST", (0, noenv cmd_list));
    ("MODE", (1, noenv cmd_mode)); ("MOTD", (0, noenv cmd_motd)); ("NAMES", (0, noenv cmd_names));
    ("NICK", (0, cmd_nick)); ("OPER", (2, noenv cmd_oper)); ("PART", (1, noenv cmd_part));
    ("PASS", (0, cmd_pass)); ("PING", (0, noenv cmd_ping)); ("PRIVMSG", (0, noenv cmd_privmsg));
    ("NOTICE", (0, noenv cmd_privmsg)); ("QUIT", (0, noenv cmd_quit)); ("TOPIC", (1, noenv cmd_topic));
    ("USER", (3, cmd_user)); ("USERHOST", (1, noenv cmd_userhost)); ("WHO", (0, noenv cmd_who));
    ("WHOIS", (1, noenv cmd_whois)); ("SERVER", (2, noenv cmd_server));
    ("server_INVITE", (2, noenv cmd_server_invite)); ("server_JOIN", (0, noenv cmd_server_join));
    ("server_KICK", (2, noenv cmd_server_kick)); ("server_KILL", (1, noenv cmd_server_kill));
    ("server_MODE", (0, noenv cmd_server_mode)); ("server_NICK", (0, noenv cmd_server_nick));
    ("server_PART", (0, noenv cmd_server_part)); ("server_PING", (0, noenv cmd_ping));
    ("server_PRIVMSG", (0, noenv cmd_server_privmsg)); ("server_NOTICE", (0, noenv cmd_server_privmsg));
    ("server_QUIT", (0, noenv cmd_server_quit)); ("server_SVSHOLD", (1, noenv cmd_server_svshold));
    ("server_SVSJOIN", (2, noenv cmd_server_svsjoin)); ("server_SVSMODE", (2, noenv cmd_server_svsmode));
    ("server_SVSNICK", (2, noenv cmd_server_svsnick)); ("server_SVSPART", (2, noenv cmd_server_svspart));
    ("server_TOPIC", (3, noenv cmd_server_topic)) ].

Definition cmd_table : list (string * nat) := map (fun e => (fst e, fst (snd e))) commands.

Definition ten_minutes : Z := 600000000000.

Definition pre_registration (cmd : string) : bool :=
  existsb (String.eqb cmd) ["NICK"; "USER"; "PASS"; "QUIT"; "SERVER"].

(* IRCServer.ProcessMessage *)
Definition process_message (e : env) (k : skey) (remoteAddr : string) (ircmsg : option imsg) : M unit :=
  DO s <- sessM k IN
  match ircmsg with
  | None => reply_num k "421" [s_nick s; "Unknown command"]
  | Some m =>
      let command := to_upper (m_cmd m) in
      DO banned <- (if negb (is_empty remoteAddr) && negb (String.eqb remoteAddr (s_remoteAddr s)) then
                      updSess k (ss_remoteAddr remoteAddr) ;;;
                      DO g <- cfgM IN
                      match g_banned g !! remoteAddr with
                      | Some reason =>
                          if is_empty reason then retM false
                          else emit (rc_user k) (noprefix "ERROR" ["Closing Link: You are banned (" ++ reason ++ ")"]) ;;;
                               delete_session k ;;; retM true
                      | None => retM false
                      end
                    else retM false) IN
      if banned then retM tt
      else
        DO s <- sessM k IN
        if negb (s_loggedIn s) && negb (s_server s) && negb (pre_registration command) then
          reply_num k "451" [command; "You have not registered"] ;;;
          whenM (ten_minutes <? tsub (s_lastActivity s) (Some (s_created s)))%Z
            (emit (rc_user k) (noprefix "ERROR" ["Closing Link: You have not registered within 10 minutes"]) ;;;
             delete_session k)
        else
          match assoc_str ((if s_server s then "server_" else EmptyString) ++ command) commands with
          | None => reply_num k "421" [s_nick s; command; "Unknown command"]
          | Some (minp, f) =>
              if Nat.ltb (nparams m) minp then reply_num k "461" [s_nick s; command; "Not enough parameters"]
              else f e k m
          end
  end.

(* IRCServer.MaybeDeleteSession *)
Definition maybe_delete_session (k : skey) (sv : server) : server :=
  match sv_sessions sv !! k with
  | Some s =>
      let sv1 := if s_server s || s_operator s
                 then set_sessions (base.filter (fun kv : skey * session => s_deleted (snd kv) = false)) sv else sv in
      if s_deleted s then set_sessions (delete k) sv1 else sv1
  | None => sv
  end.

(* IRCServer.UpdateLastClientMessageID; None = error (session unknown) *)
Definition update_last_cmid (k : skey) (ts : time) (data : string) (cmid : N) (sv : server) : option server :=
  match sv_sessions sv !! k with
  | Some s =>
      let lnp := if has_prefix "ping" (to_lower data) then s_lastNonPing s else ts in
      Some (set_sessions (<[k := ss_activity ts lnp cmid s]>) sv)
  | None => None
  end.

(* the repaired applyRobustMessage (fix 92a4e2e): a second copy of the session's last client message is skipped
   when the log is applied.  IRCServer.LastPostMessage answers 0 for an unknown session. *)
Definition is_retry (k : skey) (cmid : N) (sv : server) : bool :=
  negb (cmid =? 0)%N &&
  match sv_sessions sv !! k with Some s => (s_cmid s =? cmid)%N | None => false end.

(* ---- log entries -------------------------------------------------------------------------------------- *)
Inductive entry :=
| ECreate (id : N) (unixnano : Z) (auth : string)
| EDelete (id : N) (unixnano : Z) (session : N) (quitmsg : string)
| EMessage (id : N) (unixnano : Z) (session : N) (cmid : N) (remoteAddr data : string)
| EDeath (id : N) (unixnano : Z) (session : N) (cmid : N) (data : string)
| EConfig (id : N) (unixnano : Z) (revision : N) (parsed : option config).   (* config.FromString as an oracle *)

(* robust.Message.Timestamp *)
Definition timestamp (id : N) (unixnano : Z) : time :=
  if (unixnano =? 0)%Z then Some (Z.of_N id) else Some unixnano.

Inductive outcome :=
| OOk (sv : server) (out : list omsg)
| OSessionLimit (sv : server)
| OSkip (sv : server)               (* logged and skipped: unknown session *)
| OPanic (site : string)
| OGap (site : string).

(* the repaired applyRobustMessage (fix b3bad2c): a Config message takes effect only if it parses AND its revision is the
   revision in force plus one — whatever the handler that proposed it was looking at *)
Definition config_in_force (revision : N) (parsed : option config) (sv : server) : option config :=
  match parsed with
  | Some g => if (revision =? g_revision (sv_config sv) + 1)%N then Some g else None
  | None => None
  end.

Definition run_handler (sv : server) (msgid : N) (act : M unit) (finish : server -> server) : outcome :=
  match act sv (RCtx msgid []) with
  | Ok (_, sv', r) => OOk (finish sv') (rev (r_out r))
  | Panic s => OPanic s
  | Gap s => OGap s
  end.

Definition with_revision (rev : N) (g : config) : config :=
  Config rev (g_expiration g) (g_cooloff g) (g_maxSessions g) (g_maxChannels g) (g_captchaURL g) (g_captchaHMAC g)
         (g_captchaLogin g) (g_operators g) (g_services g) (g_banned g) (g_trustedBridges g) (g_whitelistedOrigins g).

(* FSM.applyRobustMessage *)
Definition apply_entry (e : env) (sv : server) (en : entry) : outcome :=
  match en with
  | EDeath id un session cmid data =>
      match update_last_cmid (session, 0%N) (timestamp id un) data cmid sv with
      | Some sv' => OOk sv' []
      | None => OSkip sv
      end
  | ECreate id un auth =>
      match create_session (id, 0%N) auth (timestamp id un) sv (RCtx id []) with
      | Ok (true, sv', _) => OOk sv' []
      | Ok (false, sv', _) => OSessionLimit sv'
      | Panic s => OPanic s
      | Gap s => OGap s
      end
  | EDelete id un session quitmsg =>
      let k := (session, 0%N) in
      match sv_sessions sv !! k with
      | Some _ =>
          run_handler sv id (process_message e k EmptyString (parse_message ("QUIT :" ++ quitmsg)))
                      (fun sv' => maybe_delete_session k (set_lastProcessed (id, 0%N) sv'))
      | None => OOk sv []
      end
  | EMessage id un session cmid remoteAddr data =>
      let k := (session, 0%N) in
      if is_retry k cmid sv then OOk sv [] else
      match update_last_cmid k (timestamp id un) data cmid sv with
      | None => OSkip sv
      | Some sv1 =>
          run_handler sv1 id (process_message e k remoteAddr (parse_message data))
                      (fun sv' => maybe_delete_session k (set_lastProcessed (session, 0%N) sv'))
      end
  | EConfig id un revision parsed =>
      match config_in_force revision parsed sv with
      | Some g => OOk (set_config (fun _ => with_revision revision g) sv) []
      | None => OOk sv []
      end
  end.

(* ---- Marshal followed by Unmarshal into a fresh instance (repaired code: a nickname-less
   session is not indexed; the whitelisted origins are part of the snapshot) -------------------------------------------------------------------------------- *)
Definition reload_session (s : session) : session :=
  let created := if (0 <? s_created s)%Z then s_created s else Z.of_N (fst (s_key s)) in
  let lnp := match s_lastNonPing s with None => s_lastActivity s | t => t end in
  Session (s_key s) (s_auth s) (s_loggedIn s) (s_nick s) (s_user s) (s_real s) (s_channels s) (s_lastActivity s)
    lnp (s_lastSolvedCaptcha s) (s_operator s) (s_away s) created (s_invited s) (s_modes s)
    (s_svid s) (s_pass s) (s_server s) (s_cmid s) (s_prefix s) false (s_remoteAddr s).

Definition reload (sv : server) : server :=
  let sessions := reload_session <$> sv_sessions sv in
  let live := map_to_list sessions in
  Server sessions
         (set_of_ids (map (fun kv => fst (fst kv)) (filter (fun kv => s_server (snd kv)) live)))
         (list_to_map (map (fun kv => (nick_to_lower (s_nick (snd kv)), fst kv))
                           (filter (fun kv => negb (is_empty (s_nick (snd kv)))) live)))
         (sv_channels sv) (sv_svsholds sv) (sv_netname sv) (sv_lastProcessed sv)
         (let g := sv_config sv in
          Config (g_revision g) (g_expiration g) (g_cooloff g) (g_maxSessions g) (g_maxChannels g) (g_captchaURL g)
                 (g_captchaHMAC g) (g_captchaLogin g) (g_operators g) (g_services g) (g_banned g)
                 (g_trustedBridges g) (g_whitelistedOrigins g)).

(* ---- read-only queries of the API ------------------------------------------------------------------------ *)
Inductive lookup_result := LFound | LNoSuch | LNotYet.
(* IRCServer.GetSession *)
Definition get_session (sv : server) (id : N) : lookup_result :=
  match sv_sessions sv !! (id, 0%N) with
  | Some _ => LFound
  | None => if (id <? fst (sv_lastProcessed sv))%N then LNoSuch else LNotYet
  end.

Definition last_post_message (sv : server) (id : N) : N :=
  match sv_sessions sv !! (id, 0%N) with Some s => s_cmid s | None => 0%N end.

(* time.Duration.String for whole seconds (the only shape a configured expiration has in the
   modelled domain) *)
Definition dur_string (d : Z) : string :=
  let secs := (d / 1000000000)%Z in
  let h := (secs / 3600)%Z in let mi := ((secs / 60) mod 60)%Z in let s := (secs mod 60)%Z in
  if (0 <? h)%Z then dec_of_Z h ++ "h" ++ dec_of_Z mi ++ "m" ++ dec_of_Z s ++ "s"
  else if (0 <? mi)%Z then dec_of_Z mi ++ "m" ++ dec_of_Z s ++ "s"
  else dec_of_Z s ++ "s".

(* IRCServer.ExpireSessions evaluated at wall-clock time [now]: (session id, Data) of the proposed deletions *)
Definition expire_sessions (sv : server) (now : Z) : list (N * string) :=
  let timeout := g_expiration (sv_config sv) in
  map (fun kv => (fst (fst kv), "Ping timeout (" ++ dur_string timeout ++ ")"))
      (filter (fun kv : skey * session => (snd (fst kv) =? 0)%N && (timeout <? tsub (Some now) (s_lastActivity (snd kv)))%Z)
              (map_to_list (sv_sessions sv))).
