# regenerates corpus/irc/*.case from the irclib.Script DSL:  python3 corpus/irc/tools/mkcorpus.py
import sys
sys.path.insert(0,'/verif/harness/py')
import irclib
from irclib import Script, SEC
out = {}
CFG = {"exp": 600*SEC, "cool": 0, "ops": [(b"root", b"hunter2")], "svc": [b"svcpass"]}

# D1a: TOPIC #c : by a logged-in non-member of a +t channel
s = Script(); a = s.user(b"alice"); b = s.user(b"bob"); s.M(a, b"JOIN #c"); s.M(b, b"TOPIC #c :")
out["D1a"] = s
# D1b: same on a -t channel
s = Script(); a = s.user(b"alice"); b = s.user(b"bob"); s.M(a, b"JOIN #c"); s.M(a, b"TOPIC #c :welcome"); s.M(a, b"MODE #c -t"); s.M(b, b"TOPIC #c :")
out["D1b"] = s
# D2: services QUIT with 3 pseudo-clients in one channel shared with a user
s = Script(); s.F(CFG); a = s.user(b"alice"); s.M(a, b"JOIN #c"); l = s.link(pseudo=(b"NickServ", b"ChanServ", b"OperServ", b"BotServ"))
for n in (b"NickServ", b"ChanServ", b"OperServ", b"BotServ"): s.M(l, b":%s JOIN #c" % n)
s.M(l, b"QUIT :services restarting")
out["D2"] = s
# D6a: CR/NUL relayed verbatim
s = Script(); a = s.user(b"alice"); b = s.user(b"bob"); s.M(a, b"JOIN #c"); s.M(b, b"JOIN #c")
s.M(a, b"PRIVMSG #c :hi\r:a!a@x PRIVMSG #c :forged\x00z")
out["D6a"] = s
# D6b: DeleteSession with CR LF in the quit message
s = Script(); a = s.user(b"alice"); b = s.user(b"bob"); s.M(a, b"JOIN #c"); s.M(b, b"JOIN #c"); s.D(a, b"bye\r\n:srv KILL bob :forged")
out["D6b"] = s
# D7a: nickname-less session indexed under "" by Unmarshal
s = Script(); a = s.user(b"alice"); n = s.C(); s.M(a, b"WHOIS :"); s.S(); s.M(a, b"WHOIS :")
out["D7a"] = s
# D8: services NICK at the session limit
s = Script(); c = dict(CFG); c["maxs"] = 2; s.F(c); a = s.user(b"alice"); l = s.C(); s.M(l, b"PASS services=svcpass"); s.M(l, b"SERVER services.example 1 :Services")
s.M(l, b"NICK NickServ 1 1422134861 services services.example services.example 0 :Nick")
out["D8"] = s
# D10: +x +b channel: banned user joins with a valid captcha; control: same ban on a channel without +x
secret = bytes(range(32))
s = Script(); c = dict(CFG); c["capurl"] = b"http://captcha.example"; c["caphmac"] = secret; s.F(c)
a = s.user(b"alice"); b = s.user(b"bob")
s.M(a, b"JOIN #x"); s.M(a, b"MODE #x +x"); s.M(a, b"MODE #x +b bob!*@*")
s.M(a, b"JOIN #plain"); s.M(a, b"MODE #plain +b bob!*@*")
s.M(b, b"JOIN #plain")
tok = irclib.captcha_token(secret, b"okay:join:%d:#x" % (s.ts,), b"00000000")
s.oracles.append("O captcha %s %d" % (irclib.hx(tok), irclib.captcha_oracle(secret, tok)))
s.M(b, b"JOIN #x " + tok)
out["D10"] = s
# D11: :ChanServ JOIN #secret is announced to a user who only shares #a with ChanServ
s = Script(); s.F(CFG); a = s.user(b"alice"); z = s.user(b"zoe"); s.M(a, b"JOIN #a"); s.M(z, b"JOIN #secret"); l = s.link()
s.M(l, b":ChanServ JOIN #a"); s.M(l, b":ChanServ JOIN #secret"); s.M(l, b":ChanServ PART #secret")
out["D11"] = s
# D12: MaxChannels=1: client JOIN of a 2nd channel refused, SVSJOIN / services JOIN create it
s = Script(); c = dict(CFG); c["maxc"] = 1; s.F(c); a = s.user(b"alice"); b = s.user(b"bob"); s.M(a, b"JOIN #one"); s.M(b, b"JOIN #two"); l = s.link()
s.M(l, b":ChanServ SVSJOIN bob #two"); s.M(l, b":ChanServ JOIN #three")
out["D12"] = s
# D16: SVSNICK that only changes case (outside conforming_server_line)
s = Script(); s.F(CFG); a = s.user(b"foo"); b = s.user(b"bob"); s.M(a, b"JOIN #c"); s.M(b, b"JOIN #c"); l = s.link()
s.M(l, b"SVSNICK foo Foo :1"); s.M(b, b"PRIVMSG #c :anyone?"); s.M(b, b"WHOIS foo")
out["D16"] = s
# N1: user name longer than a line: every relayed line is cut inside the prefix
s = Script(); a = s.C(); s.M(a, b"NICK alice"); s.M(a, b"USER " + b"u" * 520 + b" 0 * :x"); b = s.user(b"bob"); s.M(a, b"JOIN #c"); s.M(b, b"JOIN #c"); s.M(a, b"PRIVMSG #c :hello")
out["N1"] = s
# N2 (C03): CaptchaURL without CaptchaHMACSecret: secret is nil before save+load, empty (non-nil) after -> MODE +x starts to work
s = Script(); c = dict(CFG); c["capurl"] = b"http://captcha.example"; s.F(c); a = s.user(b"alice"); s.M(a, b"JOIN #c"); s.M(a, b"MODE #c +x"); s.S(); s.M(a, b"MODE #c +x")
out["N2"] = s
# N4 (C06 candidate): unparsable CaptchaURL -> nil *url.URL in generateCaptchaURL
s = Script(); c = dict(CFG); c["capurl"] = b"http://[::1"; c["caphmac"] = secret; s.F(c); a = s.user(b"alice"); b = s.user(b"bob"); s.M(a, b"JOIN #c"); s.M(a, b"MODE #c +x"); s.M(b, b"JOIN #c")
out["N4"] = s
for k, sc in out.items():
    open("/verif/corpus/irc/%s.case" % k, "w").write(irclib.case_line(sc.case()) + "\n")
print(sorted(out))
