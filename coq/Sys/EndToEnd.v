(* M-SYS — end-to-end composition over an ASSUMED raft contract (property C05).

   Nothing here is about code that the other models do not already cover; the value of this
   file is that every hypothesis of the end-to-end promise is written down and named.

   A system [Sys] bundles
     * the replicated machine: a FUNCTION [step : St -> Entry -> St * list Out] (what C01
       provides: determinism), the per-session filter [visible] (getmessages.go: InterestingFor)
       and the dedup marker [lastpost] (IRCServer.LastPostMessage, C10);
     * raft, as a contract: ONE totally ordered committed log [L]; every node has applied a
       prefix [firstn (applied i) L] of it;
     * clients: for every session the sequence of HTTP POST requests it sent, numbered in the
       order the client sent them (request [n] of session [s]): the client message id it carried
       ([r_cmid]; a retry carries the same id), the length of the committed log when the request
       arrived at the answering node ([r_len]), the length of the prefix that node had applied
       when the handler compared the marker ([r_seen]), the index of the log entry this request
       produced if its proposal was ever committed ([r_idx]), and whether the client received
       HTTP 200 ([r_ack]).

   Since /repo 92a4e2e (repair of D14) the machine itself skips a client entry whose non-zero
   client message id equals the session's marker ([ApplySkip], statemachine.go case
   robust.IRCFromClient).  The log MAY therefore hold several copies of a post (a retry answered
   by a node whose state lags its log, or racing its still-running first copy, is proposed
   again); what is promised is that exactly one of them is PROCESSED, on every node.  The former
   hypotheses HandlerCaughtUp, HandlerDedup, SeenLeLen and EarlierRequestsSettled are gone.

   The hypotheses are the named [Prop]s below.  EndToEndProofs.v proves the theorems inside a
   Section whose Variables/Hypotheses are exactly these; Properties/C05.v states them closed. *)
From Coq Require Import List NArith Arith Bool.
Import ListNotations.

Record Sys : Type := mkSys {
  St : Type; Entry : Type; Out : Type; Sess : Type; Node : Type;
  init : St;
  step : St -> Entry -> St * list Out;
  visible : Sess -> Out -> bool;
  entry_key : Entry -> option (Sess * N);      (* session and client message id of a client entry *)
  lastpost : St -> Sess -> N;
  L : list Entry;
  applied : Node -> nat;
  node_state : Node -> St;
  node_outs : Node -> list Out;
  nreq : Sess -> nat;
  r_cmid : Sess -> nat -> N;
  r_len : Sess -> nat -> nat;
  r_seen : Sess -> nat -> nat;
  r_idx : Sess -> nat -> option nat;
  r_ack : Sess -> nat -> bool
}.

Section Model.
  Variable M : Sys.

  (* plain replay *)
  Fixpoint run (st : St M) (l : list (Entry M)) : St M * list (Out M) :=
    match l with
    | [] => (st, [])
    | e :: l' => let so := step M st e in
                 let r := run (fst so) l' in (fst r, snd so ++ snd r)
    end.
  Definition state_of (l : list (Entry M)) : St M := fst (run (init M) l).
  Definition outs_of (l : list (Entry M)) : list (Out M) := snd (run (init M) l).

  (* what node i serves to session s *)
  Definition served (i : Node M) (s : Sess M) : list (Out M) := filter (visible M s) (node_outs M i).

  Definition prefix_of {A} (a b : list A) : Prop := exists t, b = a ++ t.

  (* the state against which the handler of request n of session s compared the marker *)
  Definition seen_state (s : Sess M) (n : nat) : St M := state_of (firstn (r_seen M s n) (L M)).

  (* the state a node is in when it applies the entry at index i *)
  Definition state_before (i : nat) : St M := state_of (firstn i (L M)).

  Definition copy_at (s : Sess M) (c : N) (i : nat) : Prop :=
    exists e, nth_error (L M) i = Some e /\ entry_key M e = Some (s, c).
  (* a copy that is processed: the marker differs when it is applied *)
  Definition effective_at (s : Sess M) (c : N) (i : nat) : Prop :=
    exists e, nth_error (L M) i = Some e /\ entry_key M e = Some (s, c) /\ lastpost M (state_before i) s <> c.
  (* an entry that every node skips: no state change, no output *)
  Definition skipped_at (i : nat) : Prop :=
    exists e, nth_error (L M) i = Some e /\ step M (state_before i) e = (state_before i, []).

  (* ---- raft contract + C02 ------------------------------------------------------------ *)
  (* a node's state and stored output are those of plain replay of the prefix it has applied,
     however it got there (snapshot, restore, restart): C02_state / C02_output / C02_exact *)
  Definition NodeStateIsReplay : Prop := forall i,
    node_state M i = state_of (firstn (applied M i) (L M)) /\
    node_outs M i = outs_of (firstn (applied M i) (L M)).
  (* raft only appends: a proposal lands behind everything committed when it was made *)
  Definition ProposalAppends : Prop := forall s n i, n < nreq M s -> r_idx M s n = Some i -> r_len M s n <= i.
  (* the committed entry is the proposed one: it carries the request's session and client message id *)
  Definition ProposalEntry : Prop := forall s n i, n < nreq M s -> r_idx M s n = Some i -> copy_at s (r_cmid M s n) i.
  (* raft does not invent entries (client entries come from POST requests of that session) *)
  Definition LogFromRequests : Prop := forall s c i, copy_at s c i ->
    exists n, n < nreq M s /\ r_cmid M s n = c /\ r_idx M s n = Some i.
  (* api.go applyMessageWait: HTTP 200 only after Apply's future succeeded — the entry is
     committed and applied — or on the dedup path of postmessage.go (the marker of the state the
     handler looked at, a replay of some prefix of L, equals the id) *)
  Definition AckImpliesCommitted : Prop := forall s n, n < nreq M s -> r_ack M s n = true ->
    (exists i, r_idx M s n = Some i) \/ lastpost M (seen_state s n) s = r_cmid M s n.

  (* ---- marker rule (C10_marker / C10_marker_inv), for sessions that stay alive ---------- *)
  Definition MarkerInit : Prop := forall s, lastpost M (init M) s = 0%N.
  Definition MarkerSet : Prop := forall st e s c, entry_key M e = Some (s, c) -> lastpost M (fst (step M st e)) s = c.
  Definition MarkerOnly : Prop := forall st e s, lastpost M (fst (step M st e)) s <> lastpost M st s ->
    entry_key M e = Some (s, lastpost M (fst (step M st e)) s).
  (* statemachine.go since 92a4e2e: a client entry whose non-zero id equals the marker is skipped *)
  Definition ApplySkip : Prop := forall st e s c, entry_key M e = Some (s, c) -> c <> 0%N ->
    lastpost M st s = c -> step M st e = (st, []).

  (* ---- client protocol ------------------------------------------------------------------ *)
  Definition CmidNonzero : Prop := forall s n, n < nreq M s -> r_cmid M s n <> 0%N.
  (* retries of a message are contiguous: the client never returns to an earlier message id *)
  Definition ClientNoReturn : Prop := forall s a b c, a < b -> b < c -> c < nreq M s ->
    r_cmid M s a = r_cmid M s c -> r_cmid M s b = r_cmid M s a.

  (* ---- timing hypothesis (NOT enforced by the code) ------------------------------------ *)
  (* when a client sends a request for a NEW message, the requests it sent for EARLIER messages
     are settled: what they proposed is committed already or never will be.  (The client moves
     on only after an acknowledgement; a stale attempt of the previous message that is still
     running inside a node and commits after the next message would be processed again: the
     apply rule compares with the LAST id only.)  Retries of the SAME message need no such
     hypothesis any more. *)
  Definition EarlierMessagesSettled : Prop := forall s m n i, m < n -> n < nreq M s ->
    r_cmid M s m <> r_cmid M s n -> r_idx M s m = Some i -> i < r_len M s n.

  Definition ContractWithoutApplySkip : Prop :=
    NodeStateIsReplay /\ ProposalAppends /\ ProposalEntry /\ LogFromRequests /\
    AckImpliesCommitted /\ MarkerInit /\ MarkerSet /\ MarkerOnly /\
    CmidNonzero /\ ClientNoReturn /\ EarlierMessagesSettled.
  Definition Contract : Prop := ContractWithoutApplySkip /\ ApplySkip.

  (* ---- conclusions ------------------------------------------------------------------------ *)
  Definition SameStream : Prop := forall i j s,
    prefix_of (served i s) (served j s) \/ prefix_of (served j s) (served i s).
  Definition AckDurable : Prop := forall s n, n < nreq M s -> r_ack M s n = true ->
    exists i, copy_at s (r_cmid M s n) i.
  (* exactly one copy is processed; every other copy lies behind it and is skipped by every node *)
  Definition ProcessedOnce : Prop := forall s n, n < nreq M s -> r_ack M s n = true ->
    exists i, effective_at s (r_cmid M s n) i /\
      forall j, copy_at s (r_cmid M s n) j -> j <> i -> i < j /\ skipped_at j.
  (* all copies of an earlier message precede all copies of a later one *)
  Definition SenderOrder : Prop := forall s n n' i i', n < n' -> n' < nreq M s ->
    r_cmid M s n <> r_cmid M s n' ->
    copy_at s (r_cmid M s n) i -> copy_at s (r_cmid M s n') i' -> i < i'.
  (* the stream of every node that has reached the processed copy i is: what the log before i
     produces (no copy of the post there), then the output of the single processing of the post,
     then what the later entries produce (every copy of the post among them is skipped) *)
  Definition DeliveredOnce : Prop := forall s n, n < nreq M s -> r_ack M s n = true ->
    exists i e, nth_error (L M) i = Some e /\ entry_key M e = Some (s, r_cmid M s n) /\
      (forall k, k < i -> ~ copy_at s (r_cmid M s n) k) /\
      (forall k, i < k -> copy_at s (r_cmid M s n) k -> skipped_at k) /\
      forall j r, i < applied M j ->
        served j r = filter (visible M r) (outs_of (firstn i (L M)))
                  ++ filter (visible M r) (snd (step M (state_before i) e))
                  ++ filter (visible M r) (snd (run (state_before (S i)) (skipn (S i) (firstn (applied M j) (L M))))).
  Definition TwoCopies : Prop := exists s c i j, i <> j /\ copy_at s c i /\ copy_at s c j /\
    exists n, n < nreq M s /\ r_cmid M s n = c /\ r_ack M s n = true.
End Model.

(* ---- a tiny concrete machine (one session; an entry is a client message id; the state is the
   list of processed entries, newest first; every processed entry is echoed to the session).
   [skip] = with the apply rule of 92a4e2e. ------------------------------------------------ *)
Definition tiny_marker (st : list N) : N := match st with [] => 0%N | c :: _ => c end.
Definition tiny_step (skip : bool) (st : list N) (e : N) : list N * list N :=
  if skip && negb (N.eqb e 0) && N.eqb (tiny_marker st) e then (st, []) else (e :: st, [e]).
Fixpoint tiny_run (skip : bool) (st : list N) (l : list N) : list N * list N :=
  match l with
  | [] => (st, [])
  | e :: l' => let so := tiny_step skip st e in
               let r := tiny_run skip (fst so) l' in (fst r, snd so ++ snd r)
  end.

Definition tiny (skip : bool) (log : list N) (napplied : bool -> nat) (nrq : nat)
                (cm : nat -> N) (ln sn : nat -> nat) (ix : nat -> option nat) (ak : nat -> bool) : Sys :=
  mkSys (list N) N N unit bool
        []
        (tiny_step skip)
        (fun _ _ => true)
        (fun e => Some (tt, e))
        (fun st _ => tiny_marker st)
        log
        napplied
        (fun b => fst (tiny_run skip [] (firstn (napplied b) log)))
        (fun b => snd (tiny_run skip [] (firstn (napplied b) log)))
        (fun _ => nrq) (fun _ => cm) (fun _ => ln) (fun _ => sn) (fun _ => ix) (fun _ => ak).

(* two messages, posted and acknowledged in order; node [false] has applied one entry, node [true] both *)
Definition tiny_ok : Sys :=
  tiny true [5%N; 6%N] (fun b => if b then 2 else 1) 2
       (fun n => match n with 0 => 5%N | _ => 6%N end)
       (fun n => n) (fun n => n)
       (fun n => Some n) (fun _ => true).

(* D14: request 0 (id 5) is committed at index 0 but its answer is lost; the retry (request 1, same id)
   arrives when the committed log has length 1 ([r_len] = 1) at a leader that has applied nothing yet
   ([r_seen] = 0 < 1): the marker still differs, the message is proposed again and acknowledged.
   The log holds the post twice; with the apply rule the second copy is skipped. *)
Definition lagging (skip : bool) : Sys :=
  tiny skip [5%N; 5%N] (fun b => if b then 2 else 1) 2
       (fun _ => 5%N)
       (fun n => n) (fun _ => 0)
       (fun n => Some n) (fun n => match n with 0 => false | _ => true end).
Definition tiny_lagging : Sys := lagging true.
(* the same history on the machine WITHOUT the apply rule (the code before 92a4e2e) *)
Definition tiny_lagging_noskip : Sys := lagging false.
