(* IrcProofs/ReloadInv.v — invariants over histories that make save + load the identity on sessions (C03, part 1).

   [reload_session] (Marshal followed by Unmarshal of one session, Irc/Apply.v) is the identity on a session whose
   Created stamp is positive, whose LastNonPing is not the zero time and which is not marked deleted
   (Misc.reload_session_id).  Here these side conditions are proved as INVARIANTS of every state a history
   reaches, as long as the timestamps of the log entries that are stored in a session are positive ([ts_pos]);
   services pseudo-clients inherit the LastActivity stamp of their link, so the invariant carries
   "LastActivity is a positive time" as well.  The second invariant ties the two places that say which
   sessions are services links: a session whose Server flag is set is a top-level session (Reply = 0) and its id is
   listed in [sv_serverSessions].  (The converse is false: the id of a link that quit stays listed — D13.)

   The proof is a unary logical relation over the handler monad ([pres]), in the style of Outputs.v; nothing is
   assumed about the no-panic invariant (a step that panics has no successor state). *)
From stdpp Require Import gmap.
From Coq Require Import Strings.String Strings.Ascii ZArith NArith Lia.
From RV Require Import Base.Text Irc.Str Irc.Parse Irc.State Irc.Monad Irc.Cmds Irc.SCmds Irc.Apply.
From RV Require Import IrcProofs.Inv IrcProofs.Top IrcProofs.Outputs.
Local Open Scope string_scope.

(* ---- the invariants ------------------------------------------------------------------------------------ *)
Definition pos_time (t : time) : Prop := exists z, t = Some z /\ (0 < z)%Z.

Record SInv (s : session) : Prop := {
  si_created : (0 < s_created s)%Z;
  si_la : pos_time (s_lastActivity s);
  si_lnp : s_lastNonPing s <> None;
}.

Record TInv (sv : server) : Prop := {
  t_sess : forall (k : N * N) s, sv_sessions sv !! k = Some s -> SInv s;
  t_srv : forall (k : N * N) s, sv_sessions sv !! k = Some s -> s_server s = true ->
            snd k = 0%N /\ In (fst k) (sv_serverSessions sv);
}.

Lemma TInv_init net : TInv (init_server net).
Proof. split; intros k s H; cbn in H; rewrite lookup_empty in H; discriminate. Qed.

(* session updates that do not touch the four fields the invariant reads *)
Definition sess_keep (g : session -> session) : Prop :=
  forall s, s_created (g s) = s_created s /\ s_lastActivity (g s) = s_lastActivity s /\
            s_lastNonPing (g s) = s_lastNonPing s /\ s_server (g s) = s_server s.

(* every session of [m'] is, up to those four fields, a session of [m] under the same key *)
Definition sess_le (m' m : gmap (N * N) session) : Prop :=
  forall k s', m' !! k = Some s' ->
    exists s, m !! k = Some s /\ s_created s' = s_created s /\ s_lastActivity s' = s_lastActivity s /\
              s_lastNonPing s' = s_lastNonPing s /\ s_server s' = s_server s.

Lemma sess_le_refl m : sess_le m m.
Proof. intros k s H. exists s. auto. Qed.

Lemma sess_le_upd (m : gmap (N * N) session) k g :
  sess_keep g -> sess_le (match m !! k with Some s => <[k := g s]> m | None => m end) m.
Proof.
  intros Hg k' s'. rewrite lookup_upd_sess. destruct (bool_decide (k = k')).
  - destruct (m !! k') as [s|]; [|discriminate]. cbn. intros [= <-]. exists s. split; [reflexivity|apply Hg].
  - intros H. exists s'. auto.
Qed.

Lemma sess_le_fmap (m : gmap (N * N) session) g : sess_keep g -> sess_le (g <$> m) m.
Proof.
  intros Hg k s'. rewrite lookup_fmap. destruct (m !! k) as [s|]; [|discriminate]. cbn. intros [= <-].
  exists s. split; [reflexivity|apply Hg].
Qed.

Lemma sess_le_filter (P : (N * N) * session -> Prop) `{forall x, Decision (P x)} (m : gmap (N * N) session) :
  sess_le (base.filter P m) m.
Proof. intros k s Hs. apply map_filter_lookup_Some in Hs. exists s. tauto. Qed.

Lemma sess_le_delete (m : gmap (N * N) session) k : sess_le (delete k m) m.
Proof. intros k' s Hs. apply lookup_delete_Some in Hs. exists s. tauto. Qed.

Lemma sess_le_trans m1 m2 m3 : sess_le m1 m2 -> sess_le m2 m3 -> sess_le m1 m3.
Proof.
  intros H12 H23 k s1 H1. destruct (H12 _ _ H1) as (s2 & H2 & E1 & E2 & E3 & E4).
  destruct (H23 _ _ H2) as (s3 & H3 & F1 & F2 & F3 & F4). exists s3. repeat split; congruence.
Qed.

Lemma TInv_le sv sv' :
  sess_le (sv_sessions sv') (sv_sessions sv) ->
  (forall x, In x (sv_serverSessions sv) -> In x (sv_serverSessions sv')) ->
  TInv sv -> TInv sv'.
Proof.
  intros Hle Hsub [Hs Hv]. split.
  - intros k s' H'. destruct (Hle _ _ H') as (s & Hk & E1 & E2 & E3 & E4).
    destruct (Hs _ _ Hk) as [C A L]. split; [rewrite E1; exact C|rewrite E2; exact A|rewrite E3; exact L].
  - intros k s' H' Hsrv. destruct (Hle _ _ H') as (s & Hk & E1 & E2 & E3 & E4). rewrite E4 in Hsrv.
    destruct (Hv _ _ Hk Hsrv) as [H0 Hin]. split; [exact H0|apply Hsub, Hin].
Qed.

Lemma SInv_new key auth ts : pos_time ts -> SInv (new_session key auth ts).
Proof.
  intros (z & -> & Hz). split; cbn.
  - exact Hz.
  - exists z. auto.
  - discriminate.
Qed.

Lemma TInv_insert_new sv key auth ts :
  pos_time ts -> TInv sv -> TInv (set_sessions (<[key := new_session key auth ts]>) sv).
Proof.
  intros Hts [Hs Hv]. split; cbn [sv_sessions sv_serverSessions set_sessions]; intros k s.
  - destruct (decide (key = k)) as [<-|Hne].
    + rewrite lookup_insert. intros [= <-]. now apply SInv_new.
    + rewrite lookup_insert_ne by assumption. apply Hs.
  - destruct (decide (key = k)) as [<-|Hne].
    + rewrite lookup_insert. intros [= <-]. cbn. discriminate.
    + rewrite lookup_insert_ne by assumption. apply Hv.
Qed.

(* ---- the logical relation -------------------------------------------------------------------------------- *)
Definition pres {A} (m : M A) : Prop :=
  forall sv r, TInv sv -> match m sv r with Ok (_, sv', _) => TInv sv' | _ => True end.

Lemma pres_ret {A} (a : A) : pres (retM a).
Proof. intros sv r H. exact H. Qed.
Lemma pres_bind {A B} (m : M A) (f : A -> M B) : pres m -> (forall a, pres (f a)) -> pres (bindM m f).
Proof.
  intros Hm Hf sv r H. unfold bindM. specialize (Hm sv r H).
  destruct (m sv r) as [[[a sv'] r']|?|?]; [|exact Logic.I|exact Logic.I]. apply Hf. exact Hm.
Qed.
(* the session a handler reads satisfies the session invariant *)
Lemma pres_bind_sessM {B} k (f : session -> M B) : (forall s, SInv s -> pres (f s)) -> pres (bindM (sessM k) f).
Proof.
  intros Hf sv r H. unfold sessM; unfold bindM, getS, retM, gapM; cbv beta iota.
  destruct (sv_sessions sv !! k) as [s|] eqn:Hs; [|exact Logic.I].
  apply Hf; [eapply t_sess; eauto|exact H].
Qed.
Lemma pres_sessM k : pres (sessM k).
Proof.
  intros sv r H. unfold sessM; unfold bindM, getS, retM, gapM; cbv beta iota.
  destruct (sv_sessions sv !! k); [exact H|exact Logic.I].
Qed.
Lemma pres_panic {A} s : pres (@panicM A s).
Proof. intros sv r H. exact Logic.I. Qed.
Lemma pres_gap {A} s : pres (@gapM A s).
Proof. intros sv r H. exact Logic.I. Qed.
Lemma pres_getS : pres getS. Proof. intros sv r H. exact H. Qed.
Lemma pres_modS f : (forall sv, TInv sv -> TInv (f sv)) -> pres (modS f).
Proof. intros Hf sv r H. apply Hf, H. Qed.
Lemma pres_updSess k g : sess_keep g -> pres (updSess k g).
Proof.
  intros Hg sv r H. unfold updSess, modS. eapply TInv_le; [| |exact H]; cbn [sv_sessions sv_serverSessions set_sessions].
  - now apply sess_le_upd.
  - auto.
Qed.
Lemma pres_create_session key auth ts : pos_time ts -> pres (create_session key auth ts).
Proof.
  intros Hts sv r H. unfold create_session, bindM, getS, retM, modS. destruct (_ && _); cbn; [exact H|].
  now apply TInv_insert_new.
Qed.
Lemma pres_liftR {A} (x : res A) : pres (liftR x).
Proof. intros sv r H. unfold liftR. destruct x; [exact H|exact Logic.I|exact Logic.I]. Qed.
Lemma pres_replyCount : pres replyCount. Proof. intros sv r H. exact H. Qed.
Lemma pres_emit rc m : pres (emit rc m).
Proof. intros sv r H. exact H. Qed.
Lemma pres_whenM b m : pres m -> pres (whenM b m).
Proof. intros Hm. destruct b; [exact Hm|apply pres_ret]. Qed.
Lemma pres_forM {A} (l : list A) (f : A -> M unit) : (forall x, pres (f x)) -> pres (forM l f).
Proof. intros Hf. induction l as [|x l IH]; cbn [forM]; [apply pres_ret|]. apply pres_bind; [apply Hf|intros _; exact IH]. Qed.
(* two steps whose intermediate state breaks the invariant are treated as one *)
Lemma pres_seq2 {A B} (m1 : M unit) (m2 : M A) (f : A -> M B) :
  pres (m1 ;;; m2) -> (forall a, pres (f a)) -> pres (m1 ;;; (DO a <- m2 IN f a)).
Proof.
  intros H12 Hf sv r H. specialize (H12 sv r H). unfold bindM in *.
  destruct (m1 sv r) as [[[u sv1] r1]|?|?]; [|exact Logic.I|exact Logic.I].
  destruct (m2 sv1 r1) as [[[a sv2] r2]|?|?]; [|exact Logic.I|exact Logic.I]. apply Hf. exact H12.
Qed.

Ltac solve_keep := let s := fresh "s" in intros s; repeat split.

Ltac solve_mod :=
  let sv := fresh "sv" in let H := fresh "H" in
  intros sv H;
  first [ exact H
        | eapply TInv_le; [| |exact H];
          cbn [sv_sessions sv_serverSessions set_sessions set_nicks set_channels set_svsholds set_config
               set_serverSessions set_lastProcessed];
          [ first [ apply sess_le_refl
                  | apply sess_le_fmap; solve_keep
                  | unfold drop_invites; apply sess_le_fmap; solve_keep
                  | apply sess_le_delete
                  | apply sess_le_filter ]
          | let x := fresh "x" in let Hx := fresh "Hx" in
            intros x Hx; first [ exact Hx | apply in_or_app; left; exact Hx ] ] ].

Ltac pres_step :=
  lazymatch goal with
  | |- pres (bindM (sessM _) _) => apply pres_bind_sessM; intros ? ?
  | |- pres (bindM _ _) => apply pres_bind; [|intros ?]
  | |- pres (retM _) => apply pres_ret
  | |- pres (panicM _) => apply pres_panic
  | |- pres (gapM _) => apply pres_gap
  | |- pres getS => apply pres_getS
  | |- pres (sessM _) => apply pres_sessM
  | |- pres (updSess _ _) => apply pres_updSess; solve_keep
  | |- pres (create_session _ _ _) => apply pres_create_session; apply si_la; assumption
  | |- pres (modS _) => apply pres_modS; solve_mod
  | |- pres (liftR _) => apply pres_liftR
  | |- pres replyCount => apply pres_replyCount
  | |- pres (emit _ _) => apply pres_emit
  | |- pres (whenM _ _) => apply pres_whenM
  | |- pres (forM _ _) => apply pres_forM; intros ?
  | |- pres (if ?b then _ else _) => destruct b
  | |- pres (match ?x with _ => _ end) => destruct x
  | |- pres (let _ := _ in _) => cbv zeta
  end.

Ltac ri_unf := unfold reply_num, reply_svc, updChan, chanM, nickM, cfgM, param, prefix_name, msg_prefix,
              chanop_of, captcha_url_check, add_member, leave_channel, maybe_delete_channel,
              remove_nick_everywhere, rename_in_channels, change_nick.
Ltac ri_go := repeat (first [ pres_step | assumption | progress ri_unf ]).

(* ---- the handlers ------------------------------------------------------------------------------------------ *)
Lemma p_delete_session k : pres (delete_session k).
Proof. unfold delete_session. ri_unf. ri_go. Qed.
Lemma p_verify_captcha e k c : pres (verify_captcha e k c).
Proof. unfold verify_captcha. ri_unf. ri_go. Qed.
Lemma p_cmd_motd k m : pres (cmd_motd k m).
Proof. unfold cmd_motd. ri_unf. ri_go. Qed.
Lemma p_cmd_oper k m : pres (cmd_oper k m).
Proof. unfold cmd_oper. ri_unf. ri_go. Qed.
Lemma p_maybe_login e k m : pres (maybe_login e k m).
Proof. unfold maybe_login. ri_unf. ri_go; try apply p_verify_captcha; try apply p_cmd_oper; try apply p_cmd_motd. Qed.
Lemma p_cmd_nick e k m : pres (cmd_nick e k m).
Proof. unfold cmd_nick. ri_unf. ri_go; try apply p_maybe_login. Qed.
Lemma p_cmd_user e k m : pres (cmd_user e k m).
Proof. unfold cmd_user. ri_unf. ri_go; try apply p_maybe_login. Qed.
Lemma p_cmd_pass e k m : pres (cmd_pass e k m).
Proof. unfold cmd_pass. ri_unf. ri_go; try apply p_maybe_login. Qed.
Lemma p_mode_step k lc ch op md q : pres (cmd_mode_chan_step k lc ch op md q).
Proof. unfold cmd_mode_chan_step. ri_unf. ri_go. Qed.
Lemma p_mode_loop k lc ch op mds q : pres (cmd_mode_chan_loop k lc ch op mds q).
Proof.
  revert q. induction mds as [|md mds IH]; intros q; cbn [cmd_mode_chan_loop]; [apply pres_ret|].
  apply pres_bind; [apply p_mode_step|]. intros st. destruct (fst st); [apply pres_ret|apply IH].
Qed.
Lemma p_cmd_mode k m : pres (cmd_mode k m).
Proof. unfold cmd_mode. ri_unf. ri_go; try apply p_mode_loop. Qed.
Lemma p_cmd_topic k m : pres (cmd_topic k m).
Proof. unfold cmd_topic. ri_unf. ri_go. Qed.
Lemma p_cmd_names k m : pres (cmd_names k m).
Proof. unfold cmd_names. ri_unf. ri_go. Qed.
Lemma p_join_one e k ch key : pres (join_one e k ch key).
Proof. unfold join_one. ri_unf. ri_go; try apply p_verify_captcha; try apply p_cmd_mode; try apply p_cmd_topic; try apply p_cmd_names. Qed.
Lemma p_cmd_join e k m : pres (cmd_join e k m).
Proof. unfold cmd_join. ri_unf. ri_go; try apply p_join_one. Qed.
Lemma p_cmd_part k m : pres (cmd_part k m).
Proof. unfold cmd_part. ri_unf. ri_go. Qed.
Lemma p_cmd_kick k m : pres (cmd_kick k m).
Proof. unfold cmd_kick. ri_unf. ri_go. Qed.
Lemma p_cmd_invite k m : pres (cmd_invite k m).
Proof. unfold cmd_invite. ri_unf. ri_go. Qed.
Lemma p_cmd_privmsg k m : pres (cmd_privmsg k m).
Proof. unfold cmd_privmsg. ri_unf. ri_go. Qed.
Lemma p_cmd_service_alias k m : pres (cmd_service_alias k m).
Proof. unfold cmd_service_alias. ri_unf. ri_go; try apply p_cmd_privmsg. Qed.
Lemma p_cmd_who k m : pres (cmd_who k m).
Proof. unfold cmd_who. ri_unf. ri_go. Qed.
Lemma p_cmd_whois k m : pres (cmd_whois k m).
Proof. unfold cmd_whois. ri_unf. ri_go. Qed.
Lemma p_cmd_list k m : pres (cmd_list k m).
Proof. unfold cmd_list. ri_unf. ri_go. Qed.
Lemma p_cmd_away k m : pres (cmd_away k m).
Proof. unfold cmd_away. ri_unf. ri_go. Qed.
Lemma p_cmd_ison k m : pres (cmd_ison k m).
Proof. unfold cmd_ison. ri_unf. ri_go. Qed.
Lemma p_cmd_userhost k m : pres (cmd_userhost k m).
Proof. unfold cmd_userhost. ri_unf. ri_go. Qed.
Lemma p_cmd_knock k m : pres (cmd_knock k m).
Proof. unfold cmd_knock. ri_unf. ri_go. Qed.
Lemma p_cmd_ping k m : pres (cmd_ping k m).
Proof. unfold cmd_ping. ri_unf. ri_go. Qed.
Lemma p_cmd_quit k m : pres (cmd_quit k m).
Proof. unfold cmd_quit. ri_unf. ri_go; try apply p_delete_session. Qed.
Lemma p_cmd_kill k m : pres (cmd_kill k m).
Proof. unfold cmd_kill. ri_unf. ri_go; try apply p_delete_session. Qed.
Lemma p_cmd_gline k m : pres (cmd_gline k m).
Proof. unfold cmd_gline. ri_unf. ri_go; try apply p_cmd_kill. Qed.
(* services *)
Lemma p_burst_one sv t : pres (burst_one sv t).
Proof. unfold burst_one. ri_unf. ri_go. Qed.

(* SERVER: the Server flag and the list entry are written together *)
Lemma p_become_server (k : N * N) p :
  snd k = 0%N ->
  pres (updSess k (fun s => ss_prefix p (ss_server true s)) ;;; modS (set_serverSessions (fun l => (l ++ [fst k])%list))).
Proof.
  intros Hk0 sv r [Hs Hv]. unfold bindM, updSess, modS. split; cbn [sv_sessions sv_serverSessions set_sessions set_serverSessions].
  - intros k' s'. rewrite lookup_upd_sess. destruct (bool_decide (k = k')).
    + destruct (sv_sessions sv !! k') as [s|] eqn:E; [|discriminate]. cbn. intros [= <-].
      destruct (Hs _ _ E) as [C A L]. split; assumption.
    + apply Hs.
  - intros k' s'. rewrite lookup_upd_sess. destruct (decide (k = k')) as [<-|Hne].
    + intros _ _. split; [exact Hk0|]. apply in_or_app. right. now left.
    + rewrite bool_decide_false by assumption. intros H' Hsrv. destruct (Hv _ _ H' Hsrv) as [H0 Hin].
      split; [exact H0|]. apply in_or_app. now left.
Qed.

Lemma p_cmd_server (k : N * N) m : snd k = 0%N -> pres (cmd_server k m).
Proof.
  intros Hk0. unfold cmd_server. apply pres_bind_sessM. intros s Hs. apply pres_bind; [ri_unf; ri_go|]. intros g.
  destruct (negb _); [apply pres_emit|]. apply pres_bind; [ri_unf; ri_go|]. intros p0.
  apply pres_seq2; [now apply p_become_server|]. intros _. ri_unf. ri_go; try apply p_burst_one.
Qed.
Lemma p_cmd_server_nick k m : pres (cmd_server_nick k m).
Proof. unfold cmd_server_nick. ri_unf. ri_go. Qed.
Lemma p_quit_pseudo tk m : pres (quit_pseudo tk m).
Proof. unfold quit_pseudo. ri_unf. ri_go; try apply p_delete_session. Qed.
Lemma p_cmd_server_quit k m : pres (cmd_server_quit k m).
Proof. unfold cmd_server_quit. ri_unf. ri_go; try apply p_delete_session; try apply p_quit_pseudo. Qed.
Lemma p_cmd_server_kill k m : pres (cmd_server_kill k m).
Proof. unfold cmd_server_kill. ri_unf. ri_go; try apply p_delete_session. Qed.
Lemma p_cmd_server_join k m : pres (cmd_server_join k m).
Proof. unfold cmd_server_join. ri_unf. ri_go. Qed.
Lemma p_cmd_server_part k m : pres (cmd_server_part k m).
Proof. unfold cmd_server_part. ri_unf. ri_go. Qed.
Lemma p_cmd_server_kick k m : pres (cmd_server_kick k m).
Proof. unfold cmd_server_kick. ri_unf. ri_go. Qed.
Lemma p_cmd_server_svsjoin k m : pres (cmd_server_svsjoin k m).
Proof. unfold cmd_server_svsjoin. ri_unf. ri_go; try apply p_cmd_topic; try apply p_cmd_names. Qed.
Lemma p_cmd_server_svspart k m : pres (cmd_server_svspart k m).
Proof. unfold cmd_server_svspart. ri_unf. ri_go. Qed.
Lemma p_cmd_server_svsnick k m : pres (cmd_server_svsnick k m).
Proof. unfold cmd_server_svsnick. ri_unf. ri_go. Qed.
Lemma p_cmd_server_mode k m : pres (cmd_server_mode k m).
Proof. unfold cmd_server_mode. ri_unf. ri_go. Qed.
Lemma p_cmd_server_topic k m : pres (cmd_server_topic k m).
Proof. unfold cmd_server_topic. ri_unf. ri_go. Qed.
Lemma p_cmd_server_invite k m : pres (cmd_server_invite k m).
Proof. unfold cmd_server_invite. ri_unf. ri_go. Qed.
Lemma p_cmd_server_privmsg k m : pres (cmd_server_privmsg k m).
Proof. unfold cmd_server_privmsg. ri_unf. ri_go. Qed.
Lemma p_cmd_server_svshold k m : pres (cmd_server_svshold k m).
Proof. unfold cmd_server_svshold. ri_unf. ri_go. Qed.
Lemma p_cmd_server_svsmode k m : pres (cmd_server_svsmode k m).
Proof. unfold cmd_server_svsmode. ri_unf. ri_go. Qed.

Lemma p_dispatch name minp (f : handler) e (k : N * N) m :
  In (name, (minp, f)) commands -> snd k = 0%N -> pres (f e k m).
Proof.
  intros Hin Hk0. unfold commands in Hin.
  repeat (destruct Hin as [Hin|Hin]; [injection Hin as <- <- <-|]); try contradiction; unfold noenv;
    first [ apply p_cmd_service_alias | apply p_cmd_away | apply p_cmd_gline | apply p_cmd_invite | apply p_cmd_ison
          | apply p_cmd_join | apply p_cmd_kick | apply p_cmd_kill | apply p_cmd_knock | apply p_cmd_list | apply p_cmd_mode
          | apply p_cmd_motd | apply p_cmd_names | apply p_cmd_nick | apply p_cmd_oper | apply p_cmd_part | apply p_cmd_pass
          | apply p_cmd_ping | apply p_cmd_privmsg | apply p_cmd_quit | apply p_cmd_topic | apply p_cmd_user
          | apply p_cmd_userhost | apply p_cmd_who | apply p_cmd_whois | apply p_cmd_server; exact Hk0
          | apply p_cmd_server_invite | apply p_cmd_server_join | apply p_cmd_server_kick | apply p_cmd_server_kill
          | apply p_cmd_server_mode | apply p_cmd_server_nick | apply p_cmd_server_part | apply p_cmd_server_privmsg
          | apply p_cmd_server_quit | apply p_cmd_server_svshold | apply p_cmd_server_svsjoin | apply p_cmd_server_svsmode
          | apply p_cmd_server_svsnick | apply p_cmd_server_svspart | apply p_cmd_server_topic ].
Qed.

Lemma p_process_message e (k : N * N) ra ircmsg : snd k = 0%N -> pres (process_message e k ra ircmsg).
Proof.
  intros Hk0. unfold process_message. apply pres_bind_sessM. intros s Hs.
  destruct ircmsg as [m|]; [|ri_unf; ri_go]. cbv zeta.
  apply pres_bind.
  { destruct (_ && _); [|apply pres_ret]. ri_unf. ri_go; apply p_delete_session. }
  intros banned. destruct banned; [apply pres_ret|].
  apply pres_bind_sessM. intros s1 Hs1.
  destruct (_ && _ && _).
  { ri_unf. ri_go; apply p_delete_session. }
  destruct (assoc_str _ commands) as [[minp f]|] eqn:Hc; [|ri_unf; ri_go].
  destruct (Nat.ltb _ _); [ri_unf; ri_go|].
  eapply p_dispatch; [eapply assoc_str_In; exact Hc|exact Hk0].
Qed.

(* ---- log entries and histories ------------------------------------------------------------------------------ *)
(* The timestamp of an entry is stored in a session by CreateSession (Created, LastActivity, LastNonPing) and by
   UpdateLastClientMessageID (LastActivity, LastNonPing); DeleteSession and Config entries do not store theirs.
   robust.Message.Timestamp() is UnixNano, or the message id if UnixNano is 0. *)
Definition ts_pos (en : entry) : Prop :=
  match en with
  | ECreate id un _ | EMessage id un _ _ _ _ | EDeath id un _ _ _ => (0 < un)%Z \/ (un = 0%Z /\ (0 < id)%N)
  | EDelete _ _ _ _ | EConfig _ _ _ _ => True
  end.

Lemma timestamp_pos id un : (0 < un)%Z \/ (un = 0%Z /\ (0 < id)%N) -> pos_time (timestamp id un).
Proof.
  unfold timestamp. intros [H|[-> H]].
  - destruct (un =? 0)%Z eqn:E; [apply Z.eqb_eq in E; lia|]. exists un. auto.
  - cbn. exists (Z.of_N id). split; [reflexivity|lia].
Qed.

Definition entry_un (en : entry) : Z :=
  match en with ECreate _ un _ | EDelete _ un _ _ | EMessage _ un _ _ _ _ | EDeath _ un _ _ _ | EConfig _ un _ _ => un end.

(* what raft and the wall clock guarantee: log indices start at 1, UnixNano is not negative *)
Lemma ts_pos_of_ids en : (0 < entry_id en)%N -> (0 <= entry_un en)%Z -> ts_pos en.
Proof. destruct en; cbn; intros Hid Hun; try exact Logic.I; lia. Qed.

Lemma update_last_cmid_TInv k ts data cmid sv sv' :
  pos_time ts -> TInv sv -> update_last_cmid k ts data cmid sv = Some sv' -> TInv sv'.
Proof.
  intros Hts [Hs Hv]. unfold update_last_cmid. destruct (sv_sessions sv !! k) as [s|] eqn:E; [|discriminate].
  intros [= <-]. split; cbn [sv_sessions sv_serverSessions set_sessions]; intros k' s'.
  - destruct (decide (k = k')) as [<-|Hne].
    + rewrite lookup_insert. intros [= <-]. destruct (Hs _ _ E) as [C A L]. split; cbn [s_created s_lastActivity s_lastNonPing ss_activity].
      * exact C.
      * exact Hts.
      * match goal with |- (if ?b then _ else _) <> None => destruct b end; [exact L|]. destruct Hts as (z & -> & _). discriminate.
    + rewrite lookup_insert_ne by assumption. apply Hs.
  - destruct (decide (k = k')) as [<-|Hne].
    + rewrite lookup_insert. intros [= <-]. cbn. apply (Hv _ _ E).
    + rewrite lookup_insert_ne by assumption. apply Hv.
Qed.

Lemma maybe_delete_session_TInv k sv : TInv sv -> TInv (maybe_delete_session k sv).
Proof.
  intros H. unfold maybe_delete_session. destruct (sv_sessions sv !! k) as [s|]; [|exact H].
  eapply TInv_le; [| |exact H].
  - destruct (s_server s || s_operator s), (s_deleted s); cbn [sv_sessions set_sessions].
    + eapply sess_le_trans; [apply sess_le_delete|apply sess_le_filter].
    + apply sess_le_filter.
    + apply sess_le_delete.
    + apply sess_le_refl.
  - destruct (s_server s || s_operator s), (s_deleted s); cbn; auto.
Qed.

Lemma run_handler_TInv e (k : N * N) ra ircmsg sv msgid finish sv' out :
  snd k = 0%N -> TInv sv -> (forall sv0, TInv sv0 -> TInv (finish sv0)) ->
  run_handler sv msgid (process_message e k ra ircmsg) finish = OOk sv' out -> TInv sv'.
Proof.
  intros Hk0 H Hfin. unfold run_handler. pose proof (p_process_message e k ra ircmsg Hk0 sv (RCtx msgid []) H) as Hp.
  destruct (process_message e k ra ircmsg sv (RCtx msgid [])) as [[[[] sv1] r1]|?|?]; try discriminate.
  intros [= <- _]. apply Hfin, Hp.
Qed.

Theorem apply_entry_TInv e sv en sv' :
  TInv sv -> ts_pos en -> entry_result (apply_entry e sv en) = Some sv' -> TInv sv'.
Proof.
  intros H Hts. destruct en as [id un auth|id un session q|id un session cmid ra data|id un session cmid data|id un rev parsed];
    cbn [apply_entry ts_pos] in *.
  - pose proof (pres_create_session (id, 0%N) auth (timestamp id un) (timestamp_pos _ _ Hts) sv (RCtx id []) H) as Hp.
    destruct (create_session _ _ _ sv _) as [[[[] sv1] r1]|?|?]; cbn; try discriminate; intros [= <-]; exact Hp.
  - destruct (sv_sessions sv !! (session, 0%N)); [|cbn; intros [= <-]; exact H].
    destruct (run_handler _ _ _ _) as [sv1 out| | | |] eqn:Hr; cbn; try discriminate;
      try (unfold run_handler in Hr; destruct (process_message _ _ _ _ _ _) as [[[[] ?] ?]|?|?]; discriminate).
    intros [= <-]. eapply run_handler_TInv; [| |..|exact Hr]; [reflexivity|exact H|].
    intros sv0 H0. apply maybe_delete_session_TInv. eapply TInv_le; [| |exact H0]; [apply sess_le_refl|auto].
  - destruct (is_retry _ _ sv); [cbn; intros [= <-]; exact H|].
    destruct (update_last_cmid _ _ _ _ sv) as [sv1|] eqn:Hu; [|cbn; intros [= <-]; exact H].
    pose proof (update_last_cmid_TInv _ _ _ _ _ _ (timestamp_pos _ _ Hts) H Hu) as H1.
    destruct (run_handler _ _ _ _) as [sv2 out| | | |] eqn:Hr; cbn; try discriminate;
      try (unfold run_handler in Hr; destruct (process_message _ _ _ _ _ _) as [[[[] ?] ?]|?|?]; discriminate).
    intros [= <-]. eapply run_handler_TInv; [| |..|exact Hr]; [reflexivity|exact H1|].
    intros sv0 H0. apply maybe_delete_session_TInv. eapply TInv_le; [| |exact H0]; [apply sess_le_refl|auto].
  - destruct (update_last_cmid _ _ _ _ sv) as [sv1|] eqn:Hu; cbn; intros [= <-]; [|exact H].
    eapply update_last_cmid_TInv; [apply timestamp_pos, Hts|exact H|exact Hu].
  - destruct (config_in_force _ _ _); cbn; intros [= <-]; [|exact H]. eapply TInv_le; [| |exact H]; [apply sess_le_refl|auto].
Qed.

Theorem run_TInv e es : forall sv sv',
  TInv sv -> Forall ts_pos es -> run e sv es = Some sv' -> TInv sv'.
Proof.
  induction es as [|en es IH]; intros sv sv' H Hts Hrun; cbn [run] in Hrun.
  - injection Hrun as <-. exact H.
  - inversion Hts as [|? ? Hen Hrest]; subst.
    destruct (entry_result (apply_entry e sv en)) as [sv1|] eqn:Hr; [|discriminate].
    eapply IH; [|exact Hrest|exact Hrun]. eapply apply_entry_TInv; eauto.
Qed.
