(* IrcProofs/InvPrims.v — preservation of the mid invariant by the structural primitives:
   add_member, leave_channel, delete_session, nick changes, session creation, purge. *)
From stdpp Require Import gmap.
From Coq Require Import Strings.String Strings.Ascii ZArith NArith.
From RV Require Import Base.Text Irc.Str Irc.Parse Irc.State Irc.Monad Irc.Cmds.
From RV Require Import IrcProofs.WP IrcProofs.Inv.
Local Open Scope string_scope.

(* two index entries for the same session are the same entry *)
Lemma idx_inj sv n1 n2 k : InvM sv -> sv_nicks sv !! n1 = Some k -> sv_nicks sv !! n2 = Some k -> n1 = n2.
Proof.
  intros I H1 H2.
  destruct (i_idx_sound sv I _ _ H1) as (_ & s1 & Hs1 & _ & Hl1).
  destruct (i_idx_sound sv I _ _ H2) as (_ & s2 & Hs2 & _ & Hl2).
  rewrite Hs1 in Hs2. injection Hs2 as <-. now rewrite <- Hl1, <- Hl2.
Qed.

(* [c0] is consistent as the channel stored under [lc] *)
Definition chan_ok (sv : server) (lc : string) (c0 : chan) : Prop :=
  chan_to_lower (c_name c0) = lc /\
  (forall n p, c_nicks c0 !! n = Some p ->
     exists k s, sv_nicks sv !! n = Some k /\ sv_sessions sv !! k = Some s /\ lc ∈ s_channels s) /\
  (forall k s, sv_sessions sv !! k = Some s -> s_deleted s = false -> lc ∈ s_channels s ->
     is_Some (c_nicks c0 !! nick_to_lower (s_nick s))).

Lemma chan_ok_existing sv lc c : InvM sv -> sv_channels sv !! lc = Some c -> chan_ok sv lc c.
Proof.
  intros I Hc. split; [apply (i_chan sv I _ _ Hc)|]. split.
  - intros n p Hn. eapply i_memb_c; eauto.
  - intros k s Hs Hd Hin. destruct (i_memb_s sv I _ _ _ Hs Hd Hin) as (c' & Hc' & Hm).
    rewrite Hc in Hc'. now injection Hc' as <-.
Qed.

Lemma chan_ok_new sv lc name modes :
  InvM sv -> sv_channels sv !! lc = None -> chan_to_lower name = lc -> chan_ok sv lc (new_chan name modes).
Proof.
  intros I Hc Hl. split; [exact Hl|]. split.
  - intros n p Hn. cbn in Hn. rewrite lookup_empty in Hn. discriminate.
  - intros k s Hs Hd Hin. destruct (i_memb_s sv I _ _ _ Hs Hd Hin) as (c' & Hc' & _). congruence.
Qed.

Definition add_member_state (lc : string) (c0 : chan) (me : string) (tk : N * N) (op : bool) (sv : server) : server :=
  set_sessions (fun m => match m !! tk with Some s => <[tk := ss_channels (fun cs => {[ lc ]} ∪ cs) s]> m | None => m end)
    (set_channels (<[lc := cc_nicks (<[me := (op, false)]>) c0]>) sv).

Lemma wp_add_member lc c0 me tk op (Q : unit -> server -> rctx -> Prop) sv r :
  Q tt (add_member_state lc c0 me tk op sv) r -> wp (add_member lc c0 me tk op) Q sv r.
Proof. intros H. exact H. Qed.

Lemma InvM_add_member sv lc c0 me tk op :
  InvM sv -> chan_ok sv lc c0 -> sv_nicks sv !! me = Some tk ->
  InvM (add_member_state lc c0 me tk op sv).
Proof.
  intros I (Hname & Hmc & Hms) Hme.
  destruct (i_idx_sound sv I _ _ Hme) as (Hmene & t & Ht & Htd & Htl).
  unfold add_member_state.
  split; cbn [sv_sessions sv_nicks sv_channels set_sessions set_channels].
  - intros k s. rewrite lookup_upd_sess. case_bool_decide as Heq; [destruct Heq|].
    + rewrite Ht. cbn. intros [= <-]. cbn. eapply i_key; eauto.
    + apply (i_key sv I).
  - intros n k Hn. destruct (i_idx_sound sv I _ _ Hn) as (Hne & s & Hs & Hd & Hl). split; [exact Hne|].
    rewrite lookup_upd_sess. case_bool_decide as Heq; [destruct Heq|].
    + rewrite Hs. eexists. split; [reflexivity|]. cbn. auto.
    + exists s. auto.
  - intros k s. rewrite lookup_upd_sess. case_bool_decide as Heq; [destruct Heq|].
    + rewrite Ht. cbn. intros [= <-]. cbn. eapply i_idx_complete; eauto.
    + apply (i_idx_complete sv I).
  - intros lc' c n p Hc Hn.
    assert (Hgoal : forall k s, sv_nicks sv !! n = Some k -> sv_sessions sv !! k = Some s -> lc' ∈ s_channels s \/ (k = tk /\ lc' = lc) ->
            exists k s, sv_nicks sv !! n = Some k /\
              (match sv_sessions sv !! tk with Some s0 => <[tk := ss_channels (fun cs => {[ lc ]} ∪ cs) s0]> (sv_sessions sv) | None => sv_sessions sv end) !! k = Some s /\
              lc' ∈ s_channels s).
    { intros k s Hk Hs Hin. exists k. rewrite lookup_upd_sess. case_bool_decide as Heq; [destruct Heq|].
      - eexists. split; [exact Hk|]. rewrite Hs. split; [reflexivity|]. cbn.
        destruct Hin as [Hin|[_ ->]]; set_solver.
      - exists s. destruct Hin as [Hin|[Hc' _]]; [auto|congruence]. }
    destruct (decide (lc' = lc)) as [->|Hlc].
    + rewrite lookup_insert in Hc. injection Hc as <-. cbn in Hn.
      destruct (decide (n = me)) as [->|Hnm].
      * eapply Hgoal; eauto.
      * rewrite lookup_insert_ne in Hn by congruence.
        destruct (Hmc _ _ Hn) as (k & s & Hk & Hs & Hin). eapply Hgoal; eauto.
    + rewrite lookup_insert_ne in Hc by congruence.
      destruct (i_memb_c sv I _ _ _ _ Hc Hn) as (k & s & Hk & Hs & Hin). eapply Hgoal; eauto.
  - intros k s lc'. rewrite lookup_upd_sess. case_bool_decide as Heq; [destruct Heq|].
    + rewrite Ht. cbn. intros [= <-] Hd Hin. cbn in *.
      destruct (decide (lc' = lc)) as [->|Hlc].
      * rewrite lookup_insert. eexists. split; [reflexivity|]. cbn. rewrite Htl, lookup_insert. now eexists.
      * rewrite lookup_insert_ne by congruence. eapply i_memb_s; eauto. set_solver.
    + intros Hs Hd Hin. destruct (decide (lc' = lc)) as [->|Hlc].
      * rewrite lookup_insert. eexists. split; [reflexivity|]. cbn.
        destruct (Hms _ _ Hs Hd Hin) as [p Hp].
        destruct (decide (nick_to_lower (s_nick s) = me)) as [->|Hne].
        -- rewrite lookup_insert. now eexists.
        -- rewrite lookup_insert_ne; [exists p; exact Hp|]. intros E. apply Hne. symmetry. exact E.
      * rewrite lookup_insert_ne by congruence. eapply i_memb_s; eauto.
  - intros lc' c. destruct (decide (lc' = lc)) as [->|Hlc].
    + rewrite lookup_insert. intros [= <-]. cbn. split; [|exact Hname].
      intros He. apply (f_equal (fun m => m !! me)) in He. rewrite lookup_insert, lookup_empty in He. discriminate.
    + rewrite lookup_insert_ne by congruence. apply (i_chan sv I).
Qed.

(* ---- flags of sessions: what the deletion discipline and liveness look at ------------------- *)
(* a logged-in session has a nickname *)
Definition login_bit (s : session) : bool := negb (s_loggedIn s) || negb (is_empty (s_nick s)).
Definition flags (s : session) : bool * bool * bool * string * bool :=
  (s_deleted s, s_server s, s_operator s, s_auth s, login_bit s).
Definition flags_same (sv sv' : server) : Prop :=
  forall k, flags <$> (sv_sessions sv' !! k) = flags <$> (sv_sessions sv !! k).

Lemma flags_same_refl sv : flags_same sv sv.
Proof. intros k. reflexivity. Qed.
Lemma flags_same_trans a b c : flags_same a b -> flags_same b c -> flags_same a c.
Proof. intros H1 H2 k. now rewrite H2, H1. Qed.

Lemma flags_same_live sv sv' k : flags_same sv sv' -> live sv k -> live sv' k.
Proof.
  intros H (s & Hs & Hd). specialize (H k). rewrite Hs in H. cbn in H.
  destruct (sv_sessions sv' !! k) as [s'|] eqn:Hs'; [|discriminate]. cbn in H. injection H as H1 _ _ _ _.
  exists s'. split; [exact Hs'|congruence].
Qed.
Lemma flags_same_present sv sv' k : flags_same sv sv' -> present sv k -> present sv' k.
Proof.
  intros H [s Hs]. specialize (H k). rewrite Hs in H. cbn in H.
  unfold present. destruct (sv_sessions sv' !! k) as [s'|]; [now exists s'|discriminate].
Qed.

Definition flags_keep (f : session -> session) : Prop := forall s, flags (f s) = flags s.

Lemma flags_same_updSess_at sv k f :
  (forall s, sv_sessions sv !! k = Some s -> flags (f s) = flags s) ->
  flags_same sv (set_sessions (fun m => match m !! k with Some s => <[k := f s]> m | None => m end) sv).
Proof.
  intros Hf k'. cbn [sv_sessions set_sessions]. rewrite lookup_upd_sess. case_bool_decide as Heq; [destruct Heq|reflexivity].
  destruct (sv_sessions sv !! k) as [s|] eqn:Hs; cbn; [now rewrite Hf|reflexivity].
Qed.
Lemma flags_same_updSess sv k f :
  flags_keep f ->
  flags_same sv (set_sessions (fun m => match m !! k with Some s => <[k := f s]> m | None => m end) sv).
Proof. intros Hf. apply flags_same_updSess_at. intros s _. apply Hf. Qed.
Lemma flags_same_fmap sv f :
  flags_keep f -> flags_same sv (set_sessions (fmap f) sv).
Proof.
  intros Hf k'. cbn [sv_sessions set_sessions]. rewrite lookup_fmap.
  destruct (sv_sessions sv !! k') as [s|]; cbn; [now rewrite Hf|reflexivity].
Qed.
Lemma flags_same_other sv sv' : sv_sessions sv' = sv_sessions sv -> flags_same sv sv'.
Proof. intros H k. now rewrite H. Qed.

(* ---- leave_channel ------------------------------------------------------------------------- *)
Definition mdc_state (lc : string) (sv : server) : server :=
  match sv_channels sv !! lc with
  | Some c => if bool_decide (c_nicks c = ∅)
              then set_sessions (drop_invites (chan_to_lower (c_name c)))
                     (set_channels (delete (chan_to_lower (c_name c))) sv)
              else sv
  | None => sv
  end.

Lemma wp_maybe_delete_channel lc (Q : unit -> server -> rctx -> Prop) sv r :
  Q tt (mdc_state lc sv) r -> wp (maybe_delete_channel lc) Q sv r.
Proof.
  intros H. unfold maybe_delete_channel, mdc_state in *. apply wp_bind, wp_chanM.
  destruct (sv_channels sv !! lc) as [c|]; [|exact H].
  destruct (bool_decide (c_nicks c = ∅)); [|exact H].
  apply wp_bind, wp_modS, wp_modS. exact H.
Qed.

Definition leave_state (lc lcnick : string) (tk : N * N) (sv : server) : server :=
  set_sessions (fun m => match m !! tk with Some s => <[tk := ss_channels (fun cs => cs ∖ {[ lc ]}) s]> m | None => m end)
    (mdc_state lc
       (set_channels (fun m => match m !! lc with Some c => <[lc := cc_nicks (delete lcnick) c]> m | None => m end) sv)).

Lemma wp_leave_channel lc lcnick tk (Q : unit -> server -> rctx -> Prop) sv r :
  Q tt (leave_state lc lcnick tk sv) r -> wp (leave_channel lc lcnick tk) Q sv r.
Proof.
  intros H. unfold leave_channel. apply wp_bind, wp_updChan, wp_bind, wp_maybe_delete_channel, wp_updSess. exact H.
Qed.

(* a server whose sessions were transformed pointwise and whose channel [lc] lost member [lcnick] *)
Lemma InvM_leave_core (sv : server) (lc : string) (c : chan) (lcnick : string) (p : bool * bool) (tk : N * N) (sess' : gmap (N * N) session) (chans' : gmap string chan)
      (h : N * N -> session -> session) :
  InvM sv -> sv_channels sv !! lc = Some c -> c_nicks c !! lcnick = Some p -> sv_nicks sv !! lcnick = Some tk ->
  (forall k, sess' !! k = h k <$> (sv_sessions sv !! k)) ->
  (forall k s, s_key (h k s) = s_key s /\ s_nick (h k s) = s_nick s /\ s_deleted (h k s) = s_deleted s /\
               s_channels (h k s) = if bool_decide (k = tk) then s_channels s ∖ {[ lc ]} else s_channels s) ->
  chans' = (if bool_decide (delete lcnick (c_nicks c) = ∅) then delete lc (sv_channels sv)
            else <[lc := cc_nicks (delete lcnick) c]> (sv_channels sv)) ->
  InvM (Server sess' (sv_serverSessions sv) (sv_nicks sv) chans' (sv_svsholds sv) (sv_netname sv)
               (sv_lastProcessed sv) (sv_config sv)).
Proof.
  intros I Hc Hp Hk Hsess Hh ->.
  destruct (i_idx_sound sv I _ _ Hk) as (Hne & t & Ht & Htd & Htl).
  (* any other session indexed under another nick is a different session *)
  assert (Hother : forall n k, n <> lcnick -> sv_nicks sv !! n = Some k -> k <> tk).
  { intros n k Hn Hnk ->. apply Hn. eapply idx_inj; eauto. }
  split; cbn [sv_sessions sv_nicks sv_channels].
  - intros k s. rewrite Hsess. destruct (sv_sessions sv !! k) as [s0|] eqn:Hs0; [|discriminate].
    cbn. intros [= <-]. destruct (Hh k s0) as (-> & _). eapply i_key; eauto.
  - intros n k Hn. destruct (i_idx_sound sv I _ _ Hn) as (Hnn & s & Hs & Hd & Hl). split; [exact Hnn|].
    exists (h k s). rewrite Hsess, Hs. split; [reflexivity|]. destruct (Hh k s) as (_ & -> & -> & _). auto.
  - intros k s. rewrite Hsess. destruct (sv_sessions sv !! k) as [s0|] eqn:Hs0; [|discriminate].
    cbn. intros [= <-]. destruct (Hh k s0) as (_ & -> & -> & _). eapply i_idx_complete; eauto.
  - intros lc' c' n p' Hc' Hn'.
    (* the channel is an old channel, possibly [lc] without [lcnick] *)
    assert (Hold : exists c0 p0, sv_channels sv !! lc' = Some c0 /\ c_nicks c0 !! n = Some p0 /\ (lc' = lc -> n <> lcnick)).
    { case_bool_decide as He.
      - destruct (decide (lc' = lc)) as [->|Hlc]; [rewrite lookup_delete in Hc'; discriminate|].
        rewrite lookup_delete_ne in Hc' by congruence. exists c', p'. split; [exact Hc'|]. split; [exact Hn'|]. congruence.
      - destruct (decide (lc' = lc)) as [->|Hlc].
        + rewrite lookup_insert in Hc'. injection Hc' as <-. cbn in Hn'.
          destruct (decide (n = lcnick)) as [->|Hnl]; [rewrite lookup_delete in Hn'; discriminate|].
          rewrite lookup_delete_ne in Hn' by congruence. exists c, p'. auto.
        + rewrite lookup_insert_ne in Hc' by congruence. exists c', p'. split; [exact Hc'|]. split; [exact Hn'|]. congruence. }
    destruct Hold as (c0 & p0 & Hc0 & Hn0 & Hdiff).
    destruct (i_memb_c sv I _ _ _ _ Hc0 Hn0) as (k & s & Hnk & Hs & Hin).
    exists k, (h k s). split; [exact Hnk|]. rewrite Hsess, Hs. split; [reflexivity|].
    destruct (Hh k s) as (_ & _ & _ & ->).
    destruct (decide (k = tk)) as [->|Hkt]; [rewrite bool_decide_true by reflexivity|rewrite bool_decide_false by exact Hkt; exact Hin].
    assert (n = lcnick) by (eapply idx_inj; eauto). subst n.
    assert (lc' <> lc) by (intros ->; now apply Hdiff). set_solver.
  - intros k s lc'. rewrite Hsess. destruct (sv_sessions sv !! k) as [s0|] eqn:Hs0; [|discriminate].
    cbn. intros [= <-]. destruct (Hh k s0) as (_ & -> & -> & ->). intros Hd Hin.
    assert (Hin0 : lc' ∈ s_channels s0) by (destruct (bool_decide (k = tk)); set_solver).
    destruct (i_memb_s sv I _ _ _ Hs0 Hd Hin0) as (c0 & Hc0 & [p0 Hm0]).
    destruct (decide (lc' = lc)) as [->|Hlc].
    + (* a session other than tk that lists lc: its member entry survives *)
      assert (k <> tk) by (intros ->; rewrite bool_decide_true in Hin by reflexivity; set_solver).
      rewrite Hc in Hc0. injection Hc0 as <-.
      assert (Hnl : nick_to_lower (s_nick s0) <> lcnick).
      { intros E. destruct (i_memb_c sv I _ _ _ _ Hc Hm0) as (k' & s' & Hk' & Hs' & _).
        rewrite E in Hk'. rewrite Hk in Hk'. injection Hk' as <-.
        destruct (decide (s_nick s0 = "")) as [En|En].
        - rewrite En in E. apply Hne. rewrite <- E. reflexivity.
        - pose proof (i_idx_complete sv I _ _ Hs0 Hd En) as Hc2. rewrite E, Hk in Hc2. congruence. }
      assert (Hnonempty : delete lcnick (c_nicks c) <> ∅).
      { intros He. apply (f_equal (fun m => m !! nick_to_lower (s_nick s0))) in He.
        rewrite lookup_delete_ne, lookup_empty, Hm0 in He by congruence. discriminate. }
      rewrite bool_decide_false by exact Hnonempty. rewrite lookup_insert. eexists. split; [reflexivity|]. cbn.
      rewrite lookup_delete_ne by congruence. now exists p0.
    + exists c0. split; [|now exists p0]. destruct (bool_decide (delete lcnick (c_nicks c) = ∅)).
      * rewrite lookup_delete_ne by congruence. exact Hc0.
      * rewrite lookup_insert_ne by congruence. exact Hc0.
  - intros lc' c'. case_bool_decide as He.
    + destruct (decide (lc' = lc)) as [->|Hlc]; [rewrite lookup_delete; discriminate|].
      rewrite lookup_delete_ne by congruence. apply (i_chan sv I).
    + destruct (decide (lc' = lc)) as [->|Hlc].
      * rewrite lookup_insert. intros [= <-]. cbn. split; [exact He|]. apply (i_chan sv I _ _ Hc).
      * rewrite lookup_insert_ne by congruence. apply (i_chan sv I).
Qed.

Lemma InvM_leave (sv : server) (lc : string) (c : chan) (lcnick : string) (p : bool * bool) (tk : N * N) :
  InvM sv -> sv_channels sv !! lc = Some c -> c_nicks c !! lcnick = Some p -> sv_nicks sv !! lcnick = Some tk ->
  InvM (leave_state lc lcnick tk sv) /\ flags_same sv (leave_state lc lcnick tk sv).
Proof.
  intros I Hc Hp Hk.
  pose proof (i_chan sv I _ _ Hc) as [_ Hname].
  set (emptied := bool_decide (delete lcnick (c_nicks c) = ∅)).
  set (h := fun (k : N * N) (s : session) =>
              (if bool_decide (k = tk) then ss_channels (fun cs => cs ∖ {[ lc ]}) else id)
                ((if emptied then ss_invited (fun i => i ∖ {[ lc ]}) else id) s)).
  assert (Hsess : forall k, sv_sessions (leave_state lc lcnick tk sv) !! k = h k <$> (sv_sessions sv !! k)).
  { intros k. unfold leave_state, mdc_state. cbn [sv_channels set_channels sv_sessions set_sessions].
    rewrite Hc, lookup_insert. cbn [c_nicks cc_nicks c_name]. fold emptied. unfold h.
    destruct emptied; cbn [sv_sessions set_sessions set_channels].
    - rewrite lookup_upd_sess. unfold drop_invites. rewrite Hname, !lookup_fmap.
      destruct (decide (tk = k)) as [->|Hd]; [rewrite !bool_decide_true by reflexivity|rewrite !bool_decide_false by congruence];
        destruct (sv_sessions sv !! k); reflexivity.
    - rewrite lookup_upd_sess.
      destruct (decide (tk = k)) as [->|Hd]; [rewrite !bool_decide_true by reflexivity|rewrite !bool_decide_false by congruence];
        destruct (sv_sessions sv !! k); reflexivity. }
  assert (Hch : sv_channels (leave_state lc lcnick tk sv) =
                if emptied then delete lc (sv_channels sv) else <[lc := cc_nicks (delete lcnick) c]> (sv_channels sv)).
  { unfold leave_state, mdc_state. cbn [sv_channels set_channels sv_sessions set_sessions].
    rewrite Hc, lookup_insert. cbn [c_nicks cc_nicks c_name]. fold emptied.
    destruct emptied; cbn [sv_channels set_sessions set_channels]; rewrite ?Hc; [|reflexivity].
    rewrite Hname. apply delete_insert_delete. }
  assert (Hh : forall k s, s_key (h k s) = s_key s /\ s_nick (h k s) = s_nick s /\ s_deleted (h k s) = s_deleted s /\
               s_channels (h k s) = if bool_decide (k = tk) then s_channels s ∖ {[ lc ]} else s_channels s).
  { intros k s. unfold h. destruct (bool_decide (k = tk)), emptied; cbn; auto. }
  split.
  - eapply (InvM_other (Server (sv_sessions (leave_state lc lcnick tk sv)) (sv_serverSessions sv) (sv_nicks sv)
                               (sv_channels (leave_state lc lcnick tk sv)) (sv_svsholds sv) (sv_netname sv)
                               (sv_lastProcessed sv) (sv_config sv))); try reflexivity.
    + unfold leave_state, mdc_state. cbn [sv_channels set_channels sv_nicks set_sessions].
      rewrite Hc, lookup_insert. destruct (bool_decide _); reflexivity.
    + eapply InvM_leave_core; eauto.
  - intros k. rewrite Hsess. destruct (sv_sessions sv !! k) as [s|]; [|reflexivity]. cbn.
    unfold h, flags. destruct (bool_decide (k = tk)), emptied; reflexivity.
Qed.

(* ---- delete_session --------------------------------------------------------------------------- *)
Definition delete_state (k : N * N) (s : session) (sv : server) : server :=
  let n := nick_to_lower (s_nick s) in
  let gone : gset string := list_to_set (emptied_keys n (sv_channels sv)) in
  set_sessions (fun m => match m !! k with Some s0 => <[k := ss_deleted true s0]> m | None => m end)
    (set_nicks (delete n)
       (set_sessions (fmap (ss_invited (fun i => i ∖ gone)))
          (set_channels (fun chs => base.filter (fun kv : string * chan => chan_to_lower (c_name (snd kv)) ∉ gone)
                                                (cc_nicks (delete n) <$> chs)) sv))).

Lemma wp_delete_session k s (Q : unit -> server -> rctx -> Prop) sv r :
  sv_sessions sv !! k = Some s ->
  Q tt (delete_state k s sv) r -> wp (delete_session k) Q sv r.
Proof.
  intros Hs H. unfold delete_session. apply wp_bind. eapply wp_sessM; [exact Hs|].
  apply wp_bind. unfold remove_nick_everywhere. apply wp_bind, wp_getS, wp_bind, wp_modS, wp_modS.
  apply wp_bind, wp_modS, wp_updSess. exact H.
Qed.

Lemma elem_of_gone (n : string) (chs : gmap string chan) (x : string) :
  x ∈ (list_to_set (emptied_keys n chs) : gset string) <->
  exists lc c, chs !! lc = Some c /\ delete n (c_nicks c) = ∅ /\ x = chan_to_lower (c_name c).
Proof.
  rewrite elem_of_list_to_set, elem_of_list_In. unfold emptied_keys. rewrite in_map_iff. split.
  - intros [[lc c] [<- Hin]]. apply filter_In in Hin. destruct Hin as [Hin Hf].
    apply elem_of_list_In, elem_of_map_to_list in Hin. exists lc, c. split; [exact Hin|]. split; [|reflexivity].
    unfold chan_nonempty in Hf. cbn in Hf. rewrite negb_involutive in Hf. now apply bool_decide_eq_true in Hf.
  - intros (lc & c & Hc & He & ->). exists (lc, c). split; [reflexivity|]. apply filter_In. split.
    + apply elem_of_list_In, elem_of_map_to_list. exact Hc.
    + unfold chan_nonempty. cbn. rewrite negb_involutive. now apply bool_decide_eq_true.
Qed.

Lemma delete_channels_lookup sv n lc' c' :
  InvM sv ->
  base.filter (fun kv : string * chan => chan_to_lower (c_name (snd kv)) ∉ (list_to_set (emptied_keys n (sv_channels sv)) : gset string))
              (cc_nicks (delete n) <$> sv_channels sv) !! lc' = Some c' <->
  exists c, sv_channels sv !! lc' = Some c /\ c' = cc_nicks (delete n) c /\ delete n (c_nicks c) <> ∅.
Proof.
  intros I. rewrite map_filter_lookup_Some, lookup_fmap_Some. cbn [snd]. split.
  - intros [(c & <- & Hc) Hng]. exists c. split; [exact Hc|]. split; [reflexivity|].
    intros He. apply Hng. apply elem_of_gone. exists lc', c. auto.
  - intros (c & Hc & -> & Hne). split; [now exists c|]. cbn [c_name cc_nicks].
    intros Hg. apply elem_of_gone in Hg. destruct Hg as (lc2 & c2 & Hc2 & He2 & Heq).
    destruct (i_chan sv I _ _ Hc) as [_ Hl]. destruct (i_chan sv I _ _ Hc2) as [_ Hl2].
    assert (E : lc2 = lc') by congruence. rewrite E, Hc in Hc2. injection Hc2 as <-. contradiction.
Qed.

Lemma lower_distinct sv k1 k2 s1 s2 :
  InvM sv -> sv_sessions sv !! k1 = Some s1 -> sv_sessions sv !! k2 = Some s2 ->
  s_deleted s1 = false -> s_deleted s2 = false -> k1 <> k2 ->
  is_Some (sv_nicks sv !! nick_to_lower (s_nick s1)) ->
  nick_to_lower (s_nick s1) <> nick_to_lower (s_nick s2).
Proof.
  intros I H1 H2 D1 D2 Hne [k3 H3] E.
  destruct (i_idx_sound sv I _ _ H3) as (Hm & _).
  assert (N1 : s_nick s1 <> "") by (intros En; apply Hm; rewrite En; reflexivity).
  assert (N2 : s_nick s2 <> "") by (intros En; apply Hm; rewrite E, En; reflexivity).
  pose proof (i_idx_complete sv I _ _ H1 D1 N1) as C1.
  pose proof (i_idx_complete sv I _ _ H2 D2 N2) as C2.
  rewrite E in C1. congruence.
Qed.

Lemma InvM_delete (sv : server) (k : N * N) (s : session) :
  InvM sv -> sv_sessions sv !! k = Some s -> s_deleted s = false ->
  InvM (delete_state k s sv).
Proof.
  intros I Hs Hd.
  set (n := nick_to_lower (s_nick s)).
  set (gone := (list_to_set (emptied_keys n (sv_channels sv)) : gset string)).
  assert (Hsess : forall k', sv_sessions (delete_state k s sv) !! k' =
            (fun s0 => (if bool_decide (k = k') then ss_deleted true else id) (ss_invited (fun i => i ∖ gone) s0))
              <$> (sv_sessions sv !! k')).
  { intros k'. unfold delete_state. cbn [sv_sessions set_sessions set_nicks set_channels]. fold n gone.
    rewrite lookup_upd_sess, !lookup_fmap.
    destruct (decide (k = k')) as [->|Hn]; [rewrite !bool_decide_true by reflexivity|rewrite !bool_decide_false by congruence];
      destruct (sv_sessions sv !! k'); reflexivity. }
  assert (Hnicks : sv_nicks (delete_state k s sv) = delete n (sv_nicks sv)) by reflexivity.
  assert (Hch : forall lc' c', sv_channels (delete_state k s sv) !! lc' = Some c' <->
             exists c, sv_channels sv !! lc' = Some c /\ c' = cc_nicks (delete n) c /\ delete n (c_nicks c) <> ∅).
  { intros lc' c'. unfold delete_state. cbn [sv_channels set_sessions set_nicks set_channels]. fold n.
    now apply delete_channels_lookup. }
  (* the deleted session's lower-case nick differs from every other live session's *)
  assert (Hdist : forall k' s', sv_sessions sv !! k' = Some s' -> s_deleted s' = false -> k' <> k ->
                    is_Some (sv_nicks sv !! nick_to_lower (s_nick s')) -> nick_to_lower (s_nick s') <> n).
  { intros k' s' Hs' Hd' Hne Hin. eapply lower_distinct; eauto. }
  split; rewrite ?Hnicks.
  - intros k' s'. rewrite Hsess. destruct (sv_sessions sv !! k') as [s0|] eqn:Hs0; [|discriminate].
    cbn. intros [= <-]. destruct (bool_decide (k = k')); cbn; eapply i_key; eauto.
  - intros n' k' Hn'. apply lookup_delete_Some in Hn'. destruct Hn' as [Hnn Hn'].
    destruct (i_idx_sound sv I _ _ Hn') as (Hne & s' & Hs' & Hd' & Hl'). split; [exact Hne|].
    assert (k <> k'). { intros <-. rewrite Hs in Hs'. injection Hs' as <-. apply Hnn. exact Hl'. }
    rewrite Hsess, Hs'. cbn. rewrite bool_decide_false by assumption. eexists. split; [reflexivity|]. cbn. auto.
  - intros k' s'. rewrite Hsess. destruct (sv_sessions sv !! k') as [s0|] eqn:Hs0; [|discriminate].
    cbn. intros [= <-]. destruct (decide (k = k')) as [<-|Hkk].
    + rewrite bool_decide_true by reflexivity. cbn. discriminate.
    + rewrite bool_decide_false by assumption. cbn. intros Hd0 Hn0.
      pose proof (i_idx_complete sv I _ _ Hs0 Hd0 Hn0) as Hc0.
      rewrite lookup_delete_ne; [exact Hc0|]. intros E. eapply (Hdist k' s0); eauto.
  - intros lc' c' n' p Hc' Hn'. apply Hch in Hc'. destruct Hc' as (c & Hc & -> & Hne). cbn in Hn'.
    apply lookup_delete_Some in Hn'. destruct Hn' as [Hnn Hn'].
    destruct (i_memb_c sv I _ _ _ _ Hc Hn') as (k' & s' & Hk' & Hs' & Hin).
    exists k'. rewrite Hsess, Hs'. cbn. eexists. split; [rewrite lookup_delete_ne by congruence; exact Hk'|].
    split; [reflexivity|]. destruct (bool_decide (k = k')); cbn; exact Hin.
  - intros k' s' lc'. rewrite Hsess. destruct (sv_sessions sv !! k') as [s0|] eqn:Hs0; [|discriminate].
    cbn. intros [= <-]. destruct (decide (k = k')) as [<-|Hkk].
    + rewrite bool_decide_true by reflexivity. cbn. discriminate.
    + rewrite bool_decide_false by assumption. cbn. intros Hd0 Hin.
      destruct (i_memb_s sv I _ _ _ Hs0 Hd0 Hin) as (c & Hc & [p Hm]).
      assert (Hmn : nick_to_lower (s_nick s0) <> n).
      { eapply (Hdist k' s0); eauto. eapply inv_member_indexed; eauto. }
      exists (cc_nicks (delete n) c). split.
      * apply Hch. exists c. split; [exact Hc|]. split; [reflexivity|].
        intros He. apply (f_equal (fun m => m !! nick_to_lower (s_nick s0))) in He.
        rewrite lookup_delete_ne, lookup_empty, Hm in He by congruence. discriminate.
      * cbn. rewrite lookup_delete_ne by congruence. now exists p.
  - intros lc' c' Hc'. apply Hch in Hc'. destruct Hc' as (c & Hc & -> & Hne). cbn. split; [exact Hne|].
    apply (i_chan sv I _ _ Hc).
Qed.

(* ---- nick changes -------------------------------------------------------------------------------- *)
Lemma to_lower_nonempty s : s <> "" -> to_lower s <> "".
Proof.
  destruct s as [|c r]; [congruence|]. intros _. cbn [to_lower].
  destruct (byte_of c =? 195)%N.
  - destruct r as [|d r']; [discriminate|]. destruct (_ && _); discriminate.
  - discriminate.
Qed.
Lemma nick_to_lower_nonempty s : s <> "" -> nick_to_lower s <> "".
Proof.
  intros H. apply to_lower_nonempty in H. unfold nick_to_lower.
  destruct (to_lower s); [congruence|]. discriminate.
Qed.
Lemma valid_nick_nonempty s : valid_nick s = true -> s <> "".
Proof. destruct s; [discriminate|]. discriminate. Qed.

Definition nick_state (k : N * N) (nick oldNick : string) (onlyCaps : bool) (sv : server) : server :=
  let upd f sv := set_sessions (fun m => match m !! k with Some s => <[k := f s]> m | None => m end) sv in
  let sv2 := set_nicks (<[nick_to_lower nick := k]>) (upd (ss_nick nick) sv) in
  let sv3 := if negb (is_empty oldNick) && negb onlyCaps
             then set_channels (fmap (cc_nicks (rename_member oldNick (nick_to_lower nick)))) (set_nicks (delete oldNick) sv2)
             else sv2 in
  upd update_prefix sv3.

Lemma wp_change_nick k nick oldNick onlyCaps (Q : unit -> server -> rctx -> Prop) sv r :
  Q tt (nick_state k nick oldNick onlyCaps sv) r -> wp (change_nick k nick oldNick onlyCaps) Q sv r.
Proof.
  intros H. unfold change_nick, nick_state in *.
  apply wp_bind, wp_updSess, wp_bind, wp_modS, wp_bind.
  destruct (negb (is_empty oldNick) && negb onlyCaps).
  - cbn [whenM]. apply wp_bind, wp_modS. unfold rename_in_channels. apply wp_modS, wp_updSess. exact H.
  - cbn [whenM]. apply wp_ret, wp_updSess. exact H.
Qed.

Lemma is_empty_true s : is_empty s = true <-> s = "".
Proof. destruct s; cbn; split; congruence. Qed.
Lemma is_empty_false s : is_empty s = false <-> s <> "".
Proof. destruct s; cbn; split; congruence. Qed.

(* sessions of the final state, pointwise *)
Lemma nick_state_sessions k nick oldNick onlyCaps sv k' :
  sv_sessions (nick_state k nick oldNick onlyCaps sv) !! k' =
  (fun s => if bool_decide (k = k') then update_prefix (ss_nick nick s) else s) <$> (sv_sessions sv !! k').
Proof.
  unfold nick_state. destruct (negb (is_empty oldNick) && negb onlyCaps);
    cbn [sv_sessions set_sessions set_nicks set_channels]; rewrite !lookup_upd_sess;
    (destruct (decide (k = k')) as [->|Hn]; [rewrite !bool_decide_true by reflexivity|rewrite !bool_decide_false by congruence]);
    destruct (sv_sessions sv !! k'); reflexivity.
Qed.

Lemma flags_same_nick k nick oldNick onlyCaps sv :
  nick <> "" -> (forall s, sv_sessions sv !! k = Some s -> login_bit s = true) ->
  flags_same sv (nick_state k nick oldNick onlyCaps sv).
Proof.
  intros Hn Hl k'. rewrite nick_state_sessions. destruct (sv_sessions sv !! k') as [s|] eqn:Hs; [|reflexivity].
  cbn. case_bool_decide as Heq; [destruct Heq|reflexivity].
  pose proof (Hl s Hs) as Hb. unfold flags. cbn. f_equal. unfold login_bit in *. cbn. rewrite Hb.
  destruct nick; [congruence|]. cbn. now rewrite orb_true_r.
Qed.

Lemma rename_member_lookup (o n : string) (ns : gmap string (bool * bool)) x :
  o <> n -> ns !! n = None ->
  rename_member o n ns !! x = if bool_decide (x = n) then ns !! o else if bool_decide (x = o) then None else ns !! x.
Proof.
  intros Hon Hn. unfold rename_member. destruct (ns !! o) as [p|] eqn:Ho.
  - destruct (decide (x = n)) as [->|Hxn].
    + rewrite bool_decide_true by reflexivity. rewrite lookup_delete_ne by congruence. now rewrite lookup_insert.
    + rewrite bool_decide_false by assumption. destruct (decide (x = o)) as [->|Hxo].
      * rewrite bool_decide_true by reflexivity. now rewrite lookup_delete.
      * rewrite bool_decide_false by assumption. rewrite lookup_delete_ne, lookup_insert_ne by congruence. reflexivity.
  - destruct (decide (x = n)) as [->|Hxn].
    + rewrite bool_decide_true by reflexivity. rewrite lookup_delete_ne by congruence. exact Hn.
    + rewrite bool_decide_false by assumption. destruct (decide (x = o)) as [->|Hxo].
      * rewrite bool_decide_true by reflexivity. now rewrite lookup_delete.
      * rewrite bool_decide_false by assumption. now rewrite lookup_delete_ne by congruence.
Qed.

Lemma InvM_nick_norename (sv : server) (k : N * N) (s : session) (nick : string) (nicks' : gmap string (N * N))
      (sess' : gmap (N * N) session) :
  InvM sv -> sv_sessions sv !! k = Some s -> s_deleted s = false ->
  nick_to_lower nick <> "" -> nick <> "" ->
  ((s_nick s = "" /\ sv_nicks sv !! nick_to_lower nick = None) \/
   (s_nick s <> "" /\ nick_to_lower nick = nick_to_lower (s_nick s))) ->
  nicks' = <[nick_to_lower nick := k]> (sv_nicks sv) ->
  (forall k', sess' !! k' = (fun s0 => if bool_decide (k = k') then update_prefix (ss_nick nick s0) else s0) <$> (sv_sessions sv !! k')) ->
  InvM (Server sess' (sv_serverSessions sv) nicks' (sv_channels sv) (sv_svsholds sv) (sv_netname sv)
               (sv_lastProcessed sv) (sv_config sv)).
Proof.
  intros I Hs Hd Hln Hnn Hcase -> Hsess.
  set (ln := nick_to_lower nick) in *.
  (* index entries other than ln never point to k *)
  assert (Hnotk : forall n', n' <> ln -> sv_nicks sv !! n' = Some k -> False).
  { intros n' Hne Hn'. destruct (i_idx_sound sv I _ _ Hn') as (Hn0 & s1 & Hs1 & _ & Hl1).
    rewrite Hs in Hs1. injection Hs1 as <-. destruct Hcase as [[He _]|[_ He]].
    - apply Hn0. rewrite <- Hl1, He. reflexivity.
    - apply Hne. now rewrite <- Hl1, He. }
  (* an old index entry under ln points to k *)
  assert (Hlnk : forall k', sv_nicks sv !! ln = Some k' -> k' = k).
  { intros k' Hk'. destruct Hcase as [[_ He]|[Hne He]]; [congruence|].
    pose proof (i_idx_complete sv I _ _ Hs Hd Hne) as Hc. rewrite <- He in Hc. fold ln in Hc. congruence. }
  split; cbn [sv_sessions sv_nicks sv_channels].
  - intros k' s'. rewrite Hsess. destruct (sv_sessions sv !! k') as [s0|] eqn:Hs0; [|discriminate].
    cbn. intros [= <-]. destruct (bool_decide (k = k')); cbn; eapply i_key; eauto.
  - intros n' k'. destruct (decide (n' = ln)) as [->|Hne].
    + rewrite lookup_insert. intros [= <-]. split; [exact Hln|]. rewrite Hsess, Hs. cbn.
      rewrite bool_decide_true by reflexivity. eexists. split; [reflexivity|]. cbn. auto.
    + rewrite lookup_insert_ne by congruence. intros Hn'.
      destruct (i_idx_sound sv I _ _ Hn') as (Hn0 & s1 & Hs1 & Hd1 & Hl1). split; [exact Hn0|].
      assert (k <> k') by (intros <-; eapply Hnotk; eauto).
      rewrite Hsess, Hs1. cbn. rewrite bool_decide_false by assumption. eauto.
  - intros k' s'. rewrite Hsess. destruct (sv_sessions sv !! k') as [s0|] eqn:Hs0; [|discriminate].
    cbn. intros [= <-]. destruct (decide (k = k')) as [<-|Hkk].
    + rewrite bool_decide_true by reflexivity. cbn. intros _ _. fold ln. now rewrite lookup_insert.
    + rewrite bool_decide_false by assumption. intros Hd0 Hn0.
      pose proof (i_idx_complete sv I _ _ Hs0 Hd0 Hn0) as Hc0.
      rewrite lookup_insert_ne; [exact Hc0|]. intros E. rewrite <- E in Hc0. apply Hlnk in Hc0. congruence.
  - intros lc c n' p Hc Hn'. destruct (i_memb_c sv I _ _ _ _ Hc Hn') as (k' & s' & Hk' & Hs' & Hin).
    exists k'. rewrite Hsess, Hs'. cbn. eexists. split; [|split; [reflexivity|]].
    + destruct (decide (n' = ln)) as [->|Hne]; [|now rewrite lookup_insert_ne by congruence].
      rewrite lookup_insert. f_equal. symmetry. now apply Hlnk.
    + destruct (bool_decide (k = k')); cbn; exact Hin.
  - intros k' s' lc. rewrite Hsess. destruct (sv_sessions sv !! k') as [s0|] eqn:Hs0; [|discriminate].
    cbn. intros [= <-]. destruct (decide (k = k')) as [<-|Hkk].
    + rewrite bool_decide_true by reflexivity. cbn. intros _ Hin. rewrite Hs in Hs0. injection Hs0 as <-.
      destruct (i_memb_s sv I _ _ _ Hs Hd Hin) as (c & Hc & [p Hm]). exists c. split; [exact Hc|].
      destruct Hcase as [[He _]|[_ He]].
      * exfalso. destruct (i_memb_c sv I _ _ _ _ Hc Hm) as (k2 & s2 & Hk2 & _).
        destruct (i_idx_sound sv I _ _ Hk2) as (Hn0 & _). apply Hn0. rewrite He. reflexivity.
      * fold ln. rewrite He. now exists p.
    + rewrite bool_decide_false by assumption. apply (i_memb_s sv I _ _ _ Hs0).
  - apply (i_chan sv I).
Qed.

Lemma InvM_nick_rename (sv : server) (k : N * N) (s : session) (nick : string) (nicks' : gmap string (N * N))
      (chans' : gmap string chan) (sess' : gmap (N * N) session) :
  InvM sv -> sv_sessions sv !! k = Some s -> s_deleted s = false ->
  nick_to_lower nick <> "" -> nick <> "" -> s_nick s <> "" ->
  sv_nicks sv !! nick_to_lower nick = None ->
  nicks' = delete (nick_to_lower (s_nick s)) (<[nick_to_lower nick := k]> (sv_nicks sv)) ->
  chans' = cc_nicks (rename_member (nick_to_lower (s_nick s)) (nick_to_lower nick)) <$> sv_channels sv ->
  (forall k', sess' !! k' = (fun s0 => if bool_decide (k = k') then update_prefix (ss_nick nick s0) else s0) <$> (sv_sessions sv !! k')) ->
  InvM (Server sess' (sv_serverSessions sv) nicks' chans' (sv_svsholds sv) (sv_netname sv)
               (sv_lastProcessed sv) (sv_config sv)).
Proof.
  intros I Hs Hd Hln Hnn Hold Hfree -> -> Hsess.
  set (ln := nick_to_lower nick) in *. set (lo := nick_to_lower (s_nick s)) in *.
  pose proof (i_idx_complete sv I _ _ Hs Hd Hold) as Hlok. fold lo in Hlok.
  assert (Hlo_ln : lo <> ln) by congruence.
  (* ln is not a member anywhere *)
  assert (Hnomem : forall lc c, sv_channels sv !! lc = Some c -> c_nicks c !! ln = None).
  { intros lc c Hc. destruct (c_nicks c !! ln) as [p|] eqn:E; [|reflexivity].
    destruct (i_memb_c sv I _ _ _ _ Hc E) as (k2 & _ & Hk2 & _). congruence. }
  (* only lo points to k *)
  assert (Honly : forall n', sv_nicks sv !! n' = Some k -> n' = lo).
  { intros n' Hn'. eapply idx_inj; eauto. }
  assert (Hmem : forall lc c x, sv_channels sv !! lc = Some c ->
            rename_member lo ln (c_nicks c) !! x =
            if bool_decide (x = ln) then c_nicks c !! lo else if bool_decide (x = lo) then None else c_nicks c !! x).
  { intros lc c x Hc. apply rename_member_lookup; [exact Hlo_ln|]. eapply Hnomem; eauto. }
  split; cbn [sv_sessions sv_nicks sv_channels].
  - intros k' s'. rewrite Hsess. destruct (sv_sessions sv !! k') as [s0|] eqn:Hs0; [|discriminate].
    cbn. intros [= <-]. destruct (bool_decide (k = k')); cbn; eapply i_key; eauto.
  - intros n' k' Hn'. apply lookup_delete_Some in Hn'. destruct Hn' as [Hnlo Hn'].
    destruct (decide (n' = ln)) as [->|Hne].
    + rewrite lookup_insert in Hn'. injection Hn' as <-. split; [exact Hln|]. rewrite Hsess, Hs. cbn.
      rewrite bool_decide_true by reflexivity. eexists. split; [reflexivity|]. cbn. auto.
    + rewrite lookup_insert_ne in Hn' by congruence.
      destruct (i_idx_sound sv I _ _ Hn') as (Hn0 & s1 & Hs1 & Hd1 & Hl1). split; [exact Hn0|].
      assert (k <> k') by (intros <-; apply Hnlo; symmetry; now apply Honly).
      rewrite Hsess, Hs1. cbn. rewrite bool_decide_false by assumption. eauto.
  - intros k' s'. rewrite Hsess. destruct (sv_sessions sv !! k') as [s0|] eqn:Hs0; [|discriminate].
    cbn. intros [= <-]. destruct (decide (k = k')) as [<-|Hkk].
    + rewrite bool_decide_true by reflexivity. cbn. intros _ _. fold ln.
      rewrite lookup_delete_ne by congruence. now rewrite lookup_insert.
    + rewrite bool_decide_false by assumption. intros Hd0 Hn0.
      pose proof (i_idx_complete sv I _ _ Hs0 Hd0 Hn0) as Hc0.
      assert (nick_to_lower (s_nick s0) <> lo).
      { intros E. rewrite E in Hc0. congruence. }
      assert (nick_to_lower (s_nick s0) <> ln) by congruence.
      rewrite lookup_delete_ne, lookup_insert_ne by congruence. exact Hc0.
  - intros lc c' x p Hc' Hx. apply lookup_fmap_Some in Hc'. destruct Hc' as (c & <- & Hc). cbn in Hx.
    rewrite (Hmem _ _ _ Hc) in Hx.
    destruct (decide (x = ln)) as [->|Hxl].
    + rewrite bool_decide_true in Hx by reflexivity.
      destruct (i_memb_c sv I _ _ _ _ Hc Hx) as (k2 & s2 & Hk2 & Hs2 & Hin).
      assert (k2 = k) by congruence. subst k2. rewrite Hs in Hs2. injection Hs2 as <-.
      exists k. rewrite Hsess, Hs. cbn. rewrite bool_decide_true by reflexivity. eexists.
      split; [rewrite lookup_delete_ne by congruence; now rewrite lookup_insert|]. split; [reflexivity|]. exact Hin.
    + rewrite bool_decide_false in Hx by assumption.
      destruct (decide (x = lo)) as [->|Hxo]; [rewrite bool_decide_true in Hx by reflexivity; discriminate|].
      rewrite bool_decide_false in Hx by assumption.
      destruct (i_memb_c sv I _ _ _ _ Hc Hx) as (k2 & s2 & Hk2 & Hs2 & Hin).
      exists k2. rewrite Hsess, Hs2. cbn. eexists.
      split; [rewrite lookup_delete_ne, lookup_insert_ne by congruence; exact Hk2|]. split; [reflexivity|].
      destruct (bool_decide (k = k2)); cbn; exact Hin.
  - intros k' s' lc. rewrite Hsess. destruct (sv_sessions sv !! k') as [s0|] eqn:Hs0; [|discriminate].
    cbn. intros [= <-]. destruct (decide (k = k')) as [<-|Hkk].
    + rewrite bool_decide_true by reflexivity. cbn. intros _ Hin. rewrite Hs in Hs0. injection Hs0 as <-.
      destruct (i_memb_s sv I _ _ _ Hs Hd Hin) as (c & Hc & [p Hm]). fold lo in Hm.
      exists (cc_nicks (rename_member lo ln) c). rewrite lookup_fmap, Hc. split; [reflexivity|]. cbn. fold ln.
      rewrite (Hmem _ _ _ Hc), bool_decide_true by reflexivity. now exists p.
    + rewrite bool_decide_false by assumption. intros Hd0 Hin.
      destruct (i_memb_s sv I _ _ _ Hs0 Hd0 Hin) as (c & Hc & [p Hm]).
      exists (cc_nicks (rename_member lo ln) c). rewrite lookup_fmap, Hc. split; [reflexivity|]. cbn.
      rewrite (Hmem _ _ _ Hc).
      assert (nick_to_lower (s_nick s0) <> ln). { intros E. rewrite E in Hm. rewrite (Hnomem _ _ Hc) in Hm. discriminate. }
      assert (nick_to_lower (s_nick s0) <> lo).
      { eapply (lower_distinct sv k' k); eauto. eapply inv_member_indexed; eauto. }
      rewrite !bool_decide_false by assumption. now exists p.
  - intros lc c' Hc'. apply lookup_fmap_Some in Hc'. destruct Hc' as (c & <- & Hc). cbn.
    destruct (i_chan sv I _ _ Hc) as [Hne Hname]. split; [|exact Hname].
    intros He. apply Hne. apply map_eq. intros x. rewrite lookup_empty.
    destruct (c_nicks c !! x) as [p|] eqn:Hx; [|reflexivity]. exfalso.
    destruct (decide (x = lo)) as [->|Hxo].
    + apply (f_equal (fun m => m !! ln)) in He. rewrite (Hmem _ _ _ Hc), bool_decide_true, Hx, lookup_empty in He by reflexivity.
      discriminate.
    + assert (x <> ln). { intros ->. rewrite (Hnomem _ _ Hc) in Hx. discriminate. }
      apply (f_equal (fun m => m !! x)) in He. rewrite (Hmem _ _ _ Hc), !bool_decide_false, Hx, lookup_empty in He by assumption.
      discriminate.
Qed.

Lemma nick_to_lower_empty_inv s : nick_to_lower s = "" -> s = "".
Proof. intros H. destruct (decide (s = "")) as [E|E]; [exact E|]. now apply nick_to_lower_nonempty in E. Qed.

Lemma InvM_change_nick (sv : server) (k : N * N) (s : session) (nick : string) (onlyCaps : bool) :
  InvM sv -> sv_sessions sv !! k = Some s -> s_deleted s = false ->
  valid_nick nick = true ->
  (onlyCaps = true -> nick_to_lower nick = nick_to_lower (s_nick s)) ->
  (onlyCaps = false -> sv_nicks sv !! nick_to_lower nick = None) ->
  InvM (nick_state k nick (nick_to_lower (s_nick s)) onlyCaps sv).
Proof.
  intros I Hs Hd Hv Hcaps Hfree.
  pose proof (valid_nick_nonempty _ Hv) as Hnn. pose proof (nick_to_lower_nonempty _ Hnn) as Hln.
  pose proof (nick_state_sessions k nick (nick_to_lower (s_nick s)) onlyCaps sv) as Hsess.
  destruct (negb (is_empty (nick_to_lower (s_nick s))) && negb onlyCaps) eqn:Hcond.
  - (* rename *)
    apply andb_true_iff in Hcond. destruct Hcond as [Hne Hoc]. apply negb_true_iff in Hne, Hoc.
    apply is_empty_false in Hne. subst onlyCaps.
    assert (Hold : s_nick s <> "") by (intros E; apply Hne; rewrite E; reflexivity).
    eapply (InvM_other (Server (sv_sessions (nick_state k nick (nick_to_lower (s_nick s)) false sv)) (sv_serverSessions sv)
                (delete (nick_to_lower (s_nick s)) (<[nick_to_lower nick := k]> (sv_nicks sv)))
                (cc_nicks (rename_member (nick_to_lower (s_nick s)) (nick_to_lower nick)) <$> sv_channels sv)
                (sv_svsholds sv) (sv_netname sv) (sv_lastProcessed sv) (sv_config sv))); try reflexivity.
    + unfold nick_state. rewrite (proj2 (is_empty_false _) Hne). reflexivity.
    + unfold nick_state. rewrite (proj2 (is_empty_false _) Hne). reflexivity.
    + exact (InvM_nick_rename sv k s nick _ _ _ I Hs Hd Hln Hnn Hold (Hfree eq_refl) eq_refl eq_refl Hsess).
  - (* no rename *)
    eapply (InvM_other (Server (sv_sessions (nick_state k nick (nick_to_lower (s_nick s)) onlyCaps sv)) (sv_serverSessions sv)
                (<[nick_to_lower nick := k]> (sv_nicks sv)) (sv_channels sv)
                (sv_svsholds sv) (sv_netname sv) (sv_lastProcessed sv) (sv_config sv))); try reflexivity.
    + unfold nick_state. rewrite Hcond. reflexivity.
    + unfold nick_state. rewrite Hcond. reflexivity.
    + eapply InvM_nick_norename; eauto.
      apply andb_false_iff in Hcond. destruct Hcond as [Hc|Hc].
      * apply negb_false_iff, is_empty_true, nick_to_lower_empty_inv in Hc. left. split; [exact Hc|].
        destruct onlyCaps; [|now apply Hfree].
        exfalso. apply Hln. rewrite (Hcaps eq_refl), Hc. reflexivity.
      * apply negb_false_iff in Hc. subst onlyCaps. right. split; [|now apply Hcaps].
        intros E. apply Hln. rewrite (Hcaps eq_refl), E. reflexivity.
Qed.

(* ---- session creation ----------------------------------------------------------------------------- *)
Lemma InvM_create (sv : server) (key : N * N) (s0 : session) :
  InvM sv -> sv_sessions sv !! key = None ->
  s_key s0 = key -> s_nick s0 = "" -> s_channels s0 = ∅ ->
  InvM (set_sessions (<[key := s0]>) sv).
Proof.
  intros I Hnone Hk Hn Hc. split; cbn [sv_sessions sv_nicks sv_channels set_sessions].
  - intros k s. destruct (decide (key = k)) as [<-|Hne].
    + rewrite lookup_insert. intros [= <-]. exact Hk.
    + rewrite lookup_insert_ne by assumption. apply (i_key sv I).
  - intros n k Hnk. destruct (i_idx_sound sv I _ _ Hnk) as (Hne & s & Hs & Hd & Hl). split; [exact Hne|].
    exists s. rewrite lookup_insert_ne by congruence. auto.
  - intros k s. destruct (decide (key = k)) as [<-|Hne].
    + rewrite lookup_insert. intros [= <-] _ Hnn. congruence.
    + rewrite lookup_insert_ne by assumption. apply (i_idx_complete sv I).
  - intros lc c n p Hcl Hm. destruct (i_memb_c sv I _ _ _ _ Hcl Hm) as (k & s & Hnk & Hs & Hin).
    exists k, s. rewrite lookup_insert_ne by congruence. auto.
  - intros k s lc. destruct (decide (key = k)) as [<-|Hne].
    + rewrite lookup_insert. intros [= <-] _ Hin. rewrite Hc in Hin. set_solver.
    + rewrite lookup_insert_ne by assumption. apply (i_memb_s sv I).
  - apply (i_chan sv I).
Qed.
