(* C15 — every line sent to clients is a single well-formed IRC line.
   Proved over the model: every output message of every entry is produced by Message.Bytes (hence a
   prefix-optional command line) and is at most 510 bytes long; the HTTP handlers' sanitising step
   removes CR, LF and NUL from what a client posts.
   Partial: "no CR/LF/NUL in any output" additionally needs the invariant that every string stored in the
   state is clean; that invariant is not proved here — it is checked on the implementation by the line
   monitor of the correspondence check.  Open finding: a ~500 byte user name makes the prefix alone
   exceed 510 bytes, so the truncated line loses its command (known_findings.txt, sig c15:nocommand). *)
From stdpp Require Import gmap.
From Coq Require Import Strings.String List.
From RV Require Import Irc.Str Irc.Parse Irc.State Irc.Cmds Irc.Apply Api.Auth Api.Post.
From RV Require Import IrcProofs.Outputs Api.PostProofs.
Local Open Scope string_scope.

Theorem C15_length : forall e sv en sv' out,
  apply_entry e sv en = OOk sv' out -> Forall (fun o => slen (o_data o) <= max_length) out.
Proof. exact outputs_short. Qed.
Print Assumptions C15_length.

Theorem C15_rendered : forall e sv en sv' out,
  apply_entry e sv en = OOk sv' out -> Forall (fun o => exists m, o_data o = msg_bytes m) out.
Proof. exact outputs_rendered. Qed.
Print Assumptions C15_rendered.

Theorem C15_command_present : forall m, exists rest,
  msg_bytes_full m = (match m_prefix m with Some p => ":" ++ prefix_string p ++ " " | None => "" end) ++ m_cmd m ++ rest.
Proof. exact msg_bytes_full_shape. Qed.
Print Assumptions C15_command_present.

(* what the POST handler puts into the log contains no CR, LF or NUL, whatever JSON string was posted *)
Theorem C15_sanitised_partial : forall d c, is_line_end c = true -> contains_char c (cut_line d) = false.
Proof. exact cut_line_clean. Qed.
Print Assumptions C15_sanitised_partial.
