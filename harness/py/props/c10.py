# C10 — a retried POST (same client message id as the last applied message of the session) is not applied twice.
#   proofs (Properties/C10.v) + correspondence of Api/Post.v with the real POST handler / FSM marker + skip rule
#   (single-node raft, real LevelDB, real FSM, real api.HTTP) + a model-independent monitor on every retry and on
#   every duplicate entry injected into the log (what a lagging handler proposes, D14), on the node, on a second
#   replica fed the same log and on a copy restored from Marshal/Unmarshal.
import json, os, time
import vlib
from props import c11 as api
from props.c11 import hx, unhx


def body(data, cmid, extra=""):
    return '{"Data":%s,"ClientMessageId":%s%s}' % (json.dumps(data), cmid, extra)


def gen_case(rng, ci, quick):
    """one history: 2-4 sessions, posts / retries / other traffic / restore / message of death / quit / kill / delete"""
    ns = rng.randint(2, 4)
    nick = lambda k: "n%dx%d" % (ci, k)
    ops, cm = [], [rng.randint(1, 1 << 40)]
    def I(k, line): return "I:%d:%s" % (k, hx(line))
    def P(k, b): return "P:%d:%s" % (k, hx(b))
    def fresh():
        cm[0] += rng.randint(1, 1000)
        return cm[0]
    for k in range(ns):
        ops.append("C:%d" % k)
        if k == 0 or rng.random() < 0.8:
            ops += [I(k, "NICK " + nick(k)), I(k, "USER u%d 0 * :U" % k)]
    oper = rng.random() < 0.4
    if oper:
        ops.append(I(0, "OPER verifop verifoppw"))
    dead = set()
    steps = rng.randint(5, 12) if quick else rng.randint(8, 40)
    for _ in range(steps):
        live = [x for x in range(ns) if x not in dead]
        k = rng.choice(live) if live and rng.random() < 0.9 else rng.randrange(ns)
        r = rng.random()
        reps = ["T:%d" % k] * rng.choice([1, 1, 2, 3])
        if r < 0.30:       # ordinary message, retried
            line = rng.choice(["PRIVMSG #c%d :hello %d" % (ci, fresh()), "JOIN #c%d" % ci, "PING x", "WHOIS " + nick(rng.randrange(ns)), "TOPIC #c%d :t" % ci])
            ops += [P(k, body(line, fresh()))] + reps
        elif r < 0.45:     # awkward bodies
            c = fresh()
            b = rng.choice([
                body("PRIVMSG #c%d :first\nPRIVMSG #c%d :second" % (ci, ci), c),           # cut at newline
                body("PRIVMSG #c%d :x\r:evil!e@e PRIVMSG #c%d :forged\x00z" % (ci, ci), c),  # CR / NUL (C15, D6a)
                body("PRIVMSG #c%d :" % ci + "A" * 3000, c),                                # > 2048 bytes
                body("PING y", c) + " " * 2100 + "garbage",                                 # value complete within the limit
                '{"Data":"PING z","ClientMessageId":%d' % c,                                # truncated JSON
                body("PING q", 0),                                                          # client message id 0
                body("PING big", 18446744073709551615),
                body("PING neg", -5), body("PING f", "1.5"), '{"ClientMessageId":%d}' % c, '[]', '',
                body("PING extra", c, ',"Other":[1,2,{"a":null}]'),
                body("PRIVMSG #c%d :ä€ 😀" % ci, c)])
            ops += [P(k, b)] + reps
        elif r < 0.60:     # other sessions' traffic between copy and retry
            j = rng.randrange(ns)
            ops += [P(k, body("PRIVMSG #c%d :from %d" % (ci, k), fresh())), I(j, "PRIVMSG %s :interleaved" % nick(k)), I(j, "JOIN #c%d" % ci)] + reps
        elif r < 0.70:     # snapshot + restore between copy and retry
            ops += [P(k, body("PRIVMSG #c%d :before restore" % ci, fresh())), "S"] + reps
        elif r < 0.80:     # the first copy became a message of death
            ops += ["X:%d:%d:%s" % (k, fresh(), hx("PANIC now"))] + reps
            if rng.random() < 0.5:
                ops += ["S"] + reps
        elif r < 0.87:     # the message ends the session itself
            ops += [P(k, body("QUIT :bye", fresh()))] + reps
            dead.add(k)
        elif r < 0.93 and oper and k != 0:   # another session's message ends it
            ops += [P(k, body("PRIVMSG #c%d :last words" % ci, fresh())), I(0, "KILL %s :verif" % nick(k))] + reps
            dead.add(k)
        elif r < 0.97:
            ops += [P(k, body("PING d", fresh())), "D:%d:%s" % (k, hx(json.dumps({"Quitmessage": "leaving"})))] + reps
            dead.add(k)
        elif r < 0.98:     # same id again after a different message: NOT a retry of the last message
            c = fresh()
            ops += [P(k, body("PING a", c)), P(k, body("PING b", fresh())), P(k, body("PING a", c))]
        else:
            pass
        # ---- a REAL raft snapshot (compaction folds everything applied so far) + FSM.Restore between copy and retry
        if k not in dead and rng.random() < 0.25:
            c = fresh()
            line = rng.choice(["PRIVMSG %s :compacted %d" % (nick((k + 1) % ns), c), "PING compacted%d" % c])
            kshape = rng.random()
            if kshape < 0.45:      # the first copy became a message of death, then got compacted
                ops += ["X:%d:%d:%s" % (k, c, hx(line)), "K", "T:%d" % k, "T:%d" % k]
            elif kshape < 0.80:    # ordinary first copy, compacted
                ops += [P(k, body(line, c)), "K", "T:%d" % k]
            else:                  # message of death, other traffic, two snapshots in a row, duplicate entry in the log afterwards
                j = rng.choice([x for x in range(ns) if x != k])
                ops += ["X:%d:%d:%s" % (k, c, hx(line)), I(j, "PING keepalive"), "K", I(j, "PING again"), "K", "Q:%d:%d:%s" % (k, c, hx(line)), "T:%d" % k]
        # ---- the second copy IS in the log (a handler that lagged behind the log proposed it, D14): injected with Q
        if k in dead or rng.random() > 0.45:
            continue
        def Q(k, c, line): return "Q:%d:%d:%s" % (k, c, hx(line))
        c = fresh()
        line = rng.choice(["PRIVMSG %s :dup %d" % (nick((k + 1) % ns), c), "PING dup%d" % c, "PRIVMSG #c%d :dup %d" % (ci, c)])
        first = rng.choice([P(k, body(line, c)), "X:%d:%d:%s" % (k, c, hx(line))])
        shape = rng.random()
        if shape < 0.25:      # right after the first copy, several times, then the client's own retry
            ops += [first] + [Q(k, c, line)] * rng.choice([1, 2]) + ["T:%d" % k]
        elif shape < 0.40:    # across a restore
            ops += [first, "S", Q(k, c, line), "S", Q(k, c, line)]
        elif shape < 0.60:    # other sessions' traffic in between: still the last message of k -> skipped
            j = rng.choice([x for x in range(ns) if x != k])
            ops += [first, I(j, "PING between"), I(j, "JOIN #c%d" % ci), Q(k, c, line), Q(j, fresh(), "PING own-id"), Q(k, c, line)]
        elif shape < 0.75:    # a different message of k in between: the old id is no longer the last one -> processed again
            ops += [first, P(k, body("PING newer", fresh())), Q(k, c, line), Q(k, c, line)]
        elif shape < 0.85:    # client message id 0 is "no id": two entries with id 0 are two messages
            ops += [Q(k, 0, line), Q(k, 0, line)]
        elif shape < 0.93:    # same id, different text: the decision depends on the id only
            ops += [first, Q(k, c, "PRIVMSG #c%d :other text" % ci)]
        else:                 # the first copy ended the session: the second copy finds no session
            ops += [P(k, body("QUIT :bye", c)), Q(k, c, "QUIT :bye"), "T:%d" % k]
            dead.add(k)
    ops.append("Z")
    return "post c%d " % ci + " ".join(ops)


def q_batches(o):
    """number of output messages stored for the injected entry"""
    return sum(int(e.split(".")[7]) for e in o["ent"].split(";") if e.count(".") >= 7) if o.get("ent", "-") != "-" else 0


def q_processed(o):
    """did the implementation process the injected entry?  Processing always moves the session's activity stamp
    (UpdateLastClientMessageID), which the driver's state digest covers; output is the other witness."""
    return q_batches(o) > 0 or o.get("same") != "1"


def model_case(obs):
    """model input line + the implementation's answers in the model's output vocabulary"""
    mops, want, entries = [], [], 0
    for o in obs:
        k = o["op"]
        if k == "C" and "sid" in o:
            mops.append("C:%s:%s" % (o["sid"], hx("k"))); want.append("C"); entries += int(o["grew"])
        elif k in ("P", "I", "T") and "status" in o:
            deaths = o["deaths"] if o["grew"] != "0" else "-"
            mops.append("P:%s:%s:%s" % (o["sid"], o["jp"], deaths))
            st, grew = int(o["status"]), int(o["grew"])
            if st == 400: res = "bad:-"
            elif st == 404 or (st == 500 and o.get("class") == "notyet"): res = "refused:-"   # refused by the session gate ("not yet seen" is a 500 since c0e28c0)
            elif st == 200 and grew == 0: res = "ack:-"
            elif st == 200 and grew == 1: res = "prop:" + o["ent"].split(".")[5]
            else: res = "other-%d-%d:-" % (st, grew)
            want.append("P:%s:%s:%s" % (res, o["lpm"], "1" if o["alive"] == "true" else "0"))
            entries += grew
        elif k == "X" and "lpm" in o:
            mops.append("X:%s:%s" % (o["sid"], o["cmid"])); want.append("X:%s:%s" % (o["lpm"], "1" if o["alive"] == "true" else "0"))
            entries += int(o["grew"])
        elif k == "Q" and "lpm" in o:
            proc = q_processed(o)
            mops.append("Q:%s:%s:%s:%s" % (o["sid"], o["cmid"], o["data"], o["deaths"] if proc else "-"))
            want.append("Q:%s:%s:%s" % ("proc" if proc else "skip", o["lpm"], "1" if o["alive"] == "true" else "0"))
            entries += int(o["grew"])
        elif k == "D" and "status" in o:
            deaths = o["deaths"] if o["grew"] != "0" else "-"
            mops.append("D:%s:%s:%s" % (o["sid"], o["jd"], deaths))
            st = int(o["status"])
            res = {404: "refused", 500: "bad", 200: "ok"}.get(st, "other%d" % st)
            if st == 500 and o.get("class") == "notyet":
                res = "refused"
            if st == 200 and o["grew"] == "1":
                res = "ok:" + o["ent"].split(".")[5]       # the Data of the proposed DeleteSession entry (quit message as cut by the handler)
            want.append("D:%s:%s" % (res, "1" if o["alive"] == "true" else "0")); entries += int(o["grew"])
        elif k == "S" or (k == "K" and "markers_same" in o):
            # K = real FSM.Snapshot (compaction fold) + Persist + FSM.Restore; the model's restore is the identity on
            # sessions and markers (hypothesis of C10_retries / C10_processed_once), which K checks on the compaction path
            mops.append("S"); want.append("S")
        elif k == "Z" and "markers" in o:
            mk = ",".join("%s.%s.%s" % tuple(t.split(".")) for t in o["markers"].split(",")) if o["markers"] != "-" else "-"
            want.append("E:%d:%s" % (entries, mk))
    return "post 1 " + " ".join(mops), "post " + " ".join(want)


def monitor(ops, obs):
    """the property on the implementation's trace: a repeat of the last applied message of a session adds no log entry,
    no output batch, and does not move the marker — also after restore, after a message of death, on every replica;
    and a second copy that IS in the log (injected: what a lagging handler proposes) adds no output batch, moves no
    marker and leaves the state digest alone, while an entry that is not a copy of the last message is processed."""
    fails, pre, checked = [], {}, 0          # pre[slot] = obs of the last message op of the slot
    for tok, o in zip(ops, obs):
        k = o["op"]
        if "panic" in o or ("err" in o and k not in ("X", "Q")):
            fails.append(("driver-op-failed", "op %s failed: %s" % (tok, o)))
            continue
        slot = tok.split(":")[1] if ":" in tok else None
        if k in ("P", "I"):
            pre[slot] = o
        elif k == "X":
            pre[slot] = dict(o, status="200", jp="x.%s" % o["cmid"]) if o.get("err") == "false" else None
        elif k == "Q":
            p = pre.get(slot)
            c = o["cmid"]
            was_alive = p is not None and p.get("alive") == "true"
            is_copy = c != "0" and was_alive and p.get("lpm") == c
            if o.get("err") != "false" or o["grew"] != "1":
                fails.append(("driver-op-failed", "injected entry was not committed: %s" % o))
            elif is_copy:
                checked += 1
                what = []
                if q_batches(o):
                    what.append("%d output message(s) were stored for it" % q_batches(o))
                gone = o["alive"] != "true" and not q_batches(o) and o["same"] == "1"   # removed meanwhile by another session's entry
                if (o["lpm"] != c or o["alive"] != "true") and not gone:
                    what.append("marker/liveness moved (%s, alive=%s)" % (o["lpm"], o["alive"]))
                if o["same"] != "1":
                    what.append("the state digest changed")
                if what:
                    fails.append(("duplicate-entry-processed-twice", "a second log entry with client message id %s of session %s (the session's last "
                                  "applied message) was processed again: %s" % (c, o["sid"], "; ".join(what))))
            elif was_alive and o["alive"] == "true" and not q_processed(o):
                fails.append(("fresh-message-skipped", "an entry with client message id %s of session %s whose marker was %s was not processed" % (c, o["sid"], p.get("lpm"))))
            if o.get("err") == "false":
                pre[slot] = dict(o, status="200", jp="x.%s" % c)
        elif k == "D":
            pass
        elif k == "T":
            p = pre.get(slot)
            first_applied = (p is not None and p.get("status") == "200" and p.get("jp") != "!" and o.get("jp") != "!"
                             and p["jp"].split(".")[-1] == o["jp"].split(".")[-1])
            if not first_applied:
                continue         # the first copy was rejected (400/404): nothing was applied, the property does not speak
            checked += 1
            if o["grew"] != "0" or o["ent"] != "-":
                fails.append(("retry-applied-twice", "retry of client message id %s of session %s added log entries: %s" % (o["jp"].split(".")[-1], o["sid"], o["ent"])))
            elif o["status"] not in ("200", "404") and not (o["status"] == "500" and o.get("class") == "notyet" and o["alive"] != "true"):
                # a session that ended is refused by the session gate: 404 "No such session", or 500 "Session not yet seen" when
                # lastProcessed has moved below its id (SetLastProcessed(msg.Session.Id), sic)
                fails.append(("retry-not-acknowledged", "retry answered %s" % o["status"]))
            elif o["status"] == "200" and p.get("alive") == "true" and o["lpm"] != p["lpm"]:
                fails.append(("retry-moved-marker", "marker %s -> %s" % (p["lpm"], o["lpm"])))
            elif o["status"] in ("404", "500") and o["alive"] == "true":
                fails.append(("retry-refused-for-live-session", "retry of a live session's last message answered 404"))
        elif k == "S":
            if o.get("markers_same") != "true":
                fails.append(("marker-lost-in-snapshot", "LastPostMessage differs after Unmarshal(Marshal()): %s vs %s" % (o.get("before"), o.get("after"))))
        elif k == "K":
            if "noop" in o:
                continue         # raft had nothing new to snapshot
            if o.get("markers_same") != "true":
                fails.append(("marker-lost-in-compaction", "LastPostMessage differs after a raft snapshot (FSM.Snapshot fold + Persist) and FSM.Restore: %s vs %s" % (o.get("before"), o.get("after"))))
        elif k == "Z":
            if o.get("replica_markers") != "true":
                fails.append(("replica-marker-differs", "a second instance fed the same log has different markers"))
            if o.get("restored_markers") != "true":
                fails.append(("marker-lost-in-snapshot", "a copy restored from the snapshot encoding has different markers"))
            if o.get("replica_out") != "true":
                fails.append(("replica-output-differs", "a second instance fed the same log produced different output at entry %s" % o.get("outdiff")))
    return fails, checked


def shrink(case_line, wiring, sig):
    """delta-debugging over ops (keeping the node/config prefix): smallest history with the same failure signature"""
    f = case_line.split(" ")
    ops = f[2:]
    def fails(cand):
        res, _ = api.run_go(["post s N F:%s:%s:ok " % (hx("0"), hx(api.BASE_CFG)) + " ".join(cand)], wiring, "shrink")
        if not res:
            return False
        obs = res[0][2:][2:]
        fl, _ = monitor(cand, obs)
        return any(s == sig for s, _ in fl)
    n = 2
    while len(ops) >= 2 and n <= len(ops):
        chunk = max(1, len(ops) // n)
        reduced = False
        for i in range(0, len(ops), chunk):
            cand = ops[:i] + ops[i + chunk:]
            if cand and fails(cand):
                ops, n, reduced = cand, max(n - 1, 2), True
                break
        if not reduced:
            if chunk == 1:
                break
            n = min(len(ops), n * 2)
    return ops


def run(ck, replay):
    quick = ck.tier == "quick"
    ck.cov["trusted_base"] += [
        "Go driver harness/go/main/zz_verif_api_*_test.go (single-node raft, real LevelDB stores, real FSM and api.HTTP behind httptest; second replica = "
        "fresh IRCServer fed every entry of the node's own irclog through FSM.applyRobustMessage; restore = Unmarshal(Marshal()) swapped in via ReplaceState)",
        "oracles taken from the implementation's trace: encoding/json decoding of each body, the set of sessions that disappear while an entry is processed",
        "modelled, not verified: net/http, encoding/json, hashicorp/raft (a proposal is applied on the handling node before the handler returns), "
        "protobuf snapshot encoding (checked per run by the restore comparison)"]
    ck.assumptions += ["no precondition on the handling node is left: a handler that is caught up proposes nothing (C10_handler/C10_retries), and a second copy "
                       "proposed by a handler in any other state is skipped by every node that applies it (C10_second_copy_*/C10_processed_once; statemachine.go, 92a4e2e). "
                       "The lagging handler itself is not reproduced here (single node, always caught up — props/c05.py does that with restarts); its effect, the "
                       "duplicate log entry, is injected directly into raft (op Q)",
                       "client message id 0 means 'no id': the first message with id 0 on a fresh session is swallowed by the handler and two log entries with id 0 are two "
                       "messages (both not forbidden by C10)",
                       "Marshal/Unmarshal and compaction+restore keep sessions and markers (hypothesis of C10_retries/C10_processed_once; compared on the implementation in every case: "
                       "op S = Unmarshal(Marshal(state)), op K = raft snapshot through FSM.Snapshot's fold + Persist + FSM.Restore, op Z)",
                       "session ids are never re-used (raft indexes)"]
    ok = ck.proof_obligations()
    facts, _, slog = api.scan_routes()
    wiring = api.wiring_of(facts)
    prefix = "N F:%s:%s:ok" % (hx("0"), hx(api.BASE_CFG))
    if replay:
        lines = json.load(open(replay)).get("cases", [])
    else:
        lines = []
        corpus = os.path.join(vlib.ROOT, "corpus", "C10")
        if os.path.isdir(corpus):
            for fn in sorted(os.listdir(corpus)):
                if fn.endswith(".case"):
                    lines += [l for l in open(os.path.join(corpus, fn)).read().split("\n") if l and not l.startswith("#")]
        n = 60 if quick else 600
        gen = [gen_case(ck.rng, i, quick) for i in range(n)]
        lines += gen
        # the node and its configuration are created by the first line
        f = lines[0].split(" ")
        if "N" not in f[2:4]:
            lines[0] = " ".join(f[:2] + prefix.split(" ") + f[2:])
    t0 = time.time()
    res, goout = api.run_go(lines, wiring, "c10", timeout=3000)
    ck.notes["go_wall_s"] = round(time.time() - t0, 1)
    if res is None:
        ck.violation("tie-broken:go-driver", {"what": "Go correspondence driver did not build/run against the current tree", "output": goout[-4000:],
                                              "obligation": "correspondence apidrv (package main)", "cases": lines[:2]}, concrete=False)
        return
    mins, wants, monfail, nontriv, dist, retries = [], [], [], set(), {}, 0
    for ci, case in enumerate(res):
        ops = lines[ci].split(" ")[2:]
        obs = case[2:]
        fl, checked = monitor(ops, obs)
        retries += checked
        if checked:
            nontriv.add(lines[ci].split(" ", 2)[2])
        for sig, text in fl:
            monfail.append((ci, sig, text))
        mi, w = model_case(obs)
        mins.append(mi); wants.append(w)
        for o in obs:
            if o["op"] in ("P", "I", "T") and "status" in o:
                key = "%s/%s/grew%s" % (o["op"], o["status"], o["grew"])
                dist[key] = dist.get(key, 0) + 1
            elif o["op"] == "Q" and "lpm" in o:
                key = "Q/injected-entry/" + ("processed" if q_processed(o) else "skipped")
                dist[key] = dist.get(key, 0) + 1
    mism = []
    if getattr(ck, "model_ok", False):
        mout = vlib.run_model("\n".join(mins) + "\n")
        # a (shrunk) history without the final Z op has no end-of-case comparison on the implementation side
        mout = [m if " E:" in w else m.rsplit(" E:", 1)[0] for m, w in zip(mout, wants)] + mout[len(wants):]
        mism = [i for i in range(len(mins)) if i >= len(mout) or mout[i] != wants[i]]
        if ck.tier == "thorough":
            idx = api.vm_sample(mins)
            vm = vlib.run_model_vm("\n".join(mins[i] for i in idx) + "\n")
            ck.add_obligation(vm == [mout[i] for i in idx], "extracted model agrees with vm_compute on %d cases" % len(idx))
    else:
        mout = []
        ck.violation("tie-broken:model", {"what": "model driver could not be built", "output": ck.model_out[-3000:], "obligation": "extraction of Driver.Main.run"}, concrete=False)
    ck.cov["evaluations"] = len(lines)
    ck.cov["distinct_nontrivial"] = len(nontriv)
    ck.cov["disagreements_checked"] = len(lines)
    ck.cov["traces_validated_against_impl"] = len(lines)
    ck.cov["retries_checked_by_monitor"] = retries
    ck.cov["rule"] = ("histories of 2-4 sessions on one node: POST + 1-3 byte-identical repeats, with other sessions' traffic, Marshal/Unmarshal restore, a real raft snapshot "
                      "(FSM.Snapshot folding everything applied so far, Persist, FSM.Restore) between copy and repeat — also when the copy is a message of death —, an injected "
                      "message-of-death entry, QUIT / operator KILL / DELETE of the session between copy and repeat; duplicate IRCFromClient entries injected into raft right after the "
                      "first copy, across restores, behind other sessions' traffic, behind a newer message of the same session (must be processed), with id 0 twice (processed "
                      "twice), with different text, after the session ended; bodies with newline, CR/NUL, >2048 bytes, trailing "
                      "garbage, truncated JSON, client message id 0 / 2^64-1 / negative / string; every case ends with a second replica of the log and a restored copy. "
                      "non-trivial = history with at least one repeat or injected duplicate of an applied message that the monitor checked, distinct by text")
    ck.cov["input_distribution"] = dist
    ck.cov["samples"] = [{"case": lines[i][:400], "impl": wants[i][:300], "model": (mout[i] if i < len(mout) else "")[:300]} for i in range(min(3, len(lines)))]
    seen = set()
    for ci, sig, text in monfail:
        if sig in seen:
            continue
        seen.add(sig)
        ops = lines[ci].split(" ")[2:]
        if not replay:
            ops = [o for o in ops if o not in ("N",) and not o.startswith("F:")]
            ops = prefix.split(" ") + shrink("post s " + " ".join(ops), wiring, sig)
        ck.violation(sig, {"what": text, "cases": ["post replay " + " ".join(ops)], "expected": "a repeat of the last applied message is acknowledged (200) without a log entry, output or marker change; a second copy in the log is skipped (no output, no marker move, same state digest)",
                           "how_to_replay": "bin/check C10 --replay <this file>"}, concrete=True)
    if mism and not monfail:
        i = mism[0]
        ck.violation("correspondence:post", {"what": "model (Api/Post.v) and implementation disagree; the monitor found no history violating the property",
                                             "obligation": "correspondence apidrv (Api/Post.v vs postmessage.go + applyRobustMessage)", "model_input": mins[i][:3000],
                                             "model_output": mout[i] if i < len(mout) else None, "impl_output": wants[i], "mismatches": len(mism),
                                             "cases": [lines[i] if " N " in lines[i] else "post replay " + prefix + " " + lines[i].split(" ", 2)[2]]}, concrete=False)
    if not ok:
        ck.violation("proof-broken", {"what": "proof obligations not discharged", "errors": ck.proof_errors,
                                      "obligation": ck.proof_result.get("broken_at", "Properties/C10.v"), "coq_output": ck.proof_result["output_tail"]}, concrete=False)
