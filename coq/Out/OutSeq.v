(* Out/OutSeq.v — M-OUT, executable sequential model of internal/outputstream
   (outputstream.go + serialization.go), following the REPAIRED GetNext
   (fixes/outputstream-getnext-relookup.diff: the wait loop repeats the lookup
   [nextUnlocked] after every wake-up instead of following the link of the batch that was
   newest when the call started).

   db       LevelDB keyspace: id -> (messages, NextID); NextID = MAXID means "no successor"
   tail     Go's [lastseen]: in-memory copy of the batch added last (its NextID is MAXID
            whenever no operation is in progress, so only id and messages are kept)
   cache    messagesCache: decoded entries, filled by getUnlocked, invalidated by Add (old
            tail) and Delete (the deleted id) — NOT for the new tail produced by Delete.
   A batch is its id plus the list of (reply number, text, recipients); every Go Message of a
   batch carries Id.Id = that id (precondition of Add, kept by the harness).
   Every place where the Go code panics is an explicit [Panic]; nothing is totalised.
   Executable definitions only; proofs are in OutProofs.v. *)
From Coq Require Import NArith List String.
From stdpp Require Import gmap.
Import ListNotations.
Local Open Scope N_scope.

Record msg := Msg { m_reply : N; m_text : string; m_rcpt : list N }.
Definition batch := list msg.

(* math.MaxUint64 *)
Definition MAXID : N := 18446744073709551615.

Record entry := Entry { e_msgs : batch; e_next : N }.

Record state := State {
  db : gmap N entry;
  tail_id : N;
  tail_msgs : batch;
  cache : gmap N entry }.

Inductive outcome (A : Type) :=
| Ok (a : A)
| Panic (site : string).
Arguments Ok {A} a.
Arguments Panic {A} site.

(* reset(): the sentinel batch 0 = [Message{Id: 0.0}] *)
Definition sentinel : batch := [Msg 0 EmptyString []].
Definition init : state :=
  State {[ 0 := Entry sentinel MAXID ]} 0 sentinel ∅.

(* ---- ordered access to the keyspace (LevelDB iterators) --------------------------- *)
(* smallest key >= x among the pairs of l *)
Fixpoint list_first_ge (x : N) (l : list (N * entry)) : option (N * entry) :=
  match l with
  | [] => None
  | (k, e) :: r =>
      let best := list_first_ge x r in
      if x <=? k then
        match best with
        | Some (k', e') => if k <=? k' then Some (k, e) else Some (k', e')
        | None => Some (k, e)
        end
      else best
  end.
(* greatest key < b (b = None: no bound) *)
Definition below (b : option N) (k : N) : bool :=
  match b with Some b' => k <? b' | None => true end.
Fixpoint list_last_below (b : option N) (l : list (N * entry)) : option (N * entry) :=
  match l with
  | [] => None
  | (k, e) :: r =>
      let best := list_last_below b r in
      if below b k then
        match best with
        | Some (k', e') => if k' <=? k then Some (k, e) else Some (k', e')
        | None => Some (k, e)
        end
      else best
  end.

(* iterator over Range{Start: x}: First() *)
Definition first_ge (m : gmap N entry) (x : N) : option (N * entry) :=
  list_first_ge x (map_to_list m).
(* iterator over everything: Last() *)
Definition last_key (m : gmap N entry) : option (N * entry) :=
  list_last_below None (map_to_list m).
(* ... followed by Prev() *)
Definition prev_key (m : gmap N entry) (k : N) : option (N * entry) :=
  list_last_below (Some k) (map_to_list m).

(* ---- getUnlocked: cache, else LevelDB (+ cache fill) ------------------------------- *)
Definition set_cache (st : state) (c : gmap N entry) : state :=
  State (db st) (tail_id st) (tail_msgs st) c.

Definition get_unlocked (st : state) (k : N) : option entry * state :=
  match cache st !! k with
  | Some e => (Some e, st)
  | None =>
      match db st !! k with
      | Some e => (Some e, set_cache st (<[k := e]> (cache st)))
      | None => (None, st)
      end
  end.

(* the random eviction of getUnlocked (cache larger than 1000 entries) is an environment
   step of the concurrent semantics; the sequential harness stays below 1000 entries *)
Definition evict (st : state) (k : N) : state := set_cache st (delete k (cache st)).

(* ---- Add --------------------------------------------------------------------------- *)
Definition add (st : state) (id : N) (msgs : batch) : outcome state :=
  match msgs with
  | [] => Panic "add-empty-batch"           (* msgs[0]: index out of range *)
  | _ :: _ =>
      let t := tail_id st in
      let db1 := <[t := Entry (tail_msgs st) id]> (db st) in
      let db2 := <[id := Entry msgs MAXID]> db1 in
      Ok (State db2 id msgs (delete t (cache st)))
  end.

(* ---- Delete ------------------------------------------------------------------------ *)
Definition delete_op (st : state) (x : N) : outcome state :=
  if x =? tail_id st then
    match last_key (db st) with
    | None => Panic "delete-leveldb-empty"
    | Some (l, _) =>
        match prev_key (db st) l with
        | None => Panic "delete-all-messages"
        | Some (p, e) =>
            let db1 := <[p := Entry (e_msgs e) MAXID]> (db st) in
            Ok (State (delete x db1) p (e_msgs e) (delete x (cache st)))
        end
    end
  else Ok (State (delete x (db st)) (tail_id st) (tail_msgs st) (delete x (cache st))).

(* ---- Get --------------------------------------------------------------------------- *)
Definition get (st : state) (x : N) : option batch * state :=
  let '(r, st') := get_unlocked st x in (option_map e_msgs r, st').

(* ---- LastSeen ---------------------------------------------------------------------- *)
Definition last_seen (st : state) : N * N :=
  match tail_msgs st with
  | m :: _ => (tail_id st, m_reply m)
  | [] => (0, 0)
  end.

(* ---- nextUnlocked: one lookup of the successor of x (repaired GetNext) -------------- *)
Definition range_search (st : state) (x : N) : option (N * batch) :=
  match first_ge (db st) (x + 1) with
  | Some (k, e) => Some (k, e_msgs e)
  | None => None
  end.

Definition next_unlocked (st : state) (x : N) : option (N * batch) * state :=
  let '(cur, st1) := get_unlocked st x in
  match cur with
  | Some e =>
      if e_next e <? MAXID then
        let '(nx, st2) := get_unlocked st1 (e_next e) in
        match nx with
        | Some e' => (Some (e_next e, e_msgs e'), st2)
        | None => (range_search st2 x, st2)       (* NextID points to a deleted message *)
        end
      else (None, st1)                              (* x is the most recent message *)
  | None => (range_search st1 x, st1)
  end.

(* GetNext with an already cancelled context, run to completion without interference:
   read-locked lookup, then one wait-loop iteration (same lookup), then the ctx test. *)
Definition getnext_cancelled (st : state) (x : N) : option (N * batch) * state :=
  let '(r, st1) := next_unlocked st x in
  match r with
  | Some b => (Some b, st1)
  | None => next_unlocked st1 x
  end.
