(* Irc/Str.v — byte-string functions of the IRC model: Go's strings.* on the modelled
   domain (ASCII plus 2-byte UTF-8 encodings of U+0080..U+00FF), IRC case mapping,
   nickname/channel syntax, FNV-1 hashing, number formatting.  Executable only. *)
From Coq Require Import List ZArith NArith Bool.
From Coq Require Import Strings.String Strings.Ascii.
From RV Require Import Base.Text.
Import ListNotations.
Local Open Scope string_scope.
Local Open Scope N_scope.

Definition byte_of (c : ascii) : N := N_of_ascii c.
Definition chr (n : N) : ascii := ascii_of_N n.

Definition in_range (lo hi n : N) : bool := (lo <=? n) && (n <=? hi).

(* ---- case mapping (strings.ToLower / ToUpper on the modelled domain) ---------- *)
Definition lower_byte (n : N) : N := if in_range 65 90 n then n + 32 else n.
Definition upper_byte (n : N) : N := if in_range 97 122 n then n - 32 else n.

(* U+00C0..U+00DE except U+00D7 are the upper-case Latin-1 letters: C3 80..C3 9E, not C3 97 *)
Fixpoint to_lower (s : string) : string :=
  match s with
  | EmptyString => EmptyString
  | String c r =>
      let n := byte_of c in
      if n =? 195 then
        match r with
        | String d r' =>
            let m := byte_of d in
            if in_range 128 158 m && negb (m =? 151)
            then String c (String (chr (m + 32)) (to_lower r'))
            else String c (String d (to_lower r'))
        | EmptyString => String c EmptyString
        end
      else String (chr (lower_byte n)) (to_lower r)
  end.

(* commands are upper-cased; the modelled domain has ASCII-only command words *)
Fixpoint to_upper (s : string) : string :=
  match s with
  | EmptyString => EmptyString
  | String c r => String (chr (upper_byte (byte_of c))) (to_upper r)
  end.

Definition nick_fold_byte (n : N) : N :=
  if n =? 91 then 123 else if n =? 93 then 125 else if n =? 92 then 124 else n.
Fixpoint map_bytes (f : N -> N) (s : string) : string :=
  match s with EmptyString => EmptyString | String c r => String (chr (f (byte_of c))) (map_bytes f r) end.
Definition nick_to_lower (s : string) : string := map_bytes nick_fold_byte (to_lower s).
Definition chan_to_lower (s : string) : string := to_lower s.

(* ---- prefixes, suffixes, searching ------------------------------------------------ *)
Fixpoint has_prefix (p s : string) : bool :=
  match p, s with
  | EmptyString, _ => true
  | String a p', String b s' => Ascii.eqb a b && has_prefix p' s'
  | _, _ => false
  end.
Definition has_suffix (p s : string) : bool := has_prefix (srev p) (srev s).

Fixpoint sdrop (n : nat) (s : string) : string :=
  match n, s with O, _ => s | S k, String _ r => sdrop k r | _, EmptyString => EmptyString end.
Fixpoint stake (n : nat) (s : string) : string :=
  match n, s with O, _ => EmptyString | S k, String c r => String c (stake k r) | _, EmptyString => EmptyString end.
Definition slen (s : string) : nat := String.length s.

(* index of the first occurrence of [p] in [s] (strings.Index), None if absent *)
Fixpoint sindex_aux (p s : string) (i : nat) : option nat :=
  if has_prefix p s then Some i
  else match s with EmptyString => None | String _ r => sindex_aux p r (S i) end.
Definition sindex (p s : string) : option nat := sindex_aux p s O.
Definition contains (p s : string) : bool := match sindex p s with Some _ => true | None => false end.
Definition index_byte (c : ascii) (s : string) : option nat := sindex (String c EmptyString) s.

(* strings.Replace(s, old, new, -1) for a non-empty [old] *)
Fixpoint replace_all_fuel (fuel : nat) (old new s : string) : string :=
  match fuel with
  | O => s
  | S f =>
      if has_prefix old s then new ++ replace_all_fuel f old new (sdrop (slen old) s)
      else match s with
           | EmptyString => EmptyString
           | String c r => String c (replace_all_fuel f old new r)
           end
  end.
Definition replace_all (old new s : string) : string := replace_all_fuel (S (slen s)) old new s.

(* strings.TrimSpace on the domain: ASCII white space and U+0085 / U+00A0 *)
Definition is_space_byte (n : N) : bool := in_range 9 13 n || (n =? 32).
Fixpoint trim_left_fuel (fuel : nat) (s : string) : string :=
  match fuel with
  | O => s
  | S f =>
      match s with
      | String c r =>
          if is_space_byte (byte_of c) then trim_left_fuel f r
          else if byte_of c =? 194 then
                 match r with
                 | String d r' => if (byte_of d =? 133) || (byte_of d =? 160) then trim_left_fuel f r' else s
                 | _ => s
                 end
               else s
      | EmptyString => s
      end
  end.
Fixpoint trim_right_rev_fuel (fuel : nat) (s : string) : string := (* on the reversed string *)
  match fuel with
  | O => s
  | S f =>
      match s with
      | String c r =>
          if is_space_byte (byte_of c) then trim_right_rev_fuel f r
          else if (byte_of c =? 133) || (byte_of c =? 160) then
                 match r with
                 | String d r' => if byte_of d =? 194 then trim_right_rev_fuel f r' else s
                 | _ => s
                 end
               else s
      | EmptyString => s
      end
  end.
Definition trim_space (s : string) : string :=
  let l := trim_left_fuel (S (slen s)) s in
  srev (trim_right_rev_fuel (S (slen l)) (srev l)).

(* strings.TrimFunc(raw, r == '\r' || r == '\n') *)
Definition is_crlf (c : ascii) : bool := (byte_of c =? 13) || (byte_of c =? 10).
Fixpoint drop_while (f : ascii -> bool) (s : string) : string :=
  match s with String c r => if f c then drop_while f r else s | EmptyString => s end.
Definition trim_crlf (s : string) : string :=
  srev (drop_while is_crlf (srev (drop_while is_crlf s))).

(* ---- syntax of nicknames and channel names ------------------------------------------ *)
Definition is_letter (n : N) := in_range 65 90 n || in_range 97 122 n.
Definition is_digit (n : N) := in_range 48 57 n.
Definition is_special (n : N) := in_range 91 96 n || in_range 123 125 n.
Definition nick_first (n : N) := is_letter n || is_special n.
Definition nick_rest (n : N) := is_letter n || is_digit n || is_special n || (n =? 45).

Fixpoint all_bytes (f : N -> bool) (s : string) : bool :=
  match s with EmptyString => true | String c r => f (byte_of c) && all_bytes f r end.

(* validNickRe = ^[letter special][letter digit special -]{0,30}$ *)
Definition valid_nick (s : string) : bool :=
  match s with
  | EmptyString => false
  | String c r => nick_first (byte_of c) && all_bytes nick_rest r && Nat.leb (slen r) 30
  end.

(* chanstring as a class of RUNES: \x01-\x06\x08-\x09\x0B-\x0C\x0E-\x1F\x21-\x2B\x2D-\x39\x3B-\xFF *)
Definition chan_ascii_ok (n : N) : bool :=
  in_range 1 6 n || in_range 8 9 n || in_range 11 12 n || in_range 14 31 n ||
  in_range 33 43 n || in_range 45 57 n || in_range 59 127 n.
(* number of runes if every rune is in the class (UTF-8 decoding as Go's regexp does:
   anything that is not ASCII or a well-formed 2-byte encoding of U+0080..U+00FF is a rune
   outside the class), None otherwise *)
Fixpoint chan_runes (s : string) : option nat :=
  match s with
  | EmptyString => Some O
  | String c r =>
      let n := byte_of c in
      if n <? 128 then
        if chan_ascii_ok n then option_map S (chan_runes r) else None
      else if (n =? 194) || (n =? 195) then
        match r with
        | String d r' => if in_range 128 191 (byte_of d) then option_map S (chan_runes r') else None
        | EmptyString => None
        end
      else None
  end.
(* validChannelRe = ^#[chanstring]{0,32}$ *)
Definition valid_chan (s : string) : bool :=
  match s with
  | String c r => (byte_of c =? 35) && match chan_runes r with Some k => Nat.leb k 32 | None => false end
  | EmptyString => false
  end.

Definition is_services_nick (s : string) : bool := has_suffix "serv" (to_lower s).

(* ---- numbers ---------------------------------------------------------------------------- *)
Definition two64 : N := 18446744073709551616.
Definition fnv_offset : N := 14695981039346656037.
Definition fnv_prime : N := 1099511628211.
(* hash/fnv New64 (FNV-1): multiply, then xor *)
Fixpoint fnv64_aux (s : string) (h : N) : N :=
  match s with
  | EmptyString => h
  | String c r => fnv64_aux r (N.lxor ((h * fnv_prime) mod two64) (byte_of c))
  end.
Definition fnv64 (s : string) : N := fnv64_aux s fnv_offset.

Fixpoint hex_of_N_aux (fuel : nat) (n : N) (acc : string) : string :=
  match fuel with
  | O => acc
  | S f => let acc' := String (hex_digit (n mod 16)) acc in
           if n / 16 =? 0 then acc' else hex_of_N_aux f (n / 16) acc'
  end.
(* fmt.Sprintf("%x", n) *)
Definition hex_of_N (n : N) : string := hex_of_N_aux (S (N.to_nat (N.log2 n))) n EmptyString.

Definition str_eqb := String.eqb.
Definition is_empty (s : string) : bool := match s with EmptyString => true | _ => false end.

(* ---- strings.ToValidUTF8(s, "") : every byte that does not belong to a well-formed UTF-8 sequence is dropped
   (Go decodes an ill-formed sequence as one byte of width 1).  [lead_info n] = number of continuation bytes after lead
   byte n and the accepted range of the FIRST continuation byte (Unicode table 3-7, as in unicode/utf8). *)
Definition lead_info (n : N) : option (nat * N * N) :=
  if (n <? 128)%N then Some (0%nat, 0%N, 0%N)
  else if in_range 194 223 n then Some (1%nat, 128%N, 191%N)
  else if (n =? 224)%N then Some (2%nat, 160%N, 191%N)
  else if in_range 225 236 n || in_range 238 239 n then Some (2%nat, 128%N, 191%N)
  else if (n =? 237)%N then Some (2%nat, 128%N, 159%N)
  else if (n =? 240)%N then Some (3%nat, 144%N, 191%N)
  else if in_range 241 243 n then Some (3%nat, 128%N, 191%N)
  else if (n =? 244)%N then Some (3%nat, 128%N, 143%N)
  else None.
Fixpoint conts_ok (k : nat) (lo hi : N) (s : string) : bool :=
  match k with
  | O => true
  | S k' => match s with
            | String c r => in_range lo hi (byte_of c) && conts_ok k' 128 191 r
            | EmptyString => false
            end
  end.
Fixpoint to_valid_utf8_aux (skip : nat) (s : string) : string :=
  match s with
  | EmptyString => EmptyString
  | String c r =>
      match skip with
      | S k => String c (to_valid_utf8_aux k r)
      | O => match lead_info (byte_of c) with
             | Some (k, lo, hi) => if conts_ok k lo hi r then String c (to_valid_utf8_aux k r) else to_valid_utf8_aux 0 r
             | None => to_valid_utf8_aux 0 r
             end
      end
  end.
Definition to_valid_utf8 (s : string) : string := to_valid_utf8_aux 0 s.

(* ---- `for _, char := range s` followed by string(char)[0]: the first byte of every rune of s.  A well-formed sequence
   yields its lead byte (string(rune) re-encodes it), an ill-formed byte yields U+FFFD, whose encoding starts with 239. *)
Fixpoint rune_leads_aux (skip : nat) (s : string) : list ascii :=
  match s with
  | EmptyString => []
  | String c r =>
      match skip with
      | S k => rune_leads_aux k r
      | O => match lead_info (byte_of c) with
             | Some (k, lo, hi) => if conts_ok k lo hi r then c :: rune_leads_aux k r else chr 239 :: rune_leads_aux 0 r
             | None => chr 239 :: rune_leads_aux 0 r
             end
      end
  end.
Definition rune_leads (s : string) : list ascii := rune_leads_aux 0 s.
(* string(b) for a byte b: the UTF-8 encoding of U+00bb *)
Definition go_string_of_byte (n : N) : string :=
  if (n <? 128)%N then String (chr n) EmptyString
  else String (chr (192 + (n / 64) mod 4)) (String (chr (128 + n mod 64)) EmptyString).

(* ---- trimPartialRune (ircserver.go, repair of finding c15:len-delivered): an incomplete UTF-8 sequence at the end of a
   line (left there by the cut after 510 bytes) is removed.  utf8.RuneStart / utf8.FullRune as in unicode/utf8. *)
Definition rune_start (n : N) : bool := negb (in_range 128 191 n).
Definition full_rune (s : string) : bool :=
  match s with
  | EmptyString => false
  | String c r =>
      match lead_info (byte_of c) with
      | None => true                       (* ill-formed lead byte: a width-1 error rune *)
      | Some (k, lo, hi) =>
          if Nat.leb (S k) (slen s) then true
          else match r with
               | EmptyString => false
               | String c1 r1 =>
                   if negb (in_range lo hi (byte_of c1)) then true
                   else match r1 with
                        | EmptyString => false
                        | String c2 _ => negb (in_range 128 191 (byte_of c2))
                        end
               end
      end
  end.
Definition byte_at (s : string) (i : nat) : N :=
  match String.get i s with Some c => byte_of c | None => 0%N end.
Definition trim_at (s : string) (k : nat) (next : string) : string :=
  if Nat.leb k (slen s) then
    let i := Nat.sub (slen s) k in
    if rune_start (byte_at s i) then (if full_rune (sdrop i s) then s else stake i s) else next
  else s.
Definition trim_partial_rune (s : string) : string := trim_at s 1 (trim_at s 2 (trim_at s 3 s)).

(* ---- what a client holds after GET /messages: encoding/json writes U+FFFD for every byte that is not part of a
   well-formed UTF-8 sequence (utf8.DecodeRune returns RuneError with width 1) and the client's decoder keeps it *)
Definition fffd : string := String (chr 239) (String (chr 191) (String (chr 189) "")).
Fixpoint json_delivered_aux (skip : nat) (s : string) : string :=
  match s with
  | EmptyString => EmptyString
  | String c r =>
      match skip with
      | S k => String c (json_delivered_aux k r)
      | O => match lead_info (byte_of c) with
             | Some (k, lo, hi) => if conts_ok k lo hi r then String c (json_delivered_aux k r)
                                   else fffd ++ json_delivered_aux 0 r
             | None => fffd ++ json_delivered_aux 0 r
             end
      end
  end.
Definition json_delivered (s : string) : string := json_delivered_aux 0 s.

(* insertion sort with bytewise order (= sort.Strings) *)
Fixpoint insert_sorted (x : string) (l : list string) : list string :=
  match l with
  | [] => [x]
  | y :: r => if String.leb x y then x :: l else y :: insert_sorted x r
  end.
Definition sort_strings (l : list string) : list string := fold_right insert_sorted [] l.

Fixpoint insert_sortedN (x : N) (l : list N) : list N :=
  match l with
  | [] => [x]
  | y :: r => if x <? y then x :: l else if x =? y then l else y :: insert_sortedN x r
  end.
(* sorted duplicate-free list of ids = a recipient set *)
Definition set_of_ids (l : list N) : list N := fold_right insert_sortedN [] l.
