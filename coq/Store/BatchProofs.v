(* Store/BatchProofs.v — the hand-written batch codec round-trips: exactly (same key order),
   hence up to recipient-set equality for whatever order the Go map iteration produced. *)
From Coq Require Import List NArith Bool Lia ZifyN ZifyNat ZifyBool.
From Coq Require Import Strings.String Strings.Ascii.
From RV Require Import Store.Wire Store.WireProofs Store.Batch.
Import ListNotations.
Local Open Scope string_scope.
Local Open Scope N_scope.

Definition U64 : N := 18446744073709551616.

Definition wf_bmsg (m : bmsg) : Prop :=
  bm_id m < U64 /\ bm_reply m < U64 /\ slen (bm_data m) < U64 /\
  N.of_nat (List.length (bm_rcpt m)) < U64 /\ Forall (fun x => x < U64) (bm_rcpt m).
Definition wf_batch (b : batch) : Prop :=
  b_next b < U64 /\ N.of_nat (List.length (b_msgs b)) < U64 /\ Forall wf_bmsg (b_msgs b).

Lemma rd_u64le n r : n < U64 -> rd_u64 (u64le n ++ r) = Some (n, r).
Proof. intros H. unfold rd_u64, u64le. now apply dec_enc_fixed64. Qed.

Lemma length_app_s a b : String.length (a ++ b) = (String.length a + String.length b)%nat.
Proof. induction a as [|c a IH]; simpl; [reflexivity|now rewrite IH]. Qed.

Lemma marshal_rcpts_length l : String.length (marshal_rcpts l) = (8 * List.length l)%nat.
Proof.
  induction l as [|x l IH]; [reflexivity|]. cbn [marshal_rcpts List.length].
  rewrite length_app_s. unfold u64le. rewrite enc_le_length, IH. lia.
Qed.

Lemma unmarshal_marshal_rcpts l : forall fuel r,
  Forall (fun x => x < U64) l -> (List.length l <= fuel)%nat ->
  unmarshal_rcpts fuel (N.of_nat (List.length l)) (marshal_rcpts l ++ r) = Some (l, r).
Proof.
  induction l as [|x l IH]; intros fuel r Hok Hf.
  - destruct fuel; reflexivity.
  - inversion Hok as [|y z Hx Hl]; subst. destruct fuel as [|fuel]; [simpl in Hf; lia|].
    cbn [List.length marshal_rcpts]. rewrite app_assoc_s.
    cbn [unmarshal_rcpts].
    destruct (N.eqb_spec (N.of_nat (S (List.length l))) 0) as [E|_]; [lia|].
    rewrite rd_u64le by assumption.
    replace (N.pred (N.of_nat (S (List.length l)))) with (N.of_nat (List.length l)) by lia.
    rewrite IH; [reflexivity|assumption|simpl in Hf; lia].
Qed.

Lemma marshal_bmsg_app m r :
  marshal_bmsg m ++ r =
  u64le (bm_id m) ++ u64le (bm_reply m) ++ u64le (slen (bm_data m)) ++ bm_data m ++
  u64le (N.of_nat (List.length (bm_rcpt m))) ++ marshal_rcpts (bm_rcpt m) ++ r.
Proof. unfold marshal_bmsg. now rewrite !app_assoc_s. Qed.

Lemma unmarshal_marshal_bmsg m r : wf_bmsg m -> unmarshal_bmsg (marshal_bmsg m ++ r) = Some (m, r).
Proof.
  intros (H1 & H2 & H3 & H4 & H5). rewrite marshal_bmsg_app. unfold unmarshal_bmsg.
  rewrite rd_u64le by assumption. rewrite rd_u64le by assumption. rewrite rd_u64le by assumption.
  rewrite split_at_app. rewrite rd_u64le by assumption.
  rewrite unmarshal_marshal_rcpts; [now destruct m|assumption|].
  rewrite length_app_s, marshal_rcpts_length. lia.
Qed.

Lemma marshal_bmsg_length m : (1 <= String.length (marshal_bmsg m))%nat.
Proof. unfold marshal_bmsg. rewrite length_app_s. unfold u64le at 1. rewrite enc_le_length. lia. Qed.

Lemma marshal_bmsgs_length l : (List.length l <= String.length (marshal_bmsgs l))%nat.
Proof.
  induction l as [|m l IH]; [simpl; lia|]. cbn [marshal_bmsgs List.length].
  rewrite length_app_s. pose proof (marshal_bmsg_length m). lia.
Qed.

Lemma unmarshal_marshal_bmsgs l : forall fuel r,
  Forall wf_bmsg l -> (List.length l <= fuel)%nat ->
  unmarshal_bmsgs fuel (N.of_nat (List.length l)) (marshal_bmsgs l ++ r) = Some (l, r).
Proof.
  induction l as [|m l IH]; intros fuel r Hok Hf.
  - destruct fuel; reflexivity.
  - inversion Hok as [|y z Hm Hl]; subst. destruct fuel as [|fuel]; [simpl in Hf; lia|].
    cbn [List.length marshal_bmsgs]. rewrite app_assoc_s. cbn [unmarshal_bmsgs].
    destruct (N.eqb_spec (N.of_nat (S (List.length l))) 0) as [E|_]; [lia|].
    rewrite unmarshal_marshal_bmsg by assumption.
    replace (N.pred (N.of_nat (S (List.length l)))) with (N.of_nat (List.length l)) by lia.
    rewrite IH; [reflexivity|assumption|simpl in Hf; lia].
Qed.

(* exact round trip (also with trailing bytes): ids, text and the recipient keys in the order
   they were written *)
Theorem unmarshal_marshal_batch b rest :
  wf_batch b -> unmarshal_batch (marshal_batch b ++ rest) = Some b.
Proof.
  intros (H1 & H2 & H3). unfold marshal_batch, unmarshal_batch. rewrite !app_assoc_s.
  rewrite rd_u64le by assumption. rewrite rd_u64le by assumption.
  rewrite unmarshal_marshal_bmsgs; [now destruct b|assumption|].
  rewrite length_app_s. pose proof (marshal_bmsgs_length (b_msgs b)). lia.
Qed.

(* ---- up to the recipient SET ----------------------------------------------------------------- *)
Definition bmsg_equiv (m1 m2 : bmsg) : Prop :=
  bm_id m1 = bm_id m2 /\ bm_reply m1 = bm_reply m2 /\ bm_data m1 = bm_data m2 /\
  (forall x, In x (bm_rcpt m1) <-> In x (bm_rcpt m2)).
Definition batch_equiv (b1 b2 : batch) : Prop :=
  b_next b1 = b_next b2 /\ Forall2 bmsg_equiv (b_msgs b1) (b_msgs b2).

(* [written] is the batch with each recipient map enumerated in whatever order the Go runtime
   chose (same set of keys); decoding what was written yields the same ids, text and
   recipient set *)
Theorem batch_roundtrip_set b written :
  batch_equiv b written -> wf_batch written ->
  exists b', unmarshal_batch (marshal_batch written) = Some b' /\ batch_equiv b b'.
Proof.
  intros E W. exists written. split; [|exact E].
  rewrite <- (app_nil_r_s (marshal_batch written)). now apply unmarshal_marshal_batch.
Qed.

(* the canonical view used by the drivers preserves membership *)
Lemma insert_sorted_in x y l : In y (insert_sorted x l) <-> y = x \/ In y l.
Proof.
  induction l as [|z l IH]; simpl; [intuition congruence|].
  destruct (x <? z); simpl; [intuition congruence|].
  destruct (N.eqb_spec x z) as [->|N]; simpl; [intuition congruence|].
  rewrite IH. intuition congruence.
Qed.
Theorem canon_rcpts_in l y : In y (canon_rcpts l) <-> In y l.
Proof.
  induction l as [|x l IH]; simpl; [tauto|]. rewrite insert_sorted_in, IH. intuition congruence.
Qed.
