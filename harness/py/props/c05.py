# C05 — acknowledged messages survive crashes and fail-over, exactly once, everywhere (PARTIAL).
#   proofs (Properties/C05.v over Sys/EndToEnd.v: composition over an ASSUMED raft contract)
#   + `sysdrv` (harness/go/main/zz_verif_sys_test.go): the real FSM / api.HTTP / LevelDB stores / raft in a
#     child process that is SIGKILLed, paused, snapshotted and restarted while scripted clients post with
#     protocol-conforming retries
#   + the monitor below = the property text on the acknowledgement logs and the streams the node served.
# There is no executable model to diff against: the composition has no computational content beyond the
# machine (C01/C02/C10 cover that); the tie is the monitor.
import json, os, signal, time
import vlib

OVERLAY = {
    vlib.REPO + "/zz_verif_sys_test.go": vlib.HGO + "/main/zz_verif_sys_test.go",
    vlib.REPO + "/zz_verif_api_node_test.go": vlib.HGO + "/main/zz_verif_api_node_test.go",
}
DELAYS = [0, 0, 1500, 4000]          # microseconds added to every StoreLogs of the raft log store after a (re)start
FAULTS = ["kill", "kill-after-ack", "kill-during-post", "lost-answer", "snapshot", "pause",
          "round-kill", "round-pause", "round-snapshot", "restart-immediate-retry", "cut-inside-batch", "log-store-failure"]


def gen_scenario(rng, ident):
    """2-4 clients, 5-30 numbered messages each, 1-6 faults; every POST is retried by the driver until 200"""
    nc = rng.randint(2, 4)
    budget = [rng.randint(5, 30) for _ in range(nc)]
    chunks = []
    left = list(budget)
    while any(x > 0 for x in left):
        if rng.random() < 0.35 and min(left) > 0:
            n = rng.randint(1, min(4, min(left)))
            chunks.append("R:%d:none:0:0" % n)
            left = [x - n for x in left]
        else:
            k = rng.choice([i for i in range(nc) if left[i] > 0])
            n = rng.randint(1, min(5, left[k]))
            chunks.append("M:%d:%d" % (k, n))
            left[k] -= n
    nf = rng.randint(1, 6)
    kinds = []
    for _ in range(nf):
        kind = rng.choice(FAULTS)
        d = rng.choice(DELAYS)
        k = rng.randrange(nc)
        if kind == "kill": tok = "K:%d" % d
        elif kind == "kill-after-ack": tok = "KA:%d:%d" % (k, d)
        elif kind == "kill-during-post": tok = "KP:%d:%d:%d" % (k, rng.choice([0, 50, 200, 500, 1000, 3000, 6000]), d)
        elif kind == "lost-answer": tok = "LA:%d" % k
        elif kind == "snapshot": tok = "S"
        elif kind == "pause": tok = "Z:%d" % rng.randint(20, 300)
        elif kind == "log-store-failure": tok = "FS:%d" % k
        elif kind == "cut-inside-batch": tok = "CB:%d:%d:%d:%d:0" % (k, rng.randrange(5), rng.choice([1, 2]), rng.choice([0, 0, 1, 2]))
        elif kind == "restart-immediate-retry": tok = "RI:%d:%d:0" % (k, rng.choice([1, 2]))
        elif kind == "round-kill": tok = "R:%d:kill:%d:%d" % (rng.randint(2, 5), rng.randint(0, 6000), d)
        elif kind == "round-pause": tok = "R:%d:pause:%d:%d" % (rng.randint(2, 5), rng.randint(0, 3000), rng.randint(20, 300))
        else: tok = "R:%d:snap:%d:0" % (rng.randint(2, 5), rng.randint(0, 3000))
        pos = rng.randint(0, len(chunks))
        if rng.random() < 0.3:       # remember what was served before the fault (resume protocol afterwards)
            chunks.insert(pos, "G"); pos += 1
        chunks.insert(pos, tok)
        kinds.append(kind)
    head = ["N:%d" % rng.choice(DELAYS), "F"] + ["C:%d:%d" % (k, rng.randrange(4)) for k in range(nc)] + ["X"]
    return "sys %s " % ident + " ".join(head + chunks), kinds


def cut_grid(reps, quick):
    """a live reader is cut off client-side INSIDE a multi-message batch addressed to it (WHOIS / NAMES / WHO / LIST / JOIN of a
    channel with members and a topic) after k messages and reconnects with lastseen=X.k: to the caught-up node (mode 0, control),
    or — after SIGKILL and a restart without the Barrier (modes 1, 2) — to a node that is still replaying a log of the D14 grid sizes"""
    lines = []
    for rep in range(reps):
        for mode in (0, 1, 2):
            for snap in (True, False):
                for fill in ((10,) if mode == 0 else (0, 50, 150, 300)):
                    for cmd in range(5):
                        for cut in (1, 2):
                            for apply_delay in (0, 200):
                                if apply_delay and (mode == 0 or fill > 50 or not snap):
                                    continue
                                if mode == 0 and not snap:
                                    continue
                                if quick and not ((mode == 0 and cut == 1 + cmd % 2)
                                                  or (mode > 0 and snap and not apply_delay and (fill, cmd, cut) in ((150, 0, 2), (300, 4, 1), (50, 2, 2), (150, 3, 1)))
                                                  or (mode == 1 and not snap and (fill, cmd, cut) == (50, 0, 1))
                                                  or (mode == 1 and apply_delay and (fill, cmd, cut) == (50, 0, 2))):
                                    continue
                                k = 1 + (rep + cmd) % 2
                                ident = "cut-%s-f%d-m%d-c%d-k%d-a%d-r%d" % ("snap" if snap else "nosnap", fill, mode, cmd, cut, apply_delay, rep)
                                steps = ["N:0", "F", "C:0:%d" % (cmd % 4), "C:1:%d" % ((cmd + 1) % 4), "C:2:%d" % ((cmd + 2) % 4), "X", "M:0:2", "M:1:2"] + (["S"] if snap else [])
                                if fill:
                                    steps.append("R:%d:none:0:0" % fill)
                                steps += ["CB:%d:%d:%d:%d:%d" % (k, cmd, cut, mode, apply_delay), "M:%d:2" % ((k + 1) % 3), "R:2:none:0:0"]
                                lines.append("sys %s " % ident + " ".join(steps))
    lines.sort(key=lambda l: "-a0-" not in l)
    return lines


def kill_strays(pidfile):
    """no child may survive a check run: SIGKILL whatever the driver started and left behind"""
    n = 0
    try:
        pids = [int(x) for x in open(pidfile).read().split()]
    except (OSError, ValueError):
        return 0
    for pid in pids:
        try:
            env = open("/proc/%d/environ" % pid, "rb").read()
        except OSError:
            continue
        if b"VERIF_SYS_CHILD=" in env:
            try:
                os.kill(pid, signal.SIGKILL); os.kill(pid, signal.SIGCONT); n += 1
            except OSError:
                pass
    return n


def kill_drivers(pidfile):
    """the test binary itself (it outlives a timed-out `go test` until its own -test.timeout fires)"""
    n, needle = 0, ("VERIF_SYS_PIDS=" + pidfile).encode()
    for d in os.listdir("/proc"):
        if not d.isdigit() or int(d) == os.getpid():
            continue
        try:
            env = open("/proc/%s/environ" % d, "rb").read().split(b"\0")
        except OSError:
            continue
        if needle in env:
            try:
                os.kill(int(d), signal.SIGKILL); os.kill(int(d), signal.SIGCONT); n += 1
            except OSError:
                pass
    return n


def run_sysdrv(lines, name, par, timeout):
    wd = vlib.workdir()
    inp, outp, pids = [os.path.join(wd, "%s.%s" % (name, e)) for e in ("in", "out", "pids")]
    open(inp, "w").write("\n".join(lines) + "\n")
    for p in (outp, pids):
        if os.path.exists(p):
            os.remove(p)
    try:
        rc, out = vlib.go_test(".", OVERLAY, "^TestVerifSys$", {"VERIF_IN": inp, "VERIF_OUT": outp, "VERIF_SYS_PAR": str(par),
                                                               "VERIF_SYS_PIDS": pids}, timeout=timeout)
    finally:
        strays = kill_drivers(pids) + kill_strays(pids)
    res = []
    if os.path.exists(outp):
        for l in open(outp).read().split("\n"):
            if l.strip():
                try:
                    res.append(json.loads(l))
                except ValueError:
                    res.append(None)
    if rc != 0 or len(res) != len(lines) or any(r is None for r in res):
        return None, out + "\n[driver rc=%d, %d of %d result lines, %d stray children killed]" % (rc, len(res), len(lines), strays), strays
    return res, out, strays


def monitor(r):
    """THE PROPERTY on one scenario's observations.  Returns (violations [(sig, text)], harness problems [text], checks done)."""
    bad, harness, checks = [], [], 0
    for e in r["errors"]:
        harness.append("driver: " + e)
    for c in r["crashes"]:
        harness.append("node exited unscripted: " + c[:1500])
    cl = r["clients"]
    sent = {}                      # (nick, text) -> acked?
    for c in cl:
        for p in c["posts"]:
            sent[(c["nick"], p["text"])] = p["acked"]
        if c.get("dead"):
            d = c["dead"]
            if c.get("refused_while_replaying"):
                # the answer to the first copy was dropped, the retry was answered 4xx by a node still replaying its log: the client
                # never saw an acknowledgement, the property does not speak (counted in the evidence)
                continue
            if "status-404" in d and c["created"]:
                bad.append(("acked-session-lost", "session of client %d was created with HTTP 200 and later refused: %s" % (c["k"], d[:300])))
            else:
                harness.append("client %d stopped: %s" % (c["k"], d[:600]))
    for c in cl:
        if c.get("final_pong_missing"):
            bad.append(("live-reader-stalled", "client %d (client message id scheme %s): a PING it posted was acknowledged with HTTP 200 but the PONG was never delivered "
                        "to it (live reader 15 s / fetch 30 s) — an acknowledged post without effect (%s)" % (c["k"], c.get("cmid_scheme"), (c.get("live_errors") or [])[:3])))
    readers = [c for c in cl if c["joined"] and c["full_fetched"]]
    for rd in readers:
        stream = [tuple(x) for x in rd["full"]]
        count = {}
        for x in stream:
            count[x] = count.get(x, 0) + 1
        for x, n in count.items():
            checks += 1
            if x not in sent:
                bad.append(("unknown-message-delivered", "client %d received %s which nobody posted" % (rd["k"], list(x))))
            elif n > 1:
                bad.append(("acked-message-duplicated" if sent[x] else "unacked-message-duplicated",
                            "client %d received %s %d times" % (rd["k"], list(x), n)))
        for c in cl:
            if c["k"] == rd["k"] or not c["joined"]:
                continue
            # every acknowledged message of c, exactly once (both were channel members before the first message was posted)
            for p in c["posts"]:
                if p["acked"]:
                    checks += 1
                    if count.get((c["nick"], p["text"]), 0) == 0:
                        bad.append(("acked-message-missing", "message %s of client %d was acknowledged (attempts=%d%s) but is not in the stream of client %d"
                                    % (p["text"], c["k"], p["attempts"], ", first answer dropped" if p["dropped_first_ack"] else "", rd["k"])))
            # in the sender's order
            seqs = [int(t.split("-")[1]) for (n, t) in stream if n == c["nick"] and t.startswith("m%d-" % c["k"])]
            checks += 1
            if any(a > b for a, b in zip(seqs, seqs[1:])):   # duplicates are reported above
                bad.append(("sender-order-violated", "client %d received the messages of client %d in the order %s" % (rd["k"], c["k"], seqs[:40])))
        # the stream served before restarts (increments fetched with the resume protocol) = the stream served at the end
        checks += 1
        live = [tuple(x) for x in rd["live"]]
        if live != stream:
            i = next((j for j in range(min(len(live), len(stream))) if live[j] != stream[j]), min(len(live), len(stream)))
            bad.append(("stream-differs-across-restart", "client %d: what was served incrementally (%d fetches, resume by lastseen) differs from the whole stream "
                        "fetched at the end at position %d: %s vs %s" % (rd["k"], rd["fetches"], i, live[i:i + 3], stream[i:i + 3])))
        # LIVE READER: what the long-poll reader of this session received while the others were posting (reconnecting with the
        # last id it saw after restarts / superseded streams) = the whole stream: every message exactly once, same order
        if rd.get("live_reader"):
            checks += 1
            lr = [tuple(x) for x in (rd.get("live_read") or [])]
            if lr != stream:
                lc = {}
                for x in lr:
                    lc[x] = lc.get(x, 0) + 1
                missed = [x for x in stream if lc.get(x, 0) == 0]
                dup = [x for x, n in lc.items() if n > count.get(x, 0)]
                ctx = "client %d (live reader: %d connects, finished=%s, errors=%s)" % (rd["k"], rd["live_connects"], rd["live_finished"], rd.get("live_errors", [])[:3])
                if missed:
                    acked = [x for x in missed if sent.get(x)]
                    bad.append(("live-reader-missed-message", "%s never received %d of %d messages that are in its stream (%d of them acknowledged to their senders), "
                                "first: %s" % (ctx, len(missed), len(stream), len(acked), [list(x) for x in missed[:5]])))
                elif dup:
                    bad.append(("live-reader-duplicate", "%s received %s more often than the stream holds it" % (ctx, [list(x) for x in dup[:5]])))
                else:
                    i = next((j for j in range(min(len(lr), len(stream))) if lr[j] != stream[j]), min(len(lr), len(stream)))
                    bad.append(("live-reader-order", "%s received the messages in another order than the stream, from position %d: %s vs %s"
                                % (ctx, i, lr[i:i + 3], stream[i:i + 3])))
            elif not rd["live_finished"]:
                bad.append(("live-reader-stalled", "client %d: the live reader received every PRIVMSG but never the PONG to its final PING (%s)"
                            % (rd["k"], rd.get("live_errors", [])[:3])))
            # the same on EVERYTHING the session was sent (numerics, JOINs, PONGs ...), by message id: up to the PONG of its final PING the
            # live reader must have received exactly the messages of the whole stream, each once, in that order
            li, fi = rd.get("live_ids") or [], rd.get("full_ids") or []
            L = list(zip(li[0::2], li[1::2]))
            F = list(zip(fi[0::2], fi[1::2]))
            checks += 1
            if L != F[:len(L)]:
                ls = set(L)
                upto = max(L) if L else (0, 0)
                missed = [x for x in F if x <= upto and x not in ls]
                fs = set(F)
                extra = [x for x in L if x not in fs] + [x for x in ls if L.count(x) > 1]
                cuts = ["cut after %s messages of batch %s (%s), reconnected with lastseen=%s, mode %s" %
                        (q["messages_read_before_cut"], q["batch_id"], q["cmd"], q["reconnected_with_lastseen"], q["mode"]) for q in rd.get("cuts", []) if q["outcome"] == "cut"]
                detail = "client %d: live reader ids %s...; whole stream %s...; driver's reading: %s; %s" % (
                    rd["k"], ["%d.%d" % x for x in L[-6:]], ["%d.%d" % x for x in F[max(0, len(L) - 6):len(L) + 3]], rd.get("live_vs_full", [])[:6], "; ".join(cuts))
                if missed:
                    bad.append(("live-reader-missed-message", "the live reader never received %d message(s) of its stream, ids (minus offset) %s — %s"
                                % (len(missed), ["%d.%d" % x for x in missed[:8]], detail)))
                elif extra:
                    bad.append(("live-reader-duplicate", "the live reader received %s twice or although the stream does not hold them — %s" % (["%d.%d" % x for x in extra[:8]], detail)))
                else:
                    bad.append(("live-reader-order", "same ids, other order — " + detail))
            if rd["live_ids_not_increasing"]:
                bad.append(("live-reader-ids-not-increasing", "client %d: %d messages arrived at the live reader with a non-increasing id" % (rd["k"], rd["live_ids_not_increasing"])))
        if rd["ids_not_increasing"]:
            bad.append(("stream-ids-not-increasing", "client %d: %d messages arrived with a non-increasing id" % (rd["k"], rd["ids_not_increasing"])))
    # all receivers see the same relative order
    for i in range(len(readers)):
        for j in range(i + 1, len(readers)):
            a, b = readers[i], readers[j]
            own = (a["nick"], b["nick"])
            pa = [tuple(x) for x in a["full"] if x[0] not in own]
            pb = [tuple(x) for x in b["full"] if x[0] not in own]
            checks += 1
            if pa != pb:
                bad.append(("receivers-disagree-on-order", "clients %d and %d received the messages of the other clients in different orders / multiplicities" % (a["k"], b["k"])))
            # each one's view of the other's messages interleaved with third parties must embed into one order:
            # a sees b's messages, b sees a's; merged with the common part both must be consistent with the sender orders (checked above)
    if not harness and not bad and len(readers) != len([c for c in cl if c["joined"] and not c.get("refused_while_replaying")]):
        harness.append("not every joined client fetched its stream")
    return bad, harness, checks


def ri_grid(reps, quick):
    """D14 shapes (restart WITHOUT the Barrier + immediate retries of a post whose answer was dropped): sessions inside /
    outside a snapshot, 0..~900 entries behind the snapshot, announced at leadership (mode 1) or as soon as the listener is
    up (mode 2, what main() does), optionally with a delay in front of every FSM.Apply"""
    lines = []
    for rep in range(reps):
        for snap in (True, False):
            for fill in (0, 10, 50, 150, 300):
                for mode in (1, 2):
                    for apply_delay in (0, 200):
                        if apply_delay and (fill not in (0, 10) or not snap):
                            continue
                        if quick and not ((snap and fill in (50, 150, 300) and not apply_delay) or (not snap and fill == 50)
                                          or (snap and fill == 10 and apply_delay and mode == 1)):
                            continue
                        ident = "d14-%s-f%d-m%d-a%d-r%d" % ("snap" if snap else "nosnap", fill, mode, apply_delay, rep)
                        steps = ["N:0", "F", "C:0:%d" % mode, "C:1:%d" % (mode + 1), "C:2:%d" % ((mode + 2) % 4), "M:0:2", "M:1:2"] + (["S"] if snap else [])
                        if fill:
                            steps.append("R:%d:none:0:0" % fill)
                        steps += ["RI:%d:%d:%d" % (rep % 3, mode, apply_delay), "M:%d:2" % ((rep + 1) % 3)]
                        lines.append("sys %s " % ident + " ".join(steps))
    lines.sort(key=lambda l: "-a0-" not in l)     # shapes without an injected FSM delay first (they are reported first)
    return lines


def restore_with_live_reader(ck):
    """InstallSnapshot on a node that fell behind happens while clients are connected to it: FSM.Restore replaces the output
    stream.  A long poll that was open before must keep delivering (fixed finding D19: readers blocked in the old stream's
    GetNext were never woken up; the pings kept the connection alive and the client silently received nothing).  Driven
    through the API driver: L (owner's long poll) then K (raft snapshot + FSM.Restore on the live node), probed by a PING
    whose PONG must arrive on the SAME open stream."""
    from props import c11 as api
    facts, _, _ = api.scan_routes()
    wiring = api.wiring_of(facts)
    ops = api.setup_ops() + ["L:1", api.R("GET", "/verif-before"), "K", api.R("GET", "/verif-after"), "K", "K", api.R("GET", "/verif-after-3")]
    line = "api restorewatch " + " ".join(ops)
    res, out = api.run_go([line], wiring, "c05restore", timeout=900)
    if res is None:
        ck.add_obligation(False, "runtime-restore probe ran")
        ck.violation("tie-broken:go-driver-restore", {"what": "the API driver did not build/run against the current tree", "output": out[-3000:],
                                                      "obligation": "runtime restore with a live reader"}, concrete=False)
        return
    ck.add_obligation(True, "runtime-restore probe ran")
    obs = [o for o in res[0][2:] if o["op"] in ("R", "K")]
    states = [(o["op"], o.get("stream", "?")) for o in obs]
    ck.cov["restore_with_live_reader"] = states
    ck.cov["evaluations"] = ck.cov.get("evaluations", 0) + len(obs)
    if states and states[0][1] != "ok":
        ck.violation("harness:restorewatch", {"what": "the owner's long poll did not work before the restore: %r" % states, "cases": [line]}, concrete=False)
        return
    dead = [i for i, (op, st) in enumerate(states) if st == "dead"]
    if dead:
        ck.violation("live-stream-frozen-after-restore", {
            "what": "a GetMessages long poll that was open when FSM.Restore replaced the output stream no longer delivers: the PONG of a PING posted afterwards "
                    "did not arrive on the open stream within 5 s (stream states along the line: %r)" % states,
            "cases": [line], "how_to_replay": "bin/check C05"}, concrete=True)


def c16_probe(ck):
    """REPORTED, NOT FAILED (option VERIF_C05_C16PROBE=1) — property C16 with the mechanics of D14: configurations rev 0->1 (before a
    snapshot) and 1->2 ... ->n (in the un-snapshotted tail behind ~3*fill entries); SIGKILL; restart without the Barrier; POST /config
    naming the STALE revision 1 every 200 us until answered; when the node has replayed its log: GET /config."""
    reps = int(os.environ.get("VERIF_C05_PROBE_REPS", "3"))
    lines, meta = [], []
    for rep in range(reps):
        for n in (3, 4, 5):
            for fill in (0, 50, 150, 300):
                for mode in (1, 2):
                    for apply_delay in (0, 200):
                        if apply_delay and fill > 50:
                            continue
                        steps = ["N:0", "FC:1", "C:0", "C:1", "C:2", "M:0:2", "S"] + (["R:%d:none:0:0" % fill] if fill else [])
                        steps += ["FC:%d" % i for i in range(2, n + 1)] + ["RC:%d:%d:%d" % (mode, apply_delay, n)]
                        lines.append("sys c16-n%d-f%d-m%d-a%d-r%d " % (n, fill, mode, apply_delay, rep) + " ".join(steps))
                        meta.append((n, fill, mode, apply_delay))
    res, out, strays = run_sysdrv(lines, "c05-c16", 4, timeout=1500)
    if res is None:
        print("REPORT property=C16 probe=stale-config driver-failed")
        ck.notes["c16_probe"] = {"error": out[-2000:]}
        return
    table, examples, total = {}, [], {}
    for line, m, r in zip(lines, meta, res):
        p = r.get("config_probe")
        if not p or r["errors"]:
            o = "harness:" + "; ".join(r["errors"])[:80]
        elif p["stale_post_status"] == 200:
            o = "ACCEPTED -> revision %s operator %s (expected %d op%d)" % (p["revision_in_force"], p["operator_in_force"], m[0], m[0])
        else:
            o = "refused %d -> revision %s operator %s" % (p["stale_post_status"], p["revision_in_force"], p["operator_in_force"])
        key = "entries_after_snapshot~%d mode=%d fsm_apply_delay_us=%d" % (3 * m[1], m[2], m[3])
        table.setdefault(key, {}).setdefault(o.split(" ->")[0] if False else o if o.startswith("harness") else ("ACCEPTED" if o.startswith("ACCEPTED") else "refused"), 0)
        kk = o if o.startswith("harness") else ("ACCEPTED" if o.startswith("ACCEPTED") else "refused")
        table[key][kk] += 1
        total[o] = total.get(o, 0) + 1
        if o.startswith("ACCEPTED") and len(examples) < 3:
            examples.append({"case": line, "probe": p})
    ck.notes["c16_probe"] = {"scenarios": len(lines), "by_shape": table, "outcomes": total, "examples": examples, "note": "reported only"}
    for k in sorted(table):
        print("REPORT property=C16 probe=stale-config %s -> %s" % (k, table[k]))
    for k in sorted(total):
        print("REPORT property=C16 probe=stale-config TOTAL %d x %s" % (total[k], k))


def run(ck, replay):
    quick = ck.tier == "quick"
    ck.level = "proof"
    ck.notes["level_note"] = ("PARTIAL: the Coq theorems are a composition over an ASSUMED raft contract; the implementation is exercised on a single node only "
                              "(child process, SIGKILL/SIGSTOP/forced snapshot/restart); a three-node localnet of real binaries is NOT attempted offline")
    ck.cov["trusted_base"] += [
        "sysdrv harness/go/main/zz_verif_sys_test.go: the child re-enacts main()'s start-up (same calls, same order; bootstrapping only on the first start; irclog wiped "
        "when not bootstrapping; GetConfiguration before NewRaft) but is not main(): in-memory raft transport, plain HTTP on a loopback port, 50 ms raft timeouts, no "
        "session-expiry loop, no time safeguard, no 'only known peer is myself' exit, optional delay in front of the raft log store's StoreLogs (slow disk) and, in a "
        "few D14 scenarios, in front of FSM.Apply; except in the RI fault the child announces its port only after a raft Barrier",
        "the scripted clients (retry with the same ClientMessageId until HTTP 200, 4xx is final, 40 s request timeout > every scripted pause) and the end-of-stream "
        "marker (PONG to a PING the client posted last)",
        "the live readers' client-side resume logic (lastseen = id.reply of the last completely decoded message)",
        "the python monitor in props/c05.py (multiset/sequence comparisons on (sender nick, text) of PRIVMSG lines)"]
    ck.assumptions += [
        "raft's own safety (one totally ordered committed log, leader completeness, nothing invented or duplicated): ASSUMED as the Section hypotheses "
        "SeenLeLen/ProposalAppends/ProposalEntry/LogFromRequests; hashicorp/raft is executed but not verified",
        "durability is exercised against process death only (SIGKILL: written data survives in the page cache); fsync / LevelDB behaviour under power loss or a "
        "torn disk write cannot be exhibited",
        "real network partitions, message loss between nodes and fail-over proxying (maybeProxyToLeader) are not exercised: single node only; a three-node "
        "localnet of real binaries is NOT attempted offline",
        "timing of leader changes on several nodes cannot be exhibited; 'same stream on all nodes' degenerates to: the stream one node serves before a restart "
        "is a prefix of / equal to what it serves after it (resume by lastseen across restarts)",
        "D14 (the node answering a retry lags its own log, e.g. main() serves HTTP while the log is replayed after a restart): no hypothesis any more since "
        "/repo 92a4e2e — the second copy is skipped when the log is applied (ApplySkip in the Coq composition). EXERCISED: the RI fault restarts the node without "
        "waiting for a raft Barrier (announced at leadership / as soon as the listener is up, which is what main() does) and repeats the unanswered post every "
        "200 us. All other restarts still wait for the Barrier; a 4xx answer ('Session not yet seen') of a replaying node to such a retry is counted as "
        "retry_refused_while_replaying and is not a violation (the client never saw an acknowledgement)",
        "HYPOTHESIS earlier_messages_settled: when a client sends a request for a NEW message, what its requests for EARLIER messages proposed is committed or never "
        "will be (client timeout 40 s > pauses <= 300 ms; a killed process decides by dying). Not enforced by the code: the apply rule compares with the LAST id only. "
        "Retries racing their own still-running first copy need no hypothesis any more",
        "scenarios stay far inside the compaction horizon (SessionExpiration 30 min): messages older than the horizon disappear legitimately (C02/C04)",
        "client message ids are non-zero and increase per session; every client joined the channel before the first numbered message was posted",
        "NodeStateIsReplay is C02_state/C02_output/C02_exact (open findings of C02/C04/C08 are inherited); the marker rule is C10_marker/C10_marker_inv; determinism is C01"]
    ok = ck.proof_obligations()

    if replay:
        lines = [l for l in json.load(open(replay)).get("cases", []) if l.startswith("sys ")]
        kinds_gen = {}
    else:
        lines, kinds_gen = [], {}
        corpus = os.path.join(vlib.ROOT, "corpus", "C05")
        if os.path.isdir(corpus):
            for fn in sorted(os.listdir(corpus)):
                if fn.endswith(".case"):
                    lines += [l.strip() for l in open(os.path.join(corpus, fn)).read().split("\n") if l.strip() and not l.startswith("#")]
        lines += ri_grid(1 if quick else 5, quick)
        lines += cut_grid(1 if quick else 2, quick)
        n = 160 if quick else 2400
        for i in range(n):
            line, kinds = gen_scenario(ck.rng, "g%d" % i)
            lines.append(line)
            for k in kinds:
                kinds_gen[k] = kinds_gen.get(k, 0) + 1
    t0 = time.time()
    res, out, strays = run_sysdrv(lines, "c05", 8, timeout=1200 if quick else 3300)
    ck.notes["go_wall_s"] = round(time.time() - t0, 1)
    ck.notes["stray_children_killed"] = strays
    if res is None:
        ck.violation("tie-broken:go-driver", {"what": "sysdrv did not build/run against the current tree (or did not finish)", "output": out[-6000:],
                                              "obligation": "tie sysdrv (package main)", "cases": lines[:3]}, concrete=False)
        if not ok:
            ck.violation("proof-broken", {"what": "proof obligations not discharged", "errors": ck.proof_errors,
                                          "obligation": ck.proof_result.get("broken_at", "Properties/C05.v"), "coq_output": ck.proof_result["output_tail"]}, concrete=False)
        return

    dist = {"scenarios": len(lines), "clients": 0, "posts": 0, "acked_posts": 0, "retried_posts": 0, "answers_dropped": 0, "node_starts": 0,
            "snapshots_on_disk": 0, "incremental_fetches": 0, "retry_refused_while_replaying": 0, "live_readers": 0, "live_reader_connects": 0, "live_reader_messages": 0, "live_reader_messages_all_kinds": 0, "cuts_inside_batch": {}, "cmid_schemes": {}, "faults_generated": kinds_gen, "steps_executed": {}, "failed_attempts": {}}
    nontriv, checks_total, seen_sig, harness_all = set(), 0, set(), []
    samples = []
    for line, r in zip(lines, res):
        bad, harness, checks = monitor(r)
        checks_total += checks
        retried = 0
        for c in r["clients"]:
            dist["clients"] += 1
            sk = "scheme%d" % c.get("cmid_scheme", 0)
            dist["cmid_schemes"][sk] = dist["cmid_schemes"].get(sk, 0) + 1
            dist["incremental_fetches"] += c["fetches"]
            dist["live_readers"] += int(bool(c.get("live_reader")))
            dist["live_reader_connects"] += c.get("live_connects", 0)
            dist["live_reader_messages"] += len(c.get("live_read") or [])
            for p in c["posts"]:
                dist["posts"] += 1
                dist["acked_posts"] += int(p["acked"])
                if p["attempts"] > 1:
                    retried += 1
                dist["answers_dropped"] += int(p["dropped_first_ack"])
                for f in p.get("fails", []):
                    f = f.split(":")[0]
                    dist["failed_attempts"][f] = dist["failed_attempts"].get(f, 0) + 1
        dist["retried_posts"] += retried
        dist["node_starts"] += r["starts"]
        dist["snapshots_on_disk"] += r["snapshots_on_disk"]
        for e in r["events"]:
            if e.startswith("CB:"):
                continue
            if e.startswith("FS:"):
                e = ":".join(e.split(":")[:3])       # FS:<used|unused>:first=<first answer>
            if e.startswith("RI:"):
                e = ":".join(e.split(":")[:3])       # RI:mode=<m>:<acked|refused|failed>
            dist["steps_executed"][e] = dist["steps_executed"].get(e, 0) + 1
        for c in r["clients"]:
            for q in c.get("cuts") or []:
                key = "mode=%d:%s" % (q["mode"], q["outcome"])
                dist["cuts_inside_batch"][key] = dist["cuts_inside_batch"].get(key, 0) + 1
            dist["live_reader_messages_all_kinds"] += len(c.get("live_ids") or []) // 2
        dist["retry_refused_while_replaying"] += sum(1 for c in r["clients"] if c.get("refused_while_replaying"))
        if retried and r["starts"] > 1 and not harness:
            nontriv.add(line.split(" ", 2)[2])
        if len(samples) < 3:
            samples.append({"case": line[:500], "events": r["events"], "acked": sum(int(p["acked"]) for c in r["clients"] for p in c["posts"]),
                            "retried": retried, "starts": r["starts"], "stream_lengths": [len(c["full"]) for c in r["clients"]]})
        for sig, text in bad:
            if sig in seen_sig:
                continue
            seen_sig.add(sig)
            ck.violation(sig, {"what": text, "cases": [line], "events": r["events"], "crashes": r["crashes"],
                               "expected": "every acknowledged message exactly once, in the sender's order, in the stream of every other channel member; the same "
                                           "stream before and after restarts; the same relative order for all receivers",
                               "posts": {c["nick"]: [[p["text"], p["acked"], p["attempts"], p.get("fails", [])] for p in c["posts"] if p["attempts"] > 1 or not p["acked"]]
                                         for c in r["clients"]},
                               "note": "timing-dependent: replaying runs the same scenario again, the kill may land elsewhere",
                               "how_to_replay": "bin/check C05 --replay <this file>"}, concrete=True)
        if harness and not bad:
            harness_all.append((line, harness, r))
    ck.cov["evaluations"] = len(lines)
    ck.cov["distinct_nontrivial"] = len(nontriv)
    ck.cov["disagreements_checked"] = checks_total
    ck.cov["monitor_checks"] = checks_total
    ck.cov["rule"] = ("scenarios of 2-4 scripted clients on one real node (child process: raft + LevelDB log/stable store + file snapshot store + real FSM + real HTTP "
                      "handlers): create session, NICK/USER/JOIN, 5-30 numbered PRIVMSGs each with increasing client message ids (per client one of four id ranges, consecutive ids "
                      "differing by 1: small numbers, top bit set (2^63+2^62..), across 2^53, towards 2^64-1), every POST repeated with the same id until "
                      "HTTP 200; 1-6 faults per scenario out of: SIGKILL idle / the moment an acknowledgement arrives / a scripted number of microseconds after a request was "
                      "written / during a concurrent round, answer dropped on the client side, forced /snapshot (idle or during a round), SIGSTOP-SIGCONT (idle or during a "
                      "round), FS = the raft log store fails once under the next client command (raft answers Apply with the error and steps down, the POST is answered 5xx, "
                      "the client repeats it at the same node), RI = answer dropped + SIGKILL at that moment + restart WITHOUT waiting for the raft Barrier + the same body repeated every 200 us (D14); "
                      "restart on the same directories with 0-4 ms delay in front of the raft log store; plus a grid of D14 shapes (sessions inside/outside a snapshot, "
                      "0-900 entries behind it, announced at leadership or when the listener is up, optional 200 us delay in front of FSM.Apply). Every client keeps a LIVE "
                      "long-poll reader open from its JOIN on (reconnecting with the last id it saw after restarts and superseded streams, paused only during its own G "
                      "fetches); what it received (all message ids, and the PRIVMSG texts) is compared with the whole stream fetched from 0.0 at the end. CB = a live reader is cut off "
                      "client-side after k messages of a multi-message batch addressed to it (WHOIS/NAMES/WHO/LIST/JOIN with topic) and reconnects with lastseen=X.k to the "
                      "caught-up node (control) or, after SIGKILL + restart without the Barrier, to the node while it replays its log (grid of the D14 sizes). non-trivial = scenario (distinct by text) in which the node "
                      "was restarted at least once AND at least one POST had to be repeated (measured on the run)")
    ck.cov["input_distribution"] = dist
    ck.cov["samples"] = samples
    if not replay:
        restore_with_live_reader(ck)
    if harness_all and not seen_sig:
        line, harness, r = harness_all[0]
        ck.violation("harness:sysdrv", {"what": "sysdrv could not complete %d scenario(s); the property is not shown to hold for them" % len(harness_all),
                                        "obligation": "tie sysdrv (package main)", "output": "\n".join(harness)[:6000], "events": r["events"], "cases": [line]}, concrete=False)
    if os.environ.get("VERIF_C05_C16PROBE") == "1" and not replay:
        c16_probe(ck)
    if not ok:
        ck.violation("proof-broken", {"what": "proof obligations not discharged", "errors": ck.proof_errors,
                                      "obligation": ck.proof_result.get("broken_at", "Properties/C05.v"), "coq_output": ck.proof_result["output_tail"]}, concrete=False)
