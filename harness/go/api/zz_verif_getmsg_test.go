//go:build verif

package api

// Handler-level driver for property C04 (injected by `go test -overlay`, never part of /repo).
// Drives the real GET .../messages handler (DispatchPublic -> handleGetMessages: session check,
// getMessages goroutine, per-session filter, abort checks) over a real ircserver.IRCServer and a
// real OutputStream, applying client messages in the order the FSM does (ProcessMessage, Add the
// replies to the output stream, MaybeDeleteSession).  A single-node in-memory raft leader keeps
// partitioned() false.
//
//   gm <nsessions> <step>*        sessions 1..n exist from the start; the client is session 1
//     m:<s>:<hex IRC line>        IRCFromClient of session s (QUIT / KILL end sessions)
//     D:<s>:<hex quit message>    DeleteSession of session s (ping timeout)
//     o                           the client opens the stream with lastseen = id of the last message
//                                 it received ("0.0" at first)
//     r:<k>   k>0: the client reads k messages.  k=0: the driver appends a marker batch addressed
//             to the client and the client reads until it has the marker: everything before it
//             must have arrived (no timing assumption on a correct tree)
//     x                           the client aborts the request
//     f                           the client reads until the handler ends the request (used after
//                                 the message that ends the client's session)
//     A:<k>                       the lagging node (node 1) applies the next k entries of the log (0 = all);
//                                 "o@<c>/1" opens client c's stream on node 1; r:0 of a client connected to
//                                 node 1 lets node 1 catch up completely (the request is open meanwhile)
//   o r x f may carry "@<c>": the step of client c, which reads for session c through its own
//   request (default c = 1); several clients have their streams open at the same time.
//   result: gm {m=<batch id|->|D=<batch id|->|o=ok|o=http<code>|r=<msgs|->[@<marker id>][!timeout|!closed]|x=ok|f=<msgs|->[!timeout]}*
//              last=<id>.<reply of client 1> L=<c>:<id>.<reply>{,..} G=ok|changed:<id> S=<id>=<reply>/<hex|->/<rcpts|->{,..}{;..}
//   G: after all steps OutputStream.Get of every batch still returns exactly what was added
// The python side rebuilds the output stream from S, runs the Out/Resume model on it and compares.

import (
	"bufio"
	"context"
	"encoding/hex"
	"encoding/json"
	"fmt"
	"io"
	"net/http"
	"net/http/httptest"
	"os"
	"sort"
	"strconv"
	"strings"
	"sync"
	"sync/atomic"
	"testing"
	"time"

	"github.com/hashicorp/raft"
	"github.com/robustirc/robustirc/internal/config"
	"github.com/robustirc/robustirc/internal/ircserver"
	"github.com/robustirc/robustirc/internal/outputstream"
	"github.com/robustirc/robustirc/internal/robust"
	"gopkg.in/sorcix/irc.v2"
)

// verifWait scales a wall-clock bound: the bounds only cost time when something is really stuck,
// so they are generous; $VERIF_WAIT_SCALE multiplies them (the check re-runs a scenario that timed
// out in isolation with larger bounds before it reports it).
func verifGmWait(d time.Duration) time.Duration {
	if s, err := strconv.ParseFloat(os.Getenv("VERIF_WAIT_SCALE"), 64); err == nil && s > 0 {
		return time.Duration(float64(d) * s)
	}
	return d
}

type verifGmNopFSM struct{}

func (verifGmNopFSM) Apply(*raft.Log) interface{}         { return nil }
func (verifGmNopFSM) Snapshot() (raft.FSMSnapshot, error) { return nil, fmt.Errorf("unsupported") }
func (verifGmNopFSM) Restore(rc io.ReadCloser) error      { return rc.Close() }

func verifGmLeader() (*raft.Raft, error) {
	conf := raft.DefaultConfig()
	conf.LocalID = "verif"
	conf.HeartbeatTimeout = 50 * time.Millisecond
	conf.ElectionTimeout = 50 * time.Millisecond
	conf.LeaderLeaseTimeout = 50 * time.Millisecond
	conf.CommitTimeout = 5 * time.Millisecond
	conf.LogOutput = io.Discard
	store := raft.NewInmemStore()
	snaps := raft.NewInmemSnapshotStore()
	addr, trans := raft.NewInmemTransport("")
	if err := raft.BootstrapCluster(conf, store, store, snaps, trans, raft.Configuration{
		Servers: []raft.Server{{ID: conf.LocalID, Address: addr}},
	}); err != nil {
		return nil, err
	}
	node, err := raft.NewRaft(conf, verifGmNopFSM{}, store, store, snaps, trans)
	if err != nil {
		return nil, err
	}
	deadline := time.Now().Add(verifGmWait(60 * time.Second))
	for node.State() != raft.Leader {
		if time.Now().After(deadline) {
			return nil, fmt.Errorf("in-memory raft node did not become leader")
		}
		time.Sleep(5 * time.Millisecond)
	}
	return node, nil
}

// verifGmWriter is the client's end of the HTTP response: every JSON document the handler writes
// is handed to the driver; the handler blocks in Write until the client takes it or aborts.
type verifGmLine struct {
	msg     robust.Message
	flushes int64 // number of Flush calls before this message was written
}

type verifGmWriter struct {
	ctx     context.Context
	hdr     http.Header
	lines   chan verifGmLine
	status  chan int
	once    sync.Once
	flushes int64 // atomic; Write and Flush are both called by the handler goroutine
}

func (w *verifGmWriter) Header() http.Header { return w.hdr }
func (w *verifGmWriter) WriteHeader(code int) {
	w.once.Do(func() { w.status <- code })
}
func (w *verifGmWriter) Flush() { atomic.AddInt64(&w.flushes, 1) }
func (w *verifGmWriter) Write(p []byte) (int, error) {
	w.WriteHeader(200)
	var msg robust.Message
	if err := json.Unmarshal(p, &msg); err != nil {
		return len(p), nil // an error text, not a message
	}
	if msg.Type == robust.Ping {
		return len(p), nil
	}
	select {
	case w.lines <- verifGmLine{msg, atomic.LoadInt64(&w.flushes)}:
		return len(p), nil
	case <-w.ctx.Done():
		return 0, fmt.Errorf("client went away")
	}
}

func verifGmShow(msgs []robust.Message) string {
	if len(msgs) == 0 {
		return "-"
	}
	var s []string
	for _, m := range msgs {
		d := "-"
		if m.Data != "" {
			d = hex.EncodeToString([]byte(m.Data))
		}
		s = append(s, fmt.Sprintf("%d.%d/%s", m.Id.Id, m.Id.Reply, d))
	}
	return strings.Join(s, ",")
}

type verifGmNode struct {
	srv *ircserver.IRCServer
	o   *outputstream.OutputStream
	h   *HTTP
}

type verifGmEntry struct {
	typ    robust.Type // IRCFromClient, DeleteSession; Ping = marker batch
	sess   uint64
	data   string
	id     uint64
	client uint64 // marker: the client it is addressed to
}

func verifGmDumpBatch(msgs []outputstream.Message) string {
	var ms []string
	for _, m := range msgs {
		var rc []uint64
		for k, v := range m.InterestingFor {
			if v {
				rc = append(rc, k)
			}
		}
		sort.Slice(rc, func(i, j int) bool { return rc[i] < rc[j] })
		rs := "-"
		if len(rc) > 0 {
			var s []string
			for _, r := range rc {
				s = append(s, strconv.FormatUint(r, 10))
			}
			rs = strings.Join(s, "+")
		}
		d := "-"
		if m.Data != "" {
			d = hex.EncodeToString([]byte(m.Data))
		}
		ms = append(ms, fmt.Sprintf("%d/%s/%s", m.Id.Reply, d, rs))
	}
	return fmt.Sprintf("%d=%s", msgs[0].Id.Id, strings.Join(ms, ","))
}

func verifGmRunCase(f []string, tmp string, raftNode *raft.Raft) (res string) {
	defer func() {
		if e := recover(); e != nil {
			res = "gm harness-error:" + strings.ReplaceAll(fmt.Sprint(e), " ", "_")
		}
	}()
	nsess, _ := strconv.Atoi(f[1])
	var nodes []*verifGmNode
	defer func() {
		for _, n := range nodes {
			n.o.Close()
		}
	}()
	// node(k): node 0 applies every entry at once; node 1 is a node that lags (it applies the same
	// log later, step A) - the same sessions exist on it from the start
	node := func(k int) *verifGmNode {
		for len(nodes) <= k {
			srv := ircserver.NewIRCServer("verif.net", time.Unix(0, 1481144012969203276))
			srv.Config.IRC.Operators = []config.IRCOp{{Name: "root", Password: "secret"}}
			srv.Config.IRC.Services = []config.Service{{Password: "mypass"}}
			o, err := outputstream.NewOutputStream(tmp)
			if err != nil {
				panic(err)
			}
			for s := 1; s <= nsess; s++ {
				id := robust.Id{Id: uint64(s)}
				if err := srv.CreateSession(id, "auth", time.Unix(0, 1481144012969203276)); err != nil {
					panic(err)
				}
				srv.SetLastProcessed(id)
			}
			nodes = append(nodes, &verifGmNode{srv: srv, o: o, h: NewHTTP(srv, raftNode, nil, o, nil, "verif.net", "", tmp, "", true, 3)})
		}
		return nodes[k]
	}
	node(0)
	next := uint64(nsess + 1)
	var dump []string
	dumpByID := map[uint64]string{}
	var logEntries []verifGmEntry
	applied1 := 0 // entries node 1 has applied
	// what FSM.applyRobustMessage does for IRCFromClient / DeleteSession; returns the batch ("" = none)
	applyOn := func(n *verifGmNode, e verifGmEntry) string {
		if e.typ == robust.Ping {
			marker := []outputstream.Message{{Id: robust.Id{Id: e.id, Reply: 1}, Data: fmt.Sprintf("MARK %d", e.id), InterestingFor: map[uint64]bool{e.client: true}}}
			if err := n.o.Add(marker); err != nil {
				panic(err)
			}
			return verifGmDumpBatch(marker)
		}
		msg := &robust.Message{Id: robust.Id{Id: e.id}, Session: robust.Id{Id: e.sess}, Type: e.typ, Data: e.data}
		if _, err := n.srv.GetSession(msg.Session); err != nil {
			return ""
		}
		line := e.data
		if e.typ == robust.DeleteSession {
			line = "QUIT :" + e.data
		}
		reply := n.srv.ProcessMessage(msg, irc.ParseMessage(line))
		n.srv.SetLastProcessed(robust.Id{Id: e.id})
		d := ""
		if len(reply.Messages) > 0 {
			converted := make([]outputstream.Message, len(reply.Messages))
			for idx, m := range reply.Messages {
				converted[idx] = outputstream.Message{Id: m.Id, Data: m.Data, InterestingFor: m.InterestingFor}
			}
			if err := n.o.Add(converted); err != nil {
				panic(err)
			}
			d = verifGmDumpBatch(converted)
		}
		n.srv.MaybeDeleteSession(msg.Session)
		return d
	}
	diverged := false
	issue := func(e verifGmEntry) string {
		e.id = next
		next++
		logEntries = append(logEntries, e)
		d := applyOn(nodes[0], e)
		if d == "" {
			return "-"
		}
		dump = append(dump, d)
		dumpByID[e.id] = d
		return strconv.FormatUint(e.id, 10)
	}
	catchUp := func(k int) int {
		n := node(1)
		cnt := 0
		for applied1 < len(logEntries) && (k == 0 || cnt < k) {
			e := logEntries[applied1]
			applied1++
			cnt++
			if d := applyOn(n, e); d != dumpByID[e.id] {
				diverged = true
			}
		}
		return cnt
	}

	out := []string{"gm"}
	// one GetMessages client per session; client c reads for session c
	type client struct {
		last        string
		node        int
		w           *verifGmWriter
		cancel      context.CancelFunc
		done        chan struct{}
		lastFlushes int64
	}
	clients := map[uint64]*client{}
	var order []uint64
	cl := func(c uint64) *client {
		if x, ok := clients[c]; ok {
			return x
		}
		x := &client{last: "0.0"}
		clients[c] = x
		order = append(order, c)
		return x
	}
	closeConn := func(x *client) {
		if x.w == nil {
			return
		}
		x.cancel()
		select {
		case <-x.done:
		case <-time.After(verifGmWait(15 * time.Second)):
		}
		x.w = nil
	}
	wait := verifGmWait(10 * time.Second)
	// read until stop(msg) says so; returns messages, and "" | "!timeout" | "!closed"
	read := func(x *client, stop func(robust.Message, int) bool) ([]robust.Message, string) {
		var got []robust.Message
		if x.w == nil {
			return got, "!closed"
		}
		deadline := time.After(wait)
		for {
			select {
			case l := <-x.w.lines:
				m := l.msg
				x.lastFlushes = l.flushes
				got = append(got, m)
				x.last = fmt.Sprintf("%d.%d", m.Id.Id, m.Id.Reply)
				if stop(m, len(got)) {
					return got, ""
				}
			case <-x.done:
				// the handler has returned; whatever it wrote has been taken already
				return got, "!closed"
			case <-deadline:
				return got, "!timeout"
			}
		}
	}

	for _, tok := range f[2:] {
		c, nd := uint64(1), 0
		if at := strings.LastIndex(tok, "@"); at >= 0 {
			cn := strings.SplitN(tok[at+1:], "/", 2)
			c, _ = strconv.ParseUint(cn[0], 10, 64)
			if len(cn) > 1 {
				nd, _ = strconv.Atoi(cn[1])
			}
			tok = tok[:at]
		}
		p := strings.SplitN(tok, ":", 3)
		switch p[0] {
		case "m", "D":
			s, _ := strconv.ParseUint(p[1], 10, 64)
			data, _ := hex.DecodeString(p[2])
			typ := robust.IRCFromClient
			if p[0] == "D" {
				typ = robust.DeleteSession
			}
			out = append(out, p[0]+"="+issue(verifGmEntry{typ: typ, sess: s, data: string(data)}))
		case "A":
			k, _ := strconv.Atoi(p[1])
			out = append(out, fmt.Sprintf("A=%d", catchUp(k)))
		case "o":
			x := cl(c)
			closeConn(x)
			x.node = nd
			ctx, cf := context.WithCancel(context.Background())
			x.cancel = cf
			x.w = &verifGmWriter{ctx: ctx, hdr: http.Header{}, lines: make(chan verifGmLine), status: make(chan int, 1)}
			x.done = make(chan struct{})
			req := httptest.NewRequest("GET", fmt.Sprintf("/robustirc/v1/%d/messages?lastseen=%s", c, x.last), nil).WithContext(ctx)
			req.Header.Set("X-Session-Auth", "auth")
			h := node(nd).h
			go func(w *verifGmWriter, done chan struct{}) {
				defer close(done)
				defer func() { recover() }()
				h.DispatchPublic(w, req)
			}(x.w, x.done)
			select {
			case code := <-x.w.status:
				if code == 200 {
					out = append(out, "o=ok")
				} else {
					out = append(out, fmt.Sprintf("o=http%d", code))
				}
			case <-x.done:
				out = append(out, "o=returned")
			case <-time.After(wait):
				out = append(out, "o=!timeout")
			}
		case "r":
			x := cl(c)
			k, _ := strconv.Atoi(p[1])
			if k > 0 {
				got, mark := read(x, func(_ robust.Message, n int) bool { return n >= k })
				out = append(out, "r="+verifGmShow(got)+mark)
				break
			}
			ids := issue(verifGmEntry{typ: robust.Ping, client: c})
			id, _ := strconv.ParseUint(ids, 10, 64)
			if x.node == 1 {
				catchUp(0) // the lagging node catches up (incl. the marker) while the request is open
			}
			got, mark := read(x, func(m robust.Message, _ int) bool { return m.Id.Id == id })
			if mark == "" {
				// the handler finishes the marker batch (its session / partition checks) and then
				// flushes, at once or from its 10 ms timer: wait for that Flush, so that the next
				// operation is not applied while the handler is still inside the marker batch
				deadline := time.Now().Add(verifGmWait(10 * time.Second))
				for atomic.LoadInt64(&x.w.flushes) <= x.lastFlushes && time.Now().Before(deadline) {
					time.Sleep(200 * time.Microsecond)
				}
			}
			out = append(out, fmt.Sprintf("r=%s@%d%s", verifGmShow(got), id, mark))
		case "f":
			got, mark := read(cl(c), func(robust.Message, int) bool { return false })
			if mark == "!closed" {
				mark = ""
			}
			out = append(out, "f="+verifGmShow(got)+mark)
		case "x":
			closeConn(cl(c))
			out = append(out, "x=ok")
		default:
			out = append(out, p[0]+"=unknown-step")
		}
	}
	for _, x := range clients {
		closeConn(x)
	}
	// the stream itself must be what was added: a reader must not have changed a (cached) batch
	changed := "ok"
	for _, b := range dump {
		eq := strings.Index(b, "=")
		id, _ := strconv.ParseUint(b[:eq], 10, 64)
		msgs, ok := nodes[0].o.Get(robust.Id{Id: id})
		now := "missing"
		if ok {
			now = verifGmDumpBatch(msgs)
		}
		if now != b {
			changed = fmt.Sprintf("changed:%d", id)
			break
		}
	}
	if diverged {
		changed = "diverged" // the lagging node produced a different stream from the same log
	}
	d := "-"
	if len(dump) > 0 {
		d = strings.Join(dump, ";")
	}
	var ls []string
	for _, c := range order {
		ls = append(ls, fmt.Sprintf("%d:%s", c, clients[c].last))
	}
	l1 := "0.0"
	if x, ok := clients[1]; ok {
		l1 = x.last
	}
	lall := "-"
	if len(ls) > 0 {
		lall = strings.Join(ls, ",")
	}
	out = append(out, "last="+l1, "L="+lall, "G="+changed, "S="+d)
	return strings.Join(out, " ")
}

func TestVerifGetMsg(t *testing.T) {
	in, err := os.Open(os.Getenv("VERIF_IN"))
	if err != nil {
		t.Fatal(err)
	}
	defer in.Close()
	var cases [][]string
	sc := bufio.NewScanner(in)
	sc.Buffer(make([]byte, 1<<20), 1<<26)
	for sc.Scan() {
		if f := strings.Fields(sc.Text()); len(f) > 0 {
			cases = append(cases, f)
		}
	}
	node, err := verifGmLeader()
	if err != nil {
		t.Fatal(err)
	}
	defer node.Shutdown()
	tmp := t.TempDir()
	results := make([]string, len(cases))
	var wg sync.WaitGroup
	sem := make(chan struct{}, 16)
	for i := range cases {
		wg.Add(1)
		sem <- struct{}{}
		go func(i int) {
			defer wg.Done()
			defer func() { <-sem }()
			if cases[i][0] != "gm" || len(cases[i]) < 2 {
				results[i] = "unknown-case-kind"
				return
			}
			results[i] = verifGmRunCase(cases[i], tmp, node)
		}(i)
	}
	wg.Wait()
	out, err := os.Create(os.Getenv("VERIF_OUT"))
	if err != nil {
		t.Fatal(err)
	}
	defer out.Close()
	bw := bufio.NewWriter(out)
	defer bw.Flush()
	for _, r := range results {
		fmt.Fprintln(bw, r)
	}
}
