(* C07 — a message of death is contained: marked durably (exactly that entry, only its type), the process
   exits; on every later replay the marked entry is skipped without reaching the recover path, only the
   duplicate-detection marker advances, every other entry keeps its effect — with or without snapshots.
   Model: Fsm/Mod.v (applyProto with its deferred recover) over an abstract machine whose command
   handler may panic ([apply_cmd s e = None]) and whose MessageOfDeath case is [apply_mod].
   Not in the model (runtime): that glog.Fatalf terminates the process before another entry is applied. *)
From Coq Require Import List ZArith NArith Bool.
From RV Require Import Fsm.Fsm Fsm.Mod Fsm.FsmProofs Fsm.ModProofs.
Import ListNotations.

(* the process dies at an entry iff it is an unmarked command whose handler panics; the durable log
   afterwards is the old one with the entries under that index re-tagged, nothing else *)
Theorem C07_mark : forall (S O B : Type) (apply_cmd : S -> entry -> option (S * list O))
    (apply_mod : S -> entry -> S) (exp_of rev_of : S -> N) dlog (f : fsm S O B) e,
  (forall k d, apply_guarded S O B apply_cmd apply_mod exp_of rev_of dlog f e = Died S O B k d ->
     e_kind e = KCmd /\ apply_cmd (server f) e = None /\ k = e_idx e /\ d = mark (e_idx e) dlog) /\
  (e_kind e = KCmd -> apply_cmd (server f) e = None ->
     apply_guarded S O B apply_cmd apply_mod exp_of rev_of dlog f e = Died S O B (e_idx e) (mark (e_idx e) dlog)).
Proof. intros. split; [intros k d; apply mod_mark|apply mod_mark_conv]. Qed.
Print Assumptions C07_mark.

Theorem C07_mark_exact : forall k L,
  List.length (mark k L) = List.length L /\
  (forall n e, nth_error L n = Some e ->
     nth_error (mark k L) n = Some (if (e_idx e =? k)%N then retag e else e)) /\
  (forall e, e_idx (retag e) = e_idx e /\ e_ts (retag e) = e_ts e /\ e_exp (retag e) = e_exp e /\ e_rev (retag e) = e_rev e /\
             e_payload (retag e) = e_payload e /\ e_kind (retag e) = KMoD).
Proof. intros k L. split; [apply mark_length|]. split; [apply mark_nth|apply retag_fields]. Qed.
Print Assumptions C07_mark_exact.

(* applying a marked entry: stored, marker moved by apply_mod, no reply batch, nothing else *)
Theorem C07_skip : forall (S O B : Type) (apply_cmd : S -> entry -> option (S * list O))
    (apply_mod : S -> entry -> S) (exp_of rev_of : S -> N) dlog (f : fsm S O B) e,
  e_kind e = KMoD ->
  apply_guarded S O B apply_cmd apply_mod exp_of rev_of dlog f e =
    Continued S O B (apply_entry S O B (apply_total S O apply_cmd apply_mod) exp_of rev_of f e) /\
  apply_entry S O B (apply_total S O apply_cmd apply_mod) exp_of rev_of f e =
    mkFsm S O B (put (e_idx e) e (ircstore f)) (outstore f) (lss f) (expdur f) (apply_mod (server f) e).
Proof. intros. split; [apply mod_no_recover; assumption|apply mod_skip; assumption]. Qed.
Print Assumptions C07_skip.

(* a process lifetime ends only at an unmarked command of the log, with exactly that one marked; after the
   restart the same entry does not kill the process again; a lifetime that ends normally applied everything *)
Theorem C07_process : forall (S O B : Type) (apply_cmd : S -> entry -> option (S * list O))
    (apply_mod : S -> entry -> S) (exp_of rev_of : S -> N) (L : list entry) (f : fsm S O B),
  (forall k L', run_process S O B apply_cmd apply_mod exp_of rev_of L f L = Exited S O B k L' ->
     (exists e, In e L /\ e_kind e = KCmd /\ e_idx e = k /\ L' = mark k L) /\
     (forall f' k' L'', run_process S O B apply_cmd apply_mod exp_of rev_of L' f' L' = Exited S O B k' L'' -> k' <> k)) /\
  (forall f', run_process S O B apply_cmd apply_mod exp_of rev_of L f L = Finished S O B f' ->
     f' = fold_left (apply_entry S O B (apply_total S O apply_cmd apply_mod) exp_of rev_of) L f).
Proof.
  intros. split.
  - intros k L' H. split; [apply (process_exit _ _ _ _ _ _ _ _ _ _ _ _ H)|].
    intros f' k' L'' H2. apply (process_progress _ _ _ _ _ _ _ _ _ _ _ _ _ _ H H2).
  - intros f' H. apply (process_finish _ _ _ _ _ _ _ _ _ _ _ H).
Qed.
Print Assumptions C07_process.

(* replay of the log with entry k marked = replay of the log without k, up to the marker ([eqm]), with
   identical reply batches for every other entry — assuming the state machine never reads the marker *)
Theorem C07_replay : forall (S O B : Type) (apply_cmd : S -> entry -> option (S * list O))
    (apply_mod : S -> entry -> S) (eqm : S -> S -> Prop),
  (forall s, eqm s s) -> (forall a b c, eqm a b -> eqm b c -> eqm a c) ->
  (forall s e, eqm (apply_mod s e) s) ->
  (forall s1 s2 e, eqm s1 s2 ->
     eqm (fst (apply_total S O apply_cmd apply_mod s1 e)) (fst (apply_total S O apply_cmd apply_mod s2 e)) /\
     snd (apply_total S O apply_cmd apply_mod s1 e) = snd (apply_total S O apply_cmd apply_mod s2 e)) ->
  forall (L : list entry) (k : N) (s0 : S),
  (forall e, In e L -> e_idx e = k -> stored_kind e = true) ->
  eqm (run_state S O (apply_total S O apply_cmd apply_mod) s0 (cmds (mark k L)))
      (run_state S O (apply_total S O apply_cmd apply_mod) s0 (cmds (without k L))) /\
  run_out S O (apply_total S O apply_cmd apply_mod) s0 (cmds (mark k L)) =
  run_out S O (apply_total S O apply_cmd apply_mod) s0 (cmds (without k L)).
Proof.
  intros S O B apply_cmd apply_mod eqm Hr Ht Hm Ha L k s0 Hc.
  apply (mod_replay S O apply_cmd apply_mod eqm Ht Hm Ha L k s0 s0 (Hr s0) Hc).
Qed.
Print Assumptions C07_replay.

(* ... and the same across every snapshot / persist-failure / restore / restart schedule over the marked
   log (snapshot before or after k): by C02 the server is the plain replay of the marked log *)
Theorem C07_replay_sched : forall (S O B : Type) (apply_cmd : S -> entry -> option (S * list O))
    (apply_mod : S -> entry -> S) (exp_of rev_of : S -> N) (eqm : S -> S -> Prop),
  (forall s, eqm s s) -> (forall a b c, eqm a b -> eqm b c -> eqm a c) ->
  (forall s e, eqm (apply_mod s e) s) ->
  (forall s1 s2 e, eqm s1 s2 ->
     eqm (fst (apply_total S O apply_cmd apply_mod s1 e)) (fst (apply_total S O apply_cmd apply_mod s2 e)) /\
     snd (apply_total S O apply_cmd apply_mod s1 e) = snd (apply_total S O apply_cmd apply_mod s2 e)) ->
  forall (init : S) (marshal : S -> N -> B) (unmarshal : B -> option (S * N)),
  (forall s k, unmarshal (marshal s k) = Some (s, k)) ->
  (forall s e, sets_exp (rev_of s) e = false -> exp_of (fst (apply_total S O apply_cmd apply_mod s e)) = exp_of s) ->
  eff_exp (exp_of init) = ten_minutes ->
  forall v : variant, fix_d3 v = true -> fix_d15 v = true ->
  forall (L : list entry) (k : N) (sigma : list step),
  log_ok L ->
  (forall e, In e L -> e_idx e = k -> stored_kind e = true) ->
  schedule_ok S O B init (apply_total S O apply_cmd apply_mod) marshal unmarshal exp_of rev_of v (mark k L) sigma
              (world0 S O B init) ->
  let w := run S O B init (apply_total S O apply_cmd apply_mod) marshal unmarshal exp_of rev_of v (mark k L) sigma
               (world0 S O B init) in
  eqm (server (w_fsm w))
      (replay S O init (apply_total S O apply_cmd apply_mod) (without k (firstn (w_applied w) L))).
Proof.
  intros S O B apply_cmd apply_mod exp_of rev_of eqm Hr Ht Hm Ha init marshal unmarshal Hrt Hfr Hin v Hd3 Hd15 L k sigma HL Hc Hok.
  apply (mod_replay_sched S O B apply_cmd apply_mod exp_of rev_of eqm Hr Ht Hm Ha init marshal unmarshal Hrt Hfr Hin
                          v Hd3 Hd15 L k sigma HL Hc Hok).
Qed.
Print Assumptions C07_replay_sched.
