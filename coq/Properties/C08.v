(* C08 — output stream: next-message lookup correct under every interleaving of the
   lock-protected sections, for any number of reader threads (liveness as safety: Go scheduler
   fairness is not modelled).  [exec ls r]: r is reached from the fresh stream by the labels ls
   (Add/Delete/Get/reader sections/cancel/Interrupt/Close/cache eviction/thread creation), each
   obeying the schedule discipline [ok_label]; [contents ls]: what was added and not deleted. *)
From Coq Require Import NArith List.
From stdpp Require Import gmap.
From RV Require Import Out.OutSeq Out.OutConc Out.OutProofs.
Import ListNotations.
Local Open Scope N_scope.

Theorem C08_get : forall ls c x,
  exec ls (Running c) -> fst (get (c_out c) x) = contents ls !! x.
Proof. exact get_spec. Qed.
Print Assumptions C08_get.

Theorem C08_getnext_safe : forall ls c t th k b,
  exec ls (Running c) ->
  c_threads c !! t = Some th -> t_st th = TDone (Some (k, b)) ->
  exists ls1 ls2 c1 th1,
    ls = ls1 ++ ls2 /\ exec ls1 (Running c1) /\
    c_threads c1 !! t = Some th1 /\ t_x th1 = t_x th /\ (t_st th1 = TStart \/ t_st th1 = TLoop) /\
    is_successor (contents ls1) (t_x th) k b.
Proof. exact getnext_safe. Qed.
Print Assumptions C08_getnext_safe.

Theorem C08_no_panic : forall ls r, exec ls r -> exists c, r = Running c.
Proof. exact no_panic. Qed.
Print Assumptions C08_no_panic.

Theorem C08_no_lost_wakeup : forall ls c t th,
  exec ls (Running c) -> c_threads c !! t = Some th -> t_st th = TWait ->
  no_successor (contents ls) (t_x th).
Proof. exact no_lost_wakeup. Qed.
Print Assumptions C08_no_lost_wakeup.

Theorem C08_reader_returns_successor : forall ls c t th k b,
  exec ls (Running c) -> is_closed ls = false ->
  c_threads c !! t = Some th -> (forall r, t_st th <> TDone r) ->
  is_successor (contents ls) (t_x th) k b ->
  exists c', cstep c (LReader t) = Some (Running c') /\
             c_threads c' !! t = Some (Thread (t_x th) (TDone (Some (k, b))) (t_cancelled th)).
Proof. exact reader_returns_successor. Qed.
Print Assumptions C08_reader_returns_successor.

Theorem C08_broadcast_wakes_all : forall c l c' t th,
  (l = LInterrupt \/ l = LClose \/ exists id m, l = LAdd id m) ->
  cstep c l = Some (Running c') -> c_threads c' !! t = Some th -> t_st th <> TWait.
Proof. exact broadcast_wakes_all. Qed.
Print Assumptions C08_broadcast_wakes_all.

Theorem C08_cancel : forall ls c t th,
  exec ls (Running c) -> c_threads c !! t = Some th -> t_st th = TLoop -> t_cancelled th = true ->
  no_successor (contents ls) (t_x th) ->
  exists c', cstep c (LReader t) = Some (Running c') /\
             c_threads c' !! t = Some (Thread (t_x th) (TDone None) true).
Proof. exact cancel_returns_empty. Qed.
Print Assumptions C08_cancel.

Theorem C08_empty_only_if_cancelled : forall ls c t th,
  exec ls (Running c) -> c_threads c !! t = Some th -> t_st th = TDone None ->
  t_cancelled th = true \/ is_closed ls = true.
Proof. exact empty_only_if_cancelled_or_closed. Qed.
Print Assumptions C08_empty_only_if_cancelled.

(* Close (d929c6d): after Close no reader stays blocked - none is suspended, and the next section of
   every GetNext that is running (parked when Close happened, or started afterwards) returns empty *)
Theorem C08_close_wakes_readers : forall ls c t th,
  exec ls (Running c) -> is_closed ls = true -> c_threads c !! t = Some th ->
  t_st th <> TWait /\
  ((t_st th = TStart \/ t_st th = TLoop) ->
   exists c', cstep c (LReader t) = Some (Running c') /\
              c_threads c' !! t = Some (Thread (t_x th) (TDone None) (t_cancelled th)) /\
              c_closed c' = true).
Proof. exact close_wakes_readers. Qed.
Print Assumptions C08_close_wakes_readers.

Theorem C08_closed_iff_close_happened : forall ls c,
  exec ls (Running c) -> c_closed c = is_closed ls.
Proof. exact closed_iff_close_happened. Qed.
Print Assumptions C08_closed_iff_close_happened.

Theorem C08_closed_is_stable : forall ls l, is_closed ls = true -> is_closed (ls ++ [l]) = true.
Proof. exact closed_is_stable. Qed.
Print Assumptions C08_closed_is_stable.

(* executions without Close: the extra side condition of [exec] on closed streams is vacuous, so
   every theorem above is, for them, the statement it was before Close existed
   (is_closed ls = false: C08_reader_returns_successor applies, C08_empty_only_if_cancelled
   gives t_cancelled th = true) *)
Theorem C08_no_close_discipline : forall ls l,
  is_closed ls = false -> (is_closed ls = true -> ok_after_close l).
Proof. exact no_close_discipline. Qed.
Print Assumptions C08_no_close_discipline.

Theorem C08_property_discipline : forall ls l,
  (forall l', In l' ls -> l' <> LDelete 0) ->
  property_discipline (contents ls) l -> ok_label (contents ls) l.
Proof. exact property_discipline_ok. Qed.
Print Assumptions C08_property_discipline.
