(* IrcProofs/Recipients3.v — what the site relation of Recipients2.v says in the words of C12 and C17:
   who may receive a numeric, an ERROR, a membership event; under which prefix a client's lines are relayed;
   that every recipient is a session that exists; that an ended session receives nothing further. *)
From stdpp Require Import gmap.
From Coq Require Import Strings.String Strings.Ascii ZArith NArith Lia.
From RV Require Import Base.Text Irc.Str Irc.Parse Irc.State Irc.Monad Irc.Cmds Irc.SCmds Irc.Apply.
From RV Require Import IrcProofs.WP IrcProofs.Inv IrcProofs.InvPrims IrcProofs.StrLemmas IrcProofs.Handlers IrcProofs.Top.
From RV Require Import IrcProofs.Recipients IrcProofs.Examples IrcProofs.Recipients2.
Local Open Scope string_scope.

(* ====================================================================================================== *)
(* 1. Where the ids computed by the recipient functions come from (no invariant needed)                   *)
(* ====================================================================================================== *)
Lemma ids_of_members_in sv l ids id :
  ids_of_members sv l = Ok ids -> In id ids -> exists n (k' : N * N), In n l /\ sv_nicks sv !! n = Some k' /\ id = fst k'.
Proof. intros H Hin. now apply (ids_of_members_spec sv l ids id H). Qed.

Lemma ids_of_members_but_in sv but l ids id :
  ids_of_members_but sv but l = Ok ids -> In id ids ->
  exists n (k' : N * N), In n l /\ sv_nicks sv !! n = Some k' /\ k' <> but /\ id = fst k'.
Proof.
  revert ids. induction l as [|n l IH]; intros ids H Hin; cbn [ids_of_members_but] in H.
  - injection H as <-. destruct Hin.
  - destruct (sv_nicks sv !! n) as [k0|] eqn:Hk; [|injection H as <-; destruct Hin].
    destruct (ids_of_members_but sv but l) as [ids'| |] eqn:Hl; try discriminate. injection H as <-.
    assert (Hrec : In id ids' -> exists n0 (k' : N * N), In n0 (n :: l) /\ sv_nicks sv !! n0 = Some k' /\ k' <> but /\ id = fst k').
    { intros Hi. destruct (IH _ eq_refl Hi) as (n0 & k' & Hn0 & H0). exists n0, k'. split; [now right|exact H0]. }
    case_bool_decide as Hb; [now apply Hrec|]. destruct Hin as [<-|Hi]; [|now apply Hrec].
    exists n, k0. split; [now left|auto].
Qed.

Lemma rc_channel_in sv c ids id :
  rc_channel sv c = Ok ids -> In id ids ->
  exists n (k' : N * N), is_Some (c_nicks c !! n) /\ sv_nicks sv !! n = Some k' /\ id = fst k'.
Proof.
  intros H Hin. destruct (ids_of_members_in _ _ _ _ H Hin) as (n & k' & Hn & Hk & ->).
  exists n, k'. split; [now apply members_spec|auto].
Qed.

Lemma rc_channel_but_in sv c but ids id :
  rc_channel_but sv c but = Ok ids -> In id ids ->
  exists n (k' : N * N), is_Some (c_nicks c !! n) /\ sv_nicks sv !! n = Some k' /\ k' <> but /\ id = fst k'.
Proof.
  unfold rc_channel_but. destruct (ids_of_members sv (members c)); try discriminate. intros H Hin.
  destruct (ids_of_members_but_in _ _ _ _ _ H Hin) as (n & k' & Hn & Hk & Hne & ->).
  exists n, k'. split; [now apply members_spec|auto].
Qed.

Lemma rc_common_aux_in sv chs ids id :
  rc_common_aux sv chs = Ok ids -> In id ids ->
  exists lc c n (k' : N * N), In lc chs /\ sv_channels sv !! lc = Some c /\ is_Some (c_nicks c !! n) /\
                              sv_nicks sv !! n = Some k' /\ id = fst k'.
Proof.
  revert ids. induction chs as [|ch chs IH]; intros ids H Hin; cbn [rc_common_aux] in H.
  - injection H as <-. destruct Hin.
  - assert (Hrec : forall ids', rc_common_aux sv chs = Ok ids' -> In id ids' ->
              exists lc c n (k' : N * N), In lc (ch :: chs) /\ sv_channels sv !! lc = Some c /\ is_Some (c_nicks c !! n) /\
                                          sv_nicks sv !! n = Some k' /\ id = fst k').
    { intros ids' H' Hi. destruct (IH _ H' Hi) as (lc & c & n & k' & Hlc & H0). exists lc, c, n, k'. split; [now right|exact H0]. }
    destruct (sv_channels sv !! ch) as [c|] eqn:Hc; [|now apply (Hrec ids)].
    destruct (rc_channel sv c) as [a| |] eqn:Ha; try discriminate.
    destruct (rc_common_aux sv chs) as [b| |] eqn:Hb; try discriminate. injection H as <-.
    apply in_app_or in Hin. destruct Hin as [Hi|Hi]; [|now apply (Hrec b)].
    destruct (rc_channel_in _ _ _ _ Ha Hi) as (n & k' & Hn & Hk & ->). exists ch, c, n, k'. split; [now left|auto].
Qed.

Lemma rc_common_in sv s ids id :
  rc_common sv s = Ok ids -> In id ids ->
  exists lc c n (k' : N * N), lc ∈ s_channels s /\ sv_channels sv !! lc = Some c /\ is_Some (c_nicks c !! n) /\
                              sv_nicks sv !! n = Some k' /\ id = fst k'.
Proof.
  intros H Hin. destruct (rc_common_aux_in _ _ _ _ H Hin) as (lc & c & n & k' & Hlc & H0).
  exists lc, c, n, k'. split; [|exact H0]. apply elem_of_elements, elem_of_list_In. exact Hlc.
Qed.

Lemma rc_all_in sv id : In id (rc_all sv) -> exists n (k' : N * N), sv_nicks sv !! n = Some k' /\ id = fst k'.
Proof.
  unfold rc_all. intros Hin. apply elem_of_list_In, elem_of_list_fmap in Hin. destruct Hin as (k' & -> & Hin).
  apply elem_of_list_fmap in Hin. destruct Hin as ([n k''] & -> & Hin). apply elem_of_map_to_list in Hin.
  exists n, k''. auto.
Qed.

(* ====================================================================================================== *)
(* 2. What a recipient kind says about a single recipient                                                 *)
(* ====================================================================================================== *)
Section Just.
  Variables D DS : N -> Prop.
  Variable net : string.
  Variable k : N * N.
  Variable srv : bool.
  Notation JJ := (JJ D DS net).
  Notation Act := (Act D DS net k srv).

  (* [mid sv]: sv is a state the handler saw during the step (all that is recorded of it is the invariant) *)
  Definition member_of (sv : server) (lc : string) (id : N) : Prop :=
    exists c n (k' : N * N), sv_channels sv !! lc = Some c /\ is_Some (c_nicks c !! n) /\ sv_nicks sv !! n = Some k' /\ id = fst k'.

  Definition just (kd : rkind) (id : N) : Prop :=
    match kd with
    | KAct k' => id = fst k' /\ Act k'
    | KNick n k' => id = fst k' /\ exists sv, JJ sv /\ sv_nicks sv !! n = Some k'
    | KSvc => exists sv, JJ sv /\ In id (sv_serverSessions sv)
    | KChan lc | KBut lc => exists sv, JJ sv /\ member_of sv lc id
    | KCommon k0 => exists sv s lc, JJ sv /\ sv_sessions sv !! k0 = Some s /\ lc ∈ s_channels s /\ member_of sv lc id
    | KAll => exists sv n (k' : N * N), JJ sv /\ sv_nicks sv !! n = Some k' /\ id = fst k'
    end.

  Lemma piece_just kd rc : piece D DS net k srv kd rc -> forall id, In id rc -> just kd id.
  Proof.
    intros Hp id Hin. destruct Hp as [k' HA|sv n k' HJ Hn|sv HJ|sv lc c rc HJ Hc Hrc|sv lc c but rc HJ Hc Hrc|sv k' s rc HJ Hs Hrc|sv HJ];
      cbn [just]; unfold rc_user, rc_services in *.
    - destruct Hin as [<-|[]]. auto.
    - destruct Hin as [<-|[]]. split; [reflexivity|]. now exists sv.
    - now exists sv.
    - destruct (rc_channel_in _ _ _ _ Hrc Hin) as (n & k' & Hn & Hk & ->). exists sv. split; [exact HJ|]. now exists c, n, k'.
    - destruct (rc_channel_but_in _ _ _ _ _ Hrc Hin) as (n & k' & Hn & Hk & _ & ->). exists sv. split; [exact HJ|]. now exists c, n, k'.
    - destruct (rc_common_in _ _ _ _ Hrc Hin) as (lc & c & n & k'' & Hlc & Hc & Hn & Hk & ->).
      exists sv, s, lc. split; [exact HJ|]. split; [exact Hs|]. split; [exact Hlc|]. now exists c, n, k''.
    - destruct (rc_all_in _ _ Hin) as (n & k' & Hk & ->). now exists sv, n, k'.
  Qed.

  Lemma Rc_just ks rc : Rc D DS net k srv ks rc -> forall id, In id rc -> exists kd, In kd ks /\ just kd id.
  Proof.
    induction 1 as [kd rc Hp|ks1 ks2 rc1 rc2 H1 IH1 H2 IH2]; intros id Hin.
    - exists kd. split; [now left|]. eapply piece_just; eauto.
    - apply in_app_or in Hin. destruct Hin as [Hi|Hi]; [destruct (IH1 _ Hi) as (kd & Hk & Hj)|destruct (IH2 _ Hi) as (kd & Hk & Hj)];
        exists kd; (split; [apply in_or_app; auto|exact Hj]).
  Qed.

  Lemma Rc_nonnil ks rc : Rc D DS net k srv ks rc -> ks <> [].
  Proof. induction 1 as [|ks1 ks2 ? ? ? IH1 ? IH2]; [discriminate|]. destruct ks1; [congruence|discriminate]. Qed.

  Lemma Rc_single kd rc : Rc D DS net k srv [kd] rc -> piece D DS net k srv kd rc.
  Proof.
    intros H. remember [kd] as ks eqn:E. revert kd E. induction H as [kd' rc Hp|ks1 ks2 rc1 rc2 H1 IH1 H2 IH2]; intros kd E.
    - injection E as ->. exact Hp.
    - exfalso. pose proof (Rc_nonnil _ _ H1). pose proof (Rc_nonnil _ _ H2).
      destruct ks1 as [|a [|b ks1]]; [congruence| |discriminate]. cbn in E. injection E as _ E. congruence.
  Qed.

  Lemma just_D kd id : D (fst k) -> just kd id -> D id \/ DS id.
  Proof.
    intros Dk. destruct kd as [k'|n k'| |lc|lc|k0|]; cbn [just].
    - intros [-> HA]. left. eapply Act_D; eauto.
    - intros [-> (sv & HJ & Hn)]. left. eapply j_nicks; eauto.
    - intros (sv & HJ & Hin). right. eapply j_srv; eauto.
    - intros (sv & HJ & c & n & k' & _ & _ & Hk & ->). left. eapply j_nicks; eauto.
    - intros (sv & HJ & c & n & k' & _ & _ & Hk & ->). left. eapply j_nicks; eauto.
    - intros (sv & s & lc & HJ & _ & _ & c & n & k' & _ & _ & Hk & ->). left. eapply j_nicks; eauto.
    - intros (sv & n & k' & HJ & Hk & ->). left. eapply j_nicks; eauto.
  Qed.
End Just.

(* ====================================================================================================== *)
(* 3. The invariant along histories, and the instance for one step                                        *)
(* ====================================================================================================== *)
Definition TT : N -> Prop := fun _ => True.
(* stored prefixes are up to date, sessions are stored under their own key, channels under their lowered name *)
Definition PInv (sv : server) : Prop := JJ TT TT (sv_netname sv) sv.

Lemma PInv_init net : PInv (init_server net).
Proof.
  split; cbn; try (intros *; rewrite lookup_empty; discriminate); try reflexivity.
  all: try (intros k s H; rewrite lookup_empty in H; discriminate).
  all: try (intros id []).
Qed.

Lemma apply_entry_same e sv en sv' :
  apply_entry e sv en = OSessionLimit sv' \/ apply_entry e sv en = OSkip sv' -> sv' = sv.
Proof.
  destruct en; cbn [apply_entry].
  - unfold create_session, bindM, getS, retM, modS. destruct (_ && _); cbn; intros [H|H]; congruence.
  - destruct (sv_sessions sv !! _); [|intros [H|H]; discriminate]. unfold run_handler.
    destruct (process_message _ _ _ _ _ _) as [[[[] ?] ?]|?|?]; intros [H|H]; discriminate.
  - destruct (is_retry _ _ _); [intros [H|H]; discriminate|].
    destruct (update_last_cmid _ _ _ _ _); [|intros [H|H]; congruence]. unfold run_handler.
    destruct (process_message _ _ _ _ _ _) as [[[[] ?] ?]|?|?]; intros [H|H]; discriminate.
  - destruct (update_last_cmid _ _ _ _ _); intros [H|H]; congruence.
  - destruct (config_in_force _ _ _); intros [H|H]; discriminate.
Qed.

Lemma apply_entry_PInv e sv en sv' :
  PInv sv -> entry_result (apply_entry e sv en) = Some sv' -> PInv sv'.
Proof.
  intros HP Hr. destruct (apply_entry e sv en) as [sv1 out| sv1 | sv1 | |] eqn:Ha; cbn in Hr; try discriminate; injection Hr as ->.
  - destruct (entry_sites TT TT (sv_netname sv) e sv en sv' out HP Logic.I Ha) as [_ HJ].
    assert (HJ' : JJ TT TT (sv_netname sv) sv') by (apply HJ; destruct en; exact Logic.I).
    unfold PInv. rewrite (j_net _ _ _ _ HJ'). exact HJ'.
  - rewrite (apply_entry_same e sv en sv' (or_introl Ha)). exact HP.
  - rewrite (apply_entry_same e sv en sv' (or_intror Ha)). exact HP.
Qed.

Record SInv (sv : server) : Prop := { s_einv : EInv sv; s_pinv : PInv sv }.

Lemma SInv_init net : SInv (init_server net).
Proof. split; [apply EInv_init|apply PInv_init]. Qed.

Lemma apply_entry_SInv e sv en sv' :
  SInv sv -> wf_entry sv en -> entry_result (apply_entry e sv en) = Some sv' -> SInv sv'.
Proof.
  intros [E P] Hwf Hr. split; [|eapply apply_entry_PInv; eauto].
  destruct (apply_entry_ok e sv en E Hwf) as (sv1 & Hr1 & E1). congruence.
Qed.

Lemma run_SInv e es : forall sv sv', SInv sv -> wf_history e sv es -> run e sv es = Some sv' -> SInv sv'.
Proof.
  induction es as [|en es IH]; intros sv sv' HS Hwf Hrun; cbn [run] in Hrun.
  - now injection Hrun as <-.
  - destruct Hwf as [Hen Hrest]. destruct (entry_result (apply_entry e sv en)) as [sv1|] eqn:Hr; [|discriminate].
    eapply IH; [eapply apply_entry_SInv; eauto|now apply Hrest|exact Hrun].
Qed.

(* (4), the invariant: the stored prefix of every client session that has a nickname is nick!user@robust/0x<id> *)
Theorem prefix_invariant e net es sv :
  run e (init_server net) es = Some sv ->
  forall (k : N * N) s, sv_sessions sv !! k = Some s ->
    s_key s = k /\
    (s_server s = false -> s_nick s <> "" -> s_prefix s = Prefix (s_nick s) (s_user s) ("robust/0x" ++ hex_of_N (fst k))).
Proof.
  intros Hrun. assert (HP : PInv sv).
  { revert Hrun. generalize (PInv_init net). generalize (init_server net). induction es as [|en es IH]; intros sv0 HP0 Hrun; cbn [run] in Hrun.
    - now injection Hrun as <-.
    - destruct (entry_result (apply_entry e sv0 en)) as [sv1|] eqn:Hr; [|discriminate].
      eapply IH; [eapply apply_entry_PInv; eauto|exact Hrun]. }
  intros k s Hs. destruct (j_sess _ _ _ _ HP _ _ Hs) as (_ & Hk & Hp). split; [exact Hk|].
  intros Hsv Hn. rewrite (Hp Hsv Hn). unfold mk_prefix. now rewrite Hk.
Qed.

(* some session with this id part exists (a client session (id,0), or a pseudo-client (id,r) of services link id) *)
Definition has_id (sv : server) (id : N) : Prop := exists k' : N * N, fst k' = id /\ is_Some (sv_sessions sv !! k').
Definition links (sv : server) (k : N * N) (id : N) : Prop := In id (sv_serverSessions sv) \/ id = fst k.

Lemma JJ_local sv (k : N * N) : PInv sv -> InvM sv -> JJ (has_id sv) (links sv k) (sv_netname sv) sv.
Proof.
  intros HP I. split.
  - intros k' s Hs. destruct (j_sess _ _ _ _ HP _ _ Hs) as (_ & Hk & Hp). split; [|auto]. exists k'. split; [reflexivity|now exists s].
  - intros n k' Hn. destruct (i_idx_sound sv I _ _ Hn) as (_ & s & Hs & _). exists k'. split; [reflexivity|now exists s].
  - intros id Hin. now left.
  - apply (j_chan _ _ _ _ HP).
  - reflexivity.
Qed.

(* the master statement: every output of every entry has a site justification relative to the state before *)
Theorem outputs_sites e sv en sv' out :
  SInv sv -> apply_entry e sv en = OOk sv' out ->
  Forall (outP (has_id sv) (links sv (entry_key en)) (sv_netname sv) (entry_key en) (entry_srv sv en)) out /\
  (match en with ECreate _ _ _ => False | _ => True end ->
   JJ (has_id sv) (links sv (entry_key en)) (sv_netname sv) sv').
Proof.
  intros [E P] Ha.
  destruct (entry_sites _ _ _ e sv en sv' out (JJ_local sv (entry_key en) P (e_inv _ E)) (or_intror eq_refl) Ha) as [H1 H2].
  split; [exact H1|]. intros Hne. apply H2. destruct en; try exact Logic.I. destruct Hne.
Qed.

Lemma outputs_need_session e sv en sv' out o :
  apply_entry e sv en = OOk sv' out -> In o out -> is_Some (sv_sessions sv !! entry_key en).
Proof.
  destruct en; cbn [apply_entry entry_key].
  - unfold create_session, bindM, getS, retM, modS. destruct (_ && _); cbn; [discriminate|]. intros [= _ <-] [].
  - destruct (sv_sessions sv !! _) as [s|]; [now eexists|]. intros [= _ <-] [].
  - destruct (is_retry _ _ _); [intros [= _ <-] []|]. unfold update_last_cmid.
    destruct (sv_sessions sv !! _) as [s|]; [now eexists|discriminate].
  - destruct (update_last_cmid _ _ _ _ _); [|discriminate]. intros [= _ <-] [].
  - destruct (config_in_force _ _ _); intros [= _ <-] [].
Qed.

(* ====================================================================================================== *)
(* 4. The statements of C12                                                                               *)
(* ====================================================================================================== *)
Lemma set_of_ids_single x : set_of_ids [x] = [x].
Proof. reflexivity. Qed.

Lemma has_id_key sv (k : N * N) : is_Some (sv_sessions sv !! k) -> has_id sv (fst k).
Proof. intros H. exists k. auto. Qed.

Section Step.
  Variables (e : env) (sv : server) (en : entry) (sv' : server) (out : list omsg).
  Hypothesis HS : SInv sv.
  Hypothesis Ha : apply_entry e sv en = OOk sv' out.
  Let k := entry_key en.
  Let srv := entry_srv sv en.
  Notation JJl := (JJ (has_id sv) (links sv k) (sv_netname sv)).

  Lemma step_outP o : In o out -> outP (has_id sv) (links sv k) (sv_netname sv) k srv o.
  Proof. intros Hin. destruct (outputs_sites e sv en sv' out HS Ha) as [H _]. rewrite Forall_forall in H. now apply H. Qed.

  Lemma step_Dk o : In o out -> has_id sv (fst k).
  Proof. intros Hin. apply has_id_key. eapply outputs_need_session; eauto. Qed.

  (* (3), the table: every recipient of every output is accounted for by a recipient kind that the rule table
     allows for the command word of the message *)
  Theorem recipients_by_kind o :
    In o out ->
    exists m ks, o_data o = msg_bytes m /\ kinds_ok srv (ucmd m) (hd0 m) ks /\
      forall id, In id (o_rcpt o) -> exists kd, In kd ks /\ just (has_id sv) (links sv k) (sv_netname sv) k srv kd id.
  Proof.
    intros Hin. destruct (step_outP o Hin) as (rc & m & (ks & HRc & Hk & _) & Hd & Hr).
    exists m, ks. split; [exact Hd|]. split; [exact Hk|]. intros id Hid. rewrite Hr in Hid. apply (proj1 (set_of_ids_In _ _)) in Hid.
    exact (Rc_just _ _ _ _ _ ks rc HRc id Hid).
  Qed.

  (* (5), one step: whoever receives anything is a session that exists before the step, or is listed as a services link *)
  Theorem recipients_exist o id :
    In o out -> In id (o_rcpt o) -> has_id sv id \/ In id (sv_serverSessions sv).
  Proof.
    intros Hin Hid. destruct (recipients_by_kind o Hin) as (m & ks & _ & _ & Hj). destruct (Hj id Hid) as (kd & _ & Hkd).
    destruct (just_D _ _ _ _ _ kd id (step_Dk o Hin) Hkd) as [H|[H| ->]]; auto. left. exact (step_Dk o Hin).
  Qed.

  (* (1): a numeric reply goes to the session whose message is being processed and to nobody else; numerics caused
     by a services link go to one session (the link, or the client it acts on: SVSJOIN) or to the services links *)
  Theorem numeric_addressing o :
    In o out ->
    exists m, o_data o = msg_bytes m /\
      (is_numeric (ucmd m) = true ->
       o_rcpt o = [fst k] \/
       (srv = true /\ ((exists k' : N * N, o_rcpt o = [fst k'] /\ has_id sv (fst k')) \/
                       (forall id, In id (o_rcpt o) -> In id (sv_serverSessions sv) \/ id = fst k)))).
  Proof.
    intros Hin. destruct (step_outP o Hin) as (rc & m & (ks & HRc & Hk & _) & Hd & Hr).
    exists m. split; [exact Hd|]. intros Hnum. unfold kinds_ok, cls in Hk. rewrite Hnum in Hk.
    destruct Hk as [[k' ->]|[Hsrv ->]]; apply Rc_single in HRc; inversion HRc; subst.
    - rewrite Hr. unfold rc_user. rewrite set_of_ids_single.
      match goal with HA : Act _ _ _ _ _ _ |- _ => destruct HA as [->|[Hsrv (svx & n & HJ & Hn)]] end; [now left|].
      right. split; [exact Hsrv|]. left. exists k'. split; [reflexivity|]. eapply j_nicks; eauto.
    - right. split; [exact Hsrv|]. right. intros id Hid. rewrite Hr in Hid. apply (proj1 (set_of_ids_In _ _)) in Hid.
      match goal with HJ : JJ _ _ _ ?svx |- _ => exact (j_srv _ _ _ _ HJ id Hid) end.
  Qed.

  (* (2), addressing: an ERROR goes to exactly one session: the one whose message is processed, or the owner of a
     nickname (the victim of a KILL) *)
  Theorem error_addressing o :
    In o out ->
    exists m, o_data o = msg_bytes m /\
      (ucmd m = "ERROR" ->
       exists k' : N * N, o_rcpt o = [fst k'] /\
         (k' = k \/ exists svx n, JJl svx /\ sv_nicks svx !! n = Some k')).
  Proof.
    intros Hin. destruct (step_outP o Hin) as (rc & m & (ks & HRc & Hk & _) & Hd & Hr).
    exists m. split; [exact Hd|]. intros Herr. unfold kinds_ok in Hk. rewrite Herr in Hk.
    change (cls "ERROR") with CErr in Hk. cbv iota in Hk.
    destruct Hk as [[k' ->]|(n & k' & ->)]; apply Rc_single in HRc; inversion HRc; subst; exists k'.
    - rewrite Hr. unfold rc_user. rewrite set_of_ids_single. split; [reflexivity|].
      match goal with HA : Act _ _ _ _ _ _ |- _ => destruct HA as [->|[Hsrv (svx & n & HJ & Hn)]] end; [now left|].
      right. now exists svx, n.
    - rewrite Hr. unfold rc_user. rewrite set_of_ids_single. split; [reflexivity|]. right. eauto.
  Qed.

  (* (4): a client cannot choose the prefix of what it says: every line relayed on behalf of a client session
     carries no prefix, the server's, or the prefix stored in the session record of that client (in a QUIT: of the
     session that ends) — and a stored prefix is nick!user@robust/0x<session id> *)
  Theorem prefix_identity o :
    srv = false -> In o out ->
    exists m, o_data o = msg_bytes m /\
      match m_prefix m with
      | None => True
      | Some p =>
          p = Prefix (sv_netname sv) "" "" \/
          (exists nick, p = Prefix nick "" "" /\ ucmd m = "TOPIC") \/
          (exists (k' : N * N) s, s_key s = k' /\ p = s_prefix s /\ (k' = k \/ ucmd m = "QUIT") /\
             (s_server s = false -> s_nick s <> "" ->
              p = Prefix (s_nick s) (s_user s) ("robust/0x" ++ hex_of_N (fst k'))))
      end.
  Proof.
    intros Hsrv Hin. destruct (step_outP o Hin) as (rc & m & (ks & _ & _ & Hp) & Hd & _).
    exists m. split; [exact Hd|]. unfold PfM in Hp. destruct (m_prefix m) as [p|]; [|exact Logic.I].
    destruct Hp as [Hp|[Hp|[(k' & s & [Hk HOK] & -> & Hw)|Hp]]]; [now left|congruence| |now (right; left)].
    right. right. exists k', s. repeat split; auto. intros Hs Hn. rewrite (HOK Hs Hn). unfold mk_prefix. now rewrite Hk.
  Qed.
End Step.

(* ====================================================================================================== *)
(* 5. C17, last clause: an ended session receives nothing further                                         *)
(* ====================================================================================================== *)
Definition creates (id : N) (en : entry) : Prop := match en with ECreate id' _ _ => id' = id | _ => False end.

(* ids of sessions only come into being by CreateSession (pseudo-clients carry the id of their link) *)
Lemma has_id_step e sv en sv' id :
  SInv sv -> entry_result (apply_entry e sv en) = Some sv' -> has_id sv' id -> has_id sv id \/ creates id en.
Proof.
  intros HS Hr. destruct (apply_entry e sv en) as [sv1 out| sv1 | sv1 | |] eqn:Ha; cbn in Hr; try discriminate; injection Hr as ->.
  - destruct en as [id0 un auth| | | |].
    + cbn [apply_entry] in Ha. unfold create_session, bindM, getS, retM, modS in Ha. destruct (_ && _); cbn in Ha; [discriminate|].
      injection Ha as <- _. intros (k' & Hk & Hp). cbn [sv_sessions set_sessions] in Hp.
      destruct (decide ((id0, 0%N) = k')) as [<-|Hne]; [right; exact Hk|]. rewrite lookup_insert_ne in Hp by assumption.
      left. now exists k'.
    + destruct (outputs_sites e sv _ sv' out HS Ha) as [_ HJ]. specialize (HJ Logic.I).
      intros (k' & <- & [s Hs]). left. apply (j_sess _ _ _ _ HJ _ _ Hs).
    + destruct (outputs_sites e sv _ sv' out HS Ha) as [_ HJ]. specialize (HJ Logic.I).
      intros (k' & <- & [s Hs]). left. apply (j_sess _ _ _ _ HJ _ _ Hs).
    + destruct (outputs_sites e sv _ sv' out HS Ha) as [_ HJ]. specialize (HJ Logic.I).
      intros (k' & <- & [s Hs]). left. apply (j_sess _ _ _ _ HJ _ _ Hs).
    + destruct (outputs_sites e sv _ sv' out HS Ha) as [_ HJ]. specialize (HJ Logic.I).
      intros (k' & <- & [s Hs]). left. apply (j_sess _ _ _ _ HJ _ _ Hs).
  - rewrite (apply_entry_same e sv en sv' (or_introl Ha)). auto.
  - rewrite (apply_entry_same e sv en sv' (or_intror Ha)). auto.
Qed.

(* the list of services links only grows by a session that exists *)
Lemma links_step e sv en sv' id :
  SInv sv -> entry_result (apply_entry e sv en) = Some sv' -> In id (sv_serverSessions sv') ->
  In id (sv_serverSessions sv) \/ has_id sv id.
Proof.
  intros HS Hr. destruct (apply_entry e sv en) as [sv1 out| sv1 | sv1 | |] eqn:Ha; cbn in Hr; try discriminate; injection Hr as ->.
  - assert (Hgen : is_Some (sv_sessions sv !! entry_key en) -> match en with ECreate _ _ _ => False | _ => True end ->
                   In id (sv_serverSessions sv') -> In id (sv_serverSessions sv) \/ has_id sv id).
    { intros Hp Hne Hin. destruct (outputs_sites e sv _ sv' out HS Ha) as [_ HJ]. specialize (HJ Hne).
      destruct (j_srv _ _ _ _ HJ id Hin) as [H| ->]; [now left|right; now apply has_id_key]. }
    destruct en as [id0 un auth|id0 un session q|id0 un session cmid ra data|id0 un session cmid data|id0 un rev parsed];
      cbn [apply_entry entry_key] in *.
    + unfold create_session, bindM, getS, retM, modS in Ha. destruct (_ && _); cbn in Ha; [discriminate|].
      injection Ha as <- _. cbn. auto.
    + destruct (sv_sessions sv !! (session, 0%N)) as [s|] eqn:Hs; [apply Hgen; [now eexists|exact Logic.I]|].
      injection Ha as <- _. auto.
    + destruct (is_retry _ _ sv); [injection Ha as <- _; auto|]. unfold update_last_cmid in Ha.
      destruct (sv_sessions sv !! (session, 0%N)) as [s|] eqn:Hs; [apply Hgen; [now eexists|exact Logic.I]|discriminate].
    + unfold update_last_cmid in Ha. destruct (sv_sessions sv !! (session, 0%N)) as [s|]; [|discriminate].
      injection Ha as <- _. cbn. auto.
    + destruct (config_in_force _ _ _); injection Ha as <- _; cbn; auto.
  - rewrite (apply_entry_same e sv en sv' (or_introl Ha)). auto.
  - rewrite (apply_entry_same e sv en sv' (or_intror Ha)). auto.
Qed.

(* Once no session carries the id any more (QUIT, KILL, ban, expiry and DELETE all end in MaybeDeleteSession
   removing the record) and the id is not in the list of services links, no output of any later entry is
   addressed to it — until a CreateSession entry with that very id, which the API never issues twice.
   The proviso on sv_serverSessions is the known stale-link entry (D13): the id of a services link stays in
   that list after the link is gone; the API delivers only to existing sessions, so nothing reaches it. *)
Theorem ended_session_silent e id : forall es1 sv en es2 svj sv' out,
  SInv sv -> ~ has_id sv id -> ~ In id (sv_serverSessions sv) ->
  wf_history e sv (es1 ++ en :: es2) -> Forall (fun en => ~ creates id en) es1 ->
  run e sv es1 = Some svj -> apply_entry e svj en = OOk sv' out ->
  forall o, In o out -> ~ In id (o_rcpt o).
Proof.
  induction es1 as [|a es1 IH]; intros sv en es2 svj sv' out HS Hno Hnl Hwf Hnc Hrun Ha o Ho Hid.
  - cbn in Hrun. injection Hrun as <-. destruct (recipients_exist e sv en sv' out HS Ha o id Ho Hid); contradiction.
  - cbn [run] in Hrun. cbn [app wf_history] in Hwf. destruct Hwf as [Hwa Hrest].
    destruct (entry_result (apply_entry e sv a)) as [sv1|] eqn:Hr; [|discriminate].
    inversion Hnc as [|? ? Hna Hnc']; subst.
    eapply (IH sv1 en es2 svj sv' out); eauto.
    + eapply apply_entry_SInv; eauto.
    + intros H1. destruct (has_id_step e sv a sv1 id HS Hr H1); contradiction.
    + intros H1. destruct (links_step e sv a sv1 id HS Hr H1); contradiction.
Qed.

(* the state after an entry that ended session [id]: the hypothesis of the theorem in the words of C17 *)
Corollary ended_session_silent_from_init e net id es0 es1 en es2 sv svj sv' out :
  wf_history e (init_server net) (es0 ++ es1 ++ en :: es2) ->
  run e (init_server net) es0 = Some sv ->
  ~ has_id sv id -> ~ In id (sv_serverSessions sv) -> Forall (fun en => ~ creates id en) es1 ->
  run e sv es1 = Some svj -> apply_entry e svj en = OOk sv' out ->
  forall o, In o out -> ~ In id (o_rcpt o).
Proof.
  intros Hwf Hrun0. assert (Hboth : SInv sv /\ wf_history e sv (es1 ++ en :: es2)).
  { revert Hwf Hrun0. generalize (SInv_init net). generalize (init_server net).
    induction es0 as [|a es0 IH]; intros sv0 HS0 Hwf Hrun0.
    - cbn in Hrun0. injection Hrun0 as <-. auto.
    - cbn [run] in Hrun0. cbn [app wf_history] in Hwf. destruct Hwf as [Hwa Hrest].
      destruct (entry_result (apply_entry e sv0 a)) as [sv1|] eqn:Hr; [|discriminate].
      apply (IH sv1); [eapply apply_entry_SInv; eauto|now apply Hrest|exact Hrun0]. }
  destruct Hboth as [HS Hwf']. intros. eapply ended_session_silent; eauto.
Qed.

(* ====================================================================================================== *)
(* 6. Non-vacuity                                                                                         *)
(* ====================================================================================================== *)
Definition has_id_b (sv : server) (id : N) : bool :=
  existsb (fun kv : N * N * session => N.eqb (fst (fst kv)) id) (map_to_list (sv_sessions sv)).
Lemma has_id_b_false sv id : has_id_b sv id = false -> ~ has_id sv id.
Proof.
  intros H (k' & Hk & [s Hs]). unfold has_id_b in H.
  assert (Hin : In (k', s) (map_to_list (sv_sessions sv))) by (apply elem_of_list_In, elem_of_map_to_list; exact Hs).
  assert (Ht : existsb (fun kv : N * N * session => N.eqb (fst (fst kv)) id) (map_to_list (sv_sessions sv)) = true).
  { apply existsb_exists. exists (k', s). split; [exact Hin|]. cbn. now apply N.eqb_eq. }
  congruence.
Qed.

(* the example history of Examples.v, in which session 1 (Foo) ends by DELETE, continued by session 4 (bar)
   talking to the departed nickname and to the channel they shared *)
Definition ex_later : list entry :=
  [ EMessage 11 11000 4 25 "" "PRIVMSG Foo :are you there";
    EMessage 12 12000 4 26 "" "PRIVMSG #chan :anyone" ].
Definition ex_sv : server :=
  match run ex_env (init_server "robustirc.net") ex_history with Some sv => sv | None => init_server "" end.
Lemma ex_sv_run : run ex_env (init_server "robustirc.net") ex_history = Some ex_sv.
Proof. vm_compute. reflexivity. Qed.
Lemma ex_long_wf : wf_history ex_env (init_server "robustirc.net") (ex_history ++ ex_later).
Proof. apply wf_history_b_sound. vm_compute. reflexivity. Qed.

Lemma ex_sv_SInv : SInv ex_sv.
Proof. eapply run_SInv; [apply SInv_init|apply ex_history_wf|apply ex_sv_run]. Qed.

(* session 1 is gone after the example history, and both later entries do produce output *)
Example ex_ended : ~ has_id ex_sv 1 /\ ~ In 1%N (sv_serverSessions ex_sv).
Proof. split; [apply has_id_b_false; vm_compute; reflexivity|vm_compute; tauto]. Qed.

Definition rcpts_of (o : outcome) : option (list (list N)) :=
  match o with OOk _ out => Some (map o_rcpt out) | _ => None end.
Definition state_of (o : outcome) : server := match o with OOk sv _ => sv | _ => init_server "" end.
Definition ex_sv11 : server := state_of (apply_entry ex_env ex_sv (EMessage 11 11000 4 25 "" "PRIVMSG Foo :are you there")).
Example ex_later_outputs :
  rcpts_of (apply_entry ex_env ex_sv (EMessage 11 11000 4 25 "" "PRIVMSG Foo :are you there")) = Some [[4%N]] /\
  rcpts_of (apply_entry ex_env ex_sv11 (EMessage 12 12000 4 26 "" "PRIVMSG #chan :anyone")) = Some [[]].
Proof. split; vm_compute; reflexivity. Qed.

Example ex_ended_silent sv1 out1 :
  apply_entry ex_env ex_sv (EMessage 11 11000 4 25 "" "PRIVMSG Foo :are you there") = OOk sv1 out1 ->
  forall o, In o out1 -> ~ In 1%N (o_rcpt o).
Proof.
  intros Ha. destruct ex_ended as [H1 H2].
  eapply (ended_session_silent_from_init ex_env "robustirc.net" 1 ex_history [] _ [_] ex_sv ex_sv);
    [exact ex_long_wf|exact ex_sv_run|exact H1|exact H2|constructor|reflexivity|exact Ha].
Qed.

(* the step theorems apply to every entry of the example history: e.g. bar's JOIN #chan (entry 8), whose four
   outputs go to {1,4} (JOIN), nobody (SJOIN: no services), and 4 (the three numerics 324, 331.., 353, 366) *)
Definition ex_sv7 : server :=
  match run ex_env (init_server "robustirc.net") (firstn 7 ex_history) with Some sv => sv | None => init_server "" end.
Lemma ex_sv7_SInv : SInv ex_sv7.
Proof.
  eapply (run_SInv ex_env (firstn 7 ex_history)); [apply SInv_init| |vm_compute; reflexivity].
  apply wf_history_b_sound. vm_compute. reflexivity.
Qed.
Example ex_join_step :
  rcpts_of (apply_entry ex_env ex_sv7 (EMessage 8 8000 4 23 "" "JOIN #chan")) =
  Some [[1%N; 4%N]; []; [4%N]; [4%N]; [4%N]; [4%N]].
Proof. vm_compute. reflexivity. Qed.

Print Assumptions outputs_sites.
Print Assumptions recipients_by_kind.
Print Assumptions recipients_exist.
Print Assumptions numeric_addressing.
Print Assumptions error_addressing.
Print Assumptions prefix_identity.
Print Assumptions prefix_invariant.
Print Assumptions ended_session_silent.
Print Assumptions ended_session_silent_from_init.
