(* IrcProofs/Utf8Out.v — every output message of every entry of every history is well-formed UTF-8 when the log entries are
   (property C15; the purpose of the repair of N6).  Hence what a client receives through encoding/json is byte for byte
   what was stored, and no longer than 510 bytes.

   The logical relation [o8_ok] strengthens Utf8Handlers.u8_ok: it also constrains the emitted messages (every [emit rc m]
   has a well-formed prefix, command and parameters, hence well-formed [msg_bytes_full m], hence — by
   Utf8Trim.utf8_trim_stake — well-formed [msg_bytes m]).  Besides [u8] (the strings Marshal serialises) the values carry
   [x8]: the network name of a server value, the command word of a parsed line, and "a mode character is a byte". *)
From stdpp Require Import gmap.
From Coq Require Import Strings.String Strings.Ascii ZArith NArith Lia.
From RV Require Import Base.Text Irc.Str Irc.Parse Irc.State Irc.Monad Irc.Cmds Irc.SCmds Irc.Apply.
From RV Require Import IrcProofs.StrLemmas IrcProofs.Top IrcProofs.Utf8 IrcProofs.Utf8Handlers IrcProofs.Utf8Trim.
From RV Require IrcProofs.Outputs IrcProofs.Examples IrcProofs.Trim.
Local Open Scope string_scope.

(* ---- more string functions (those that only feed outputs) --------------------------------------------- *)
Lemma upper_nonascii c : is_ascii c = false -> chr (upper_byte (byte_of c)) = c.
Proof. destruct c as [[] [] [] [] [] [] [] []]; vm_compute; intros; congruence. Qed.
Lemma upper_ascii c : is_ascii c = true -> is_ascii (chr (upper_byte (byte_of c))) = true.
Proof. destruct c as [[] [] [] [] [] [] [] []]; vm_compute; intros; congruence. Qed.
Lemma to_upper_map s : to_upper s = map_bytes upper_byte s.
Proof. induction s as [|c r IH]; [reflexivity|]. cbn [to_upper map_bytes]. rewrite IH. reflexivity. Qed.
Lemma u8_to_upper s : u8 s -> u8 (to_upper s).
Proof.
  unfold u8, u8_string. rewrite !utf8_iff, to_upper_map.
  apply chk_map_bytes; [apply upper_ascii|apply upper_nonascii|left; reflexivity].
Qed.

Lemma digit_ascii n : (n < 10)%N -> is_ascii (ascii_of_N (48 + n)) = true.
Proof.
  intros H. assert (n = 0 \/ n = 1 \/ n = 2 \/ n = 3 \/ n = 4 \/ n = 5 \/ n = 6 \/ n = 7 \/ n = 8 \/ n = 9)%N as Hn by lia.
  repeat (destruct Hn as [->|Hn]; [reflexivity|]). subst. reflexivity.
Qed.
Lemma asciib_dec_of_N_aux f n acc : asciib acc = true -> asciib (dec_of_N_aux f n acc) = true.
Proof.
  revert n acc. induction f as [|f IH]; intros n acc H; cbn [dec_of_N_aux]; [exact H|]. cbv zeta.
  assert (asciib (String (ascii_of_N (48 + n mod 10)) acc) = true) as H'.
  { cbn [asciib]. rewrite H, digit_ascii; [reflexivity|]. apply N.mod_lt. discriminate. }
  destruct (_ =? 0)%N; [exact H'|apply IH; exact H'].
Qed.
Lemma u8_dec_of_N n : u8 (dec_of_N n).
Proof. apply utf8_asciib, asciib_dec_of_N_aux. reflexivity. Qed.
Lemma u8_dec_of_Z z : u8 (dec_of_Z z).
Proof.
  destruct z; cbn [dec_of_Z]; [reflexivity|apply u8_dec_of_N|]. apply utf8_String; [reflexivity|apply u8_dec_of_N].
Qed.
Lemma u8_dec_of_nat n : u8 (dec_of_nat n).
Proof. apply u8_dec_of_N. Qed.

Lemma utf8_string_of_ascii l : forallb is_ascii l = true -> utf8 (string_of_list l).
Proof.
  induction l as [|c l IH]; cbn [forallb string_of_list]; [reflexivity|]. intros H. apply andb_true_iff in H. destruct H.
  apply utf8_String; auto.
Qed.
Lemma u8_modestr_of m : u8 (modestr_of m).
Proof.
  unfold modestr_of. apply utf8_app; [reflexivity|]. apply utf8_string_of_ascii. apply forallb_forall. intros c Hc.
  apply in_map_iff in Hc. destruct Hc as (n & <- & Hn). apply filter_In in Hn. destruct Hn as [Hn _].
  assert (forallb (fun n => is_ascii (chr n)) mode_range = true) as Hb by (vm_compute; reflexivity).
  rewrite forallb_forall in Hb. exact (Hb n Hn).
Qed.

Lemma u8_insert_sorted x (l : list string) : u8 x -> u8 l -> u8 (insert_sorted x l).
Proof.
  intros Hx. induction 1 as [|y l Hy Hl IH]; cbn [insert_sorted]; [apply u8_cons; [exact Hx|apply u8_nil]|].
  destruct (String.leb x y); [apply u8_cons; [exact Hx|apply u8_cons; assumption]|apply u8_cons; assumption].
Qed.
Lemma u8_sort_strings (l : list string) : u8 l -> u8 (sort_strings l).
Proof. induction 1; cbn [sort_strings fold_right]; [apply u8_nil|]. apply u8_insert_sorted; assumption. Qed.
Lemma u8_dedup_sorted (l : list string) : u8 l -> u8 (dedup_sorted l).
Proof.
  unfold dedup_sorted. induction 1 as [|x l Hx Hl IH]; cbn [fold_right]; [apply u8_nil|].
  destruct (fold_right _ _ l) as [|y acc]; [apply u8_cons; [exact Hx|apply u8_nil]|].
  destruct (String.eqb x y); [exact IH|apply u8_cons; assumption].
Qed.
Lemma u8_removelast {A} `{U8 A} (l : list A) : u8 l -> u8 (removelast l).
Proof. induction 1 as [|x l Hx Hl IH]; cbn [removelast]; [apply u8_nil|]. destruct l; [apply u8_nil|apply u8_cons; assumption]. Qed.
Lemma u8_map_fst (l : list (string * string)) : u8 l -> u8 (map fst l).
Proof. induction 1 as [|x l Hx Hl IH]; cbn [map]; [apply u8_nil|]. apply u8_cons; [apply Hx|exact IH]. Qed.
Lemma u8_map_to_list_keys {A} `{U8 A} (m : gmap string A) : u8 m -> u8 (map_to_list m).*1.
Proof.
  intros Hm. apply Forall_forall. intros k Hk. apply in_map_iff in Hk. destruct Hk as ([k' a] & <- & Hin).
  apply elem_of_list_In, elem_of_map_to_list in Hin. exact (proj1 (Hm k' a Hin)).
Qed.

(* string(b) of a byte: the UTF-8 encoding of U+00bb *)
Lemma u8_go_string_of_byte_c c : u8 (go_string_of_byte (byte_of c)).
Proof. apply utf8_iff. destruct c as [[] [] [] [] [] [] [] []]; vm_compute; reflexivity. Qed.
Lemma u8_go_string_of_byte n : (n < 256)%N -> u8 (go_string_of_byte n).
Proof. intros H. rewrite <- (N_ascii_embedding n H). apply u8_go_string_of_byte_c. Qed.

(* extractPassword: the cut is made behind an ASCII prefix that was found in the lower-cased text *)
Lemma to_lower_prefix_ascii p : asciib p = true -> forall s, has_prefix p (to_lower s) = true -> asciib (stake (slen p) s) = true.
Proof.
  induction p as [|a p IH]; intros Hp s H; [reflexivity|]. cbn [asciib] in Hp. apply andb_true_iff in Hp. destruct Hp as [Ha Hp].
  destruct s as [|c r]; [discriminate|]. cbn [to_lower] in H. cbv zeta in H. unfold slen. cbn [String.length stake asciib].
  destruct (byte_of c =? 195)%N eqn:E.
  - exfalso. apply N.eqb_eq in E. assert (is_ascii c = false) as Hc by (unfold is_ascii; rewrite E; reflexivity).
    destruct r as [|d r']; [|destruct (_ && _)]; cbn [has_prefix] in H; apply andb_true_iff in H; destruct H as [H _];
      apply Ascii.eqb_eq in H; subst a; congruence.
  - cbn [has_prefix] in H. apply andb_true_iff in H. destruct H as [H1 H2]. apply Ascii.eqb_eq in H1.
    destruct (is_ascii c) eqn:Ec; [|rewrite (lower_nonascii c Ec) in H1; subst a; congruence].
    cbn [andb]. apply IH; assumption.
Qed.
Lemma utf8_sdrop_lower_prefix p s : asciib p = true -> has_prefix p (to_lower s) = true -> utf8 s -> utf8 (sdrop (slen p) s).
Proof.
  intros Hp H Hs. pose proof (to_lower_prefix_ascii p Hp s H) as Ha. rewrite (stake_sdrop (slen p) s) in Hs.
  eapply utf8_app_inv_r; [exact Hs|apply utf8_asciib; exact Ha].
Qed.
Lemma u8_extract_password pw pfx : asciib pfx = true -> u8 pw -> u8 (extract_password pw pfx).
Proof.
  intros Hp H. unfold extract_password. pose proof (u8_split_on ":" _ eq_refl H) as Hl.
  match goal with |- u8 (fold_left ?F ?l _) => assert (forall acc, u8 acc -> u8 (fold_left F l acc)) as HF end; [|apply HF; reflexivity].
  induction Hl as [|part l Hpart Hl IH]; intros acc Hacc; cbn [fold_left]; [exact Hacc|]. apply IH.
  assert (u8 (if has_prefix (pfx ++ "=") (to_lower part) then sdrop (slen (pfx ++ "=")) part else acc)) as Hx.
  { destruct (has_prefix _ _) eqn:E; [|exact Hacc]. apply utf8_sdrop_lower_prefix; [|exact E|exact Hpart].
    apply asciib_app; [exact Hp|reflexivity]. }
  destruct (_ && _); [|exact Hx]. apply u8_app; [exact Hx|]. apply u8_app; [reflexivity|exact Hpart].
Qed.

Lemma u8_assoc_str {A} `{U8 A} k (l : list (string * A)) : u8 (map snd l) -> u8 (assoc_str k l).
Proof.
  induction l as [|[k' v] l IH]; cbn [assoc_str map]; [intros _; exact Logic.I|]. intros Hl. apply u8_cons_inv in Hl.
  destruct Hl as [Hv Hl]. destruct (String.eqb k k'); [exact Hv|apply IH; exact Hl].
Qed.
Lemma u8_service_alias c : u8 (service_alias c).
Proof. unfold service_alias. apply u8_assoc_str. cbn [map snd]. repeat (apply u8_cons; [vm_compute; reflexivity|]). apply u8_nil. Qed.

Lemma asciib_dur_string d : u8 (dur_string d).
Proof.
  unfold dur_string. cbv zeta. repeat match goal with |- u8 (if ?b then _ else _) => destruct b end;
    repeat (apply u8_app; [first [apply u8_dec_of_Z|reflexivity]|]); reflexivity.
Qed.

(* Message.Bytes before the cut *)
Lemma u8_msg_bytes_full m : u8 m -> u8 (m_cmd m) -> u8 (msg_bytes_full m).
Proof.
  intros (Hp & Hps) Hc. unfold msg_bytes_full. apply u8_app.
  - destruct (m_prefix m) as [p|]; [|reflexivity]. apply u8_app; [reflexivity|]. apply u8_app; [|reflexivity].
    apply u8_prefix_string. exact Hp.
  - apply u8_app; [exact Hc|]. destruct (m_params m) as [|p ps] eqn:E; [reflexivity|]. rewrite <- E in *. apply u8_app.
    + destruct (Nat.ltb 1 _); [|reflexivity]. apply u8_app; [reflexivity|]. apply u8_sjoin; [reflexivity|apply u8_removelast; exact Hps].
    + apply u8_app; [reflexivity|]. cbv zeta. assert (u8 (last (m_params m) "")) by (apply u8_last; [exact Hps|reflexivity]).
      destruct (needs_colon _); [apply u8_app; [reflexivity|assumption]|assumption].
Qed.
(* ... and after the cut and the trimming: this is where the repair of N6 is needed *)
Lemma u8_msg_bytes m : u8 m -> u8 (m_cmd m) -> u8 (msg_bytes m).
Proof. intros Hm Hc. unfold msg_bytes. apply utf8_trim_stake. apply u8_msg_bytes_full; assumption. Qed.

(* the command word of a parsed line *)
Lemma utf8_parse_cmd raw0 : utf8 raw0 -> match parse_message raw0 with Some m => utf8 (m_cmd m) | None => True end.
Proof.
  intros H0. unfold parse_message. cbv zeta. pose proof (utf8_trim_crlf _ H0) as H. set (raw := trim_crlf raw0) in *. clearbody raw.
  destruct (Nat.ltb (slen raw) 2); [exact Logic.I|].
  match goal with |- match (match ?pre with None => None | Some _ => _ end) with _ => _ end => set (P := pre) end.
  assert (HP : match P with None => True | Some (p, i) => utf8 (sdrop i raw) end).
  { subst P. destruct raw as [|c r]; [exact H|].
    destruct c as [[] [] [] [] [] [] [] []]; try exact H.
    destruct (index_byte " " _) as [i|] eqn:Ei; [|exact Logic.I]. destruct (Nat.ltb i 2) eqn:Ei2; [exact Logic.I|].
    pose proof (index_byte_sget _ _ _ Ei) as Hg. exact (proj2 (proj2 (utf8_at _ _ _ H Hg eq_refl))). }
  destruct P as [[pfx i]|]; [|exact Logic.I]. set (rest := sdrop i raw) in *. clearbody rest.
  destruct (index_byte " " rest) as [[|k]|] eqn:Ek.
  - cbn [m_cmd]. apply u8_to_upper. exact HP.
  - pose proof (index_byte_sget _ _ _ Ek) as Hg. pose proof (proj1 (utf8_at _ _ _ HP Hg eq_refl)) as Hk.
    destruct (sindex " :" _); cbn [m_cmd]; apply u8_to_upper; exact Hk.
  - cbn [m_cmd]. apply u8_to_upper. exact HP.
Qed.

(* ---- the extra conditions on values ------------------------------------------------------------------------ *)
Class X8 (A : Type) := x8 : A -> Prop.
Global Instance x8_default {A} : X8 A | 100 := fun _ => True.
Global Instance x8_server : X8 server := fun sv => u8 (sv_netname sv).
Global Instance x8_imsg : X8 imsg := fun m => u8 (m_cmd m).
Global Instance x8_oimsg : X8 (option imsg) := fun o => match o with Some m => x8 m | None => True end.
Global Instance x8_modecmd : X8 modecmd := fun md => (mc_char md < 256)%N.
Global Instance x8_modecmds : X8 (list modecmd) := Forall x8.

Lemma x8_parse_message raw : u8 raw -> x8 (parse_message raw).
Proof. intros H. pose proof (utf8_parse_cmd raw H) as Hc. destruct (parse_message raw); exact Hc. Qed.
Lemma x8_IMsg p c ps : u8 c -> x8 (IMsg p c ps). Proof. trivial. Qed.
Lemma u8_m_cmd m : x8 m -> u8 (m_cmd m). Proof. trivial. Qed.
Lemma u8_sv_netname sv : x8 sv -> u8 (sv_netname sv). Proof. trivial. Qed.
Lemma u8_server_prefix sv : x8 sv -> u8 (server_prefix sv).
Proof. intros H. apply u8_Prefix; [exact H|reflexivity|reflexivity]. Qed.

Lemma x8_normalize_modes_aux cs ps n a : x8 (normalize_modes_aux cs ps n a).
Proof.
  revert n a. induction cs as [|c cs IH]; intros n a; cbn [normalize_modes_aux]; [constructor|]. cbv zeta.
  destruct (_ =? 43)%N; [apply IH|]. destruct (_ =? 45)%N; [apply IH|].
  destruct (takes_param _); (constructor; [|apply IH]); unfold x8, x8_modecmd; cbn [mc_char]; apply N_ascii_bounded.
Qed.
Lemma x8_normalize_modes m : x8 (normalize_modes m).
Proof. unfold normalize_modes. destruct (m_params m) as [|a [|b l]]; try constructor. apply x8_normalize_modes_aux. Qed.

Lemma u8_mode_chars (l : list modecmd) : x8 l -> u8 (fold_right (fun c acc => go_string_of_byte (mc_char c) ++ acc) "" l).
Proof. induction 1 as [|md l Hmd Hl IH]; cbn [fold_right]; [reflexivity|]. apply u8_app; [apply u8_go_string_of_byte; exact Hmd|exact IH]. Qed.
Lemma x8_lfilter f (l : list modecmd) : x8 l -> x8 (List.filter f l).
Proof. induction 1; cbn [List.filter]; [constructor|]. destruct (f _); [constructor|]; assumption. Qed.
Lemma u8_mode_params (l : list modecmd) : u8 l -> u8 (List.filter (fun p => negb (is_empty p)) (map mc_param l)).
Proof. intros H. apply u8_lfilter. induction H as [|md l Hmd Hl IH]; cbn [map]; [apply u8_nil|apply u8_cons; [exact Hmd|exact IH]]. Qed.
Lemma u8_irc_params (l : list modecmd) : u8 l -> x8 l -> u8 (irc_params l).
Proof.
  intros H Hx. unfold irc_params. cbv zeta.
  pose proof (u8_lfilter mc_add l H) as Ha. pose proof (u8_lfilter (fun c => negb (mc_add c)) l H) as Hr.
  pose proof (x8_lfilter mc_add l Hx) as Hxa. pose proof (x8_lfilter (fun c => negb (mc_add c)) l Hx) as Hxr.
  apply u8_cons.
  - apply u8_app; (destruct (Nat.ltb _ _); [apply u8_app; [reflexivity|apply u8_mode_chars; assumption]|reflexivity]).
  - apply u8_lapp; apply u8_mode_params; assumption.
Qed.

(* ---- hints ------------------------------------------------------------------------------------------------------ *)
Create HintDb o8db discriminated.
Global Hint Resolve u8_to_upper u8_dec_of_N u8_dec_of_Z u8_dec_of_nat u8_modestr_of u8_sort_strings u8_dedup_sorted u8_removelast
  u8_map_fst u8_go_string_of_byte u8_service_alias u8_m_cmd u8_sv_netname u8_server_prefix u8_irc_params u8_msg_bytes_full : o8db.
Global Hint Extern 1 (u8 (extract_password _ _)) => (simple apply u8_extract_password; [reflexivity|]) : o8db.
Lemma u8_replace_bang x : u8 x -> u8 (replace_all "!!" "!" x).
Proof. intros H. apply utf8_replace_all; [reflexivity|reflexivity|reflexivity|exact H]. Qed.
Lemma u8_services_prefix p : u8 p -> u8 (services_prefix p).
Proof. intros Hp. apply u8_Prefix; [apply u8_p_name; exact Hp|reflexivity|reflexivity]. Qed.
Global Hint Resolve u8_replace_bang u8_services_prefix : o8db.
Global Hint Extern 0 (x8 _) => exact Logic.I : o8db.
Global Hint Extern 0 (x8 _) => assumption : o8db.
Global Hint Resolve x8_parse_message x8_normalize_modes x8_lfilter : o8db.
Global Hint Extern 1 (x8 (IMsg _ _ _)) => (simple apply x8_IMsg) : o8db.
Global Hint Extern 1 (_ < 256)%N => (match goal with HH : @x8 modecmd _ ?md |- _ => exact HH end) : o8db.

Ltac o8_pure := solve [auto 14 with u8db o8db].

Ltac o8_hyps :=
  u8_hyps;
  repeat match goal with
  | HH : @x8 _ (@x8_default _) _ |- _ => clear HH
  | HH : @x8 _ x8_oimsg (Some ?m) |- _ => change (x8 m) in HH
  | HH : @x8 _ x8_oimsg None |- _ => clear HH
  | HH : @x8 _ x8_modecmds (_ :: _) |- _ => apply Forall_cons_iff in HH; destruct HH as [? ?]
  | HH : @x8 _ x8_modecmds [] |- _ => clear HH
  end.

Ltac o8_case x :=
  try (let HH := fresh "Hu8" in assert (HH : u8 x) by (auto 12 with u8db o8db));
  lazymatch type of x with
  | option imsg => try (let HH := fresh "Hx8" in assert (HH : x8 x) by (auto 12 with u8db o8db))
  | list modecmd => try (let HH := fresh "Hx8" in assert (HH : x8 x) by (auto 12 with u8db o8db))
  | _ => idtac
  end;
  destruct x eqn:?; o8_hyps.

(* ---- the relation ------------------------------------------------------------------------------------------------ *)
Definition out8 (o : omsg) : Prop := utf8 (o_data o).
Definition o8_ok {A} `{U8 A} `{X8 A} (m : M A) : Prop :=
  forall sv r, u8 sv -> x8 sv -> Forall out8 (r_out r) ->
    match m sv r with Ok (a, sv', r') => u8 a /\ x8 a /\ u8 sv' /\ x8 sv' /\ Forall out8 (r_out r') | _ => True end.

Section Rules.
  Context {A B : Type} `{U8 A} `{X8 A} `{U8 B} `{X8 B}.
  Lemma o8_ok_ret (a : A) : u8 a -> x8 a -> o8_ok (retM a).
  Proof. intros Ha Hx sv r Hsv Hxs Hr. cbn. auto. Qed.
  Lemma o8_ok_bind (m : M A) (f : A -> M B) : o8_ok m -> (forall a, u8 a -> x8 a -> o8_ok (f a)) -> o8_ok (bindM m f).
  Proof.
    intros Hm Hf sv r Hsv Hxs Hr. unfold bindM. specialize (Hm sv r Hsv Hxs Hr).
    destruct (m sv r) as [[[a sv'] r']|?|?]; [|exact Logic.I|exact Logic.I]. destruct Hm as (Ha & Hxa & Hsv' & Hxs' & Hr').
    exact (Hf a Ha Hxa sv' r' Hsv' Hxs' Hr').
  Qed.
  Lemma o8_ok_panic s : o8_ok (@panicM A s). Proof. intros sv r _ _ _. exact Logic.I. Qed.
  Lemma o8_ok_gap s : o8_ok (@gapM A s). Proof. intros sv r _ _ _. exact Logic.I. Qed.
  Lemma o8_ok_liftR (x : res A) : u8 x -> (forall a, x = Ok a -> x8 a) -> o8_ok (liftR x).
  Proof. intros Hx Hxx sv r Hsv Hxs Hr. unfold liftR. destruct x; [cbn; auto 6|exact Logic.I|exact Logic.I]. Qed.
End Rules.
Lemma o8_ok_forM {A} `{U8 A} `{X8 A} (l : list A) (f : A -> M unit) :
  u8 l -> (forall x, In x l -> x8 x) -> (forall x, u8 x -> x8 x -> o8_ok (f x)) -> o8_ok (forM l f).
Proof.
  intros Hl Hx Hf. induction Hl as [|x l Hxu Hl IH]; cbn [forM]; [apply o8_ok_ret; exact Logic.I|].
  apply o8_ok_bind; [apply Hf; [exact Hxu|apply Hx; now left]|intros _ _ _; apply IH; intros y Hy; apply Hx; now right].
Qed.
Lemma o8_ok_forM_modes (l : list modecmd) (f : modecmd -> M unit) :
  u8 l -> x8 l -> (forall x, u8 x -> x8 x -> o8_ok (f x)) -> o8_ok (forM l f).
Proof. intros Hl Hx Hf. apply o8_ok_forM; [exact Hl| |exact Hf]. intros x Hin. unfold x8, x8_modecmds in Hx. rewrite Forall_forall in Hx. exact (Hx x Hin). Qed.
Lemma o8_ok_forM_any {A} (l : list A) (f : A -> M unit) : (forall x, o8_ok (f x)) -> o8_ok (forM l f).
Proof.
  intros Hf. induction l as [|x l IH]; cbn [forM]; [apply o8_ok_ret; exact Logic.I|].
  apply o8_ok_bind; [apply Hf|intros _ _ _; exact IH].
Qed.
Lemma o8_ok_getS : o8_ok getS. Proof. intros sv r Hsv Hxs Hr. cbn. repeat (split; [assumption|]). assumption. Qed.
Lemma o8_ok_modS f : (forall sv, u8 sv -> u8 (f sv)) -> (forall sv, sv_netname (f sv) = sv_netname sv) -> o8_ok (modS f).
Proof.
  intros Hf Hn sv r Hsv Hxs Hr. cbn. split; [exact Logic.I|]. split; [exact Logic.I|]. split; [apply Hf; exact Hsv|].
  split; [unfold x8, x8_server; rewrite Hn; exact Hxs|exact Hr].
Qed.
Lemma o8_ok_replyCount : o8_ok replyCount.
Proof. intros sv r Hsv Hxs Hr. cbn. split; [exact Logic.I|]. split; [exact Logic.I|]. split; [exact Hsv|]. split; [exact Hxs|exact Hr]. Qed.
Lemma o8_ok_emit rc m : u8 m -> x8 m -> o8_ok (emit rc m).
Proof.
  intros Hm Hx sv r Hsv Hxs Hr. unfold emit. split; [exact Logic.I|]. split; [exact Logic.I|]. split; [exact Hsv|]. split; [exact Hxs|].
  cbn [r_out]. constructor; [|exact Hr]. unfold out8. cbn [o_data]. apply u8_msg_bytes; assumption.
Qed.
Lemma o8_ok_whenM b m : o8_ok m -> o8_ok (whenM b m).
Proof. intros Hm. destruct b; [exact Hm|apply o8_ok_ret; exact Logic.I]. Qed.

Lemma o8_ok_sessM k : o8_ok (sessM k).
Proof.
  unfold sessM. apply o8_ok_bind; [apply o8_ok_getS|]. intros sv Hsv _.
  destruct (sv_sessions sv !! k) as [s|] eqn:E; [|apply o8_ok_gap]. apply o8_ok_ret; [|exact Logic.I]. exact (proj2 (u8_sv_sessions sv Hsv k s E)).
Qed.
Lemma o8_ok_chanM lc : o8_ok (chanM lc).
Proof. unfold chanM. apply o8_ok_bind; [apply o8_ok_getS|]. intros sv Hsv _. apply o8_ok_ret; [u8_pure|exact Logic.I]. Qed.
Lemma o8_ok_nickM lc : o8_ok (nickM lc).
Proof. unfold nickM. apply o8_ok_bind; [apply o8_ok_getS|]. intros sv Hsv _. apply o8_ok_ret; [u8_pure|exact Logic.I]. Qed.
Lemma o8_ok_cfgM : o8_ok cfgM.
Proof. unfold cfgM. apply o8_ok_bind; [apply o8_ok_getS|]. intros sv Hsv _. apply o8_ok_ret; [u8_pure|exact Logic.I]. Qed.
Lemma o8_ok_updSess k f : (forall s, u8 s -> u8 (f s)) -> o8_ok (updSess k f).
Proof.
  intros Hf. unfold updSess. apply o8_ok_modS; [|reflexivity]. intros sv Hsv. apply u8_set_sessions; [exact Hsv|].
  pose proof (u8_sv_sessions sv Hsv) as Hm. destruct (sv_sessions sv !! k) as [s|] eqn:E; [|exact Hm].
  apply u8_insert; [exact (triv_u8 k)|apply Hf; exact (proj2 (Hm k s E))|exact Hm].
Qed.
Lemma o8_ok_updChan lc f : (forall c, u8 c -> u8 (f c)) -> o8_ok (updChan lc f).
Proof.
  intros Hf. unfold updChan. apply o8_ok_modS; [|reflexivity]. intros sv Hsv. apply u8_set_channels; [exact Hsv|].
  pose proof (u8_sv_channels sv Hsv) as Hm. destruct (sv_channels sv !! lc) as [s|] eqn:E; [|exact Hm].
  destruct (Hm lc s E) as [Hk Hs]. apply u8_insert; [exact Hk|apply Hf; exact Hs|exact Hm].
Qed.
Lemma o8_ok_param m k : u8 m -> o8_ok (param m k).
Proof.
  intros Hm. unfold param. pose proof (u8_nth_error (m_params m) k (u8_m_params m Hm)) as Hp.
  destruct (nth_error _ _); [apply o8_ok_ret; [exact Hp|exact Logic.I]|apply o8_ok_panic].
Qed.
Lemma o8_ok_prefix_name m : u8 m -> o8_ok (prefix_name m).
Proof.
  intros Hm. unfold prefix_name. pose proof (u8_m_prefix m Hm) as Hp.
  destruct (m_prefix m); [apply o8_ok_ret; [apply u8_p_name; exact Hp|exact Logic.I]|apply o8_ok_panic].
Qed.
Lemma o8_ok_msg_prefix m : u8 m -> o8_ok (msg_prefix m).
Proof.
  intros Hm. unfold msg_prefix. pose proof (u8_m_prefix m Hm) as Hp.
  destruct (m_prefix m); [apply o8_ok_ret; [exact Hp|exact Logic.I]|apply o8_ok_panic].
Qed.
Lemma o8_ok_reply_num k cmd ps : u8 cmd -> u8 ps -> o8_ok (reply_num k cmd ps).
Proof.
  intros Hc Hps. unfold reply_num. apply o8_ok_bind; [apply o8_ok_getS|]. intros sv Hsv Hx. apply o8_ok_emit; [|exact Hc].
  unfold srvmsg. apply u8_IMsg; [apply u8_server_prefix; exact Hx|exact Hps].
Qed.
Lemma o8_ok_reply_svc cmd ps : u8 cmd -> u8 ps -> o8_ok (reply_svc cmd ps).
Proof.
  intros Hc Hps. unfold reply_svc. apply o8_ok_bind; [apply o8_ok_getS|]. intros sv Hsv Hx. apply o8_ok_emit; [|exact Hc].
  unfold srvmsg. apply u8_IMsg; [apply u8_server_prefix; exact Hx|exact Hps].
Qed.

Create HintDb o8h discriminated.

Ltac o8_step :=
  lazymatch goal with
  | |- o8_ok (bindM _ _) => apply o8_ok_bind; [|intros ? ? ?; o8_hyps]
  | |- o8_ok (retM _) => apply o8_ok_ret; o8_pure
  | |- o8_ok (panicM _) => apply o8_ok_panic
  | |- o8_ok (gapM _) => apply o8_ok_gap
  | |- o8_ok getS => apply o8_ok_getS
  | |- o8_ok (sessM _) => apply o8_ok_sessM
  | |- o8_ok (chanM _) => apply o8_ok_chanM
  | |- o8_ok (nickM _) => apply o8_ok_nickM
  | |- o8_ok cfgM => apply o8_ok_cfgM
  | |- o8_ok replyCount => apply o8_ok_replyCount
  | |- o8_ok (param _ _) => apply o8_ok_param; o8_pure
  | |- o8_ok (prefix_name _) => apply o8_ok_prefix_name; o8_pure
  | |- o8_ok (msg_prefix _) => apply o8_ok_msg_prefix; o8_pure
  | |- o8_ok (reply_num _ _ _) => apply o8_ok_reply_num; o8_pure
  | |- o8_ok (reply_svc _ _) => apply o8_ok_reply_svc; o8_pure
  | |- o8_ok (updSess _ _) => apply o8_ok_updSess; intros ? ?; o8_pure
  | |- o8_ok (updChan _ _) => apply o8_ok_updChan; intros ? ?; o8_pure
  | |- o8_ok (modS _) => apply o8_ok_modS; [intros ? ?; o8_pure|intros ?; reflexivity]
  | |- o8_ok (liftR _) => apply o8_ok_liftR; [o8_pure|intros ? _; exact Logic.I]
  | |- o8_ok (emit _ _) => apply o8_ok_emit; unfold srvmsg, usrmsg, noprefix; o8_pure
  | |- o8_ok (whenM _ _) => apply o8_ok_whenM
  | |- o8_ok (forM _ _) =>
      first [ apply o8_ok_forM_modes; [o8_pure|o8_pure|intros ? ? ?; o8_hyps]
            | apply o8_ok_forM; [o8_pure|intros ? _; exact Logic.I|intros ? ? ?; o8_hyps]
            | apply o8_ok_forM_any; intros ? ]
  | |- o8_ok (if ?b then _ else _) => destruct b
  | |- o8_ok (match ?x with _ => _ end) => o8_case x
  | |- o8_ok (let _ := _ in _) => cbv zeta
  | |- o8_ok _ => solve [auto 6 with o8h u8db o8db]
  end.
Ltac go8 := repeat (first [ o8_step | progress unf ]).

Lemma o8_cmd_ping k m : u8 m -> o8_ok (cmd_ping k m).
Proof. intros Hm. unfold cmd_ping. go8. Qed.
Lemma o8_cmd_away k m : u8 m -> o8_ok (cmd_away k m).
Proof. intros Hm. unfold cmd_away. go8. Qed.
Lemma o8_cmd_topic k m : u8 m -> o8_ok (cmd_topic k m).
Proof. intros Hm. unfold cmd_topic. go8. Qed.
Lemma o8_cmd_privmsg k m : u8 m -> x8 m -> o8_ok (cmd_privmsg k m).
Proof. intros Hm Hx. unfold cmd_privmsg. go8. Qed.
Lemma o8_cmd_whois k m : u8 m -> o8_ok (cmd_whois k m).
Proof. intros Hm. unfold cmd_whois. go8. Qed.
Lemma o8_remove_nick_everywhere lcn : o8_ok (remove_nick_everywhere lcn).
Proof. unfold remove_nick_everywhere. go8. Qed.
Global Hint Resolve o8_remove_nick_everywhere : o8h.
Lemma o8_delete_session k : o8_ok (delete_session k).
Proof. unfold delete_session. go8. Qed.
Global Hint Resolve o8_delete_session : o8h.
Lemma o8_verify_captcha e k c : o8_ok (verify_captcha e k c).
Proof. unfold verify_captcha. go8. Qed.
Global Hint Resolve o8_verify_captcha : o8h.
Lemma o8_cmd_motd k m : o8_ok (cmd_motd k m).
Proof. unfold cmd_motd. go8. Qed.
Global Hint Resolve o8_cmd_motd : o8h.
Lemma o8_cmd_oper k m : u8 m -> o8_ok (cmd_oper k m).
Proof. intros Hm. unfold cmd_oper. go8. Qed.
Global Hint Resolve o8_cmd_oper : o8h.
Lemma o8_maybe_login e k m : o8_ok (maybe_login e k m).
Proof. unfold maybe_login. go8. Qed.
Global Hint Resolve o8_maybe_login : o8h.
Lemma o8_cmd_nick e k m : u8 m -> o8_ok (cmd_nick e k m).
Proof. intros Hm. unfold cmd_nick. go8. Qed.
Lemma o8_cmd_user e k m : u8 m -> o8_ok (cmd_user e k m).
Proof. intros Hm. unfold cmd_user. go8. Qed.
Lemma o8_cmd_pass e k m : u8 m -> o8_ok (cmd_pass e k m).
Proof. intros Hm. unfold cmd_pass. go8. Qed.
Lemma o8_mode_step k lc ch op md q : u8 ch -> u8 md -> x8 md -> o8_ok (cmd_mode_chan_step k lc ch op md q).
Proof. intros Hch Hmd Hx. unfold cmd_mode_chan_step. go8. Qed.
Lemma o8_mode_loop k lc ch op mds q : u8 ch -> u8 mds -> x8 mds -> o8_ok (cmd_mode_chan_loop k lc ch op mds q).
Proof.
  intros Hch Hmds Hx. revert q Hx. induction Hmds as [|md mds Hmd Hmds IH]; intros q Hx; cbn [cmd_mode_chan_loop]; [go8|].
  apply Forall_cons_iff in Hx. destruct Hx as [Hx1 Hx2].
  apply o8_ok_bind; [apply o8_mode_step; assumption|]. intros st _ _. destruct (fst st); [go8|apply IH; exact Hx2].
Qed.
Global Hint Resolve o8_mode_loop : o8h.
Lemma o8_cmd_mode k m : u8 m -> o8_ok (cmd_mode k m).
Proof. intros Hm. unfold cmd_mode. go8. Qed.
Lemma o8_cmd_names k m : u8 m -> o8_ok (cmd_names k m).
Proof. intros Hm. unfold cmd_names. go8. Qed.
Global Hint Resolve o8_cmd_mode o8_cmd_topic o8_cmd_names : o8h.
Lemma o8_join_one e k ch key : u8 ch -> o8_ok (join_one e k ch key).
Proof. intros Hch. unfold join_one. go8. Qed.
Global Hint Resolve o8_join_one : o8h.
Lemma o8_cmd_join e k m : u8 m -> o8_ok (cmd_join e k m).
Proof. intros Hm. unfold cmd_join. go8. Qed.
Lemma o8_cmd_part k m : u8 m -> o8_ok (cmd_part k m).
Proof. intros Hm. unfold cmd_part. go8. Qed.
Lemma o8_cmd_kick k m : u8 m -> o8_ok (cmd_kick k m).
Proof. intros Hm. unfold cmd_kick. go8. Qed.
Lemma o8_cmd_invite k m : u8 m -> o8_ok (cmd_invite k m).
Proof. intros Hm. unfold cmd_invite. go8. Qed.
Global Hint Resolve o8_cmd_privmsg : o8h.
Lemma o8_cmd_service_alias k m : u8 m -> o8_ok (cmd_service_alias k m).
Proof. intros Hm. unfold cmd_service_alias. go8. Qed.
Lemma o8_cmd_who k m : u8 m -> o8_ok (cmd_who k m).
Proof. intros Hm. unfold cmd_who. go8. Qed.
Lemma o8_cmd_list k m : u8 m -> o8_ok (cmd_list k m).
Proof. intros Hm. unfold cmd_list. go8. Qed.
Lemma o8_cmd_ison k m : u8 m -> o8_ok (cmd_ison k m).
Proof. intros Hm. unfold cmd_ison. go8. Qed.
Lemma o8_cmd_userhost k m : u8 m -> o8_ok (cmd_userhost k m).
Proof. intros Hm. unfold cmd_userhost. go8. Qed.
Lemma o8_cmd_knock k m : u8 m -> o8_ok (cmd_knock k m).
Proof. intros Hm. unfold cmd_knock. go8. Qed.
Lemma o8_cmd_quit k m : u8 m -> o8_ok (cmd_quit k m).
Proof. intros Hm. unfold cmd_quit. go8. Qed.
Lemma o8_cmd_kill k m : u8 m -> o8_ok (cmd_kill k m).
Proof. intros Hm. unfold cmd_kill. go8. Qed.
Global Hint Resolve o8_cmd_kill : o8h.
Lemma o8_cmd_gline k m : u8 m -> o8_ok (cmd_gline k m).
Proof. intros Hm. unfold cmd_gline. go8. Qed.
(* services *)
Lemma o8_burst_one sv t : u8 sv -> x8 sv -> u8 t -> o8_ok (burst_one sv t).
Proof. intros Hsv Hx Ht. unfold burst_one. go8. Qed.
Global Hint Resolve o8_burst_one : o8h.
Lemma o8_cmd_server k m : u8 m -> o8_ok (cmd_server k m).
Proof. intros Hm. unfold cmd_server. go8. Qed.
Lemma o8_cmd_server_nick k m : u8 m -> o8_ok (cmd_server_nick k m).
Proof. intros Hm. unfold cmd_server_nick. go8. Qed.
Lemma o8_quit_pseudo tk m : u8 m -> o8_ok (quit_pseudo tk m).
Proof. intros Hm. unfold quit_pseudo. go8. Qed.
Global Hint Resolve o8_quit_pseudo : o8h.
Lemma o8_cmd_server_quit k m : u8 m -> o8_ok (cmd_server_quit k m).
Proof. intros Hm. unfold cmd_server_quit. go8. Qed.
Lemma o8_cmd_server_kill k m : u8 m -> x8 m -> o8_ok (cmd_server_kill k m).
Proof. intros Hm Hx. unfold cmd_server_kill. go8. Qed.
Lemma o8_cmd_server_join k m : u8 m -> o8_ok (cmd_server_join k m).
Proof. intros Hm. unfold cmd_server_join. go8. Qed.
Lemma o8_cmd_server_part k m : u8 m -> o8_ok (cmd_server_part k m).
Proof. intros Hm. unfold cmd_server_part. go8. Qed.
Lemma o8_cmd_server_kick k m : u8 m -> o8_ok (cmd_server_kick k m).
Proof. intros Hm. unfold cmd_server_kick. go8. Qed.
Lemma o8_cmd_server_svsjoin k m : u8 m -> o8_ok (cmd_server_svsjoin k m).
Proof. intros Hm. unfold cmd_server_svsjoin. go8. Qed.
Lemma o8_cmd_server_svspart k m : u8 m -> o8_ok (cmd_server_svspart k m).
Proof. intros Hm. unfold cmd_server_svspart. go8. Qed.
Lemma o8_cmd_server_svsnick k m : u8 m -> o8_ok (cmd_server_svsnick k m).
Proof. intros Hm. unfold cmd_server_svsnick. go8. Qed.
Lemma o8_cmd_server_mode k m : u8 m -> o8_ok (cmd_server_mode k m).
Proof. intros Hm. unfold cmd_server_mode. go8. Qed.
Lemma o8_cmd_server_topic k m : u8 m -> o8_ok (cmd_server_topic k m).
Proof. intros Hm. unfold cmd_server_topic. go8. Qed.
Lemma o8_cmd_server_invite k m : u8 m -> o8_ok (cmd_server_invite k m).
Proof. intros Hm. unfold cmd_server_invite. go8. Qed.
Lemma o8_cmd_server_privmsg k m : u8 m -> x8 m -> o8_ok (cmd_server_privmsg k m).
Proof. intros Hm Hx. unfold cmd_server_privmsg. go8. Qed.
Lemma o8_cmd_server_svshold k m : u8 m -> o8_ok (cmd_server_svshold k m).
Proof. intros Hm. unfold cmd_server_svshold. go8. Qed.
Lemma o8_cmd_server_svsmode k m : u8 m -> o8_ok (cmd_server_svsmode k m).
Proof. intros Hm. unfold cmd_server_svsmode. go8. Qed.

(* ---- the command table and ProcessMessage ------------------------------------------------------------- *)
Lemma o8_dispatch name minp (f : handler) e k m : In (name, (minp, f)) commands -> u8 m -> x8 m -> o8_ok (f e k m).
Proof.
  intros Hin Hm Hx. unfold commands in Hin.
  repeat (destruct Hin as [Hin|Hin]; [injection Hin as <- <- <-|]); try contradiction; unfold noenv;
    first [ apply o8_cmd_service_alias | apply o8_cmd_away | apply o8_cmd_gline | apply o8_cmd_invite | apply o8_cmd_ison
          | apply o8_cmd_join | apply o8_cmd_kick | apply o8_cmd_kill | apply o8_cmd_knock | apply o8_cmd_list | apply o8_cmd_mode
          | apply o8_cmd_motd | apply o8_cmd_names | apply o8_cmd_nick | apply o8_cmd_oper | apply o8_cmd_part | apply o8_cmd_pass
          | apply o8_cmd_ping | apply o8_cmd_privmsg | apply o8_cmd_quit | apply o8_cmd_topic | apply o8_cmd_user
          | apply o8_cmd_userhost | apply o8_cmd_who | apply o8_cmd_whois | apply o8_cmd_server
          | apply o8_cmd_server_invite | apply o8_cmd_server_join | apply o8_cmd_server_kick | apply o8_cmd_server_kill
          | apply o8_cmd_server_mode | apply o8_cmd_server_nick | apply o8_cmd_server_part | apply o8_cmd_server_privmsg
          | apply o8_cmd_server_quit | apply o8_cmd_server_svshold | apply o8_cmd_server_svsjoin | apply o8_cmd_server_svsmode
          | apply o8_cmd_server_svsnick | apply o8_cmd_server_svspart | apply o8_cmd_server_topic ]; assumption.
Qed.

Lemma o8_process_message e k ra ircmsg : u8 ra -> u8 ircmsg -> x8 ircmsg -> o8_ok (process_message e k ra ircmsg).
Proof.
  intros Hra Hm Hx. unfold process_message. apply o8_ok_bind; [go8|]. intros s Hs _.
  destruct ircmsg as [m|]; [|go8]. o8_hyps. cbv zeta.
  apply o8_ok_bind; [go8|]. intros banned _ _. destruct banned; [go8|].
  apply o8_ok_bind; [go8|]. intros s1 Hs1 _.
  destruct (_ && _ && _); [go8|].
  destruct (assoc_str _ commands) as [[minp f]|] eqn:Hc; [|go8].
  destruct (Nat.ltb _ _); [go8|].
  eapply o8_dispatch; [eapply Outputs.assoc_str_In'; exact Hc|exact Hm|exact Hx].
Qed.

(* ---- log entries ------------------------------------------------------------------------------------------ *)
(* a state whose serialised strings AND network name are well-formed *)
Definition O8State (sv : server) : Prop := Utf8State sv /\ utf8 (sv_netname sv).

Lemma maybe_delete_session_netname k sv : sv_netname (maybe_delete_session k sv) = sv_netname sv.
Proof.
  unfold maybe_delete_session. destruct (sv_sessions sv !! k) as [s|]; [|reflexivity].
  destruct (s_server s || s_operator s), (s_deleted s); reflexivity.
Qed.
Lemma update_last_cmid_netname k ts d c sv sv' : update_last_cmid k ts d c sv = Some sv' -> sv_netname sv' = sv_netname sv.
Proof. unfold update_last_cmid. destruct (sv_sessions sv !! k); [intros [= <-]; reflexivity|discriminate]. Qed.

Lemma o8_create_session k a ts : u8 a -> o8_ok (create_session k a ts).
Proof. intros Ha. unfold create_session. go8. Qed.

Definition o8_outcome (o : outcome) : Prop :=
  match o with
  | OOk sv' out => O8State sv' /\ Forall out8 out
  | OSessionLimit sv' | OSkip sv' => O8State sv'
  | OPanic _ | OGap _ => True
  end.

Lemma o8_run_handler sv id act fin :
  O8State sv -> o8_ok act -> (forall sv', u8 sv' -> u8 (fin sv')) -> (forall sv', sv_netname (fin sv') = sv_netname sv') ->
  o8_outcome (run_handler sv id act fin).
Proof.
  intros [Hsv Hn] Hact Hfin Hfn. unfold run_handler. specialize (Hact sv (RCtx id []) Hsv Hn (Forall_nil _)).
  destruct (act sv _) as [[[[] sv1] r1]|?|?]; try exact Logic.I. destruct Hact as (_ & _ & Hsv1 & Hn1 & Hout).
  split; [split; [apply Hfin; exact Hsv1|rewrite Hfn; exact Hn1]|]. apply Forall_rev. exact Hout.
Qed.

(* one entry: the state stays well-formed and every output message is well-formed UTF-8 *)
Theorem o8_step e sv en : O8State sv -> utf8_entry en -> o8_outcome (apply_entry e sv en).
Proof.
  intros [Hsv Hn] Hen. pose proof (conj Hsv Hn : O8State sv) as HS. unfold Utf8State in Hsv.
  destruct en; cbn [apply_entry utf8_entry] in *.
  - pose proof (o8_create_session (id, 0%N) auth (timestamp id unixnano) Hen sv (RCtx id []) Hsv Hn (Forall_nil _)) as H.
    destruct (create_session _ _ _ sv _) as [[[[] sv1] r1]|?|?]; cbn; try exact Logic.I; destruct H as (_ & _ & H1 & H2 & _).
    + split; [split; assumption|constructor].
    + split; assumption.
  - destruct (sv_sessions sv !! _); [|split; [exact HS|constructor]]. apply o8_run_handler; [exact HS| | |].
    + assert (u8 ("QUIT :" ++ quitmsg)) as Hq by (apply u8_app; [reflexivity|exact Hen]).
      apply o8_process_message; [reflexivity|apply u8_parse_message; exact Hq|apply x8_parse_message; exact Hq].
    + intros sv' Hsv'. apply u8_maybe_delete_session. u8_pure.
    + intros sv'. rewrite maybe_delete_session_netname. reflexivity.
  - destruct Hen as [Hra Hd]. destruct (is_retry _ _ sv); [split; [exact HS|constructor]|].
    destruct (update_last_cmid _ _ _ _ sv) as [sv1|] eqn:Hu; [|exact HS].
    assert (O8State sv1) as HS1.
    { split; [exact (u8_update_last_cmid _ _ _ _ _ _ Hsv Hu)|rewrite (update_last_cmid_netname _ _ _ _ _ _ Hu); exact Hn]. }
    apply o8_run_handler; [exact HS1| | |].
    + apply o8_process_message; [exact Hra|apply u8_parse_message; exact Hd|apply x8_parse_message; exact Hd].
    + intros sv' Hsv'. apply u8_maybe_delete_session. u8_pure.
    + intros sv'. rewrite maybe_delete_session_netname. reflexivity.
  - destruct (update_last_cmid _ _ _ _ sv) as [sv1|] eqn:Hu; [|exact HS].
    split; [|constructor]. split; [exact (u8_update_last_cmid _ _ _ _ _ _ Hsv Hu)|rewrite (update_last_cmid_netname _ _ _ _ _ _ Hu); exact Hn].
  - pose proof (utf8_step e sv (EConfig id unixnano revision parsed) Hsv Hen) as H. cbn [apply_entry] in H.
    destruct (config_in_force _ _ _) as [g|]; (split; [|constructor]); [|exact HS]. split; [exact H|exact Hn].
Qed.

(* ---- histories -------------------------------------------------------------------------------------------- *)
Lemma O8State_init net : utf8 net -> O8State (init_server net).
Proof. intros Hn. split; [apply Utf8State_init|exact Hn]. Qed.

Theorem o8_run_state e sv es sv' : O8State sv -> Forall utf8_entry es -> run e sv es = Some sv' -> O8State sv'.
Proof.
  intros Hsv Hes. revert sv Hsv. induction Hes as [|en es Hen Hes IH]; intros sv Hsv; cbn [run]; [intros [= <-]; exact Hsv|].
  pose proof (o8_step e sv en Hsv Hen) as H. destruct (apply_entry e sv en); cbn [o8_outcome entry_result] in *; try discriminate;
    apply IH; try exact H. apply H.
Qed.

(* every output of every entry of every history *)
Theorem outputs_utf8 e net es sv en sv' out :
  utf8 net -> Forall utf8_entry es -> utf8_entry en ->
  run e (init_server net) es = Some sv -> apply_entry e sv en = OOk sv' out ->
  Forall (fun o => utf8 (o_data o)) out.
Proof.
  intros Hnet Hes Hen Hrun Happ.
  assert (O8State sv) as Hsv by (eapply o8_run_state; [apply O8State_init; exact Hnet|exact Hes|exact Hrun]).
  pose proof (o8_step e sv en Hsv Hen) as H. rewrite Happ in H. exact (proj2 H).
Qed.

(* hence the client receives exactly the stored bytes ... *)
Theorem delivered_is_stored e net es sv en sv' out :
  utf8 net -> Forall utf8_entry es -> utf8_entry en ->
  run e (init_server net) es = Some sv -> apply_entry e sv en = OOk sv' out ->
  Forall (fun o => json_delivered (o_data o) = o_data o) out.
Proof.
  intros Hnet Hes Hen Hrun Happ. pose proof (outputs_utf8 e net es sv en sv' out Hnet Hes Hen Hrun Happ) as H.
  eapply Forall_impl; [|exact H]. intros o Ho. apply json_delivered_utf8. exact Ho.
Qed.
(* ... and so at most 510 of them *)
Theorem delivered_length e net es sv en sv' out :
  utf8 net -> Forall utf8_entry es -> utf8_entry en ->
  run e (init_server net) es = Some sv -> apply_entry e sv en = OOk sv' out ->
  Forall (fun o => slen (json_delivered (o_data o)) <= max_length) out.
Proof.
  intros Hnet Hes Hen Hrun Happ. pose proof (delivered_is_stored e net es sv en sv' out Hnet Hes Hen Hrun Happ) as H.
  pose proof (Outputs.outputs_short e sv en sv' out Happ) as Hs. rewrite Forall_forall in *. intros o Ho. rewrite (H o Ho). exact (Hs o Ho).
Qed.

(* the quit messages ExpireSessions proposes are well-formed, so the EDelete entries built from them satisfy the hypothesis *)
Lemma utf8_expire_entry sv now id un p : In p (expire_sessions sv now) -> utf8_entry (EDelete id un (fst p) (snd p)).
Proof.
  unfold expire_sessions. cbv zeta. intros Hin. apply in_map_iff in Hin. destruct Hin as (kv & <- & _). cbn [utf8_entry snd].
  apply u8_app; [reflexivity|]. apply u8_app; [apply asciib_dur_string|reflexivity].
Qed.

(* ---- the hypotheses are satisfiable; the trimming is needed ------------------------------------------------- *)
Example ex_history_utf8 : Forall utf8_entry Examples.ex_history.
Proof. unfold Examples.ex_history. repeat (apply Forall_cons; [vm_compute; repeat split|]). apply Forall_nil. Qed.

Fixpoint srep (n : nat) (s : string) : string := match n with O => "" | S k => s ++ srep k s end.
(* both clients of the example history are in #chan; bar says "a" and 300 times "ü" (601 bytes) *)
Definition long_text : string := "a" ++ srep 300 "ü".
Definition long_say : entry := EMessage 9 9000 4 24 "" ("PRIVMSG #chan :" ++ long_text).
Example long_say_utf8 : utf8_entry long_say.
Proof. vm_compute. split; reflexivity. Qed.

(* what Foo is sent: the line was cut after 510 bytes in the middle of a "ü", the lone C3 was trimmed (509 bytes, well-formed,
   delivered unchanged); without trimPartialRune the 510 bytes are ill-formed and arrive as 512 *)
Definition long_say_check : bool :=
  match run Examples.ex_env (init_server "robustirc.net") (firstn 8 Examples.ex_history) with
  | Some sv =>
      match apply_entry Examples.ex_env sv long_say with
      | OOk _ [o] =>
          let full := msg_bytes_full (usrmsg (Prefix "bar" "bar" "robust/0x4") "PRIVMSG" ["#chan"; long_text]) in
          String.eqb (o_data o) (trim_partial_rune (stake max_length full)) &&
          Nat.eqb (slen (o_data o)) 509 && validb (o_data o) && String.eqb (json_delivered (o_data o)) (o_data o) &&
          negb (validb (stake max_length full)) && Nat.eqb (slen (json_delivered (stake max_length full))) 512
      | _ => false
      end
  | None => false
  end.
Example long_say_trimmed : long_say_check = true.
Proof. vm_compute. reflexivity. Qed.

(* refutation-style: for Message.Bytes alone (the cut without the trimming) the statement fails — a message all of whose parts
   are well-formed whose first 510 bytes are not, and which would be delivered as more than 510 bytes *)
Example untrimmed_refuted :
  exists m, u8 m /\ u8 (m_cmd m) /\ ~ utf8 (stake max_length (msg_bytes_full m)) /\
            max_length < slen (json_delivered (stake max_length (msg_bytes_full m))) /\
            utf8 (msg_bytes m) /\ slen (json_delivered (msg_bytes m)) <= max_length.
Proof.
  exists (usrmsg (Prefix "bar" "bar" "robust/0x4") "PRIVMSG" ["#chan"; long_text]).
  split; [repeat split; try (vm_compute; reflexivity); repeat constructor; vm_compute; reflexivity|].
  split; [vm_compute; reflexivity|]. split; [intros H; apply utf8_iff in H; vm_compute in H; discriminate|].
  split; [vm_compute; lia|]. split; [apply utf8_iff; vm_compute; reflexivity|vm_compute; lia].
Qed.

Print Assumptions utf8_trim_stake.
Print Assumptions json_delivered_utf8.
Print Assumptions o8_step.
Print Assumptions outputs_utf8.
Print Assumptions delivered_is_stored.
Print Assumptions delivered_length.
Print Assumptions untrimmed_refuted.
Print Assumptions long_say_trimmed.
