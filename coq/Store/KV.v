(* Store/KV.v — M-STORE: internal/raftstore/leveldb.go over an ordered key/value map.
   ONE LevelDB holds both key classes:
     log entries     key = 8 bytes big endian of the index        (StoreLogs, StoreLogProto, GetLog, ...)
     stable store    key = "stablestore-" ++ user key             (Set, Get, SetUint64, GetUint64)
   LevelDB is modelled as an association list kept strictly sorted by bytewise key order
   (String.compare = bytes.Compare); iterators walk that list.  Durability is the stated
   assumption: closing and reopening returns the same map (then ConvertToProto runs when the
   store is opened with useProtobuf).  Values are the bytes the Go code writes: 'p' ++
   protobuf(RaftLog) in protobuf mode, legacy JSON (a parameter, see Section Codec) otherwise.
   [variant]: the pinned tree's DeleteRange deletes every key of the iterator range
   [key(min), key(max+1)), stable keys included; the repaired tree (fixes/
   c09-deleterange-skip-stable.diff) skips keys with the stablestore- prefix.
   Executable definitions only; proofs are in KVProofs.v / StoreProofs.v. *)
From Coq Require Import List NArith ZArith Bool.
From Coq Require Import Strings.String Strings.Ascii.
From RV Require Import Store.Wire Store.Proto.
Import ListNotations.
Local Open Scope string_scope.
Local Open Scope N_scope.

Definition kvs := list (string * string).

Fixpoint kv_get (k : string) (l : kvs) : option string :=
  match l with
  | [] => None
  | (k', v) :: r => if String.eqb k k' then Some v else kv_get k r
  end.
(* insert at the sorted position, replacing an equal key *)
Fixpoint kv_put (k v : string) (l : kvs) : kvs :=
  match l with
  | [] => [(k, v)]
  | (k', v') :: r =>
      match String.compare k k' with
      | Lt => (k, v) :: l
      | Eq => (k, v) :: r
      | Gt => (k', v') :: kv_put k v r
      end
  end.
Fixpoint apply_puts (puts : list (string * string)) (db : kvs) : kvs :=
  match puts with [] => db | (k, v) :: r => apply_puts r (kv_put k v db) end.

Definition stable_prefix : string := "stablestore-".
Definition is_stable (k : string) : bool := has_prefix stable_prefix k.
Definition log_key (i : N) : string := be8 i.
Definition stable_key (k : string) : string := stable_prefix ++ k.
(* the largest index whose key sorts before every stable key: bytes "stablest" *)
Definition S_index : N := 8319381487013426036.

Inductive variant := Pinned | Repaired.

(* ---- FirstIndex / LastIndex: walk from one end, skipping stablestore- keys --------------- *)
Fixpoint first_nonstable (l : kvs) : option string :=
  match l with
  | [] => None
  | (k, _) :: r => if is_stable k then first_nonstable r else Some k
  end.
Definition index_of_key (o : option string) : res N :=
  match o with
  | None => ROk 0
  | Some k => match be8_decode k with Some n => ROk n | None => RPanic end
  end.
Definition first_index (l : kvs) : res N := index_of_key (first_nonstable l).
Definition last_index (l : kvs) : res N := index_of_key (first_nonstable (rev l)).

(* ---- DeleteRange(min, max): GetBulkIterator(min, max+1), batch.Delete of every key seen -- *)
Definition in_range (lo hi k : string) : bool := String.leb lo k && String.ltb k hi.
Definition deleted_by (var : variant) (min max : N) (k : string) : bool :=
  in_range (log_key min) (log_key ((max + 1) mod two64N)) k &&
  match var with Pinned => true | Repaired => negb (is_stable k) end.
Definition delete_range (var : variant) (min max : N) (l : kvs) : kvs :=
  filter (fun kv => negb (deleted_by var min max (fst kv))) l.

Definition nonempty (s : string) : bool := match s with EmptyString => false | _ => true end.

Section Codec.
(* legacy JSON, abstract: json.Marshal of a raft.Log (None = error), json.Unmarshal into a
   raft.Log, json.Unmarshal into a robust.Message; robust.MessageOffset *)
Variable json_enc_log : rlog -> option string.
Variable json_dec_log : string -> option rlog.
Variable json_dec_msg : string -> option msg.
Variable offset : N.

(* ---- StoreLogs ----------------------------------------------------------------------------- *)
Fixpoint encode_all (proto : bool) (ls : list rlog) : option (list (string * string)) :=
  match ls with
  | [] => Some []
  | l :: r =>
      match (if proto then Some (encode_log l) else json_enc_log l) with
      | None => None
      | Some v => match encode_all proto r with
                  | Some t => Some ((log_key (l_index l), v) :: t)
                  | None => None
                  end
      end
  end.

(* ---- ConvertToProto ------------------------------------------------------------------------ *)
Fixpoint skip_stable (l : kvs) : kvs :=
  match l with
  | [] => []
  | (k, v) :: r => if is_stable k then skip_stable r else l
  end.

Inductive cstep :=
| CPut (v : string) (cmd : bool)  (* batch.Put(i.Key(), v); cmd: the LogCommand branch *)
| CSkip               (* non-command entry that is already protobuf *)
| CStop               (* "database already converted": return nil *)
| CErr
| CPanic.

Definition is_json (v : string) : bool := nonempty v && negb (starts_p v).

(* one loop iteration; [buf] is the RobustMessage re-used across iterations *)
Definition convert_entry (buf : pb_msg) (v : string) : cstep * pb_msg :=
  match read_frombytes json_dec_log v with
  | RErr => (CErr, buf)
  | RPanic => (CPanic, buf)
  | ROk l =>
      if negb (l_type l =? 0) then
        (if is_json v then CPut (encode_log l) false else CSkip, buf)
      else if is_json v || is_json (l_data l) then
        match from_bytes json_dec_msg (l_data l) (id_from_raft_index offset (l_index l)) with
        | ROk m =>
            match copy_to_proto m buf with
            | ROk p =>
                match marshal_msg_checked p with
                | Some b =>
                    (CPut (encode_log (RLog (l_index l) (l_term l) (l_type l) (String "p"%char b)
                                            (l_ext l) (l_sec l) (l_nsec l))) true, p)
                | None => (CErr, p)
                end
            | RErr => (CErr, buf)
            | RPanic => (CPanic, buf)
            end
        | RErr => (CErr, buf)
        | RPanic => (CPanic, buf)
        end
      else (CStop, buf)
  end.

(* the main loop over the iterator (a snapshot of the database taken before the loop);
   [pending] is the leveldb.Batch, [db] receives the batches written so far.  The
   non-command branch `continue`s before the `batch.Len() > 100` test.
   Result: the database and how the call ended. *)
Fixpoint convert_loop (buf : pb_msg) (it : kvs) (pending : list (string * string)) (db : kvs)
  : kvs * res unit :=
  match it with
  | [] => (apply_puts pending db, ROk tt)
  | (k, v) :: r =>
      if is_stable k then (apply_puts pending db, ROk tt)
      else
        match convert_entry buf v with
        | (CErr, _) => (db, RErr)
        | (CPanic, _) => (db, RPanic)
        | (CStop, _) => (db, ROk tt)
        | (CSkip, buf') => convert_loop buf' r pending db
        | (CPut v' cmd, buf') =>
            let pending' := (pending ++ [(k, v')])%list in
            if cmd && (100 <? N.of_nat (List.length pending'))
            then convert_loop buf' r [] (apply_puts pending' db)
            else convert_loop buf' r pending' db
        end
  end.

(* the re-used message is allocated with both sub-messages *)
Definition convert_buf0 : pb_msg := set_pm_session (set_pm_id pb_msg_zero (Some pb_id_zero)) (Some pb_id_zero).

Definition convert_to_proto (db : kvs) : kvs * res unit :=
  match skip_stable db with
  | [] => (db, ROk tt)                       (* !i.First(), or only stable keys *)
  | it => convert_loop convert_buf0 it [] db
  end.

(* ---- the store and its operations --------------------------------------------------------- *)
Record store := Store { st_kv : kvs; st_proto : bool }.
Definition empty_store (proto : bool) : store := Store [] proto.

Inductive op :=
| OFirst
| OLast
| OGetLog (i : N)
| OStoreLogs (ls : list rlog)          (* StoreLog = StoreLogs of one entry *)
| OStoreLogProto (p : pb_log)
| ODeleteRange (min max : N)
| OSet (k v : string)
| OGet (k : string)
| OSetU64 (k : string) (v : N)
| OGetU64 (k : string)
| OReopen (proto : bool)               (* Close; NewLevelDBStore(dir, false, proto) *)
| OConvert.                            (* explicit ConvertToProto *)

Inductive obs :=
| ObsOk
| ObsIndex (n : N)
| ObsLog (l : rlog)
| ObsNotFound                          (* raft.ErrLogNotFound *)
| ObsBytes (o : option string)         (* nil when absent *)
| ObsU64 (n : N)
| ObsErr
| ObsPanic.

Definition obs_of_res_unit (r : res unit) : obs :=
  match r with ROk _ => ObsOk | RErr => ObsErr | RPanic => ObsPanic end.

Definition get_log (s : store) (i : N) : obs :=
  match kv_get (log_key i) (st_kv s) with
  | None => ObsNotFound
  | Some v => match read_store json_dec_log v with
              | ROk l => ObsLog l
              | RErr => ObsErr
              | RPanic => ObsPanic
              end
  end.

Definition step (var : variant) (s : store) (o : op) : store * obs :=
  match o with
  | OFirst => (s, match first_index (st_kv s) with ROk n => ObsIndex n | _ => ObsPanic end)
  | OLast => (s, match last_index (st_kv s) with ROk n => ObsIndex n | _ => ObsPanic end)
  | OGetLog i => (s, get_log s i)
  | OStoreLogs ls =>
      match encode_all (st_proto s) ls with
      | Some puts => (Store (apply_puts puts (st_kv s)) (st_proto s), ObsOk)
      | None => (s, ObsErr)
      end
  | OStoreLogProto p =>
      (Store (kv_put (log_key (pl_index p)) (encode_pblog p) (st_kv s)) (st_proto s), ObsOk)
  | ODeleteRange min max => (Store (delete_range var min max (st_kv s)) (st_proto s), ObsOk)
  | OSet k v => (Store (kv_put (stable_key k) v (st_kv s)) (st_proto s), ObsOk)
  | OGet k => (s, ObsBytes (kv_get (stable_key k) (st_kv s)))
  | OSetU64 k v => (Store (kv_put (stable_key k) (be8 v) (st_kv s)) (st_proto s), ObsOk)
  | OGetU64 k =>
      (s, match kv_get (stable_key k) (st_kv s) with
          | None => ObsU64 0
          | Some v => match be8_decode v with Some n => ObsU64 n | None => ObsPanic end
          end)
  | OReopen proto =>
      if proto then
        let '(db, r) := convert_to_proto (st_kv s) in (Store db true, obs_of_res_unit r)
      else (Store (st_kv s) false, ObsOk)
  | OConvert =>
      let '(db, r) := convert_to_proto (st_kv s) in (Store db (st_proto s), obs_of_res_unit r)
  end.

Fixpoint run (var : variant) (s : store) (ops : list op) : store * list obs :=
  match ops with
  | [] => (s, [])
  | o :: r => let '(s1, ob) := step var s o in
              let '(s2, obs') := run var s1 r in (s2, ob :: obs')
  end.
End Codec.
