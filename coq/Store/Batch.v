(* Store/Batch.v — the hand-written output batch codec of
   internal/outputstream/serialization.go, byte for byte:
     marshal:   NextID u64le | len(Messages) u64le |
                per message: Id.Id u64le | Id.Reply u64le | len(Data) u64le | Data |
                             len(InterestingFor) u64le | one u64le per map KEY (map order)
     unmarshal: the same walk; every key read is stored with value true.
   The Go map is modelled as the list of its keys in the order the Go runtime happens to
   iterate them (any permutation of a duplicate-free list); the bool values are not written.
   Executable definitions only; proofs are in BatchProofs.v. *)
From Coq Require Import List NArith Bool.
From Coq Require Import Strings.String Strings.Ascii.
From RV Require Import Store.Wire.
Import ListNotations.
Local Open Scope string_scope.
Local Open Scope N_scope.

Record bmsg := BMsg { bm_id : N; bm_reply : N; bm_data : string; bm_rcpt : list N }.
Record batch := Batch { b_next : N; b_msgs : list bmsg }.

Definition u64le (n : N) : string := enc_le 8 n.

Fixpoint marshal_rcpts (l : list N) : string :=
  match l with [] => "" | x :: r => u64le x ++ marshal_rcpts r end.
Definition marshal_bmsg (m : bmsg) : string :=
  u64le (bm_id m) ++ u64le (bm_reply m) ++ u64le (slen (bm_data m)) ++ bm_data m ++
  u64le (N.of_nat (List.length (bm_rcpt m))) ++ marshal_rcpts (bm_rcpt m).
Fixpoint marshal_bmsgs (l : list bmsg) : string :=
  match l with [] => "" | m :: r => marshal_bmsg m ++ marshal_bmsgs r end.
Definition marshal_batch (b : batch) : string :=
  u64le (b_next b) ++ u64le (N.of_nat (List.length (b_msgs b))) ++ marshal_bmsgs (b_msgs b).

(* reading: None = the Go code panics (slice bounds / makeslice: len out of range).  The
   counters come from the buffer; recursion is on a fuel bounded by the buffer length (every
   announced element consumes at least 8 bytes), so absurd counts fail like in Go instead of
   looping. *)
Definition rd_u64 (s : string) : option (N * string) := dec_le 8 s.

Fixpoint unmarshal_rcpts (fuel : nat) (k : N) (s : string) : option (list N * string) :=
  if k =? 0 then Some ([], s)
  else match fuel with
       | O => None
       | S f => match rd_u64 s with
                | Some (x, r) => match unmarshal_rcpts f (N.pred k) r with
                                 | Some (l, r') => Some (x :: l, r')
                                 | None => None
                                 end
                | None => None
                end
       end.

Definition unmarshal_bmsg (s : string) : option (bmsg * string) :=
  match rd_u64 s with
  | None => None
  | Some (id, r1) =>
      match rd_u64 r1 with
      | None => None
      | Some (reply, r2) =>
          match rd_u64 r2 with
          | None => None
          | Some (ld, r3) =>
              match split_at r3 ld with
              | None => None
              | Some (data, r4) =>
                  match rd_u64 r4 with
                  | None => None
                  | Some (lr, r5) =>
                      match unmarshal_rcpts (String.length r5) lr r5 with
                      | Some (rc, r6) => Some (BMsg id reply data rc, r6)
                      | None => None
                      end
                  end
              end
          end
      end
  end.

Fixpoint unmarshal_bmsgs (fuel : nat) (k : N) (s : string) : option (list bmsg * string) :=
  if k =? 0 then Some ([], s)
  else match fuel with
       | O => None
       | S f => match unmarshal_bmsg s with
                | Some (m, r) => match unmarshal_bmsgs f (N.pred k) r with
                                 | Some (l, r') => Some (m :: l, r')
                                 | None => None
                                 end
                | None => None
                end
       end.

(* trailing bytes are ignored, as in the Go code *)
Definition unmarshal_batch (s : string) : option batch :=
  match rd_u64 s with
  | None => None
  | Some (next, r1) =>
      match rd_u64 r1 with
      | None => None
      | Some (cnt, r2) =>
          match unmarshal_bmsgs (String.length r2) cnt r2 with
          | Some (ms, _) => Some (Batch next ms)
          | None => None
          end
      end
  end.

(* ---- canonical view: the recipient SET (sorted, duplicate-free) ------------------------- *)
Fixpoint insert_sorted (x : N) (l : list N) : list N :=
  match l with
  | [] => [x]
  | y :: r => if x <? y then x :: l else if x =? y then l else y :: insert_sorted x r
  end.
Definition canon_rcpts (l : list N) : list N := fold_right insert_sorted [] l.
