//go:build verif

package main

// `ircdrv` — correspondence/monitor driver for the IRC state machine (properties C01 C03 C06 C10
// C12–C17).  Injected into /repo's package main by `go test -overlay` together with
// internal/ircserver/zz_verif_export.go; never part of /repo.  I/O format: /verif/harness/IRCFORMAT.md.
//
// ROUTE: every log entry (C D M X F) is applied by the REAL (*FSM).applyRobustMessage of
// statemachine.go, on a zero-value FSM, against a real ircserver.IRCServer and a real temporary
// outputstream.OutputStream (one per case, under $TMPDIR); the reply batch is read back with
// OutputStream.Get(entry id).  Nothing of applyRobustMessage is re-implemented here.
// Pseudo-ops call the exported API: Marshal/Unmarshal (S), ExpireSessions (E), GetSession (G),
// LastPostMessage (P).  ThrottleUntil is never called (thr stays 0).
//
// Harness facts worth knowing:
//   * config.DefaultConfig.Banned is ONE map shared by every IRCServer created in a process
//     (NewIRCServer copies the struct, not the map).  The driver replaces it by a fresh map before
//     every case so that cases are independent; see corpus/irc/README.md (observation O1).
//   * outcome `skip` (M/X for a session that does not exist) is decided by GetSession before the call.
//   * outcome `dup` (M with a non-zero client message id equal to the marker of its session, fix 92a4e2e) is
//     printed when LastPostMessage said so before the call AND the call stored no output batch.
//   * a panic inside the apply is recovered, printed as `panic=<hex of first line>`; the step carries
//     `inv=- n=0` and no dump; all remaining steps print the single token `notrun`.  The function in
//     which the panic was raised is written to $VERIF_OUT.panics as
//     `<case index> <step index> <function> <file:line>` (side channel, not part of the format).
//   * log output of the code under test is discarded.

import (
	"bufio"
	"encoding/hex"
	"fmt"
	"io"
	"log"
	"os"
	"runtime"
	"sort"
	"strconv"
	"strings"
	"testing"
	"time"

	"github.com/robustirc/robustirc/internal/config"
	"github.com/robustirc/robustirc/internal/ircserver"
	"github.com/robustirc/robustirc/internal/outputstream"
	"github.com/robustirc/robustirc/internal/robust"
)

func vUnhex(s string) (string, error) {
	if s == "-" {
		return "", nil
	}
	b, err := hex.DecodeString(s)
	return string(b), err
}

func vHex(s string) string {
	if s == "" {
		return "-"
	}
	return hex.EncodeToString([]byte(s))
}

func vU64(s string) uint64 {
	n, err := strconv.ParseUint(s, 10, 64)
	if err != nil {
		panic("verif: bad number " + s)
	}
	return n
}

func vI64(s string) int64 {
	n, err := strconv.ParseInt(s, 10, 64)
	if err != nil {
		panic("verif: bad number " + s)
	}
	return n
}

// vMask applies the two masks of IRCFORMAT.md.  Both only apply to server-originated lines
// (`:<prefix> <cmd> …` where the prefix contains neither '!' nor '@').
func vMask(data string) string {
	if len(data) == 0 || data[0] != ':' {
		return data
	}
	sp := strings.IndexByte(data, ' ')
	if sp < 0 {
		return data
	}
	if strings.ContainsAny(data[1:sp], "!@") {
		return data
	}
	rest := data[sp+1:]
	sp2 := strings.IndexByte(rest, ' ')
	if sp2 < 0 {
		return data
	}
	cmd := rest[:sp2]
	switch cmd {
	case "003":
		const m = "This server was created "
		if k := strings.Index(data, m); k >= 0 {
			return data[:k+len(m)] + "MASKED"
		}
	case "NOTICE", "473":
		k1 := strings.Index(data, "please go to ")
		k2 := strings.Index(data, "Please go to ")
		k := k1
		if k < 0 || (k2 >= 0 && k2 < k) {
			k = k2
		}
		if k >= 0 {
			return data[:k+len("please go to ")] + "MASKED"
		}
	}
	return data
}

type vCase struct {
	srv          *ircserver.IRCServer
	fsm          *FSM
	o            *outputstream.OutputStream
	netname      string
	prevS, prevC int
}

// vApply calls the real applyRobustMessage, recovering a panic.
func (c *vCase) vApply(msg *robust.Message) (err error, panicked bool, pval string, site string) {
	defer func() {
		if r := recover(); r != nil {
			panicked = true
			pval = fmt.Sprint(r)
			if k := strings.IndexByte(pval, '\n'); k >= 0 {
				pval = pval[:k]
			}
			site = vPanicSite()
		}
	}()
	err = c.fsm.applyRobustMessage(msg, c.srv, c.o)
	return
}

// vPanicSite returns "<function> <file:line>" of the innermost non-runtime frame below the panic.
func vPanicSite() string {
	pcs := make([]uintptr, 64)
	n := runtime.Callers(3, pcs)
	frames := runtime.CallersFrames(pcs[:n])
	for {
		f, more := frames.Next()
		if !strings.HasPrefix(f.Function, "runtime.") && !strings.Contains(f.Function, "vApply") && f.Function != "" {
			fn := f.Function
			if k := strings.LastIndexByte(fn, '.'); k >= 0 {
				fn = fn[k+1:]
			}
			file := f.File
			if k := strings.LastIndexByte(file, '/'); k >= 0 {
				file = file[k+1:]
			}
			return fmt.Sprintf("%s %s:%d", fn, file, f.Line)
		}
		if !more {
			break
		}
	}
	return "unknown ?:0"
}

func vErrName(err error) string {
	switch err {
	case nil:
		return "ok"
	case ircserver.ErrSessionLimitReached:
		return "err=sessionlimit"
	case ircserver.ErrSessionNotYetSeen:
		return "err=notyetseen"
	case ircserver.ErrNoSuchSession:
		return "err=nosuchsession"
	}
	if strings.HasPrefix(err.Error(), "Revision mismatch") {
		// a Config message that does not carry the revision in force + 1 is skipped (fix b3bad2c)
		return "cfgrev"
	}
	return "err=other"
}

func (c *vCase) vMessages(id uint64) string {
	msgs, ok := c.o.Get(robust.Id{Id: id})
	if !ok || len(msgs) == 0 {
		return "n=0"
	}
	var sb strings.Builder
	fmt.Fprintf(&sb, "n=%d", len(msgs))
	for _, m := range msgs {
		ids := make([]uint64, 0, len(m.InterestingFor))
		for k, v := range m.InterestingFor {
			if v {
				ids = append(ids, k)
			}
		}
		sort.Slice(ids, func(a, b int) bool { return ids[a] < ids[b] })
		r := "-"
		if len(ids) > 0 {
			ss := make([]string, len(ids))
			for k, id := range ids {
				ss[k] = strconv.FormatUint(id, 10)
			}
			r = strings.Join(ss, ",")
		}
		fmt.Fprintf(&sb, " %d:%s:%s", m.Id.Reply, vHex(vMask(m.Data)), r)
	}
	return sb.String()
}

func vRunCase(line string, tmpdir string, caseIdx int, panics io.Writer) string {
	parts := strings.Split(line, " | ")
	head := strings.Fields(parts[0])
	if len(head) < 3 || head[0] != "irc" {
		return "irc | badcase"
	}
	netname, err := vUnhex(head[1])
	if err != nil {
		return "irc | badcase"
	}
	dump, inv := "end", false
	if head[2] != "-" {
		for _, o := range strings.Split(head[2], ",") {
			switch o {
			case "dump=each":
				dump = "each"
			case "dump=end":
				dump = "end"
			case "dump=none":
				dump = "none"
			case "inv":
				inv = true
			}
		}
	}
	var entries [][]string
	for _, p := range parts[1:] {
		f := strings.Fields(p)
		if len(f) == 0 {
			continue
		}
		if f[0] == "O" { // oracle records: ignored by the Go driver
			continue
		}
		entries = append(entries, f)
	}

	// see file header: make the process-global default ban map private to this case
	config.DefaultConfig.Banned = make(map[string]string)

	o, err := outputstream.NewOutputStream(tmpdir)
	if err != nil {
		return "irc | harness-error:" + vHex(err.Error())
	}
	defer o.Close()
	c := &vCase{
		srv:     ircserver.NewIRCServer(netname, time.Unix(0, 0)),
		fsm:     &FSM{},
		o:       o,
		netname: netname,
	}

	out := make([]string, 0, len(entries)+1)
	out = append(out, "irc")
	stopped := false
	for idx, f := range entries {
		if stopped {
			out = append(out, "notrun")
			continue
		}
		last := idx == len(entries)-1
		step, halted := c.vStep(f, inv, caseIdx, idx, panics)
		if halted {
			stopped = true
			out = append(out, step)
			continue
		}
		if dump == "each" || (dump == "end" && last) {
			step += " st=" + ircserver.VerifDump(c.srv)
		}
		out = append(out, step)
	}
	return strings.Join(out, " | ")
}

func (c *vCase) vInv(inv bool) string {
	s, ch := ircserver.VerifCounts(c.srv)
	defer func() { c.prevS, c.prevC = s, ch }()
	if !inv {
		return "inv=-"
	}
	codes := ircserver.VerifInvariantWalk(c.srv, c.prevS, c.prevC)
	if len(codes) == 0 {
		return "inv=-"
	}
	return "inv=" + strings.Join(codes, ",")
}

// vStep runs one entry; halted=true after a recovered panic.
func (c *vCase) vStep(f []string, inv bool, caseIdx, stepIdx int, panics io.Writer) (string, bool) {
	defer func() {
		// malformed case text (bad number/hex): harness error, not a finding
	}()
	need := func(n int) bool { return len(f) >= n }
	var msg *robust.Message
	outcomeOverride := ""
	dupCandidate := false
	switch f[0] {
	case "C":
		if !need(4) {
			return "badentry inv=- n=0", false
		}
		auth, _ := vUnhex(f[3])
		msg = &robust.Message{Id: robust.Id{Id: vU64(f[1])}, Type: robust.CreateSession, Data: auth, UnixNano: vI64(f[2])}
	case "D":
		if !need(5) {
			return "badentry inv=- n=0", false
		}
		q, _ := vUnhex(f[4])
		msg = &robust.Message{Id: robust.Id{Id: vU64(f[1])}, Type: robust.DeleteSession, Session: robust.Id{Id: vU64(f[3])}, Data: q, UnixNano: vI64(f[2])}
	case "M":
		if !need(7) {
			return "badentry inv=- n=0", false
		}
		ra, _ := vUnhex(f[5])
		data, _ := vUnhex(f[6])
		msg = &robust.Message{Id: robust.Id{Id: vU64(f[1])}, Type: robust.IRCFromClient, Session: robust.Id{Id: vU64(f[3])},
			ClientMessageId: vU64(f[4]), RemoteAddr: ra, Data: data, UnixNano: vI64(f[2])}
		if _, err := c.srv.GetSession(msg.Session); err != nil {
			outcomeOverride = "skip"
		} else if msg.ClientMessageId != 0 && c.srv.LastPostMessage(msg.Session) == msg.ClientMessageId {
			// second copy of the session's last client message: the repaired applyRobustMessage skips it.
			// Reported as `dup` only when the call indeed left no output batch (see below).
			dupCandidate = true
		}
	case "X":
		if !need(6) {
			return "badentry inv=- n=0", false
		}
		data, _ := vUnhex(f[5])
		msg = &robust.Message{Id: robust.Id{Id: vU64(f[1])}, Type: robust.MessageOfDeath, Session: robust.Id{Id: vU64(f[3])},
			ClientMessageId: vU64(f[4]), Data: data, UnixNano: vI64(f[2])}
		if _, err := c.srv.GetSession(msg.Session); err != nil {
			outcomeOverride = "skip"
		}
	case "F":
		if !need(6) {
			return "badentry inv=- n=0", false
		}
		toml, _ := vUnhex(f[4])
		msg = &robust.Message{Id: robust.Id{Id: vU64(f[1])}, Type: robust.Config, Revision: vU64(f[3]), Data: toml, UnixNano: vI64(f[2])}
		parsed, perr := config.FromString(toml)
		want := "invalid"
		if perr == nil {
			tmp := ircserver.NewIRCServer("x", time.Unix(0, 0))
			tmp.Config = parsed
			want = ircserver.VerifConfigBody(tmp)
		}
		if want != f[5] {
			outcomeOverride = "cfgmismatch"
		}
	case "S":
		b, err := c.srv.Marshal(0)
		if err != nil {
			return "err " + c.vInv(inv) + " n=0", false
		}
		ns := ircserver.NewIRCServer(c.netname, time.Unix(0, 0))
		if _, err := ns.Unmarshal(b); err != nil {
			return "err " + c.vInv(inv) + " n=0", false
		}
		c.srv = ns
		return "ok " + c.vInv(inv) + " n=0", false
	case "E":
		dels := c.srv.ExpireSessions()
		sort.Slice(dels, func(a, b int) bool { return dels[a].Session.Id < dels[b].Session.Id })
		r := "-"
		if len(dels) > 0 {
			ss := make([]string, len(dels))
			for k, d := range dels {
				ss[k] = strconv.FormatUint(d.Session.Id, 10) + ":" + vHex(d.Data)
			}
			r = strings.Join(ss, ",")
		}
		return "expire=" + r + " " + c.vInv(inv) + " n=0", false
	case "G":
		if !need(2) {
			return "badentry inv=- n=0", false
		}
		_, err := c.srv.GetSession(robust.Id{Id: vU64(f[1])})
		r := "other"
		switch err {
		case nil:
			r = "ok"
		case ircserver.ErrNoSuchSession:
			r = "nosuch"
		case ircserver.ErrSessionNotYetSeen:
			r = "notyet"
		}
		return "get=" + r + " " + c.vInv(inv) + " n=0", false
	case "P":
		if !need(2) {
			return "badentry inv=- n=0", false
		}
		n := c.srv.LastPostMessage(robust.Id{Id: vU64(f[1])})
		return "lpm=" + strconv.FormatUint(n, 10) + " " + c.vInv(inv) + " n=0", false
	default:
		return "badentry inv=- n=0", false
	}

	err, panicked, pval, site := c.vApply(msg)
	if panicked {
		if panics != nil {
			fmt.Fprintf(panics, "%d %d %s\n", caseIdx, stepIdx, site)
		}
		return "panic=" + vHex(pval) + " inv=- n=0", true
	}
	outcome := vErrName(err)
	if outcomeOverride != "" && err == nil {
		outcome = outcomeOverride
	}
	if dupCandidate && err == nil {
		if msgs, ok := c.o.Get(robust.Id{Id: msg.Id.Id}); !ok || len(msgs) == 0 {
			outcome = "dup"
		}
	}
	return outcome + " " + c.vInv(inv) + " " + c.vMessages(msg.Id.Id), false
}

func TestVerifIrc(t *testing.T) {
	in, err := os.Open(os.Getenv("VERIF_IN"))
	if err != nil {
		t.Fatal(err)
	}
	defer in.Close()
	out, err := os.Create(os.Getenv("VERIF_OUT"))
	if err != nil {
		t.Fatal(err)
	}
	defer out.Close()
	pf, err := os.Create(os.Getenv("VERIF_OUT") + ".panics")
	if err != nil {
		t.Fatal(err)
	}
	defer pf.Close()
	w := bufio.NewWriterSize(out, 1<<20)
	defer w.Flush()
	tmpdir := t.TempDir()
	log.SetOutput(io.Discard)
	defer log.SetOutput(os.Stderr)
	sc := bufio.NewScanner(in)
	sc.Buffer(make([]byte, 1<<20), 1<<28)
	idx := 0
	t0 := time.Now()
	entries := 0
	for sc.Scan() {
		line := sc.Text()
		if !strings.HasPrefix(line, "irc ") {
			continue
		}
		func() {
			defer func() {
				if r := recover(); r != nil { // malformed case text etc.
					fmt.Fprintf(w, "irc | harness-error:%s\n", vHex(fmt.Sprint(r)))
				}
			}()
			res := vRunCase(line, tmpdir, idx, pf)
			entries += strings.Count(res, " | ")
			w.WriteString(res)
			w.WriteByte('\n')
		}()
		idx++
	}
	el := time.Since(t0)
	if st := os.Getenv("VERIF_STATS"); st != "" {
		os.WriteFile(st, []byte(fmt.Sprintf("cases=%d entries=%d seconds=%.3f\n", idx, entries, el.Seconds())), 0644)
	}
}
