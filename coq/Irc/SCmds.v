(* Irc/SCmds.v — SERVER and the services-link handlers (server_commands.go, scmd_*.go). *)
From stdpp Require Import gmap.
From Coq Require Import Strings.String Strings.Ascii ZArith NArith.
From RV Require Import Base.Text Irc.Str Irc.Parse Irc.State Irc.Monad Irc.Cmds.
Local Open Scope string_scope.

Definition services_prefix (p : prefix) : prefix := Prefix (p_name p) "services" "services".

Definition new_session (key : skey) (auth : string) (ts : time) : session :=
  Session key auth false "" "" "" ∅ ts ts None false "" (match ts with Some z => z | None => 0%Z end)
          ∅ ∅ "0" "" false 0%N (Prefix "" "" "") false "".

(* createSessionLocked: false = ErrSessionLimitReached *)
Definition create_session (key : skey) (auth : string) (ts : time) : M bool :=
  DO sv <- getS IN
  let limit := g_maxSessions (sv_config sv) in
  if (limit <=? N.of_nat (size (sv_sessions sv)))%N && (0 <? limit)%N then retM false
  else modS (set_sessions (<[key := new_session key auth ts]>)) ;;; retM true.

(* sorted by Reply: the pseudo-clients of link [id] *)
Definition pseudo_clients (sv : server) (id : N) : list skey :=
  map (fun r => (id, r))
      (set_of_ids (map snd (filter (fun kk : skey => (fst kk =? id)%N && negb (snd kk =? 0)%N)
                                   (map_to_list (sv_sessions sv)).*1))).

(* ---- SERVER -------------------------------------------------------------------------------- *)
Definition burst_one (sv : server) (t : session) : M unit :=
  emit (rc_services sv) (noprefix "NICK" [s_nick t; "1"; "1"; s_user t; p_host (s_prefix t); sv_netname sv;
                                         s_svid t; modestr_of (s_modes t); s_real t]) ;;;
  forM (sort_strings (elements (s_channels t))) (fun lc =>
    match sv_channels sv !! lc with
    | None => panicM "nil pointer: i.channels[channelname] for a listed channel"
    | Some c =>
        DO o <- chanop_of c (nick_to_lower (s_nick t)) IN
        emit (rc_services sv) (srvmsg sv "SJOIN" ["1"; c_name c; (if o then "@" else EmptyString) ++ s_nick t])
    end).

Definition cmd_server (k : skey) (m : imsg) : M unit :=
  DO s <- sessM k IN DO g <- cfgM IN
  if negb (existsb (fun pw => String.eqb (s_pass s) ("services=" ++ pw)) (g_services g)) then
    emit (rc_user k) (noprefix "ERROR" ["Invalid password"])
  else
    DO p0 <- param m 0 IN
    updSess k (fun s => ss_prefix (Prefix p0 "" "") (ss_server true s)) ;;;
    modS (set_serverSessions (fun l => (l ++ [fst k])%list)) ;;;
    DO sv <- getS IN
    emit (rc_services sv) (noprefix "SERVER" [sv_netname sv; "1"; "23"]) ;;;
    forM (sort_strings (map_to_list (sv_nicks sv)).*1) (fun lcn =>
      DO t <- liftR (member_session sv lcn) IN
      if negb (s_loggedIn t) || s_server t || negb (snd (s_key t) =? 0)%N then retM tt
      else burst_one sv t).

(* ---- introduction / removal of pseudo-clients ------------------------------------------------- *)
Definition cmd_server_nick (k : skey) (m : imsg) : M unit :=
  if Nat.eqb (nparams m) 1 then retM tt
  else
    DO p0 <- param m 0 IN
    DO sv <- getS IN DO s <- sessM k IN
    if bool_decide (is_Some (sv_nicks sv !! nick_to_lower p0)) then
      reply_svc "433" ["*"; p0; "Nickname is already in use"]
    else
      let id : skey := (fst k, fnv64 p0) in
      DO ok <- create_session id "" (s_lastActivity s) IN
      if negb ok then retM tt        (* repaired code: the session limit is honoured *)
      else
        (* ss.Nick = P0; i.nicks[lower] = ss; ss.Username = Params[3]; ss.Realname; updateIrcPrefix():
           the out-of-range panic of Params[3] does not depend on the order *)
        DO p3 <- param m 3 IN
        updSess id (ss_user_real p3 (trailing m)) ;;;
        change_nick id p0 EmptyString false.

Definition quit_pseudo (tk : skey) (m : imsg) : M unit :=
  DO t <- sessM tk IN DO sv <- getS IN
  DO common <- liftR (rc_common sv t) IN
  emit common (usrmsg (s_prefix t) "QUIT" [trailing m]) ;;;
  delete_session tk.

Definition find_pseudo (sv : server) (id : N) (lcnick : string) : option skey :=
  find (fun tk => match sv_sessions sv !! tk with
                  | Some t => String.eqb (nick_to_lower (s_nick t)) lcnick
                  | None => false end) (pseudo_clients sv id).

Definition cmd_server_quit (k : skey) (m : imsg) : M unit :=
  match m_prefix m with
  | None =>
      delete_session k ;;;
      DO sv <- getS IN
      (* repaired code: pseudo-clients leave in ascending id order, not in map order *)
      forM (pseudo_clients sv (fst k)) (fun tk => quit_pseudo tk m)
  | Some p =>
      DO sv <- getS IN
      match find_pseudo sv (fst k) (nick_to_lower (p_name p)) with
      | Some tk => quit_pseudo tk m
      | None => retM tt
      end
  end.

Definition cmd_server_kill (k : skey) (m : imsg) : M unit :=
  if Nat.ltb (nparams m) 2 then reply_svc "461" ["*"; m_cmd m; "Not enough parameters"]
  else
    DO sv <- getS IN
    (* the loop evaluates msg.Prefix.Name for every pseudo-client of this link *)
    DO killPrefix <- (match pseudo_clients sv (fst k), m_prefix m with
                      | _ :: _, None => panicM "nil pointer: msg.Prefix"
                      | _, None => retM None
                      | _, Some p =>
                          match find_pseudo sv (fst k) (nick_to_lower (p_name p)) with
                          | Some tk => DO t <- sessM tk IN retM (Some (s_prefix t))
                          | None => retM (Some p)
                          end
                      end) IN
    DO p0 <- param m 0 IN
    match sv_nicks sv !! nick_to_lower p0 with
    | None => reply_svc "401" ["*"; p0; "No such nick/channel"]
    | Some tk =>
        match killPrefix with
        | None => panicM "nil pointer: killPrefix"
        | Some kp =>
            DO t <- sessM tk IN
            let killPath := replace_all "!!" "!" ("ircd!" ++ p_host kp ++ "!" ++ p_name kp) in
            emit (rc_user tk) (usrmsg kp "KILL" [s_nick t; killPath ++ " (" ++ trailing m ++ ")"]) ;;;
            DO common <- liftR (rc_common sv t) IN
            emit (common ++ rc_services sv) (usrmsg (s_prefix t) "QUIT" ["Killed: " ++ trailing m]) ;;;
            delete_session tk
        end
    end.

(* ---- membership commands ------------------------------------------------------------------------ *)
Definition cmd_server_join (k : skey) (m : imsg) : M unit :=
  DO p0 <- param m 0 IN
  forM (split_on ","%char p0) (fun channelname =>
    DO sv <- getS IN
    if negb (valid_chan channelname) then
      DO pn <- prefix_name m IN reply_svc "403" [pn; channelname; "No such channel"]
    else
      DO pn <- prefix_name m IN DO pfx <- msg_prefix m IN
      let nick := nick_to_lower pn in
      match sv_nicks sv !! nick with
      | None => reply_svc "401" [pn; channelname; "No such nick/channel"]
      | Some tk =>
          let lc := chan_to_lower channelname in
          let created := negb (bool_decide (is_Some (sv_channels sv !! lc))) in
          let limit := g_maxChannels (sv_config sv) in
          if created && (limit <=? N.of_nat (size (sv_channels sv)))%N && (0 <? limit)%N then
            reply_svc "403" [pn; channelname; "No such channel"]     (* repaired code: the channel limit *)
          else
            let c0 := match sv_channels sv !! lc with Some c => c | None => new_chan channelname ∅ end in
            add_member lc c0 nick tk created ;;;
            DO sv <- getS IN
            DO rc <- liftR (rc_channel sv (cc_nicks (<[nick := (created, false)]>) c0)) IN
            emit rc (usrmsg (services_prefix pfx) "JOIN" [channelname])   (* repaired code: the channel only *)
      end).

Definition cmd_server_part (k : skey) (m : imsg) : M unit :=
  DO p0 <- param m 0 IN
  forM (split_on ","%char p0) (fun channelname =>
    DO sv <- getS IN
    let lc := chan_to_lower channelname in
    match sv_channels sv !! lc with
    | None => DO pn <- prefix_name m IN reply_svc "403" [pn; channelname; "No such channel"]
    | Some c =>
        DO pn <- prefix_name m IN DO pfx <- msg_prefix m IN
        if negb (bool_decide (is_Some (c_nicks c !! nick_to_lower pn))) then
          reply_svc "442" [pn; channelname; "You're not on that channel"]
        else
          match sv_nicks sv !! nick_to_lower pn with
          | None => panicM "nil pointer: session of a channel member"
          | Some tk =>
              DO rc <- liftR (rc_channel sv c) IN
              emit rc (usrmsg (services_prefix pfx) "PART" [channelname]) ;;;   (* repaired code: the channel only *)
              leave_channel lc (nick_to_lower pn) tk
          end
    end).

Definition cmd_server_kick (k : skey) (m : imsg) : M unit :=
  DO channelname <- param m 0 IN DO target <- param m 1 IN
  DO sv <- getS IN
  let lc := chan_to_lower channelname in
  match sv_channels sv !! lc with
  | None => DO pn <- prefix_name m IN reply_svc "403" [pn; channelname; "No such nick/channel"]
  | Some c =>
      if negb (bool_decide (is_Some (c_nicks c !! nick_to_lower target))) then
        DO pn <- prefix_name m IN reply_svc "441" [pn; target; channelname; "They aren't on that channel"]
      else
        DO pn <- prefix_name m IN
        DO rc <- liftR (rc_channel sv c) IN
        emit (rc ++ rc_services sv) (usrmsg (Prefix pn "services" "services") "KICK" [channelname; target; trailing m]) ;;;
        match sv_nicks sv !! nick_to_lower target with
        | None => panicM "nil pointer: i.nicks[target] for a channel member"
        | Some tk => leave_channel lc (nick_to_lower target) tk
        end
  end.

Definition cmd_server_svsjoin (k : skey) (m : imsg) : M unit :=
  DO p0 <- param m 0 IN DO channelname <- param m 1 IN
  DO sv <- getS IN
  let nick := nick_to_lower p0 in
  match sv_nicks sv !! nick with
  | None => DO pn <- prefix_name m IN reply_svc "401" [pn; p0; "No such nick/channel"]
  | Some tk =>
      if negb (valid_chan channelname) then
        DO pn <- prefix_name m IN reply_svc "403" [pn; channelname; "No such channel"]
      else
        let lc := chan_to_lower channelname in
        let created := negb (bool_decide (is_Some (sv_channels sv !! lc))) in
        let limit := g_maxChannels (sv_config sv) in
        if created && (limit <=? N.of_nat (size (sv_channels sv)))%N && (0 <? limit)%N then
          DO pn <- prefix_name m IN reply_svc "403" [pn; channelname; "No such channel"]   (* repaired code *)
        else
        let c0 := match sv_channels sv !! lc with Some c => c | None => new_chan channelname ∅ end in
        if bool_decide (is_Some (c_nicks c0 !! nick)) then retM tt
        else
          add_member lc c0 nick tk created ;;;
          DO sv <- getS IN DO t <- sessM tk IN
          DO rc <- liftR (rc_channel sv (cc_nicks (<[nick := (created, false)]>) c0)) IN
          emit rc (usrmsg (s_prefix t) "JOIN" [channelname]) ;;;
          emit (rc_services sv) (srvmsg sv "SJOIN" ["1"; channelname; (if created then "@" else EmptyString) ++ s_nick t]) ;;;
          cmd_topic tk (IMsg None "TOPIC" [channelname]) ;;;
          cmd_names tk (IMsg None "NAMES" [channelname])
  end.

Definition cmd_server_svspart (k : skey) (m : imsg) : M unit :=
  DO p0 <- param m 0 IN DO channelname <- param m 1 IN
  DO sv <- getS IN
  let nick := nick_to_lower p0 in
  let lc := chan_to_lower channelname in
  match sv_nicks sv !! nick with
  | None => DO pn <- prefix_name m IN reply_svc "401" [pn; p0; "No such nick/channel"]
  | Some tk =>
      match sv_channels sv !! lc with
      | None => DO pn <- prefix_name m IN reply_svc "403" [pn; channelname; "No such channel"]
      | Some c =>
          if negb (bool_decide (is_Some (c_nicks c !! nick))) then
            DO pn <- prefix_name m IN reply_svc "442" [pn; channelname; "You're not on that channel"]
          else
            DO t <- sessM tk IN
            DO rc <- liftR (rc_channel sv c) IN
            emit (rc ++ rc_services sv) (usrmsg (s_prefix t) "PART" [channelname]) ;;;
            leave_channel lc nick tk
      end
  end.

Definition cmd_server_svsnick (k : skey) (m : imsg) : M unit :=
  DO p0 <- param m 0 IN DO p1 <- param m 1 IN
  DO sv <- getS IN
  if negb (valid_nick p1) then reply_svc "432" ["*"; p1; "Erroneous nickname"]
  else
    match sv_nicks sv !! nick_to_lower p0 with
    | None => reply_svc "401" ["*"; p0; "No such nick/channel"]
    | Some tk =>
        DO t <- sessM tk IN
        let oldPrefix := s_prefix t in
        let oldNick := nick_to_lower p0 in
        updSess tk (ss_nick p1) ;;;
        modS (set_nicks (fun ns => delete oldNick (<[nick_to_lower p1 := tk]> ns))) ;;;
        rename_in_channels oldNick (nick_to_lower p1) ;;;
        updSess tk update_prefix ;;;
        DO sv <- getS IN DO t <- sessM tk IN
        DO common <- liftR (rc_common sv t) IN
        emit (rc_user tk ++ common ++ rc_services sv) (usrmsg oldPrefix "NICK" [s_nick t])
    end.

(* ---- channel state ------------------------------------------------------------------------------- *)
Definition cmd_server_mode (k : skey) (m : imsg) : M unit :=
  DO channelname <- param m 0 IN
  DO sv <- getS IN
  let lc := chan_to_lower channelname in
  match sv_channels sv !! lc with
  | None => DO pn <- prefix_name m IN reply_svc "403" [pn; channelname; "No such nick/channel"]
  | Some _ =>
      let modes := normalize_modes m in
      forM modes (fun md =>
        let char := mc_char md in
        if existsb (N.eqb char) [116; 115; 114; 105]%N then updChan lc (cc_modes (set_mode char (mc_add md)))
        else if (char =? 111)%N then
          DO c <- chanM lc IN
          match c with
          | None => panicM "nil pointer: channel vanished"
          | Some c =>
              match c_nicks c !! nick_to_lower (mc_param md) with
              | None => DO pn <- prefix_name m IN
                        reply_svc "441" [pn; mc_param md; channelname; "They aren't on that channel"]
              | Some (o, v) =>
                  if Bool.eqb o (mc_add md) then retM tt
                  else updChan lc (cc_nicks (<[nick_to_lower (mc_param md) := (mc_add md, v)]>))
              end
          end
        else DO pn <- prefix_name m IN
             reply_svc "472" [pn; go_string_of_byte char; "is unknown mode char to me"]) ;;;
      DO n <- replyCount IN
      if Nat.ltb 0 n then retM tt
      else
        DO pfx <- msg_prefix m IN
        DO sv <- getS IN
        match sv_channels sv !! lc with
        | None => panicM "nil pointer: channel vanished"
        | Some c =>
            DO rc <- liftR (rc_channel sv c) IN
            emit rc (usrmsg (services_prefix pfx) "MODE" (channelname :: irc_params modes))
        end
  end.

(* strconv.ParseInt(x, 0, 64) / time.ParseDuration(x+"s") on plain decimal input; anything else is
   outside the modelled domain (Gap) *)
Definition cmd_server_topic (k : skey) (m : imsg) : M unit :=
  DO channel <- param m 0 IN
  DO sv <- getS IN
  let lc := chan_to_lower channel in
  match sv_channels sv !! lc with
  | None => DO pn <- prefix_name m IN reply_svc "403" [pn; channel; "No such channel"]
  | Some c =>
      if is_empty (trailing m) && Nat.eqb (nparams m) 2 then
        DO pfx <- msg_prefix m IN
        updChan lc (cc_topic "" None "") ;;;
        DO rc <- liftR (rc_channel sv c) IN
        emit rc (usrmsg (services_prefix pfx) "TOPIC" [channel; trailing m])
      else
        DO p1 <- param m 1 IN DO p2 <- param m 2 IN
        match Z_of_dec p2 with
        | None => gapM "strconv.ParseInt on a non-decimal timestamp"
        | Some ts =>
            DO pfx <- msg_prefix m IN
            updChan lc (cc_topic p1 (Some (ts * 1000000000)%Z) (trailing m)) ;;;
            DO rc <- liftR (rc_channel sv c) IN
            emit rc (usrmsg (services_prefix pfx) "TOPIC" [channel; trailing m])
        end
  end.

Definition cmd_server_invite (k : skey) (m : imsg) : M unit :=
  DO nickname <- param m 0 IN DO channelname <- param m 1 IN
  DO sv <- getS IN
  match sv_nicks sv !! nick_to_lower nickname with
  | None => DO pn <- prefix_name m IN reply_svc "401" [pn; nickname; "No such nick/channel"]
  | Some tk =>
      let lc := chan_to_lower channelname in
      match sv_channels sv !! lc with
      | None => DO pn <- prefix_name m IN reply_svc "403" [pn; channelname; "No such channel"]
      | Some c =>
          DO t <- sessM tk IN
          if bool_decide (is_Some (c_nicks c !! nick_to_lower nickname)) then
            DO pn <- prefix_name m IN reply_svc "443" [pn; s_nick t; c_name c; "is already on channel"]
          else
            updSess tk (ss_invited (fun i => {[ lc ]} ∪ i)) ;;;
            DO pn <- prefix_name m IN DO pfx <- msg_prefix m IN
            reply_svc "341" [pn; nickname; c_name c] ;;;
            emit (rc_user tk) (usrmsg (services_prefix pfx) "INVITE" [s_nick t; c_name c]) ;;;
            DO rc <- liftR (rc_channel sv c) IN
            emit rc (srvmsg sv "NOTICE" [c_name c; pn ++ " invited " ++ nickname ++ " into the channel."])
      end
  end.

Definition cmd_server_privmsg (k : skey) (m : imsg) : M unit :=
  DO sv <- getS IN
  match m_params m with
  | [] => DO pn <- prefix_name m IN reply_svc "411" [pn; "No recipient given (" ++ m_cmd m ++ ")"]
  | target :: _ =>
      if is_empty (trailing m) then DO pn <- prefix_name m IN reply_svc "412" [pn; "No text to send"]
      else if has_prefix "#" target then
        match sv_channels sv !! chan_to_lower target with
        | None => DO pn <- prefix_name m IN reply_svc "403" [pn; target; "No such channel"]
        | Some c =>
            DO pfx <- msg_prefix m IN
            DO rc <- liftR (rc_channel sv c) IN
            emit rc (usrmsg (services_prefix pfx) (m_cmd m) [target; trailing m])
        end
      else
        match sv_nicks sv !! nick_to_lower target with
        | None => DO pn <- prefix_name m IN reply_svc "401" [pn; target; "No such nick/channel"]
        | Some tk =>
            DO pfx <- msg_prefix m IN
            emit (rc_user tk) (usrmsg (services_prefix pfx) (m_cmd m) [target; trailing m])
        end
  end.

(* ---- nickname holds, user modes -------------------------------------------------------------------- *)
Definition cmd_server_svshold (k : skey) (m : imsg) : M unit :=
  DO p0 <- param m 0 IN
  DO s <- sessM k IN
  let nick := nick_to_lower p0 in
  if Nat.ltb 1 (nparams m) then
    DO p1 <- param m 1 IN
    match N_of_dec p1 with
    | None => gapM "time.ParseDuration on a non-decimal number of seconds"
    | Some secs =>
        modS (set_svsholds (<[nick := SvsHold (s_lastActivity s) (Z.of_N secs * 1000000000)%Z (trailing m)]>))
    end
  else modS (set_svsholds (delete nick)).

Definition cmd_server_svsmode (k : skey) (m : imsg) : M unit :=
  DO p0 <- param m 0 IN DO modestr <- param m 1 IN
  DO sv <- getS IN DO s <- sessM k IN
  match sv_nicks sv !! nick_to_lower p0 with
  | None => reply_svc "401" ["*"; p0; "No such nick/channel"]
  | Some tk =>
      if negb (has_prefix "+" modestr) && negb (has_prefix "-" modestr) then
        reply_svc "501" ["*"; "Unknown MODE flag"]
      else
        forM (normalize_modes m) (fun md =>
          if (mc_char md =? 100)%N then updSess tk (ss_svid (mc_param md))
          else if (mc_char md =? 114)%N then updSess tk (ss_modes (set_mode 114 (mc_add md)))
          else reply_svc "501" ["*"; "Unknown MODE flag"]) ;;;
        DO t <- sessM tk IN
        emit (rc_user tk) (usrmsg (s_prefix s) "MODE" [s_nick t; modestr_of (s_modes t)])
  end.
