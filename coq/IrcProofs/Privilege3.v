(* IrcProofs/Privilege3.v — C13, continued: (a) the hypotheses of the frame theorem of Privilege2.v are
   satisfiable (concrete histories with an operator and a non-operator in a channel, a keyed channel and a
   third client joining with and without the key); (b) services and operator status: over ALL handlers of
   the command table the set of sessions with s_server / s_operator set grows only through SERVER with a
   configured services password / OPER with configured credentials; services handlers are reachable only
   for sessions with s_server set; (c) network-wide notices need operator status. *)
From stdpp Require Import gmap.
From Coq Require Import Strings.String Strings.Ascii ZArith NArith Lia.
From RV Require Import Base.Text Irc.Str Irc.Parse Irc.State Irc.Monad Irc.Cmds Irc.SCmds Irc.Apply.
From RV Require Import IrcProofs.WP IrcProofs.Inv IrcProofs.InvPrims IrcProofs.StrLemmas IrcProofs.Handlers
                       IrcProofs.SHandlers IrcProofs.Top IrcProofs.Privilege IrcProofs.Privilege2.
From RV Require IrcProofs.Examples.
Local Open Scope string_scope.

(* ---- non-vacuity ----------------------------------------------------------------------------------------------------- *)
Definition is_chanop_b (sv : server) (k : N * N) (lc : string) : bool :=
  match sv_sessions sv !! k, sv_channels sv !! lc with
  | Some s, Some c => match c_nicks c !! nick_to_lower (s_nick s) with Some (true, _) => true | _ => false end
  | _, _ => false
  end.
Lemma is_chanop_b_false sv k lc : is_chanop_b sv k lc = false -> ~ is_chanop sv k lc.
Proof.
  unfold is_chanop_b. intros H (s & c & v & Hs & Hc & Hm). rewrite Hs, Hc, Hm in H. discriminate.
Qed.

Definition the_state (o : option server) : server := match o with Some sv => sv | None => init_server "" end.
Definition the_result (o : outcome) : server := match o with OOk sv _ => sv | _ => init_server "" end.
Definition the_session (sv : server) (k : N * N) : session :=
  match sv_sessions sv !! k with Some s => s | None => new_session k "" None end.
Definition the_chan (sv : server) (lc : string) : chan :=
  match sv_channels sv !! lc with Some c => c | None => new_chan "" ∅ end.

Lemma run_EInv es sv :
  Examples.wf_history_b Examples.ex_env (init_server "robustirc.net") es = true ->
  run Examples.ex_env (init_server "robustirc.net") es = Some sv -> EInv sv.
Proof.
  intros Hwf H. destruct (run_ok Examples.ex_env (init_server "robustirc.net") es (EInv_init _)) as (sv1 & H1 & E1).
  - now apply Examples.wf_history_b_sound.
  - rewrite H in H1. injection H1 as <-. exact E1.
Qed.

(* Foo (session 1) created #chan and is its operator, bar (session 4) joined later and is not *)
Definition ex_prefix : list entry := firstn 8 Examples.ex_history.
Definition ex_sv : server := the_state (run Examples.ex_env (init_server "robustirc.net") ex_prefix).
(* bar tries to change the channel modes: refused with one 482, the channel is as before *)
Definition ex_entry : entry := EMessage 11 11000 4 25 "" "MODE #chan +i-t".
Definition ex_sv' : server := the_result (apply_entry Examples.ex_env ex_sv ex_entry).

Example ex_frame_nonvacuous :
  let s := the_session ex_sv (4%N, 0%N) in let c := the_chan ex_sv "#chan" in
  exists out,
    EInv ex_sv /\
    apply_entry Examples.ex_env ex_sv ex_entry = OOk ex_sv' out /\
    sv_sessions ex_sv !! (4%N, 0%N) = Some s /\ s_server s = false /\ s_operator s = false /\
    sv_channels ex_sv !! "#chan" = Some c /\ c_nicks c !! "foo" = Some (true, false) /\ c_nicks c !! "bar" = Some (false, false) /\
    ~ is_chanop ex_sv (4%N, 0%N) "#chan" /\ List.length out = 1 /\ sv_channels ex_sv' !! "#chan" = Some c.
Proof.
  cbv zeta. eexists. split; [apply (run_EInv ex_prefix); vm_compute; reflexivity|].
  split; [vm_compute; reflexivity|]. split; [vm_compute; reflexivity|]. split; [vm_compute; reflexivity|]. split; [vm_compute; reflexivity|].
  split; [vm_compute; reflexivity|]. split; [vm_compute; reflexivity|]. split; [vm_compute; reflexivity|].
  split; [apply is_chanop_b_false; vm_compute; reflexivity|]. split; vm_compute; reflexivity.
Qed.

(* the theorem applied to the example: whatever bar's line was, the modes, key and bans of #chan are as before *)
Example ex_frame_applied :
  forall c', sv_channels ex_sv' !! "#chan" = Some c' ->
    c_modes c' = c_modes (the_chan ex_sv "#chan") /\ c_nicks c' !! "foo" = Some (true, false).
Proof.
  intros c' Hc'. destruct ex_frame_nonvacuous as (out & E & Hap & Hs & Hsrv & Hop & Hc & Hfoo & _ & Hno & _).
  pose proof (C13_frame _ _ _ _ _ _ _ _ _ _ _ _ _ E Hap Hs Hsrv (or_introl Hop) Hc Hno) as F.
  destruct (fw_fields _ _ _ _ _ _ _ F c' Hc') as (_ & Hm & _). split; [exact Hm|].
  rewrite (fw_others _ _ _ _ _ _ _ F c' "foo" (1%N, 0%N) Hc'); [exact Hfoo|vm_compute; reflexivity|discriminate].
Qed.

(* the membership gate: Foo sets a key, a third client registers and joins with the key *)
Definition ex_gate_prefix : list entry :=
  (ex_prefix ++ [ EMessage 11 11000 1 14 "" "MODE #chan +k secret"; ECreate 12 12000 "aaaaaaaabbbbbbbb";
                  EMessage 13 13000 12 31 "" "NICK baz"; EMessage 14 14000 12 32 "" "USER baz 0 * :Baz" ])%list.
Definition ex_gsv : server := the_state (run Examples.ex_env (init_server "robustirc.net") ex_gate_prefix).
Definition ex_join : entry := EMessage 15 15000 12 33 "" "JOIN #chan secret".
Definition ex_gsv' : server := the_result (apply_entry Examples.ex_env ex_gsv ex_join).
Definition ex_join_bad : entry := EMessage 15 15000 12 33 "" "JOIN #chan guess".
Definition ex_gsv'' : server := the_result (apply_entry Examples.ex_env ex_gsv ex_join_bad).

Definition the_out (o : outcome) : list omsg := match o with OOk _ out => out | _ => [] end.
Definition is_ook (o : outcome) : bool := match o with OOk _ _ => true | _ => false end.
Definition is_some {A} (o : option A) : bool := match o with Some _ => true | None => false end.
Lemma is_ook_spec o : is_ook o = true -> o = OOk (the_result o) (the_out o).
Proof. destruct o; try discriminate. reflexivity. Qed.
Lemma the_state_spec o : is_some o = true -> o = Some (the_state o).
Proof. destruct o; try discriminate. reflexivity. Qed.
Lemma the_session_spec sv k : is_some (sv_sessions sv !! k) = true -> sv_sessions sv !! k = Some (the_session sv k).
Proof. unfold the_session. destruct (sv_sessions sv !! k); try discriminate. reflexivity. Qed.
Lemma the_chan_spec sv lc : is_some (sv_channels sv !! lc) = true -> sv_channels sv !! lc = Some (the_chan sv lc).
Proof. unfold the_chan. destruct (sv_channels sv !! lc); try discriminate. reflexivity. Qed.

(* all decidable facts about the example in one evaluation *)
Definition ex_gate_check : bool :=
  let s := the_session ex_gsv (12%N, 0%N) in let c := the_chan ex_gsv "#chan" in let c' := the_chan ex_gsv' "#chan" in
  Examples.wf_history_b Examples.ex_env (init_server "robustirc.net") ex_gate_prefix &&
  is_some (run Examples.ex_env (init_server "robustirc.net") ex_gate_prefix) &&
  is_ook (apply_entry Examples.ex_env ex_gsv ex_join) &&
  is_some (sv_sessions ex_gsv !! (12%N, 0%N)) && negb (s_server s) && negb (s_operator s) &&
  is_some (sv_channels ex_gsv !! "#chan") && has_mode 107 (c_modes c) && bool_decide (c_key c = "secret") &&
  bool_decide (c_nicks c !! "baz" = None) && negb (is_chanop_b ex_gsv (12%N, 0%N) "#chan") &&
  is_some (sv_channels ex_gsv' !! "#chan") && bool_decide (c_nicks c' !! "baz" = Some (false, false)) &&
  is_ook (apply_entry Examples.ex_env ex_gsv ex_join_bad) &&
  bool_decide (c_nicks (the_chan ex_gsv'' "#chan") !! "baz" = None) && is_some (sv_channels ex_gsv'' !! "#chan").

Example ex_gate_nonvacuous :
  let s := the_session ex_gsv (12%N, 0%N) in let c := the_chan ex_gsv "#chan" in let c' := the_chan ex_gsv' "#chan" in
  exists out out2,
    EInv ex_gsv /\
    apply_entry Examples.ex_env ex_gsv ex_join = OOk ex_gsv' out /\
    sv_sessions ex_gsv !! (12%N, 0%N) = Some s /\ s_server s = false /\ s_operator s = false /\
    sv_channels ex_gsv !! "#chan" = Some c /\ has_mode 107 (c_modes c) = true /\ c_key c = "secret" /\
    c_nicks c !! "baz" = None /\ ~ is_chanop ex_gsv (12%N, 0%N) "#chan" /\
    sv_channels ex_gsv' !! "#chan" = Some c' /\ c_nicks c' !! "baz" = Some (false, false) /\
    (* with a wrong key the session stays outside *)
    apply_entry Examples.ex_env ex_gsv ex_join_bad = OOk ex_gsv'' out2 /\
    sv_channels ex_gsv'' !! "#chan" = Some (the_chan ex_gsv'' "#chan") /\ c_nicks (the_chan ex_gsv'' "#chan") !! "baz" = None.
Proof.
  cbv zeta.
  exists (the_out (apply_entry Examples.ex_env ex_gsv ex_join)), (the_out (apply_entry Examples.ex_env ex_gsv ex_join_bad)).
  assert (H : ex_gate_check = true) by (vm_compute; reflexivity).
  unfold ex_gate_check in H. cbv zeta in H.
  repeat match type of H with (_ && _ = true) => apply andb_prop in H; let Hn := fresh "B" in destruct H as [H Hn] end.
  split; [unfold ex_gsv; apply (run_EInv ex_gate_prefix); [exact H|apply the_state_spec; exact B13]|].
  split; [exact (is_ook_spec _ B12)|]. split; [exact (the_session_spec _ _ B11)|].
  split; [exact (proj1 (negb_true_iff _) B10)|]. split; [exact (proj1 (negb_true_iff _) B9)|].
  split; [exact (the_chan_spec _ _ B8)|]. split; [exact B7|]. split; [exact (bool_decide_eq_true_1 _ B6)|].
  split; [exact (bool_decide_eq_true_1 _ B5)|]. split; [exact (is_chanop_b_false _ _ _ (proj1 (negb_true_iff _) B4))|].
  split; [exact (the_chan_spec _ _ B3)|]. split; [exact (bool_decide_eq_true_1 _ B2)|].
  split; [exact (is_ook_spec _ B1)|]. split; [exact (the_chan_spec _ _ B)|exact (bool_decide_eq_true_1 _ B0)].
Qed.

(* ===================================================================================================== *)
(* ---- services and operator status over ALL handlers ------------------------------------------------- *)
Section Flags.
  (* the acting session; the configured operator credentials and services passwords (no handler changes
     them); AO: a configured operator credential exists — the only way the acting session's operator flag
     can be raised by the handlers that go through OPER *)
  Variable k : N * N.
  Variable ops0 : list (string * string).
  Variable svc0 : list string.
  Variable AO : Prop.

  Definition CfgIs (sv : server) : Prop := g_operators (sv_config sv) = ops0 /\ g_services (sv_config sv) = svc0.
  (* no session becomes a services link; no session becomes an operator, except the acting one if AO *)
  Definition ff (sv sv' : server) : Prop :=
    (forall tk s', sv_sessions sv' !! tk = Some s' -> s_server s' = true ->
        exists s, sv_sessions sv !! tk = Some s /\ s_server s = true) /\
    (forall tk s', sv_sessions sv' !! tk = Some s' -> s_operator s' = true ->
        (exists s, sv_sessions sv !! tk = Some s /\ s_operator s = true) \/ (tk = k /\ AO)).
  Lemma ff_refl sv : ff sv sv.
  Proof. split; intros tk s' Hs' Hf; [|left]; eauto. Qed.
  Lemma ff_trans a b c : ff a b -> ff b c -> ff a c.
  Proof.
    intros [H1 H2] [H3 H4]. split.
    - intros tk s' Hs' Hf. destruct (H3 _ _ Hs' Hf) as (s1 & Hs1 & Hf1). eauto.
    - intros tk s' Hs' Hf. destruct (H4 _ _ Hs' Hf) as [(s1 & Hs1 & Hf1)|Hx]; [eauto|now right].
  Qed.

  Definition fl_ok {A} (m : M A) : Prop :=
    forall sv r, CfgIs sv -> pw m (fun _ sv' _ => CfgIs sv' /\ ff sv sv') sv r.

  Lemma fl_ret {A} (a : A) : fl_ok (retM a).
  Proof. intros sv r H. split; [exact H|apply ff_refl]. Qed.
  Lemma fl_bind {A B} (m : M A) (f : A -> M B) : fl_ok m -> (forall a, fl_ok (f a)) -> fl_ok (bindM m f).
  Proof.
    intros Hm Hf sv r HC. apply pw_bind. eapply pw_mono; [apply Hm, HC|]. intros a sv1 r1 [HC1 F1]. cbv beta.
    eapply pw_mono; [apply Hf, HC1|]. intros b sv2 r2 [HC2 F2]. split; [exact HC2|eapply ff_trans; eauto].
  Qed.
  Lemma fl_panic {A} s : fl_ok (@panicM A s). Proof. intros sv r H. exact Logic.I. Qed.
  Lemma fl_gap {A} s : fl_ok (@gapM A s). Proof. intros sv r H. exact Logic.I. Qed.
  Lemma fl_getS : fl_ok getS. Proof. intros sv r H. split; [exact H|apply ff_refl]. Qed.
  Lemma fl_modS f : (forall sv, CfgIs sv -> CfgIs (f sv) /\ ff sv (f sv)) -> fl_ok (modS f).
  Proof. intros Hf sv r H. apply Hf, H. Qed.
  Lemma fl_liftR {A} (x : res A) : fl_ok (liftR x).
  Proof. intros sv r H. unfold pw, liftR. destruct x; [split; [exact H|apply ff_refl]|exact Logic.I|exact Logic.I]. Qed.
  Lemma fl_replyCount : fl_ok replyCount. Proof. intros sv r H. split; [exact H|apply ff_refl]. Qed.
  Lemma fl_emit rc m : fl_ok (emit rc m). Proof. intros sv r H. split; [exact H|apply ff_refl]. Qed.
  Lemma fl_whenM b m : fl_ok m -> fl_ok (whenM b m).
  Proof. intros Hm. destruct b; [exact Hm|apply fl_ret]. Qed.
  Lemma fl_forM {A} (l : list A) (f : A -> M unit) : (forall x, fl_ok (f x)) -> fl_ok (forM l f).
  Proof. intros Hf. induction l as [|x l IH]; cbn [forM]; [apply fl_ret|]. apply fl_bind; [apply Hf|intros _; exact IH]. Qed.

  (* state changes that keep the two flags of every session *)
  Definition keeps (f : session -> session) : Prop := forall s, s_server (f s) = s_server s /\ s_operator (f s) = s_operator s.
  Lemma ff_upd tk f sv :
    keeps f -> CfgIs sv ->
    CfgIs (set_sessions (fun m => match m !! tk with Some s => <[tk := f s]> m | None => m end) sv) /\
    ff sv (set_sessions (fun m => match m !! tk with Some s => <[tk := f s]> m | None => m end) sv).
  Proof.
    intros Hf HC. split; [exact HC|]. split; intros tk' s' Hs' Hfl; cbn [sv_sessions set_sessions] in Hs'; rewrite lookup_upd_sess in Hs';
      [|left]; (case_bool_decide as E; [|eauto]); destruct (sv_sessions sv !! tk') as [s1|] eqn:E1; try discriminate;
      cbn in Hs'; injection Hs' as <-; destruct (Hf s1) as [F1 F2]; exists s1; split; congruence.
  Qed.
  Lemma ff_fmap f sv : keeps f -> CfgIs sv -> CfgIs (set_sessions (fmap f) sv) /\ ff sv (set_sessions (fmap f) sv).
  Proof.
    intros Hf HC. split; [exact HC|]. split; intros tk' s' Hs' Hfl; cbn [sv_sessions set_sessions] in Hs'; rewrite lookup_fmap in Hs';
      [|left]; destruct (sv_sessions sv !! tk') as [s1|] eqn:E1; try discriminate;
      cbn in Hs'; injection Hs' as <-; destruct (Hf s1) as [F1 F2]; exists s1; split; congruence.
  Qed.
  Lemma ff_insert_plain key s0 sv :
    s_server s0 = false -> s_operator s0 = false -> CfgIs sv ->
    CfgIs (set_sessions (<[key := s0]>) sv) /\ ff sv (set_sessions (<[key := s0]>) sv).
  Proof.
    intros F1 F2 HC. split; [exact HC|]. split; intros tk' s' Hs' Hfl; cbn [sv_sessions set_sessions] in Hs';
      [|left]; (destruct (decide (key = tk')) as [<-|Hne]; [rewrite lookup_insert in Hs'; injection Hs' as <-; congruence|]);
      rewrite lookup_insert_ne in Hs' by exact Hne; eauto.
  Qed.
  Lemma ff_same sv sv' :
    sv_sessions sv' = sv_sessions sv -> g_operators (sv_config sv') = g_operators (sv_config sv) ->
    g_services (sv_config sv') = g_services (sv_config sv) -> CfgIs sv -> CfgIs sv' /\ ff sv sv'.
  Proof.
    intros Hs Hc1 Hc2 [H1 H2]. split; [unfold CfgIs; rewrite Hc1, Hc2; auto|]. split; intros tk s' Hs' Hf; rewrite Hs in Hs'; [|left]; eauto.
  Qed.
End Flags.

Ltac fl_mod :=
  first [ apply ff_upd; [intros ?; split; reflexivity|assumption]
        | apply ff_fmap; [intros ?; split; reflexivity|assumption]
        | apply ff_insert_plain; [reflexivity|reflexivity|assumption]
        | apply ff_same; [reflexivity|reflexivity|reflexivity|assumption]
        | match goal with H : CfgIs _ _ _ |- _ => destruct H as [? ?]; split; [split; assumption|apply ff_refl] end ].

Ltac fl_step :=
  lazymatch goal with
  | |- fl_ok _ _ _ _ (bindM _ _) => apply fl_bind; [|intros ?]
  | |- fl_ok _ _ _ _ (retM _) => apply fl_ret
  | |- fl_ok _ _ _ _ (panicM _) => apply fl_panic
  | |- fl_ok _ _ _ _ (gapM _) => apply fl_gap
  | |- fl_ok _ _ _ _ getS => apply fl_getS
  | |- fl_ok _ _ _ _ (modS _) => apply fl_modS; intros ? ?; fl_mod
  | |- fl_ok _ _ _ _ (liftR _) => apply fl_liftR
  | |- fl_ok _ _ _ _ replyCount => apply fl_replyCount
  | |- fl_ok _ _ _ _ (emit _ _) => apply fl_emit
  | |- fl_ok _ _ _ _ (whenM _ _) => apply fl_whenM
  | |- fl_ok _ _ _ _ (forM _ _) => apply fl_forM; intros ?
  | |- fl_ok _ _ _ _ (if ?b then _ else _) => destruct b
  | |- fl_ok _ _ _ _ (match ?x with _ => _ end) => destruct x eqn:?
  | |- fl_ok _ _ _ _ (let _ := _ in _) => cbv zeta
  end.

Section FlagHandlers.
  Variable k : N * N.
  Variable ops0 : list (string * string).
  Variable svc0 : list string.
  (* the credentials the line presents: as OPER parameters or inside a stored PASS string *)
  Variable Cred : string -> string -> Prop.
  Definition AOp : Prop := exists name pw, In (name, pw) ops0 /\ Cred name pw.
  Notation FL := (fl_ok k ops0 svc0 AOp).

  Ltac unf := unfold reply_num, reply_svc, sessM, updSess, updChan, chanM, nickM, cfgM, param, prefix_name, msg_prefix,
                chanop_of, captcha_url_check, add_member, leave_channel, maybe_delete_channel, drop_invites,
                remove_nick_everywhere, rename_in_channels, change_nick, create_session.
  Ltac go := repeat (first [ fl_step | assumption | progress unf ]).

  Lemma fl_delete_session tk : FL (delete_session tk).
  Proof. unfold delete_session. unf. go. Qed.
  Lemma fl_verify_captcha e c : FL (verify_captcha e k c).
  Proof. unfold verify_captcha. unf. go. Qed.
  Lemma fl_cmd_motd m : FL (cmd_motd k m).
  Proof. unfold cmd_motd. unf. go. Qed.

  (* OPER: the one place where the operator flag is raised — for the acting session, after auth_oper *)
  Lemma auth_oper_In g name pw : auth_oper g name pw = true -> In (name, pw) (g_operators g).
  Proof.
    unfold auth_oper. intros H. apply existsb_exists in H. destruct H as ([n p] & Hin & Hb). cbn in Hb.
    apply andb_true_iff in Hb. destruct Hb as [H1 H2]. apply String.eqb_eq in H1, H2. now subst.
  Qed.
  Lemma fl_cmd_oper m :
    (forall name pw, nth_error (m_params m) 0 = Some name -> nth_error (m_params m) 1 = Some pw -> Cred name pw) -> FL (cmd_oper k m).
  Proof.
    intros HCred sv r HC. unfold cmd_oper.
    apply pw_bind_param. intros name Hname. apply pw_bind_param. intros pw0 Hpw. apply pw_bind_cfgM. apply pw_bind_sessM. intros s Hs.
    destruct (auth_oper (sv_config sv) name pw0) eqn:Ha; cbn [negb].
    - unfold updSess. apply pw_bind_modS.
      match goal with |- pw _ _ ?st _ => set (sv1 := st) end.
      assert (H1 : CfgIs ops0 svc0 sv1 /\ ff k AOp sv sv1).
      { split; [exact HC|]. split; intros tk s' Hs' Hf; unfold sv1 in Hs'; cbn [sv_sessions set_sessions] in Hs'; rewrite lookup_upd_sess in Hs'.
        - case_bool_decide as E; [|eauto]. destruct E. rewrite Hs in Hs'. cbn in Hs'. injection Hs' as <-. cbn in Hf. exists s. split; [congruence|exact Hf].
        - case_bool_decide as E; [|left; eauto]. right. split; [now symmetry|]. exists name, pw0. split; [|now apply HCred].
          destruct HC as [HC1 _]. rewrite <- HC1. now apply auth_oper_In. }
      apply pw_bind_sessM. intros s2 Hs2. apply pw_bind_getS. apply pw_bind_reply_num. intros r1.
      unfold pw, emit. exact H1.
    - apply pw_unit_r, pw_bind_reply_num. intros r1. apply pw_ret. split; [exact HC|apply ff_refl].
  Qed.

  Hypothesis Cred_pass : forall pass p name pw, parse_message ("OPER " ++ pass) = Some p ->
      nth_error (m_params p) 0 = Some name -> nth_error (m_params p) 1 = Some pw -> Cred name pw.

  Lemma fl_maybe_login e m : FL (maybe_login e k m).
  Proof.
    unfold maybe_login. unf. go; try apply fl_verify_captcha; try apply fl_cmd_motd.
    all: apply fl_cmd_oper; intros name pw0 H0 H1; eapply Cred_pass; eauto.
  Qed.
  Lemma fl_cmd_nick e m : FL (cmd_nick e k m).
  Proof. unfold cmd_nick. unf. go; try apply fl_maybe_login. Qed.
  Lemma fl_cmd_user e m : FL (cmd_user e k m).
  Proof. unfold cmd_user. unf. go; try apply fl_maybe_login. Qed.
  Lemma fl_cmd_pass e m : FL (cmd_pass e k m).
  Proof. unfold cmd_pass. unf. go; try apply fl_maybe_login. Qed.
  Lemma fl_mode_step kk lc ch op md q : FL (cmd_mode_chan_step kk lc ch op md q).
  Proof. unfold cmd_mode_chan_step. unf. go. Qed.
  Lemma fl_mode_loop kk lc ch op mds q : FL (cmd_mode_chan_loop kk lc ch op mds q).
  Proof.
    revert q. induction mds as [|md mds IH]; intros q; cbn [cmd_mode_chan_loop]; [apply fl_ret|].
    apply fl_bind; [apply fl_mode_step|]. intros st. destruct (fst st); [apply fl_ret|apply IH].
  Qed.
  Lemma fl_cmd_mode kk m : FL (cmd_mode kk m).
  Proof. unfold cmd_mode. unf. go; try apply fl_mode_loop. Qed.
  Lemma fl_cmd_topic kk m : FL (cmd_topic kk m).
  Proof. unfold cmd_topic. unf. go. Qed.
  Lemma fl_cmd_names kk m : FL (cmd_names kk m).
  Proof. unfold cmd_names. unf. go. Qed.
  Lemma fl_join_one e ch key : FL (join_one e k ch key).
  Proof. unfold join_one. unf. go; try apply fl_verify_captcha; try apply fl_cmd_mode; try apply fl_cmd_topic; try apply fl_cmd_names. Qed.
  Lemma fl_cmd_join e m : FL (cmd_join e k m).
  Proof. unfold cmd_join. unf. go; try apply fl_join_one. Qed.
  Lemma fl_cmd_part m : FL (cmd_part k m).
  Proof. unfold cmd_part. unf. go. Qed.
  Lemma fl_cmd_kick m : FL (cmd_kick k m).
  Proof. unfold cmd_kick. unf. go. Qed.
  Lemma fl_cmd_invite m : FL (cmd_invite k m).
  Proof. unfold cmd_invite. unf. go. Qed.
  Lemma fl_cmd_privmsg m : FL (cmd_privmsg k m).
  Proof. unfold cmd_privmsg. unf. go. Qed.
  Lemma fl_cmd_service_alias m : FL (cmd_service_alias k m).
  Proof. unfold cmd_service_alias. unf. go; try apply fl_cmd_privmsg. Qed.
  Lemma fl_cmd_who m : FL (cmd_who k m).
  Proof. unfold cmd_who. unf. go. Qed.
  Lemma fl_cmd_whois m : FL (cmd_whois k m).
  Proof. unfold cmd_whois. unf. go. Qed.
  Lemma fl_cmd_list m : FL (cmd_list k m).
  Proof. unfold cmd_list. unf. go. Qed.
  Lemma fl_cmd_away m : FL (cmd_away k m).
  Proof. unfold cmd_away. unf. go. Qed.
  Lemma fl_cmd_ison m : FL (cmd_ison k m).
  Proof. unfold cmd_ison. unf. go. Qed.
  Lemma fl_cmd_userhost m : FL (cmd_userhost k m).
  Proof. unfold cmd_userhost. unf. go. Qed.
  Lemma fl_cmd_knock m : FL (cmd_knock k m).
  Proof. unfold cmd_knock. unf. go. Qed.
  Lemma fl_cmd_ping m : FL (cmd_ping k m).
  Proof. unfold cmd_ping. unf. go. Qed.
  Lemma fl_cmd_quit m : FL (cmd_quit k m).
  Proof. unfold cmd_quit. unf. go; try apply fl_delete_session. Qed.
  Lemma fl_cmd_kill m : FL (cmd_kill k m).
  Proof. unfold cmd_kill. unf. go; try apply fl_delete_session. Qed.
  Lemma fl_cmd_gline m : FL (cmd_gline k m).
  Proof. unfold cmd_gline. unf. go; try apply fl_cmd_kill. Qed.

  (* services handlers: none of them touches the two flags *)
  Lemma fl_burst_one sv t : FL (burst_one sv t).
  Proof. unfold burst_one. unf. go. Qed.
  Lemma fl_cmd_server_nick m : FL (cmd_server_nick k m).
  Proof. unfold cmd_server_nick. unf. go. Qed.
  Lemma fl_quit_pseudo tk m : FL (quit_pseudo tk m).
  Proof. unfold quit_pseudo. unf. go; try apply fl_delete_session. Qed.
  Lemma fl_cmd_server_quit m : FL (cmd_server_quit k m).
  Proof. unfold cmd_server_quit. unf. go; try apply fl_delete_session; try apply fl_quit_pseudo. Qed.
  Lemma fl_cmd_server_kill m : FL (cmd_server_kill k m).
  Proof. unfold cmd_server_kill. unf. go; try apply fl_delete_session. Qed.
  Lemma fl_cmd_server_join m : FL (cmd_server_join k m).
  Proof. unfold cmd_server_join. unf. go. Qed.
  Lemma fl_cmd_server_part m : FL (cmd_server_part k m).
  Proof. unfold cmd_server_part. unf. go. Qed.
  Lemma fl_cmd_server_kick m : FL (cmd_server_kick k m).
  Proof. unfold cmd_server_kick. unf. go. Qed.
  Lemma fl_cmd_server_svsjoin m : FL (cmd_server_svsjoin k m).
  Proof. unfold cmd_server_svsjoin. unf. go; try apply fl_cmd_topic; try apply fl_cmd_names. Qed.
  Lemma fl_cmd_server_svspart m : FL (cmd_server_svspart k m).
  Proof. unfold cmd_server_svspart. unf. go. Qed.
  Lemma fl_cmd_server_svsnick m : FL (cmd_server_svsnick k m).
  Proof. unfold cmd_server_svsnick. unf. go. Qed.
  Lemma fl_cmd_server_mode m : FL (cmd_server_mode k m).
  Proof. unfold cmd_server_mode. unf. go. Qed.
  Lemma fl_cmd_server_topic m : FL (cmd_server_topic k m).
  Proof. unfold cmd_server_topic. unf. go. Qed.
  Lemma fl_cmd_server_invite m : FL (cmd_server_invite k m).
  Proof. unfold cmd_server_invite. unf. go. Qed.
  Lemma fl_cmd_server_privmsg m : FL (cmd_server_privmsg k m).
  Proof. unfold cmd_server_privmsg. unf. go. Qed.
  Lemma fl_cmd_server_svshold m : FL (cmd_server_svshold k m).
  Proof. unfold cmd_server_svshold. unf. go. Qed.
  Lemma fl_cmd_server_svsmode m : FL (cmd_server_svsmode k m).
  Proof. unfold cmd_server_svsmode. unf. go. Qed.

  (* every entry of the command table except SERVER *)
  Lemma fl_dispatch name minp (f : handler) e m :
    In (name, (minp, f)) commands -> name <> "SERVER" ->
    (name = "OPER" -> forall n pw, nth_error (m_params m) 0 = Some n -> nth_error (m_params m) 1 = Some pw -> Cred n pw) ->
    FL (f e k m).
  Proof.
    intros Hin Hns HOp. unfold commands in Hin.
    repeat (destruct Hin as [Hin|Hin]; [injection Hin as <- <- <-|]); try contradiction; try congruence; unfold noenv;
      first [ apply fl_cmd_service_alias | apply fl_cmd_away | apply fl_cmd_gline | apply fl_cmd_invite | apply fl_cmd_ison
            | apply fl_cmd_join | apply fl_cmd_kick | apply fl_cmd_kill | apply fl_cmd_knock | apply fl_cmd_list | apply fl_cmd_mode
            | apply fl_cmd_motd | apply fl_cmd_names | apply fl_cmd_nick | apply fl_cmd_oper; apply HOp; reflexivity | apply fl_cmd_part | apply fl_cmd_pass
            | apply fl_cmd_ping | apply fl_cmd_privmsg | apply fl_cmd_quit | apply fl_cmd_topic | apply fl_cmd_user
            | apply fl_cmd_userhost | apply fl_cmd_who | apply fl_cmd_whois
            | apply fl_cmd_server_invite | apply fl_cmd_server_join | apply fl_cmd_server_kick | apply fl_cmd_server_kill
            | apply fl_cmd_server_mode | apply fl_cmd_server_nick | apply fl_cmd_server_part | apply fl_cmd_server_privmsg
            | apply fl_cmd_server_quit | apply fl_cmd_server_svshold | apply fl_cmd_server_svsjoin | apply fl_cmd_server_svsmode
            | apply fl_cmd_server_svsnick | apply fl_cmd_server_svspart | apply fl_cmd_server_topic ].
  Qed.
End FlagHandlers.

(* ---- SERVER: the one place where the services flag is raised -------------------------------------------------- *)
Definition services_auth (svc : list string) (s : session) : Prop :=
  exists pw, In pw svc /\ s_pass s = "services=" ++ pw.

(* what one line may do to the two flags; [s] is the acting session before the line *)
Definition flags_grow_only_by_auth (k : N * N) (s : session) (m : imsg) (Cred : string -> string -> Prop) (sv sv' : server) : Prop :=
  (forall tk s', sv_sessions sv' !! tk = Some s' -> s_server s' = true ->
     (exists s0, sv_sessions sv !! tk = Some s0 /\ s_server s0 = true) \/
     (tk = k /\ to_upper (m_cmd m) = "SERVER" /\ s_server s = false /\ services_auth (g_services (sv_config sv)) s)) /\
  (forall tk s', sv_sessions sv' !! tk = Some s' -> s_operator s' = true ->
     (exists s0, sv_sessions sv !! tk = Some s0 /\ s_operator s0 = true) \/
     (tk = k /\ exists name pw, In (name, pw) (g_operators (sv_config sv)) /\ Cred name pw)).

Lemma cmd_server_flags k m sv r s :
  sv_sessions sv !! k = Some s ->
  pw (cmd_server k m)
     (fun _ sv' _ =>
        (forall tk s', sv_sessions sv' !! tk = Some s' -> s_server s' = true ->
           (exists s0, sv_sessions sv !! tk = Some s0 /\ s_server s0 = true) \/
           (tk = k /\ services_auth (g_services (sv_config sv)) s)) /\
        (forall tk s', sv_sessions sv' !! tk = Some s' -> s_operator s' = true ->
           exists s0, sv_sessions sv !! tk = Some s0 /\ s_operator s0 = true)) sv r.
Proof.
  intros Hs. unfold cmd_server. apply pw_bind_sessM. intros s1 Hs1. rewrite Hs in Hs1. injection Hs1 as <-. apply pw_bind_cfgM.
  destruct (existsb (fun pw => String.eqb (s_pass s) ("services=" ++ pw)) (g_services (sv_config sv))) eqn:Hauth; cbn [negb].
  - assert (HA : services_auth (g_services (sv_config sv)) s).
    { apply existsb_exists in Hauth. destruct Hauth as (pw0 & Hin & Heq). apply String.eqb_eq in Heq. now exists pw0. }
    apply pw_bind_param. intros p0 Hp0. unfold updSess at 1. apply pw_bind_modS.
    match goal with |- pw ?rest _ ?st _ => set (sv1 := st); set (tail := rest) end.
    assert (Ht : fl_ok k (g_operators (sv_config sv)) (g_services (sv_config sv)) (AOp (g_operators (sv_config sv)) (fun _ _ => False)) tail).
    { unfold tail. repeat (first [ fl_step | assumption | progress unfold sessM, reply_num ]). apply fl_burst_one. }
    eapply pw_mono; [apply Ht; split; reflexivity|]. intros [] sv2 r2 [_ [F1 F2]]. split.
    + intros tk s' Hs' Hf. destruct (F1 _ _ Hs' Hf) as (s1 & Hs1 & Hf1). unfold sv1 in Hs1. cbn [sv_sessions set_sessions] in Hs1.
      rewrite lookup_upd_sess in Hs1. case_bool_decide as E; [right; split; [now symmetry|exact HA]|left; eauto].
    + intros tk s' Hs' Hf. destruct (F2 _ _ Hs' Hf) as [(s1 & Hs1 & Hf1)|[_ (? & ? & _ & [])]]. unfold sv1 in Hs1. cbn [sv_sessions set_sessions] in Hs1.
      rewrite lookup_upd_sess in Hs1. case_bool_decide as E; [|eauto]. destruct E. rewrite Hs in Hs1. cbn in Hs1. injection Hs1 as <-.
      cbn in Hf1. eauto.
  - unfold pw, emit. split; intros tk s' Hs' Hf; eauto.
Qed.

(* ProcessMessage for an arbitrary session: what runs, and in which state *)
Definition pm_outcome2 (e : env) (k : N * N) (m : imsg) (key : string) (sv1 sv' : server) : Prop :=
  (exists r1 r2, delete_session k sv1 r1 = Ok (tt, sv', r2)) \/ sv' = sv1 \/
  (exists minp (f : handler) r1 r2, assoc_str key commands = Some (minp, f) /\ f e k m sv1 r1 = Ok (tt, sv', r2)).

Lemma pm_inv2 e k ra m sv r s :
  sv_sessions sv !! k = Some s ->
  pw (process_message e k ra (Some m))
     (fun _ sv' _ => pm_outcome2 e k m ((if s_server s then "server_" else "") ++ to_upper (m_cmd m)) (view_state k ra s sv) sv') sv r.
Proof.
  intros Hs. unfold process_message. apply pw_bind_sessM. intros s' Hs'. rewrite Hs in Hs'. injection Hs' as <-. cbv zeta.
  set (sv1 := view_state k ra s sv).
  assert (Hs1 : sv_sessions sv1 !! k = Some (acting_view ra s)).
  { unfold sv1, view_state, acting_view. destruct (_ && _); [|exact Hs]. cbn [sv_sessions set_sessions]. rewrite Hs. apply lookup_insert. }
  apply pw_bind.
  apply (pw_mono _ (fun banned sv2 _ => (banned = true /\ exists r1 r2, delete_session k sv1 r1 = Ok (tt, sv2, r2)) \/
                                        (banned = false /\ sv2 = sv1))).
  { unfold sv1, view_state. destruct (negb (is_empty ra) && negb (String.eqb ra (s_remoteAddr s))).
    - unfold updSess. apply pw_bind_modS. apply pw_bind_cfgM.
      match goal with |- pw _ _ ?st _ => set (sv2 := st) end.
      destruct (g_banned (sv_config sv2) !! ra) as [reason|]; [|apply pw_ret; now right].
      destruct (is_empty reason); [apply pw_ret; now right|].
      apply pw_bind_emit. intros r1. apply pw_bind. eapply pw_mono; [apply pw_self|]. intros [] sv3 r3 Hdel. apply pw_ret. left.
      split; [reflexivity|]. eauto.
    - apply pw_ret. now right. }
  intros banned sv2 r2 [[-> (r1 & r2' & Hdel)]|[-> ->]]; cbv beta.
  - apply pw_ret. left. eauto.
  - apply pw_bind_sessM. intros s1 Hs1'. rewrite Hs1 in Hs1'. injection Hs1' as <-.
    assert (Hsrv1 : s_server (acting_view ra s) = s_server s) by (unfold acting_view; destruct (_ && _); reflexivity).
    rewrite Hsrv1.
    destruct (negb (s_loggedIn (acting_view ra s)) && negb (s_server s) && negb (pre_registration (to_upper (m_cmd m)))).
    + apply pw_bind_reply_num. intros r3. destruct (_ <? _)%Z; cbn [whenM].
      * apply pw_bind_emit. intros r4. eapply pw_mono; [apply pw_self|]. intros [] sv3 r5 Hdel. left. eauto.
      * apply pw_ret. right. now left.
    + destruct (assoc_str ((if s_server s then "server_" else "") ++ to_upper (m_cmd m)) commands) as [[minp f]|] eqn:Hcmd.
      * destruct (Nat.ltb (nparams m) minp).
        -- apply pw_unit_r, pw_bind_reply_num. intros r3. apply pw_ret. right. now left.
        -- eapply pw_mono; [apply pw_self|]. intros [] sv3 r5 Hf. right. right. exists minp, f. eauto.
      * apply pw_unit_r, pw_bind_reply_num. intros r3. apply pw_ret. right. now left.
Qed.

(* the credentials a line presents: as the parameters of OPER, or inside a PASS string that the login replays *)
Definition line_cred (m : imsg) (name pw : string) : Prop :=
  (to_upper (m_cmd m) = "OPER" /\ nth_error (m_params m) 0 = Some name /\ nth_error (m_params m) 1 = Some pw) \/
  (exists pass p, parse_message ("OPER " ++ pass) = Some p /\ nth_error (m_params p) 0 = Some name /\ nth_error (m_params p) 1 = Some pw).

Theorem line_flags e k ra m sv r sv' r' s :
  sv_sessions sv !! k = Some s -> process_message e k ra (Some m) sv r = Ok (tt, sv', r') ->
  flags_grow_only_by_auth k s m (line_cred m) sv sv'.
Proof.
  intros Hs Hpm. pose proof (pm_inv2 e k ra m sv r s Hs) as Hinv. unfold pw in Hinv. rewrite Hpm in Hinv.
  set (sv1 := view_state k ra s sv) in *.
  set (ops0 := g_operators (sv_config sv)). set (svc0 := g_services (sv_config sv)).
  assert (HC1 : CfgIs ops0 svc0 sv1) by (unfold sv1, view_state; destruct (_ && _); split; reflexivity).
  assert (Hs1 : sv_sessions sv1 !! k = Some (acting_view ra s)).
  { unfold sv1, view_state, acting_view. destruct (_ && _); [|exact Hs]. cbn [sv_sessions set_sessions]. rewrite Hs. apply lookup_insert. }
  (* the recorded remote address does not touch the flags *)
  assert (H01 : forall tk s1, sv_sessions sv1 !! tk = Some s1 ->
                  exists s0, sv_sessions sv !! tk = Some s0 /\ s_server s1 = s_server s0 /\ s_operator s1 = s_operator s0).
  { intros tk s1. unfold sv1, view_state. destruct (_ && _); [|eauto]. cbn [sv_sessions set_sessions]. rewrite lookup_upd_sess.
    case_bool_decide as E; [|eauto]. destruct (sv_sessions sv !! tk) as [s0|]; [|discriminate]. cbn. intros [= <-]. eauto. }
  assert (Hstrict : ff k (AOp ops0 (line_cred m)) sv1 sv' -> flags_grow_only_by_auth k s m (line_cred m) sv sv').
  { intros [F1 F2]. split.
    - intros tk s' Hs' Hf. left. destruct (F1 _ _ Hs' Hf) as (s1 & Hs1' & Hf1). destruct (H01 _ _ Hs1') as (s0 & Hs0 & E1 & _).
      exists s0. split; [exact Hs0|congruence].
    - intros tk s' Hs' Hf. destruct (F2 _ _ Hs' Hf) as [(s1 & Hs1' & Hf1)|[-> HA]].
      + left. destruct (H01 _ _ Hs1') as (s0 & Hs0 & _ & E2). exists s0. split; [exact Hs0|congruence].
      + right. split; [reflexivity|exact HA]. }
  assert (Hpass : forall pass p name pw, parse_message ("OPER " ++ pass) = Some p ->
            nth_error (m_params p) 0 = Some name -> nth_error (m_params p) 1 = Some pw -> line_cred m name pw).
  { intros pass p name pw0 H1 H2 H3. right. eauto. }
  destruct Hinv as [(r1 & r2 & Hdel)|[->|(minp & f & r1 & r2 & Hcmd & Hf)]].
  - apply Hstrict. pose proof (fl_delete_session k ops0 svc0 (line_cred m) k sv1 r1 HC1) as H. unfold pw in H. rewrite Hdel in H. apply H.
  - apply Hstrict. apply ff_refl.
  - destruct (String.eqb ((if s_server s then "server_" else "") ++ to_upper (m_cmd m)) "SERVER") eqn:Ename.
    + (* SERVER *)
      apply String.eqb_eq in Ename. destruct (s_server s) eqn:Esrv; [cbn in Ename; discriminate|].
      change (EmptyString ++ to_upper (m_cmd m)) with (to_upper (m_cmd m)) in *. rewrite Ename in Hcmd. cbn in Hcmd. injection Hcmd as <- <-.
      pose proof (cmd_server_flags k m sv1 r1 (acting_view ra s) Hs1) as H. unfold pw, noenv in *. rewrite Hf in H.
      destruct H as [G1 G2]. split.
      * intros tk s' Hs' Hfl. destruct (G1 _ _ Hs' Hfl) as [(s1 & Hs1' & Hf1)|[-> HA]].
        -- left. destruct (H01 _ _ Hs1') as (s0 & Hs0 & E1 & _). exists s0. split; [exact Hs0|congruence].
        -- right. split; [reflexivity|]. split; [exact Ename|]. split; [exact Esrv|].
           destruct HA as (pw0 & Hin & Hp). exists pw0. split.
           ++ destruct HC1 as [_ HC1]. fold svc0. rewrite <- HC1. exact Hin.
           ++ rewrite <- Hp. unfold acting_view. destruct (_ && _); reflexivity.
      * intros tk s' Hs' Hfl. left. destruct (G2 _ _ Hs' Hfl) as (s1 & Hs1' & Hf1).
        destruct (H01 _ _ Hs1') as (s0 & Hs0 & _ & E2). exists s0. split; [exact Hs0|congruence].
    + apply String.eqb_neq in Ename. apply Hstrict.
      pose proof (fl_dispatch k ops0 svc0 (line_cred m) Hpass _ minp f e m (assoc_str_In _ _ _ Hcmd) Ename) as H.
      assert (HOp : (if s_server s then "server_" else "") ++ to_upper (m_cmd m) = "OPER" ->
                    forall n pw0, nth_error (m_params m) 0 = Some n -> nth_error (m_params m) 1 = Some pw0 -> line_cred m n pw0).
      { intros En n pw0 H0 H1. left. destruct (s_server s); [cbn in En; discriminate|]. auto. }
      specialize (H HOp sv1 r1 HC1). unfold pw in H. rewrite Hf in H. apply H.
Qed.

(* ---- one log entry, any kind ------------------------------------------------------------------------------------------ *)
Definition entry_line (en : entry) : option (N * imsg) :=
  match en with
  | EMessage _ _ session _ _ data => match parse_message data with Some m => Some (session, m) | None => None end
  | EDelete _ _ session q => match parse_message ("QUIT :" ++ q) with Some m => Some (session, m) | None => None end
  | _ => None
  end.

Lemma handler_flags e k ra pm sv msgid finish sv' out s :
  sv_sessions sv !! k = Some s ->
  (forall x tk s', sv_sessions (finish x) !! tk = Some s' -> sv_sessions x !! tk = Some s') ->
  run_handler sv msgid (process_message e k ra pm) finish = OOk sv' out ->
  match pm with
  | Some m => flags_grow_only_by_auth k s m (line_cred m) sv sv'
  | None => forall tk s', sv_sessions sv' !! tk = Some s' -> sv_sessions sv !! tk = Some s'
  end.
Proof.
  intros Hs Hfin Hrun. unfold run_handler in Hrun.
  destruct (process_message e k ra pm sv (RCtx msgid [])) as [[[[] sv2] r2]|?|?] eqn:Hpm; try discriminate.
  injection Hrun as <- _. destruct pm as [m|].
  - destruct (line_flags e k ra m sv _ sv2 r2 s Hs Hpm) as [F1 F2]. split; intros tk s' Hs' Hf; apply Hfin in Hs'; eauto.
  - unfold process_message, bindM, sessM, getS, reply_num, bindM, getS, emit in Hpm. rewrite Hs in Hpm. cbn in Hpm.
    injection Hpm as <- _. intros tk s' Hs'. now apply Hfin in Hs'.
Qed.

Lemma run_handler_result sv id act fin sv' :
  entry_result (run_handler sv id act fin) = Some sv' -> exists out, run_handler sv id act fin = OOk sv' out.
Proof.
  unfold run_handler. destruct (act sv (RCtx id [])) as [[[[] sv2] r2]|?|?]; cbn; try discriminate. intros [= <-]. eauto.
Qed.

Definition entry_flags_ok (en : entry) (sv sv' : server) : Prop :=
  (forall tk s', sv_sessions sv' !! tk = Some s' -> s_server s' = true ->
     (exists s0, sv_sessions sv !! tk = Some s0 /\ s_server s0 = true) \/
     (exists session m s, entry_line en = Some (session, m) /\ tk = (session, 0%N) /\ to_upper (m_cmd m) = "SERVER" /\
        sv_sessions sv !! tk = Some s /\ s_server s = false /\ services_auth (g_services (sv_config sv)) s)) /\
  (forall tk s', sv_sessions sv' !! tk = Some s' -> s_operator s' = true ->
     (exists s0, sv_sessions sv !! tk = Some s0 /\ s_operator s0 = true) \/
     (exists session m name pw, entry_line en = Some (session, m) /\ tk = (session, 0%N) /\
        In (name, pw) (g_operators (sv_config sv)) /\ line_cred m name pw)).

Theorem entry_flags e sv en sv' :
  entry_result (apply_entry e sv en) = Some sv' -> entry_flags_ok en sv sv'.
Proof.
  assert (Hsame : forall sv1, (forall tk s', sv_sessions sv1 !! tk = Some s' ->
                     exists s0, sv_sessions sv !! tk = Some s0 /\ s_server s' = s_server s0 /\ s_operator s' = s_operator s0) ->
                   Some sv1 = Some sv' -> entry_flags_ok en sv sv').
  { intros sv1 H [= <-]. split; intros tk s' Hs' Hf; left; destruct (H _ _ Hs') as (s0 & Hs0 & E1 & E2); exists s0; split; auto; congruence. }
  unfold entry_flags_ok.
  destruct en as [id un auth|id un session q|id un session cmid ra data|id un session cmid data|id un rev parsed]; cbn [apply_entry entry_line].
  - (* a new session has neither flag *)
    unfold create_session, bindM, getS, retM, modS. destruct (_ && _); cbn [entry_result].
    + apply Hsame. eauto.
    + intros [= <-]. split; intros tk s' Hs' Hf; cbn [sv_sessions set_sessions] in Hs';
        (destruct (decide ((id, 0%N) = tk)) as [<-|Hne]; [rewrite lookup_insert in Hs'; injection Hs' as <-; discriminate|]);
        rewrite lookup_insert_ne in Hs' by exact Hne; left; eauto.
  - destruct (sv_sessions sv !! (session, 0%N)) as [s|] eqn:Hs; [|cbn; apply Hsame; eauto].
    intros Hres. apply run_handler_result in Hres. destruct Hres as [out Hrun].
    pose proof (handler_flags _ _ _ _ _ _ _ _ _ s Hs (fun x tk s' H => mds_sessions (session, 0%N) (set_lastProcessed (id, 0%N) x) _ _ H) Hrun) as H.
    destruct (parse_message ("QUIT :" ++ q)) as [m|].
    + destruct H as [F1 F2]. split; intros tk s' Hs' Hf.
      * destruct (F1 _ _ Hs' Hf) as [Y|(-> & Hc & Hsf & HA)]; [now left|right]. exists session, m, s. repeat split; auto.
      * destruct (F2 _ _ Hs' Hf) as [Y|(-> & name & pw0 & Hin & Hc)]; [now left|right]. exists session, m, name, pw0. repeat split; auto.
    + split; intros tk s' Hs' Hf; left; eauto.
  - destruct (is_retry _ _ sv); [cbn; apply Hsame; eauto|].
    destruct (update_last_cmid _ _ _ _ sv) as [sv1|] eqn:Hu; [|cbn; apply Hsame; eauto].
    unfold update_last_cmid in Hu. destruct (sv_sessions sv !! (session, 0%N)) as [s|] eqn:Hs; [|discriminate]. injection Hu as <-.
    set (s1 := ss_activity _ _ _ s) in *.
    intros Hres. apply run_handler_result in Hres. destruct Hres as [out Hrun].
    assert (Hs1 : sv_sessions (set_sessions <[(session, 0%N):=s1]> sv) !! (session, 0%N) = Some s1) by apply lookup_insert.
    pose proof (handler_flags _ _ _ _ _ _ _ _ _ s1 Hs1 (fun x tk s' H => mds_sessions (session, 0%N) (set_lastProcessed (session, 0%N) x) _ _ H) Hrun) as H.
    assert (Hback : forall tk s2, sv_sessions (set_sessions <[(session, 0%N):=s1]> sv) !! tk = Some s2 ->
              exists s0, sv_sessions sv !! tk = Some s0 /\ s_server s2 = s_server s0 /\ s_operator s2 = s_operator s0).
    { intros tk s2. cbn [sv_sessions set_sessions]. destruct (decide ((session, 0%N) = tk)) as [<-|Hne].
      - rewrite lookup_insert. intros [= <-]. eauto.
      - rewrite lookup_insert_ne by exact Hne. eauto. }
    destruct (parse_message data) as [m|].
    + destruct H as [F1 F2]. split; intros tk s' Hs' Hf.
      * destruct (F1 _ _ Hs' Hf) as [(s2 & Hs2 & Hf2)|(-> & Hc & Hsf & HA)].
        -- left. destruct (Hback _ _ Hs2) as (s0 & Hs0 & E1 & _). exists s0. split; [exact Hs0|congruence].
        -- right. exists session, m, s. repeat split; auto.
      * destruct (F2 _ _ Hs' Hf) as [(s2 & Hs2 & Hf2)|(-> & name & pw0 & Hin & Hc)].
        -- left. destruct (Hback _ _ Hs2) as (s0 & Hs0 & _ & E2). exists s0. split; [exact Hs0|congruence].
        -- right. exists session, m, name, pw0. repeat split; auto.
    + split; intros tk s' Hs' Hf; left; apply H in Hs'; destruct (Hback _ _ Hs') as (s0 & Hs0 & E1 & E2); exists s0; split; auto; congruence.
  - destruct (update_last_cmid _ _ _ _ sv) as [sv1|] eqn:Hu; cbn [entry_result]; [|apply Hsame; eauto].
    unfold update_last_cmid in Hu. destruct (sv_sessions sv !! (session, 0%N)) as [s|] eqn:Hs; [|discriminate]. injection Hu as <-.
    apply Hsame. intros tk s2. cbn [sv_sessions set_sessions]. destruct (decide ((session, 0%N) = tk)) as [<-|Hne].
    + rewrite lookup_insert. intros [= <-]. eauto.
    + rewrite lookup_insert_ne by exact Hne. eauto.
  - destruct (config_in_force _ _ _); cbn [entry_result]; apply Hsame; eauto.
Qed.

(* ---- services commands are out of reach of a session that is not a services link --------------------------------- *)
(* a line of a session without s_server runs, if anything, a handler registered under a name without the
   "server_" prefix; the services handlers (which do not test s_server themselves) are registered under
   "server_..." only, and the upper-cased command word of a client can never start with a lower-case 's' *)
Theorem services_commands_need_link e k ra m sv r s :
  sv_sessions sv !! k = Some s -> s_server s = false ->
  pw (process_message e k ra (Some m))
     (fun _ sv' _ =>
        (exists r1 r2, delete_session k (view_state k ra s sv) r1 = Ok (tt, sv', r2)) \/ sv' = view_state k ra s sv \/
        (exists name minp (f : handler) r1 r2, In (name, (minp, f)) commands /\ has_prefix "server_" name = false /\
           f e k m (view_state k ra s sv) r1 = Ok (tt, sv', r2))) sv r.
Proof.
  intros Hs Hsrv. eapply pw_mono; [apply (pm_inv e k ra m sv r s Hs Hsrv)|]. intros [] sv' r' [H|[H|(minp & f & r1 & r2 & Hc & Hf)]]; auto.
  right. right. exists (to_upper (m_cmd m)), minp, f, r1, r2. split; [now apply assoc_str_In|]. split; [apply no_server_prefix|exact Hf].
Qed.

(* ... and for a services link every command word is looked up under "server_": no client handler, in particular
   neither OPER nor SERVER, runs for it *)
Theorem link_runs_services_handlers e k ra m sv r s :
  sv_sessions sv !! k = Some s -> s_server s = true ->
  pw (process_message e k ra (Some m))
     (fun _ sv' _ => pm_outcome2 e k m ("server_" ++ to_upper (m_cmd m)) (view_state k ra s sv) sv') sv r.
Proof. intros Hs Hsrv. pose proof (pm_inv2 e k ra m sv r s Hs) as H. rewrite Hsrv in H. exact H. Qed.

(* ---- network-wide notices ------------------------------------------------------------------------------------------------ *)
(* PRIVMSG/NOTICE to a $-target from a session that is not an IRC operator: nothing but a 481 to the sender *)
Theorem network_notice_needs_oper k m sv r s target p1 rest :
  sv_sessions sv !! k = Some s -> s_operator s = false ->
  m_params m = target :: p1 :: rest -> has_prefix "#" target = false -> has_prefix "$" target = true ->
  exists o, cmd_privmsg k m sv r = Ok (tt, sv, RCtx (r_msgid r) (o :: r_out r)) /\ o_rcpt o = [fst k] /\
            o_data o = msg_bytes (srvmsg sv "481" [s_nick s; "Permission Denied - You're not an IRC operator"]).
Proof.
  intros Hs Hop Hp Hh Hd. unfold cmd_privmsg, bindM, sessM, getS, bindM. rewrite Hs. cbn [retM]. unfold retM. rewrite Hp, Hh, Hd, Hop.
  unfold reply_num, bindM, getS, emit. eexists. split; [reflexivity|]. split; reflexivity.
Qed.

(* with operator status the same line reaches every session that has a nickname *)
Theorem network_notice_by_oper k m sv r s target p1 rest :
  sv_sessions sv !! k = Some s -> s_operator s = true ->
  m_params m = target :: p1 :: rest -> has_prefix "#" target = false -> has_prefix "$" target = true ->
  exists o, cmd_privmsg k m sv r = Ok (tt, sv, RCtx (r_msgid r) (o :: r_out r)) /\ o_rcpt o = set_of_ids (rc_all sv).
Proof.
  intros Hs Hop Hp Hh Hd. unfold cmd_privmsg, bindM, sessM, getS, bindM. rewrite Hs. cbn [retM]. unfold retM. rewrite Hp, Hh, Hd, Hop.
  unfold emit. eexists. split; reflexivity.
Qed.

(* the hypothesis "not a channel operator" is needed: the same line from Foo, the operator, does change the modes,
   and a KICK from bar is refused while one from Foo removes bar *)
Definition ex_op_check : bool :=
  let c := the_chan ex_sv "#chan" in
  let by_op := the_result (apply_entry Examples.ex_env ex_sv (EMessage 11 11000 1 14 "" "MODE #chan +i-t")) in
  let kick_by_bar := the_result (apply_entry Examples.ex_env ex_sv (EMessage 11 11000 4 25 "" "KICK #chan Foo")) in
  let kick_by_op := the_result (apply_entry Examples.ex_env ex_sv (EMessage 11 11000 1 14 "" "KICK #chan bar")) in
  is_chanop_b ex_sv (1%N, 0%N) "#chan" &&
  negb (bool_decide (c_modes (the_chan by_op "#chan") = c_modes c)) &&
  bool_decide (c_nicks (the_chan kick_by_bar "#chan") = c_nicks c) &&
  bool_decide (c_nicks (the_chan kick_by_op "#chan") !! "bar" = None).
Example ex_op_is_entitled : ex_op_check = true.
Proof. vm_compute. reflexivity. Qed.

(* ---- non-vacuity of the flag theorems: a link authenticates with a configured password, a client becomes operator ---- *)
Definition ex_cfg : config :=
  Config 1 600000000000 500000000 0 0 "" "" false [("root", "pw")] ["secret"] ∅ ∅ ∅.
Definition ex_flag_prefix : list entry :=
  [ ECreate 1 1000 "0123456789abcdef"; EConfig 2 2000 1 (Some ex_cfg); EMessage 3 3000 1 11 "" "PASS services=secret";
    ECreate 4 4000 "fedcba9876543210"; EMessage 5 5000 4 21 "" "NICK bar"; EMessage 6 6000 4 22 "" "USER bar 0 * :Bar" ].
Definition ex_fsv : server := the_state (run Examples.ex_env (init_server "robustirc.net") ex_flag_prefix).
Definition ex_server_line : entry := EMessage 7 7000 1 12 "" "SERVER services.example 1 :x".
Definition ex_oper_line : entry := EMessage 7 7000 4 23 "" "OPER root pw".
Definition ex_oper_bad : entry := EMessage 7 7000 4 23 "" "OPER root guess".

Definition ex_flag_check : bool :=
  is_some (run Examples.ex_env (init_server "robustirc.net") ex_flag_prefix) &&
  negb (s_server (the_session ex_fsv (1%N, 0%N))) && negb (s_operator (the_session ex_fsv (4%N, 0%N))) &&
  is_some (sv_sessions ex_fsv !! (1%N, 0%N)) && is_some (sv_sessions ex_fsv !! (4%N, 0%N)) &&
  bool_decide (s_pass (the_session ex_fsv (1%N, 0%N)) = "services=secret") &&
  bool_decide (g_services (sv_config ex_fsv) = ["secret"]) && bool_decide (g_operators (sv_config ex_fsv) = [("root", "pw")]) &&
  is_ook (apply_entry Examples.ex_env ex_fsv ex_server_line) &&
  s_server (the_session (the_result (apply_entry Examples.ex_env ex_fsv ex_server_line)) (1%N, 0%N)) &&
  is_ook (apply_entry Examples.ex_env ex_fsv ex_oper_line) &&
  s_operator (the_session (the_result (apply_entry Examples.ex_env ex_fsv ex_oper_line)) (4%N, 0%N)) &&
  is_ook (apply_entry Examples.ex_env ex_fsv ex_oper_bad) &&
  negb (s_operator (the_session (the_result (apply_entry Examples.ex_env ex_fsv ex_oper_bad)) (4%N, 0%N))).

Example ex_flags_nonvacuous : ex_flag_check = true.
Proof. vm_compute. reflexivity. Qed.

Print Assumptions ex_frame_nonvacuous.
Print Assumptions ex_frame_applied.
Print Assumptions ex_gate_nonvacuous.
Print Assumptions line_flags.
Print Assumptions entry_flags.
Print Assumptions services_commands_need_link.
Print Assumptions link_runs_services_handlers.
Print Assumptions network_notice_needs_oper.
Print Assumptions network_notice_by_oper.
Print Assumptions ex_flags_nonvacuous.
