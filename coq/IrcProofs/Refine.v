(* IrcProofs/Refine.v — the sub-models fit together: the IRC state machine (Irc/Apply.v) REFINES the
   marker machine of Api/Post.v (property C10), and the C10 statements hold of the IRC model itself.
   Part A (the marker frame of all handlers and of ProcessMessage) is IrcProofs/MarkerFrame.v. *)
From stdpp Require Import gmap.
From Coq Require Import Strings.String Strings.Ascii ZArith NArith Lia.
From RV Require Import Base.Text Irc.Str Irc.Parse Irc.State Irc.Monad Irc.Cmds Irc.SCmds Irc.Apply.
From RV Require IrcProofs.StrLemmas.
From RV Require Import IrcProofs.Top.
From RV Require IrcProofs.Outputs IrcProofs.Examples.
From RV Require Api.Auth Api.Post Api.PostProofs.
From RV Require Import IrcProofs.MarkerFrame.
Local Open Scope string_scope.

(* ================================================================================================ *)
(* B. what one log entry does to the client sessions                                                *)
(* ================================================================================================ *)
Lemma maybe_delete_session_sub k sv (k2 : N * N) s :
  sv_sessions (maybe_delete_session k sv) !! k2 = Some s -> sv_sessions sv !! k2 = Some s.
Proof.
  unfold maybe_delete_session. destruct (sv_sessions sv !! k) as [s0|]; [|auto].
  destruct (s_server s0 || s_operator s0), (s_deleted s0); cbn [sv_sessions set_sessions]; intros H;
    try (apply lookup_delete_Some in H; destruct H as [_ H]);
    try (apply map_filter_lookup_Some in H; destruct H as [H _]); exact H.
Qed.

Lemma update_last_cmid_inv k ts d c sv sv1 :
  update_last_cmid k ts d c sv = Some sv1 ->
  exists s lnp, sv_sessions sv !! k = Some s /\
    sv_sessions sv1 = <[k := ss_activity ts lnp c s]> (sv_sessions sv) /\
    sv_lastProcessed sv1 = sv_lastProcessed sv.
Proof.
  unfold update_last_cmid. destruct (sv_sessions sv !! k) as [s|]; [|discriminate].
  intros [= <-]. eexists _, _. split; [reflexivity|]. split; reflexivity.
Qed.
Lemma update_last_cmid_None k ts d c sv :
  update_last_cmid k ts d c sv = None <-> sv_sessions sv !! k = None.
Proof. unfold update_last_cmid. destruct (sv_sessions sv !! k); split; intros; congruence. Qed.

(* ProcessMessage followed by SetLastProcessed and MaybeDeleteSession: client sessions only
   disappear; those that stay keep marker and secret *)
Lemma run_handler_effect e k ra ircmsg sv msgid lp sv' out :
  nick_ok sv k ircmsg ->
  run_handler sv msgid (process_message e k ra ircmsg)
              (fun sv2 => maybe_delete_session k (set_lastProcessed lp sv2)) = OOk sv' out ->
  (forall id s', sv_sessions sv' !! (id, 0%N) = Some s' ->
      exists s, sv_sessions sv !! (id, 0%N) = Some s /\ mk s = mk s') /\
  sv_lastProcessed sv' = lp.
Proof.
  intros Hn. unfold run_handler.
  pose proof (fr_process_message e k ra ircmsg sv (RCtx msgid []) Hn) as F. unfold fr_at in F.
  destruct (process_message e k ra ircmsg sv (RCtx msgid [])) as [[[[] sv2] r2]|?|?]; try discriminate.
  intros [= <- _]. split.
  - intros id s' H. apply maybe_delete_session_sub in H. cbn [sv_sessions set_lastProcessed] in H.
    specialize (F id). rewrite H in F. destruct (sv_sessions sv !! (id, 0%N)) as [s|]; [|discriminate].
    exists s. cbn in F. split; congruence.
  - rewrite Outputs.maybe_delete_session_lp. reflexivity.
Qed.

Lemma run_handler_result sv i act fin sv' :
  entry_result (run_handler sv i act fin) = Some sv' -> exists out, run_handler sv i act fin = OOk sv' out.
Proof.
  unfold run_handler. destruct (act sv _) as [[[[] sv2] r2]|?|?]; cbn; [|discriminate|discriminate].
  intros [= <-]. eauto.
Qed.

Lemma nick_ok_quit sv k q : nick_ok sv k (parse_message ("QUIT :" ++ q)).
Proof.
  destruct (StrLemmas.parse_quit q) as [ps Hq]. rewrite Hq. intros s m _ _ [= <-] Hcmd.
  vm_compute in Hcmd. discriminate.
Qed.

Lemma nick_ok_updated sv sv1 (k : N * N) s s1 ircmsg :
  sv_sessions sv !! k = Some s -> sv_sessions sv1 !! k = Some s1 -> s_server s1 = s_server s ->
  nick_ok sv k ircmsg -> nick_ok sv1 k ircmsg.
Proof. intros Hs Hs1 Hsrv H s' m Hs' Hsv' Hm Hc. apply (H s m Hs); congruence. Qed.

(* the session and client message id an entry writes as marker *)
Definition client_msg_of (en : entry) : option (N * N) :=
  match en with
  | EMessage _ _ s c _ _ | EDeath _ _ s c _ => Some (s, c)
  | _ => None
  end.

(* B1: a client session present after an entry was present before with the same secret and either
   the same marker or the one the entry carries — or it was created by the entry *)
Theorem entry_effect e sv en sv' id s' :
  wf_entry sv en -> entry_result (apply_entry e sv en) = Some sv' ->
  sv_sessions sv' !! (id, 0%N) = Some s' ->
  (exists s, sv_sessions sv !! (id, 0%N) = Some s /\ s_auth s' = s_auth s /\
             (s_cmid s' = s_cmid s \/ client_msg_of en = Some (id, s_cmid s'))) \/
  (exists un auth, en = ECreate id un auth /\ sv_sessions sv !! (id, 0%N) = None /\ mk s' = (0%N, auth)).
Proof.
  intros Hwf Hr Hs'.
  assert (Hsame : forall sv0, sv_sessions sv0 = sv_sessions sv -> sv' = sv0 ->
            exists s, sv_sessions sv !! (id, 0%N) = Some s /\ s_auth s' = s_auth s /\
                      (s_cmid s' = s_cmid s \/ client_msg_of en = Some (id, s_cmid s'))).
  { intros sv0 E ->. rewrite E in Hs'. exists s'. auto. }
  destruct en as [i un auth|i un session q|i un session cmid ra data|i un session cmid data|i un rev parsed];
    cbn [apply_entry] in Hr.
  - (* CreateSession *)
    destruct Hwf as [_ Hfresh]. unfold create_session, bindM, getS, retM, modS in Hr.
    destruct (_ && _); cbn in Hr; injection Hr as <-; [left; (eapply Hsame; [|reflexivity]; reflexivity)|].
    cbn [sv_sessions set_sessions] in Hs'. destruct (decide (i = id)) as [->|Hne].
    + rewrite lookup_insert in Hs'. injection Hs' as <-. right. eexists _, _. split; [reflexivity|]. split; [exact Hfresh|reflexivity].
    + rewrite lookup_insert_ne in Hs' by congruence. left. exists s'. auto.
  - (* DeleteSession *)
    destruct (sv_sessions sv !! (session, 0%N)) as [s0|] eqn:Hs0; [|cbn in Hr; injection Hr as <-; left; (eapply Hsame; [|reflexivity]; reflexivity)].
    apply run_handler_result in Hr. destruct Hr as [out Hrun].
    destruct (run_handler_effect _ _ _ _ _ _ _ _ _ (nick_ok_quit sv _ q) Hrun) as [Hsub _].
    destruct (Hsub id s' Hs') as (s & Hs & Hmk). left. exists s. unfold mk in Hmk. injection Hmk as Hc Ha.
    split; [exact Hs|]. split; [congruence|left; congruence].
  - (* IRCFromClient *)
    destruct (is_retry _ _ sv); [cbn in Hr; injection Hr as <-; left; (eapply Hsame; [|reflexivity]; reflexivity)|].
    destruct (update_last_cmid _ _ _ _ sv) as [sv1|] eqn:Hu; [|cbn in Hr; injection Hr as <-; left; (eapply Hsame; [|reflexivity]; reflexivity)].
    destruct (update_last_cmid_inv _ _ _ _ _ _ Hu) as (s0 & lnp & Hs0 & Hsess1 & _).
    apply run_handler_result in Hr. destruct Hr as [out Hrun].
    assert (Hn1 : nick_ok sv1 (session, 0%N) (parse_message data)).
    { eapply (nick_ok_updated sv sv1 _ s0); [exact Hs0|rewrite Hsess1; apply lookup_insert|reflexivity|].
      apply line_ok_nick_ok. exact Hwf. }
    destruct (run_handler_effect _ _ _ _ _ _ _ _ _ Hn1 Hrun) as [Hsub _].
    destruct (Hsub id s' Hs') as (s1 & Hs1 & Hmk). unfold mk in Hmk. injection Hmk as Hc Ha. left.
    rewrite Hsess1 in Hs1. destruct (decide (session = id)) as [->|Hne].
    + rewrite lookup_insert in Hs1. injection Hs1 as <-. exists s0. split; [exact Hs0|]. split; [now rewrite <- Ha|].
      right. cbn. now rewrite <- Hc.
    + rewrite lookup_insert_ne in Hs1 by congruence. exists s1. split; [exact Hs1|]. split; [congruence|left; congruence].
  - (* message of death *)
    destruct (update_last_cmid _ _ _ _ sv) as [sv1|] eqn:Hu; cbn in Hr; injection Hr as <-; [|left; (eapply Hsame; [|reflexivity]; reflexivity)].
    destruct (update_last_cmid_inv _ _ _ _ _ _ Hu) as (s0 & lnp & Hs0 & Hsess1 & _). left.
    rewrite Hsess1 in Hs'. destruct (decide (session = id)) as [->|Hne].
    + rewrite lookup_insert in Hs'. injection Hs' as <-. exists s0. split; [exact Hs0|]. split; [reflexivity|]. right. reflexivity.
    + rewrite lookup_insert_ne in Hs' by congruence. exists s'. auto.
  - destruct (config_in_force _ _ _); cbn in Hr; injection Hr as <-; left; (eapply Hsame; [|reflexivity]; reflexivity).
Qed.

(* B2 (the marker is written BEFORE processing): if the session of a client entry exists after
   the entry, its marker is the entry's client message id *)
Theorem entry_marker_set e sv en sv' s c s' :
  wf_entry sv en -> client_msg_of en = Some (s, c) -> entry_result (apply_entry e sv en) = Some sv' ->
  sv_sessions sv' !! (s, 0%N) = Some s' -> s_cmid s' = c.
Proof.
  intros Hwf Hk Hr Hs'.
  destruct en as [i un auth|i un session q|i un session cmid ra data|i un session cmid data|i un rev parsed];
    cbn in Hk; try discriminate; injection Hk as -> ->; cbn [apply_entry] in Hr.
  - destruct (is_retry _ _ sv) eqn:Hretry.
    { cbn in Hr. injection Hr as <-. unfold is_retry in Hretry. rewrite Hs' in Hretry.
      apply andb_true_iff in Hretry. destruct Hretry as [_ H]. now apply N.eqb_eq in H. }
    destruct (update_last_cmid _ _ _ _ sv) as [sv1|] eqn:Hu.
    + destruct (update_last_cmid_inv _ _ _ _ _ _ Hu) as (s0 & lnp & Hs0 & Hsess1 & _).
      apply run_handler_result in Hr. destruct Hr as [out Hrun].
      assert (Hn1 : nick_ok sv1 (s, 0%N) (parse_message data)).
      { eapply (nick_ok_updated sv sv1 _ s0); [exact Hs0|rewrite Hsess1; apply lookup_insert|reflexivity|].
        apply line_ok_nick_ok. exact Hwf. }
      destruct (run_handler_effect _ _ _ _ _ _ _ _ _ Hn1 Hrun) as [Hsub _].
      destruct (Hsub s s' Hs') as (s1 & Hs1 & Hmk). rewrite Hsess1, lookup_insert in Hs1. injection Hs1 as <-.
      unfold mk in Hmk. now injection Hmk as <- _.
    + cbn in Hr. injection Hr as <-. apply update_last_cmid_None in Hu. congruence.
  - destruct (update_last_cmid _ _ _ _ sv) as [sv1|] eqn:Hu; cbn in Hr; injection Hr as <-.
    + destruct (update_last_cmid_inv _ _ _ _ _ _ Hu) as (s0 & lnp & Hs0 & Hsess1 & _).
      rewrite Hsess1, lookup_insert in Hs'. now injection Hs' as <-.
    + apply update_last_cmid_None in Hu. congruence.
Qed.

(* does the IRC step run ProcessMessage? *)
Definition irc_processes (sv : server) (en : entry) : bool :=
  match en with
  | EMessage _ _ session cmid _ _ =>
      negb (is_retry (session, 0%N) cmid sv) && bool_decide (is_Some (sv_sessions sv !! (session, 0%N)))
  | EDelete _ _ session _ => bool_decide (is_Some (sv_sessions sv !! (session, 0%N)))
  | _ => false
  end.

(* ... it does, exactly then *)
Theorem irc_processes_runs e sv en :
  irc_processes sv en = true ->
  exists k ra ircmsg sv1 lp,
    apply_entry e sv en = run_handler sv1 (Outputs.entry_id en) (process_message e k ra ircmsg)
                            (fun sv2 => maybe_delete_session k (set_lastProcessed lp sv2)) /\
    (sv1 = sv \/ exists ts d c, update_last_cmid k ts d c sv = Some sv1).
Proof.
  destruct en as [i un auth|i un session q|i un session cmid ra data|i un session cmid data|i un rev parsed];
    cbn [irc_processes apply_entry Outputs.entry_id]; try discriminate.
  - intros H. apply bool_decide_eq_true in H. destruct H as [s Hs]. rewrite Hs.
    eexists _, _, _, _, _. split; [reflexivity|now left].
  - intros H. apply andb_true_iff in H. destruct H as [Hr Hs]. apply negb_true_iff in Hr. rewrite Hr.
    apply bool_decide_eq_true in Hs. destruct Hs as [s Hs].
    destruct (update_last_cmid _ _ _ _ sv) as [sv1|] eqn:Hu; [|apply update_last_cmid_None in Hu; congruence].
    eexists _, _, _, _, _. split; [reflexivity|]. right. eauto.
Qed.

(* an entry that is not processed produces no output, and changes nothing but what
   CreateSession / UpdateLastClientMessageID / the configuration update write *)
Theorem not_processed_silent e sv en :
  irc_processes sv en = false ->
  match en with
  | EMessage _ _ _ _ _ _ | EDelete _ _ _ _ => apply_entry e sv en = OOk sv [] \/ apply_entry e sv en = OSkip sv
  | _ => forall sv' out, apply_entry e sv en = OOk sv' out -> out = []
  end.
Proof.
  destruct en as [i un auth|i un session q|i un session cmid ra data|i un session cmid data|i un rev parsed];
    cbn [irc_processes apply_entry].
  - intros _ sv' out. unfold create_session, bindM, getS, retM, modS. destruct (_ && _); cbn; intros [= _ <-] || discriminate; reflexivity.
  - intros H. apply bool_decide_eq_false in H. destruct (sv_sessions sv !! (session, 0%N)) as [s|]; [exfalso; apply H; eauto|now left].
  - intros H. destruct (is_retry _ _ sv); [now left|]. cbn [negb andb] in H. apply bool_decide_eq_false in H.
    destruct (update_last_cmid _ _ _ _ sv) as [sv1|] eqn:Hu; [|now right].
    exfalso. apply H. destruct (update_last_cmid_inv _ _ _ _ _ _ Hu) as (s0 & _ & Hs0 & _). eauto.
  - intros _ sv' out. destruct (update_last_cmid _ _ _ _ sv); [intros [= _ <-]; reflexivity|discriminate].
  - intros _ sv' out. destruct (config_in_force _ _ _); intros [= _ <-]; reflexivity.
Qed.

(* B3: IRCServer.lastProcessed after an entry *)
Theorem entry_lastproc e sv en sv' :
  entry_result (apply_entry e sv en) = Some sv' ->
  sv_lastProcessed sv' =
    if irc_processes sv en then
      match en with
      | EMessage _ _ session _ _ _ => (session, 0%N)       (* SetLastProcessed(msg.Session.Id) [sic] *)
      | _ => (Outputs.entry_id en, 0%N)
      end
    else sv_lastProcessed sv.
Proof.
  assert (Hrun : forall sv1 i k ra im lp,
            entry_result (run_handler sv1 i (process_message e k ra im)
                            (fun sv2 => maybe_delete_session k (set_lastProcessed lp sv2))) = Some sv' ->
            sv_lastProcessed sv' = lp).
  { intros sv1 i k ra im lp. unfold run_handler.
    destruct (process_message _ _ _ _ _ _) as [[[[] sv2] r2]|?|?]; cbn; try discriminate.
    intros [= <-]. rewrite Outputs.maybe_delete_session_lp. reflexivity. }
  destruct en as [i un auth|i un session q|i un session cmid ra data|i un session cmid data|i un rev parsed];
    cbn [irc_processes apply_entry Outputs.entry_id].
  - unfold create_session, bindM, getS, retM, modS. destruct (_ && _); cbn; intros [= <-]; reflexivity.
  - destruct (sv_sessions sv !! (session, 0%N)) as [s|] eqn:Hs.
    + rewrite bool_decide_true by eauto. apply Hrun.
    + rewrite bool_decide_false by (intros [? ?]; discriminate). cbn. intros [= <-]. reflexivity.
  - destruct (is_retry _ _ sv); [cbn; intros [= <-]; reflexivity|]. cbn [negb andb].
    destruct (update_last_cmid _ _ _ _ sv) as [sv1|] eqn:Hu.
    + destruct (update_last_cmid_inv _ _ _ _ _ _ Hu) as (s0 & _ & Hs0 & _). rewrite bool_decide_true by eauto. apply Hrun.
    + apply update_last_cmid_None in Hu. rewrite bool_decide_false by (rewrite Hu; intros [? ?]; discriminate).
      cbn. intros [= <-]. reflexivity.
  - destruct (update_last_cmid _ _ _ _ sv) as [sv1|] eqn:Hu; cbn; intros [= <-]; [|reflexivity].
    destruct (update_last_cmid_inv _ _ _ _ _ _ Hu) as (_ & _ & _ & _ & H). exact H.
  - destruct (config_in_force _ _ _); cbn; intros [= <-]; reflexivity.
Qed.

(* ================================================================================================ *)
(* C. the IRC model refines the marker machine                                                      *)
(* ================================================================================================ *)
(* what the marker machine knows of a session of its own *)
Definition amk (s : Auth.sess) : N * string := (Auth.s_last s, Auth.s_auth s).

(* [st] is an abstraction of [sv]: the sessions that are alive in [st] are the client sessions of
   [sv] (Post keeps dead sessions with s_alive = false, the IRC model removes them), with the same
   marker and secret; and the same lastProcessed.  (Password and leadership are not IRC state.) *)
Definition abs_rel (sv : server) (st : Auth.state) : Prop :=
  (forall id : N, amk <$> Post.live st id = mk <$> (sv_sessions sv !! (id, 0%N))) /\
  Auth.st_lastproc st = fst (sv_lastProcessed sv).

Definition conv (en : entry) : Post.entry :=
  match en with
  | ECreate id _ auth => Post.mkEntry Post.ECreate id 0 0 auth 0
  | EDelete id _ session q => Post.mkEntry Post.EDelete id session 0 q 0
  | EMessage id _ session cmid _ data => Post.mkEntry Post.EIrc id session cmid data 0
  | EDeath id _ session cmid data => Post.mkEntry Post.EMod id session cmid data 0
  | EConfig id _ rev _ => Post.mkEntry Post.EConfig id 0 0 "" rev
  end.

(* the oracle, derived from the IRC step: the client sessions that were there before and are not
   there afterwards; whether the created session is there afterwards *)
Definition client_ids (sv : server) : list N :=
  map fst (List.filter (fun k : N * N => (snd k =? 0)%N) (map fst (map_to_list (sv_sessions sv)))).
Definition deaths (sv sv' : server) : list N :=
  List.filter (fun id => negb (bool_decide (is_Some (sv_sessions sv' !! (id, 0%N))))) (client_ids sv).
Definition oracle_of (sv sv' : server) (en : entry) : Post.oracle :=
  Post.mkOracle (deaths sv sv')
    (match en with ECreate id _ _ => bool_decide (is_Some (sv_sessions sv' !! (id, 0%N))) | _ => true end).

Lemma client_ids_spec sv id : In id (client_ids sv) <-> is_Some (sv_sessions sv !! (id, 0%N)).
Proof.
  unfold client_ids. rewrite in_map_iff. split.
  - intros ([i r] & <- & Hin). apply filter_In in Hin. destruct Hin as [Hin Hz]. cbn in Hz. apply N.eqb_eq in Hz. subst r.
    apply elem_of_list_In, elem_of_list_fmap in Hin. destruct Hin as ([k s] & Hk & Hin). cbn in Hk. subst k.
    apply elem_of_map_to_list in Hin. cbn. eauto.
  - intros [s Hs]. exists (id, 0%N). split; [reflexivity|]. apply filter_In. split; [|reflexivity].
    apply elem_of_list_In, elem_of_list_fmap. exists ((id, 0%N), s). split; [reflexivity|]. now apply elem_of_map_to_list.
Qed.
Lemma memN_spec k l : Post.memN k l = true <-> In k l.
Proof.
  induction l as [|x l IH]; cbn; [split; [discriminate|contradiction]|].
  rewrite orb_true_iff, N.eqb_eq, IH. tauto.
Qed.
Lemma deaths_spec sv sv' id :
  Post.memN id (deaths sv sv') = true <-> is_Some (sv_sessions sv !! (id, 0%N)) /\ sv_sessions sv' !! (id, 0%N) = None.
Proof.
  rewrite memN_spec. unfold deaths. rewrite filter_In, client_ids_spec, negb_true_iff, bool_decide_eq_false.
  rewrite <- eq_None_not_Some. tauto.
Qed.

(* reading the abstraction *)
Lemma abs_live_Some sv st id s :
  abs_rel sv st -> sv_sessions sv !! (id, 0%N) = Some s -> exists sa, Post.live st id = Some sa /\ amk sa = mk s.
Proof. intros [H _] Hs. specialize (H id). rewrite Hs in H. destruct (Post.live st id) as [sa|]; [|discriminate]. exists sa. cbn in H. split; congruence. Qed.
Lemma abs_live_None sv st id : abs_rel sv st -> sv_sessions sv !! (id, 0%N) = None -> Post.live st id = None.
Proof. intros [H _] Hs. specialize (H id). rewrite Hs in H. now destruct (Post.live st id). Qed.
Lemma abs_is_live sv st id : abs_rel sv st -> Post.is_live st id = bool_decide (is_Some (sv_sessions sv !! (id, 0%N))).
Proof.
  intros H. unfold Post.is_live. destruct (sv_sessions sv !! (id, 0%N)) as [s|] eqn:Hs.
  - destruct (abs_live_Some _ _ _ _ H Hs) as (sa & -> & _). now rewrite bool_decide_true by eauto.
  - rewrite (abs_live_None _ _ _ H Hs). now rewrite bool_decide_false by (intros [? ?]; discriminate).
Qed.
(* IRCServer.LastPostMessage is the same function of both states *)
Lemma abs_last_post sv st id : abs_rel sv st -> Post.last_post st id = last_post_message sv id.
Proof.
  intros H. unfold Post.last_post, last_post_message. destruct (sv_sessions sv !! (id, 0%N)) as [s|] eqn:Hs.
  - destruct (abs_live_Some _ _ _ _ H Hs) as (sa & -> & Hm). unfold amk, mk in Hm. congruence.
  - now rewrite (abs_live_None _ _ _ H Hs).
Qed.
Lemma abs_is_dup sv st i session cmid data :
  abs_rel sv st -> Post.is_dup st (Post.mkEntry Post.EIrc i session cmid data 0) = is_retry (session, 0%N) cmid sv.
Proof.
  intros H. unfold Post.is_dup, is_retry. cbn [Post.e_cmid Post.e_session]. rewrite (abs_last_post _ _ _ H).
  unfold last_post_message. destruct (sv_sessions sv !! (session, 0%N)) as [s|]; [reflexivity|].
  destruct (N.eqb_spec 0 cmid) as [<-|Hne]; reflexivity.
Qed.

(* Post.processes says exactly when the IRC step runs ProcessMessage *)
Theorem processes_agree sv st en : abs_rel sv st -> Post.processes st (conv en) = irc_processes sv en.
Proof.
  intros H. destruct en as [i un auth|i un session q|i un session cmid ra data|i un session cmid data|i un rev parsed];
    unfold Post.processes; cbn [conv Post.e_type irc_processes]; try reflexivity.
  - cbn [Post.e_session]. apply abs_is_live, H.
  - rewrite (abs_is_dup _ _ _ _ _ _ H). cbn [Post.e_session]. now rewrite (abs_is_live _ _ _ H).
Qed.

(* in particular an entry the marker machine does not process produces no output in the IRC model *)
Corollary post_unprocessed_silent e sv st en sv' out :
  abs_rel sv st -> Post.processes st (conv en) = false -> apply_entry e sv en = OOk sv' out -> out = [].
Proof.
  intros Habs Hp Ha. rewrite (processes_agree _ _ _ Habs) in Hp. pose proof (not_processed_silent e sv en Hp) as H.
  destruct en; try (eapply H; exact Ha); destruct H as [H|H]; rewrite H in Ha; congruence.
Qed.

(* kill + set_last against a state whose client sessions are a subset *)
Lemma sim_sessions (sv svm sv' : server) st stm :
  abs_rel sv st ->
  (forall id, amk <$> Post.live stm id = mk <$> (sv_sessions svm !! (id, 0%N))) ->
  (forall id, is_Some (sv_sessions svm !! (id, 0%N)) <-> is_Some (sv_sessions sv !! (id, 0%N))) ->
  (forall id s', sv_sessions sv' !! (id, 0%N) = Some s' -> exists s, sv_sessions svm !! (id, 0%N) = Some s /\ mk s = mk s') ->
  forall id, amk <$> Post.live (Post.kill (deaths sv sv') stm) id = mk <$> (sv_sessions sv' !! (id, 0%N)).
Proof.
  intros Habs Hm Hdom Hsub id. rewrite PostProofs.live_kill.
  destruct (sv_sessions sv' !! (id, 0%N)) as [s'|] eqn:Hs'.
  - destruct (Post.memN id (deaths sv sv')) eqn:Hd; [apply deaths_spec in Hd; destruct Hd; congruence|].
    destruct (Hsub id s' Hs') as (s & Hs & Hmk). rewrite Hm, Hs. cbn. now rewrite Hmk.
  - destruct (Post.memN id (deaths sv sv')) eqn:Hd; [reflexivity|].
    destruct (sv_sessions svm !! (id, 0%N)) as [s|] eqn:Hs; [|now rewrite Hm, Hs].
    exfalso. assert (Post.memN id (deaths sv sv') = true); [|congruence].
    apply deaths_spec. split; [apply Hdom; eauto|exact Hs'].
Qed.

Lemma set_last_rel sv st (sid c : N) (s : session) ts lnp :
  abs_rel sv st -> sv_sessions sv !! (sid, 0%N) = Some s ->
  forall id, amk <$> Post.live (Post.set_last st sid c) id
             = mk <$> ((<[(sid, 0%N) := ss_activity ts lnp c s]> (sv_sessions sv)) !! (id, 0%N)).
Proof.
  intros Habs Hs id. rewrite PostProofs.live_set_last. destruct (N.eqb_spec id sid) as [->|Hne].
  - rewrite lookup_insert. destruct (abs_live_Some _ _ _ _ Habs Hs) as (sa & -> & Hm). cbn. unfold amk, mk in *. cbn. congruence.
  - rewrite lookup_insert_ne by congruence. apply Habs.
Qed.

(* THE SIMULATION, one entry *)
Theorem sim_step e sv st en sv' :
  abs_rel sv st -> wf_entry sv en -> entry_result (apply_entry e sv en) = Some sv' ->
  abs_rel sv' (Post.apply (oracle_of sv sv' en) st (conv en)).
Proof.
  intros Habs Hwf Hr. pose proof (entry_lastproc e sv en sv' Hr) as Hlp.
  destruct en as [i un auth|i un session q|i un session cmid ra data|i un session cmid data|i un rev parsed];
    unfold Post.apply; cbn [conv Post.e_type Post.e_id Post.e_session Post.e_cmid Post.e_data oracle_of Post.o_created Post.o_deaths];
    cbn [irc_processes Outputs.entry_id] in Hlp; cbn [apply_entry] in Hr.
  - (* CreateSession *)
    destruct Hwf as [_ Hfresh]. unfold create_session, bindM, getS, retM, modS in Hr.
    destruct (_ && _); cbn in Hr; injection Hr as <-.
    + rewrite bool_decide_false by (rewrite Hfresh; intros [? ?]; discriminate). exact Habs.
    + cbn [sv_sessions set_sessions]. rewrite lookup_insert, bool_decide_true by eauto. split; [|apply Habs].
      intros id. rewrite PostProofs.live_add. cbn [sv_sessions set_sessions]. destruct (N.eqb_spec i id) as [->|Hne].
      * rewrite lookup_insert. reflexivity.
      * rewrite lookup_insert_ne by congruence. apply Habs.
  - (* DeleteSession *)
    rewrite (abs_is_live _ _ _ Habs). destruct (sv_sessions sv !! (session, 0%N)) as [s0|] eqn:Hs0.
    + rewrite bool_decide_true in Hlp |- * by eauto.
      apply run_handler_result in Hr. destruct Hr as [out Hrun].
      destruct (run_handler_effect _ _ _ _ _ _ _ _ _ (nick_ok_quit sv _ q) Hrun) as [Hsub _].
      split; [|cbn; now rewrite Hlp]. intros id. rewrite PostProofs.live_set_lastproc.
      apply (sim_sessions sv sv sv' st st Habs); [apply Habs|tauto|exact Hsub].
    + rewrite bool_decide_false by (intros [? ?]; discriminate). cbn in Hr. injection Hr as <-. exact Habs.
  - (* IRCFromClient *)
    rewrite (abs_is_dup _ _ i session cmid data Habs), (abs_is_live _ _ _ Habs).
    destruct (is_retry _ _ sv) eqn:Hretry; [cbn in Hr; injection Hr as <-; exact Habs|]. cbn [negb andb] in Hlp.
    destruct (update_last_cmid _ _ _ _ sv) as [sv1|] eqn:Hu.
    + destruct (update_last_cmid_inv _ _ _ _ _ _ Hu) as (s0 & lnp & Hs0 & Hsess1 & _).
      rewrite bool_decide_true in Hlp |- * by eauto.
      apply run_handler_result in Hr. destruct Hr as [out Hrun].
      assert (Hn1 : nick_ok sv1 (session, 0%N) (parse_message data)).
      { eapply (nick_ok_updated sv sv1 _ s0); [exact Hs0|rewrite Hsess1; apply lookup_insert|reflexivity|].
        apply line_ok_nick_ok. exact Hwf. }
      destruct (run_handler_effect _ _ _ _ _ _ _ _ _ Hn1 Hrun) as [Hsub _].
      split; [|cbn; now rewrite Hlp]. intros id. rewrite PostProofs.live_set_lastproc.
      apply (sim_sessions sv sv1 sv' st (Post.set_last st session cmid) Habs).
      * intros id2. rewrite Hsess1. now apply set_last_rel.
      * intros id2. rewrite Hsess1. destruct (decide (session = id2)) as [->|Hne].
        -- rewrite lookup_insert, Hs0. split; eauto.
        -- now rewrite lookup_insert_ne by congruence.
      * exact Hsub.
    + apply update_last_cmid_None in Hu. rewrite bool_decide_false by (rewrite Hu; intros [? ?]; discriminate).
      cbn in Hr. injection Hr as <-. exact Habs.
  - (* message of death *)
    rewrite (abs_is_live _ _ _ Habs). destruct (update_last_cmid _ _ _ _ sv) as [sv1|] eqn:Hu; cbn in Hr; injection Hr as <-.
    + destruct (update_last_cmid_inv _ _ _ _ _ _ Hu) as (s0 & lnp & Hs0 & Hsess1 & Hlp1).
      rewrite bool_decide_true by eauto. split.
      * intros id. rewrite Hsess1. now apply set_last_rel.
      * rewrite Hlp1. apply Habs.
    + apply update_last_cmid_None in Hu. rewrite bool_decide_false by (rewrite Hu; intros [? ?]; discriminate). exact Habs.
  - (* Config *)
    destruct (config_in_force _ _ _); cbn in Hr; injection Hr as <-; exact Habs.
Qed.

(* ---- histories ------------------------------------------------------------------------------------ *)
(* the marker-machine log that corresponds to an IRC history: converted entries with the derived oracles *)
Fixpoint trace (e : env) (sv : server) (es : list entry) : list (Post.entry * Post.oracle) :=
  match es with
  | [] => []
  | en :: r => match entry_result (apply_entry e sv en) with
               | Some sv' => (conv en, oracle_of sv sv' en) :: trace e sv' r
               | None => []
               end
  end.
(* the entries for which the IRC model runs ProcessMessage, in order *)
Fixpoint irc_proc (e : env) (sv : server) (es : list entry) : list entry :=
  match es with
  | [] => []
  | en :: r => (if irc_processes sv en then [en] else []) ++
               match entry_result (apply_entry e sv en) with
               | Some sv' => irc_proc e sv' r
               | None => []
               end
  end.

Theorem sim_run e es : forall sv st sv',
  abs_rel sv st -> wf_history e sv es -> run e sv es = Some sv' ->
  abs_rel sv' (Post.replay (trace e sv es) st) /\
  Post.replay_proc (trace e sv es) st = map conv (irc_proc e sv es).
Proof.
  induction es as [|en es IH]; intros sv st sv' Habs Hwf Hrun; cbn [run trace irc_proc Post.replay Post.replay_proc] in *.
  - injection Hrun as <-. auto.
  - destruct Hwf as [Hen Hrest]. destruct (entry_result (apply_entry e sv en)) as [sv1|] eqn:Hr; [|discriminate].
    pose proof (sim_step e sv st en sv1 Habs Hen Hr) as Habs1.
    destruct (IH sv1 _ sv' Habs1 (Hrest sv1 eq_refl) Hrun) as [H1 H2]. cbn [Post.replay Post.replay_proc].
    split; [exact H1|]. rewrite H2, (processes_agree _ _ _ Habs), map_app. now destruct (irc_processes sv en).
Qed.

Definition post_init (pw : string) (leader : bool) : Auth.state := Auth.mkState [] 0 pw leader.
Lemma abs_rel_init net pw leader : abs_rel (init_server net) (post_init pw leader).
Proof. split; [|reflexivity]. intros id. cbn. now rewrite lookup_empty. Qed.

(* the IRC model, run on any well-formed history from the initial state, stays an instance of the
   marker machine run on the converted log; both process the same entries *)
Corollary irc_refines_marker_machine e net pw leader es sv' :
  wf_history e (init_server net) es -> run e (init_server net) es = Some sv' ->
  abs_rel sv' (Post.replay (trace e (init_server net) es) (post_init pw leader)) /\
  Post.replay_proc (trace e (init_server net) es) (post_init pw leader) = map conv (irc_proc e (init_server net) es).
Proof. intros Hwf Hrun. apply (sim_run e es _ _ _ (abs_rel_init net pw leader) Hwf Hrun). Qed.

(* ---- the abstraction as a function ----------------------------------------------------------------- *)
Definition abs (pw : string) (leader : bool) (sv : server) : Auth.state :=
  Auth.mkState
    (map (fun kv : N * N * session => (fst (fst kv), Auth.mkSess (s_auth (snd kv)) true (s_cmid (snd kv))))
         (List.filter (fun kv : N * N * session => (snd (fst kv) =? 0)%N) (map_to_list (sv_sessions sv))))
    (fst (sv_lastProcessed sv)) pw leader.

Lemma auth_lookup_In l id sa : Auth.lookup id l = Some sa -> In (id, sa) l.
Proof.
  induction l as [|[k v] l IH]; cbn [Auth.lookup]; [discriminate|].
  destruct (N.eqb_spec k id) as [->|Hne]; [intros [= <-]; now left|intros H; right; now apply IH].
Qed.
Lemma auth_lookup_NoDup l id sa : List.NoDup (map fst l) -> In (id, sa) l -> Auth.lookup id l = Some sa.
Proof.
  induction l as [|[k v] l IH]; cbn [Auth.lookup map fst]; [contradiction|].
  intros Hnd [Hin|Hin].
  - injection Hin as -> ->. now rewrite N.eqb_refl.
  - inversion Hnd as [|? ? Hnotin Hnd']; subst. destruct (N.eqb_spec k id) as [->|Hne]; [|now apply IH].
    exfalso. apply Hnotin. apply in_map_iff. exists (id, sa). auto.
Qed.

Theorem abs_rel_abs pw leader sv : abs_rel sv (abs pw leader sv).
Proof.
  split; [|reflexivity]. intros id. unfold Post.live, abs. cbn [Auth.st_sessions].
  set (f := fun kv : N * N * session => (fst (fst kv), Auth.mkSess (s_auth (snd kv)) true (s_cmid (snd kv)))).
  set (l := List.filter (fun kv : N * N * session => (snd (fst kv) =? 0)%N) (map_to_list (sv_sessions sv))).
  assert (Hl : forall k s, In (k, s) l <-> snd k = 0%N /\ sv_sessions sv !! k = Some s).
  { intros k s. unfold l. rewrite filter_In. cbn. rewrite N.eqb_eq, <- elem_of_list_In, elem_of_map_to_list. tauto. }
  assert (Hnd : List.NoDup (map fst (map f l))).
  { rewrite map_map. unfold f. cbn [fst].
    assert (Hnd0 : List.NoDup (map fst l)).
    { apply NoDup_ListNoDup. unfold l. pose proof (NoDup_fst_map_to_list (sv_sessions sv)) as H0.
      revert H0. generalize (map_to_list (sv_sessions sv)). intros l0. induction l0 as [|[k s] l0 IH]; cbn; [constructor|].
      intros H0. inversion H0 as [|? ? Hn H0']; subst. destruct (snd k =? 0)%N; cbn; [|now apply IH].
      constructor; [|now apply IH]. intros Hin. apply Hn.
      apply elem_of_list_fmap in Hin. destruct Hin as ([k' s'] & -> & Hin). apply elem_of_list_fmap. exists (k', s').
      split; [reflexivity|]. apply elem_of_list_In in Hin. apply filter_In in Hin. apply elem_of_list_In. tauto. }
    assert (Hz : forall kv, In kv l -> snd (fst kv) = 0%N) by (intros [k s] Hin; apply Hl in Hin; tauto).
    clear Hl. induction l as [|[k s] l IH]; cbn; [constructor|].
    inversion Hnd0 as [|? ? Hnotin Hnd1]; subst. constructor; [|apply IH; auto; intros kv Hkv; apply Hz; now right].
    intros Hin. apply Hnotin. apply in_map_iff in Hin. destruct Hin as ([k' s'] & Hk & Hin). cbn in Hk.
    apply in_map_iff. exists (k', s'). split; [|exact Hin]. cbn.
    pose proof (Hz (k', s') (or_intror Hin)) as H1. pose proof (Hz (k, s) (or_introl eq_refl)) as H2. cbn in H1, H2.
    destruct k, k'; cbn in *; congruence. }
  destruct (sv_sessions sv !! (id, 0%N)) as [s|] eqn:Hs.
  - rewrite (auth_lookup_NoDup _ id (Auth.mkSess (s_auth s) true (s_cmid s)) Hnd); [reflexivity|].
    apply in_map_iff. exists ((id, 0%N), s). split; [reflexivity|]. apply Hl. auto.
  - destruct (Auth.lookup id (map f l)) as [sa|] eqn:E; [|reflexivity]. exfalso.
    apply auth_lookup_In, in_map_iff in E. destruct E as ([[i r] s] & Heq & Hin). apply Hl in Hin. cbn in Hin, Heq.
    destruct Hin as [-> Hin]. injection Heq as -> _. congruence.
Qed.

(* ================================================================================================ *)
(* D. property C10 on the IRC model itself                                                          *)
(* ================================================================================================ *)
(* (a) a retried message — an IRCFromClient entry whose non-zero client message id equals the marker
   of its (existing) session — leaves the state unchanged and produces no output *)
Theorem irc_retry_is_noop e sv i un (sid cmid : N) ra data (s : session) :
  sv_sessions sv !! (sid, 0%N) = Some s -> cmid <> 0%N -> s_cmid s = cmid ->
  apply_entry e sv (EMessage i un sid cmid ra data) = OOk sv [] /\
  irc_processes sv (EMessage i un sid cmid ra data) = false.
Proof.
  intros Hs Hnz Hc. assert (Hr : is_retry (sid, 0%N) cmid sv = true).
  { unfold is_retry. rewrite Hs, Hc, N.eqb_refl. apply N.eqb_neq in Hnz. now rewrite Hnz. }
  cbn [apply_entry irc_processes]. now rewrite Hr.
Qed.

(* ... in particular in every state a well-formed history leads to *)
Corollary irc_retry_is_noop_reachable e net es sv i un (sid cmid : N) ra data :
  run e (init_server net) es = Some sv -> cmid <> 0%N -> last_post_message sv sid = cmid ->
  apply_entry e sv (EMessage i un sid cmid ra data) = OOk sv [] /\
  irc_processes sv (EMessage i un sid cmid ra data) = false.
Proof.
  intros _ Hnz Hm. unfold last_post_message in Hm. destruct (sv_sessions sv !! (sid, 0%N)) as [s|] eqn:Hs; [|congruence].
  now apply (irc_retry_is_noop e sv i un sid cmid ra data s).
Qed.

(* (b) the marker rule.  SET: after an IRCFromClient / MessageOfDeath entry the marker of its session,
   if the session (still) exists, is the entry's client message id (a retry included: it was already). *)
Theorem irc_marker_set e sv en sv' (sid c : N) :
  wf_entry sv en -> client_msg_of en = Some (sid, c) -> entry_result (apply_entry e sv en) = Some sv' ->
  is_Some (sv_sessions sv' !! (sid, 0%N)) -> last_post_message sv' sid = c.
Proof.
  intros Hwf Hk Hr [s' Hs']. unfold last_post_message. rewrite Hs'. eapply entry_marker_set; eauto.
Qed.

(* ONLY: LastPostMessage of a session changes only by a client entry of THAT session carrying the new value,
   by the session's removal (then it reads 0), or by its creation (it reads 0 as before) *)
Theorem irc_marker_only e sv en sv' (sid : N) :
  wf_entry sv en -> entry_result (apply_entry e sv en) = Some sv' ->
  last_post_message sv' sid <> last_post_message sv sid ->
  client_msg_of en = Some (sid, last_post_message sv' sid) \/
  (is_Some (sv_sessions sv !! (sid, 0%N)) /\ sv_sessions sv' !! (sid, 0%N) = None).
Proof.
  intros Hwf Hr Hne. unfold last_post_message in *.
  destruct (sv_sessions sv' !! (sid, 0%N)) as [s'|] eqn:Hs'.
  - destruct (entry_effect e sv en sv' sid s' Hwf Hr Hs') as [(s & Hs & _ & [Hc|Hc])|(un & auth & -> & Hnone & Hmk)].
    + rewrite Hs in Hne. congruence.
    + now left.
    + rewrite Hnone in Hne. unfold mk in Hmk. injection Hmk as Hc _. congruence.
  - right. destruct (sv_sessions sv !! (sid, 0%N)); [eauto|congruence].
Qed.

(* a session that lives through an entry keeps its secret, and its marker unless the entry is a client
   entry of that session; client sessions are created by CreateSession only (marker 0) *)
Theorem irc_marker_frame e sv en sv' (sid : N) (s s' : session) :
  wf_entry sv en -> entry_result (apply_entry e sv en) = Some sv' ->
  sv_sessions sv !! (sid, 0%N) = Some s -> sv_sessions sv' !! (sid, 0%N) = Some s' ->
  s_auth s' = s_auth s /\ (s_cmid s' = s_cmid s \/ client_msg_of en = Some (sid, s_cmid s')).
Proof.
  intros Hwf Hr Hs Hs'.
  destruct (entry_effect e sv en sv' sid s' Hwf Hr Hs') as [(s0 & Hs0 & Ha & Hc)|(un & auth & -> & Hnone & _)]; [|congruence].
  rewrite Hs in Hs0. injection Hs0 as <-. auto.
Qed.
Theorem irc_session_created e sv en sv' (sid : N) (s' : session) :
  wf_entry sv en -> entry_result (apply_entry e sv en) = Some sv' ->
  sv_sessions sv !! (sid, 0%N) = None -> sv_sessions sv' !! (sid, 0%N) = Some s' ->
  exists un auth, en = ECreate sid un auth /\ s_cmid s' = 0%N /\ s_auth s' = auth.
Proof.
  intros Hwf Hr Hs Hs'.
  destruct (entry_effect e sv en sv' sid s' Hwf Hr Hs') as [(s0 & Hs0 & _)|(un & auth & -> & _ & Hmk)]; [congruence|].
  unfold mk in Hmk. injection Hmk as Hc Ha. eauto.
Qed.

(* (c) processed once.  The invariant "the session is gone or its marker is c" *)
Definition irc_inv (sid c : N) (sv : server) : Prop :=
  forall s : session, sv_sessions sv !! (sid, 0%N) = Some s -> s_cmid s = c.

(* it is the invariant of Api/PostProofs.v, seen through the abstraction *)
Lemma inv_transfer sv st sid c : abs_rel sv st -> (PostProofs.Inv sid c st <-> irc_inv sid c sv).
Proof.
  intros Habs. unfold PostProofs.Inv, irc_inv. rewrite (abs_is_live _ _ _ Habs), (abs_last_post _ _ _ Habs).
  unfold last_post_message. destruct (sv_sessions sv !! (sid, 0%N)) as [s|].
  - rewrite bool_decide_true by eauto. split; [intros [H|H] s0 [= <-]; [discriminate|exact H]|intros H; right; now apply H].
  - rewrite bool_decide_false by (intros [? ?]; discriminate). split; [intros _ s0 H; discriminate|now left].
Qed.

(* entries that may follow the first copy of (sid, c) while it stays the session's last message: anything of
   other sessions, deletes, configuration entries, client entries of sid only with the same id (the copies);
   no CreateSession re-uses the id (ids are raft indexes) *)
Definition irc_tail_ok (sid c : N) (en : entry) : Prop :=
  (forall c', client_msg_of en = Some (sid, c') -> c' = c) /\ (forall un auth, en <> ECreate sid un auth).

Lemma inv_established e sv en sv' sid c :
  wf_entry sv en -> client_msg_of en = Some (sid, c) -> entry_result (apply_entry e sv en) = Some sv' -> irc_inv sid c sv'.
Proof. intros Hwf Hk Hr s' Hs'. eapply entry_marker_set; eauto. Qed.

Lemma inv_preserved e sv en sv' sid c :
  irc_inv sid c sv -> irc_tail_ok sid c en -> wf_entry sv en -> entry_result (apply_entry e sv en) = Some sv' -> irc_inv sid c sv'.
Proof.
  intros HI [Hcm Hcr] Hwf Hr s' Hs'.
  destruct (entry_effect e sv en sv' sid s' Hwf Hr Hs') as [(s & Hs & _ & [Hc|Hc])|(un & auth & -> & _)].
  - rewrite Hc. now apply HI.
  - now apply Hcm.
  - exfalso. eapply Hcr. reflexivity.
Qed.

Definition irc_is_copy (sid c : N) (en : entry) : bool :=
  match en with EMessage _ _ s c' _ _ => (s =? sid)%N && (c' =? c)%N | _ => false end.

(* a further copy is not processed: no output, no state change *)
Lemma copy_noop e sv en sid c :
  irc_inv sid c sv -> c <> 0%N -> irc_is_copy sid c en = true ->
  (apply_entry e sv en = OOk sv [] \/ apply_entry e sv en = OSkip sv) /\ irc_processes sv en = false.
Proof.
  intros HI Hnz Hcp. destruct en as [| |i un s c' ra data| |]; cbn in Hcp; try discriminate.
  apply andb_true_iff in Hcp. destruct Hcp as [H1 H2]. apply N.eqb_eq in H1, H2. subst s c'.
  destruct (sv_sessions sv !! (sid, 0%N)) as [s|] eqn:Hs.
  - destruct (irc_retry_is_noop e sv i un sid c ra data s Hs Hnz (HI s Hs)) as [Ha Hp]. auto.
  - cbn [apply_entry irc_processes]. unfold is_retry, update_last_cmid. rewrite Hs, andb_false_r.
    rewrite bool_decide_false by (intros [? ?]; discriminate). auto.
Qed.

(* replay with the concatenated output *)
Definition entry_out (o : outcome) : list omsg := match o with OOk _ out => out | _ => [] end.
Fixpoint run_out (e : env) (sv : server) (es : list entry) : option (server * list omsg) :=
  match es with
  | [] => Some (sv, [])
  | en :: r =>
      match entry_result (apply_entry e sv en) with
      | Some sv' => match run_out e sv' r with
                    | Some (sv'', outs) => Some (sv'', (entry_out (apply_entry e sv en) ++ outs)%list)
                    | None => None
                    end
      | None => None
      end
  end.
Lemma run_out_run e es : forall sv, fst <$> run_out e sv es = run e sv es.
Proof.
  induction es as [|en es IH]; intros sv; cbn [run_out run]; [reflexivity|].
  destruct (entry_result (apply_entry e sv en)) as [sv'|]; [|reflexivity].
  rewrite <- IH. destruct (run_out e sv' es) as [[? ?]|]; reflexivity.
Qed.

Definition irc_drop_copies (sid c : N) (l : list entry) : list entry :=
  List.filter (fun en => negb (irc_is_copy sid c en)) l.

(* a history with any number of extra copies behaves exactly like the history without them: same final
   state, same output, same processed entries — from every state in which the first copy has been applied *)
Theorem irc_duplicates_invisible e sid c : c <> 0%N -> forall l sv,
  irc_inv sid c sv -> wf_history e sv l -> Forall (irc_tail_ok sid c) l ->
  run_out e sv l = run_out e sv (irc_drop_copies sid c l) /\
  irc_proc e sv l = irc_proc e sv (irc_drop_copies sid c l).
Proof.
  intros Hnz. induction l as [|en l IH]; intros sv HI Hwf Hall; [auto|].
  destruct Hwf as [Hen Hrest]. inversion Hall as [|? ? Hx Hr]; subst. cbn [irc_drop_copies List.filter].
  destruct (irc_is_copy sid c en) eqn:Hcp; cbn [negb].
  - destruct (copy_noop e sv en sid c HI Hnz Hcp) as [Ha Hp]. cbn [run_out irc_proc]. rewrite Hp.
    assert (Hres : entry_result (apply_entry e sv en) = Some sv /\ entry_out (apply_entry e sv en) = []).
    { destruct Ha as [-> | ->]; auto. }
    destruct Hres as [Hres Hout]. rewrite Hres, Hout. cbn [app].
    destruct (IH sv HI (Hrest sv Hres) Hr) as [H1 H2]. fold (irc_drop_copies sid c l). rewrite <- H1, <- H2.
    split; [|reflexivity]. now destruct (run_out e sv l) as [[? ?]|].
  - cbn [run_out irc_proc]. fold (irc_drop_copies sid c l).
    destruct (entry_result (apply_entry e sv en)) as [sv'|] eqn:Hres; [|auto].
    destruct (IH sv' (inv_preserved e sv en sv' sid c HI Hx Hen Hres) (Hrest sv' eq_refl) Hr) as [H1 H2].
    now rewrite H1, H2.
Qed.

Lemma wf_history_app e l1 : forall sv l2,
  wf_history e sv (l1 ++ l2) -> wf_history e sv l1 /\ forall sv1, run e sv l1 = Some sv1 -> wf_history e sv1 l2.
Proof.
  induction l1 as [|en l1 IH]; intros sv l2 H; cbn [app wf_history run] in *.
  - split; [exact Logic.I|]. intros sv1 [= <-]. exact H.
  - destruct H as [Hen Hrest]. split.
    + split; [exact Hen|]. intros sv' Hr. apply (IH sv' l2), Hrest, Hr.
    + intros sv1. destruct (entry_result (apply_entry e sv en)) as [sv'|] eqn:Hr; [|discriminate].
      apply (IH sv' l2), Hrest. reflexivity.
Qed.

Lemma run_out_app e l1 : forall sv l2,
  run_out e sv (l1 ++ l2) =
    match run_out e sv l1 with
    | Some (sv1, o1) => match run_out e sv1 l2 with Some (sv2, o2) => Some (sv2, (o1 ++ o2)%list) | None => None end
    | None => None
    end.
Proof.
  induction l1 as [|en l1 IH]; intros sv l2; cbn [app run_out].
  - now destruct (run_out e sv l2) as [[? ?]|].
  - destruct (entry_result (apply_entry e sv en)) as [sv'|]; [|reflexivity]. rewrite IH.
    destruct (run_out e sv' l1) as [[sv1 o1]|]; [|reflexivity].
    destruct (run_out e sv1 l2) as [[sv2 o2]|]; [|reflexivity]. now rewrite app_assoc.
Qed.
Lemma irc_proc_app e l1 : forall sv l2,
  irc_proc e sv (l1 ++ l2) =
    (irc_proc e sv l1 ++ match run e sv l1 with Some sv1 => irc_proc e sv1 l2 | None => [] end)%list.
Proof.
  induction l1 as [|en l1 IH]; intros sv l2; cbn [app irc_proc run]; [reflexivity|].
  destruct (entry_result (apply_entry e sv en)) as [sv'|]; [|now rewrite !app_nil_r].
  now rewrite IH, app_assoc.
Qed.

Lemma inv_along e sid c l : forall sv sv', irc_inv sid c sv -> wf_history e sv l -> Forall (irc_tail_ok sid c) l ->
  run e sv l = Some sv' -> irc_inv sid c sv'.
Proof.
  induction l as [|en l IH]; intros sv sv' HI Hwf Hall Hrun; cbn [run] in Hrun; [now injection Hrun as <-|].
  destruct Hwf as [Hen Hrest]. inversion Hall as [|? ? Hx Hr]; subst.
  destruct (entry_result (apply_entry e sv en)) as [sv1|] eqn:Hres; [|discriminate].
  apply (IH sv1 sv'); auto. eapply inv_preserved; eauto.
Qed.

(* closed form, no invariant in the statement: ANY well-formed history that contains a first copy e1 of the
   post (sid, c), c <> 0 (as a message or as a message of death), then entries that leave it the session's
   last message, then a further copy e2 — however it got into the log — ends in the same state, has produced
   the same output and has processed the same entries as the history without e2 *)
Theorem irc_processed_once e sv0 l1 e1 l2 e2 (sid c : N) :
  wf_history e sv0 (l1 ++ e1 :: l2 ++ [e2]) ->
  client_msg_of e1 = Some (sid, c) -> c <> 0%N -> Forall (irc_tail_ok sid c) l2 -> irc_is_copy sid c e2 = true ->
  run_out e sv0 (l1 ++ e1 :: l2 ++ [e2]) = run_out e sv0 (l1 ++ e1 :: l2) /\
  irc_proc e sv0 (l1 ++ e1 :: l2 ++ [e2]) = irc_proc e sv0 (l1 ++ e1 :: l2).
Proof.
  intros Hwf Hk Hnz Htail Hcp.
  replace (l1 ++ e1 :: l2 ++ [e2])%list with ((l1 ++ e1 :: l2) ++ [e2])%list in * by (now rewrite <- app_assoc).
  rewrite run_out_app, irc_proc_app.
  destruct (wf_history_app e _ _ _ Hwf) as [Hwf12 Hwf3].
  destruct (wf_history_app e _ _ _ Hwf12) as [_ Hwf2].
  pose proof (run_out_run e (l1 ++ e1 :: l2) sv0) as Hro.
  destruct (run_out e sv0 (l1 ++ e1 :: l2)) as [[sv2 o2]|]; cbn in Hro; rewrite <- Hro; [|now rewrite app_nil_r].
  assert (HI : irc_inv sid c sv2).
  { assert (Hrun : run e sv0 (l1 ++ e1 :: l2) = Some sv2) by now rewrite <- Hro.
    assert (Happ : forall l sv, run e sv (l1 ++ l) = match run e sv l1 with Some sv1 => run e sv1 l | None => None end).
    { clear. induction l1 as [|en l1 IH]; intros l sv; cbn [app run]; [reflexivity|].
      destruct (entry_result (apply_entry e sv en)); [apply IH|reflexivity]. }
    rewrite Happ in Hrun. destruct (run e sv0 l1) as [sv1|] eqn:Hr1; [|discriminate].
    specialize (Hwf2 sv1 eq_refl). cbn [wf_history run] in Hwf2, Hrun. destruct Hwf2 as [Hen1 Hrest].
    destruct (entry_result (apply_entry e sv1 e1)) as [sv1'|] eqn:Hres; [|discriminate].
    eapply (inv_along e sid c l2 sv1' sv2); eauto. eapply inv_established; eauto. }
  destruct (copy_noop e sv2 e2 sid c HI Hnz Hcp) as [Ha Hp]. cbn [run_out irc_proc]. rewrite Hp.
  destruct Ha as [-> | ->]; cbn; now rewrite !app_nil_r.
Qed.

(* non-vacuity: ex_history with a second and a third copy of client message 24 of session 4, separated by
   traffic of session 1 and a message of death carrying the same id *)
Definition ex_l1 : list entry := firstn 8 Examples.ex_history.
Definition ex_e1 : entry := EMessage 9 9000 4 24 "" "PRIVMSG #chan :hello".
Definition ex_l2 : list entry :=
  [ EMessage 10 10000 1 14 "" "PRIVMSG #chan :hi"; EMessage 11 11000 4 24 "" "PRIVMSG #chan :hello";
    EDeath 12 12000 4 24 "PRIVMSG #chan :hello"; EDelete 13 13000 1 "bye" ].
Definition ex_e2 : entry := EMessage 14 14000 4 24 "" "PRIVMSG #chan :hello".
Example ex_processed_once_hyps :
  wf_history Examples.ex_env (init_server "robustirc.net") (ex_l1 ++ ex_e1 :: ex_l2 ++ [ex_e2]) /\
  client_msg_of ex_e1 = Some (4%N, 24%N) /\ Forall (irc_tail_ok 4 24) ex_l2 /\ irc_is_copy 4 24 ex_e2 = true /\
  match run_out Examples.ex_env (init_server "robustirc.net") (ex_l1 ++ ex_e1 :: ex_l2 ++ [ex_e2]) with
  | Some (_, outs) => List.length outs = 35
  | None => False
  end /\
  map Outputs.entry_id (irc_proc Examples.ex_env (init_server "robustirc.net") (ex_l1 ++ ex_e1 :: ex_l2 ++ [ex_e2]))
    = [2; 3; 5; 6; 7; 8; 9; 10; 13]%N.
Proof.
  split; [apply Examples.wf_history_b_sound; vm_compute; reflexivity|]. split; [reflexivity|]. split.
  - repeat constructor; cbn; try discriminate; intros ? [= <-]; reflexivity.
  - split; [reflexivity|]. vm_compute. split; reflexivity.
Qed.

(* ---- why conformance of services lines (Top.wf_entry) is a hypothesis of all of the above ---------------- *)
(* FNV-1(92 06 77 4c e0 2f 89 2a d2) = 0.  A services link that introduces a pseudo-client with this
   "nickname" makes cmd_server_nick create the session (link id, 0) — the key of the link's OWN session,
   which createSessionLocked overwrites: the secret becomes "", the marker 0, and a retry of the very
   message that did it is processed a second time.  (scmd_nick.go: id := robust.Id{Id: s.Id.Id, Reply: h.Sum64()};
   ircserver.go createSessionLocked: i.sessions[id] = &Session{...}.)  Top.conforming excludes this line. *)
Definition zero_nick : string :=
  fold_right (fun n s => String (ascii_of_N n) s) EmptyString [0x92; 0x06; 0x77; 0x4c; 0xe0; 0x2f; 0x89; 0x2a; 0xd2]%N.
Definition zh_config : config := Config 0 600000000000 500000000 0 0 "" "" false [] ["pw"] ∅ ∅ ∅.
Definition zh_history : list entry :=
  [ EConfig 1 1000 1 (Some zh_config);
    ECreate 2 2000 "0123456789abcdef";
    EMessage 3 3000 2 11 "" "PASS :services=pw";
    EMessage 4 4000 2 12 "" "SERVER services.robustirc.net 1 :Services" ].
Definition zh_entry : entry := EMessage 5 5000 2 13 "" ("NICK " ++ zero_nick ++ " 1 1 user host srv 0 :real").

Theorem marker_frame_needs_conformance_refuted :
  fnv64 zero_nick = 0%N /\
  wf_history Examples.ex_env (init_server "n") zh_history /\
  exists sv sv' s s',
    run Examples.ex_env (init_server "n") zh_history = Some sv /\
    client_msg_of zh_entry = Some (2%N, 13%N) /\
    apply_entry Examples.ex_env sv zh_entry = OOk sv' [] /\
    sv_sessions sv !! (2%N, 0%N) = Some s /\ sv_sessions sv' !! (2%N, 0%N) = Some s' /\
    (s_auth s = "0123456789abcdef" /\ s_cmid s = 12%N /\ s_server s = true) /\
    (* the link's own session has been replaced: no secret, marker 0 (not 13), not a link *)
    (s_auth s' = "" /\ s_cmid s' = 0%N /\ s_server s' = false) /\
    (* and the retry of the same message is processed again *)
    irc_processes sv' zh_entry = true /\ entry_out (apply_entry Examples.ex_env sv' zh_entry) <> [].
Proof.
  split; [vm_compute; reflexivity|]. split; [apply Examples.wf_history_b_sound; vm_compute; reflexivity|].
  eexists _, _, _, _. split; [vm_compute; reflexivity|]. split; [reflexivity|].
  split; [vm_compute; reflexivity|]. split; [vm_compute; reflexivity|]. split; [vm_compute; reflexivity|].
  split; [repeat split; vm_compute; reflexivity|]. split; [repeat split; vm_compute; reflexivity|].
  split; [vm_compute; reflexivity|]. vm_compute. discriminate.
Qed.

(* ---- non-vacuity: the simulation on Examples.ex_history, by computation ------------------------------- *)
Definition view_irc (sv : server) (ids : list N) : list (N * option (N * string)) * N :=
  (map (fun id => (id, mk <$> (sv_sessions sv !! (id, 0%N)))) ids, fst (sv_lastProcessed sv)).
Definition view_post (st : Auth.state) (ids : list N) : list (N * option (N * string)) * N :=
  (map (fun id => (id, amk <$> Post.live st id)) ids, Auth.st_lastproc st).
Definition ex_ids : list N := map N.of_nat (seq 0 12).

Example ex_simulation :
  let sv0 := init_server "robustirc.net" in
  let tr := trace Examples.ex_env sv0 Examples.ex_history in
  let st' := Post.replay tr (post_init "pw" true) in
  match run Examples.ex_env sv0 Examples.ex_history with
  | None => False
  | Some sv' =>
    (* the abstraction of the final IRC state is the final marker-machine state *)
    view_irc sv' ex_ids = view_post st' ex_ids /\
    view_post (abs "pw" true sv') ex_ids = view_post st' ex_ids /\
    (* ... which is not trivial: session 4 is alive with marker 24, session 1 was killed by the oracle derived
       from the DeleteSession entry (its last marker was 13) *)
    fst (view_post st' ex_ids) =
      [(0, None); (1, None); (2, None); (3, None); (4, Some (24, "fedcba9876543210")); (5, None); (6, None);
       (7, None); (8, None); (9, None); (10, None); (11, None)]%N /\
    Post.is_live st' 1 = false /\ Auth.lookup 1%N (Auth.st_sessions st') = Some (Auth.mkSess "0123456789abcdef" false 13) /\
    map (fun eo => Post.o_deaths (snd eo)) tr = [[]; []; []; []; []; []; []; []; []; [1%N]] /\
    map Post.e_id (Post.replay_proc tr (post_init "pw" true)) = [2; 3; 5; 6; 7; 8; 9; 10]%N /\
    Auth.st_lastproc st' = 10%N
  end.
Proof. vm_compute. repeat split; reflexivity. Qed.

Print Assumptions sim_step.
Print Assumptions processes_agree.
Print Assumptions irc_processes_runs.
Print Assumptions not_processed_silent.
Print Assumptions post_unprocessed_silent.
Print Assumptions sim_run.
Print Assumptions irc_refines_marker_machine.
Print Assumptions abs_rel_abs.
Print Assumptions entry_effect.
Print Assumptions entry_marker_set.
Print Assumptions entry_lastproc.
Print Assumptions irc_retry_is_noop.
Print Assumptions irc_retry_is_noop_reachable.
Print Assumptions irc_marker_set.
Print Assumptions irc_marker_only.
Print Assumptions irc_marker_frame.
Print Assumptions irc_session_created.
Print Assumptions inv_transfer.
Print Assumptions irc_duplicates_invisible.
Print Assumptions irc_processed_once.
Print Assumptions ex_processed_once_hyps.
Print Assumptions marker_frame_needs_conformance_refuted.
Print Assumptions ex_simulation.
