(* Irc/State.v — the replicated IRC server state (ircserver.IRCServer, Session, channel,
   config.Network) and the reply context.  Pointers into maps are modelled by keys. *)
From stdpp Require Import gmap.
From Coq Require Import Strings.String Strings.Ascii ZArith NArith.
From RV Require Import Base.Text Irc.Str Irc.Parse.
Local Open Scope string_scope.

(* Go's time.Time: None is the zero time (IsZero), Some ns = time.Unix(0, ns) *)
Definition time := option Z.
Definition max_dur : Z := 9223372036854775807.
(* t.Sub(u), saturating as Go does when one side is the zero time (year 1) *)
Definition tsub (t u : time) : Z :=
  match t, u with
  | Some a, Some b => (a - b)%Z
  | Some _, None => max_dur
  | None, Some _ => (- max_dur - 1)%Z
  | None, None => 0%Z
  end.
Definition tadd (t : time) (d : Z) : time := option_map (fun a => (a + d)%Z) t.
(* t.After(u) *)
Definition tafter (t u : time) : bool :=
  match t, u with
  | Some a, Some b => (b <? a)%Z
  | Some _, None => true
  | _, _ => false
  end.
(* t.Unix(): seconds, rounding towards minus infinity *)
Definition tunix (t : time) : Z := match t with Some a => (a / 1000000000)%Z | None => (-62135596800)%Z end.

Notation skey := (N * N)%type (only parsing).   (* robust.Id{Id, Reply} *)

Record session := Session {
  s_key : skey;
  s_auth : string;
  s_loggedIn : bool;
  s_nick : string;
  s_user : string;
  s_real : string;
  s_channels : gset string;       (* map[lcChan]bool, only true values are ever stored *)
  s_lastActivity : time;
  s_lastNonPing : time;
  s_lastSolvedCaptcha : time;
  s_operator : bool;
  s_away : string;
  s_created : Z;
  s_invited : gset string;
  s_modes : gset N;               (* modes['z']bool: set of mode bytes *)
  s_svid : string;
  s_pass : string;
  s_server : bool;
  s_cmid : N;
  s_prefix : prefix;
  s_deleted : bool;
  s_remoteAddr : string;
}.

Record chan := Chan {
  c_name : string;
  c_topicNick : string;
  c_topicTime : time;
  c_topic : string;
  c_nicks : gmap string (bool * bool);   (* lcNick -> (chanop, voice); never nil in the model: a nil entry cannot be created by any handler *)
  c_modes : gset N;
  c_key : string;
  c_bans : list (string * string);  (* banPattern{pattern: banmask, re: regexp source} in slice order *)
}.

Record svshold := SvsHold { h_added : time; h_duration : Z; h_reason : string }.

Record config := Config {
  g_revision : N;
  g_expiration : Z;
  g_cooloff : Z;
  g_maxSessions : N;
  g_maxChannels : N;
  g_captchaURL : string;
  g_captchaHMAC : string;
  g_captchaLogin : bool;
  g_operators : list (string * string);
  g_services : list string;
  g_banned : gmap string string;
  g_trustedBridges : gmap string string;
  g_whitelistedOrigins : gset string;
}.

Definition default_config : config :=
  Config 0 600000000000 500000000 0 0 "" "" false [] [] ∅ ∅ ∅.

Record server := Server {
  sv_sessions : gmap skey session;
  sv_serverSessions : list N;
  sv_nicks : gmap string skey;
  sv_channels : gmap string chan;
  sv_svsholds : gmap string svshold;
  sv_netname : string;
  sv_lastProcessed : skey;
  sv_config : config;
}.

Definition init_server (net : string) : server :=
  Server ∅ [] ∅ ∅ ∅ net (0%N, 0%N) default_config.

(* one output message: robust.Message{Id:{msgid,reply}, Data, InterestingFor} *)
Record omsg := OMsg { o_reply : N; o_data : string; o_rcpt : list N }.

(* Replyctx; outputs are accumulated in reverse *)
Record rctx := RCtx { r_msgid : N; r_out : list omsg }.

Inductive res (A : Type) : Type :=
| Ok (a : A)
| Panic (site : string)     (* the Go code would panic here *)
| Gap (site : string).      (* the model's abstraction would be left here (never inside the stated domain) *)
Arguments Ok {A} a.
Arguments Panic {A} site.
Arguments Gap {A} site.

Definition bind {A B} (x : res A) (f : A -> res B) : res B :=
  match x with Ok a => f a | Panic s => Panic s | Gap s => Gap s end.
Global Instance res_bind : MBind res := fun A B f x => bind x f.
Global Instance res_ret : MRet res := fun A a => Ok a.
