(* C15 — every line sent to clients is a single well-formed IRC line.
   Proved over the model, for every entry of every history:
     * every output message is produced by Message.Bytes (a prefix-optional command line), at most 510 bytes long;
     * NO output message contains CR, LF or NUL, provided the strings the log entries carry are clean
       (C15_no_control_characters / C15_clean_trace; the invariant CleanState — every string of the state that can
       reach an output is clean — is spelled out by C15_CleanState_spec);
     * what the POST handler commits is clean whatever JSON string was posted (C15_post_handler_clean), so EMessage
       entries meet the hypothesis (C15_posted_entry_clean); so is the quit message the DELETE handler commits
       (C15_delete_handler_clean / C15_deleted_entry_clean; deletesession.go modelled in Api/Post.v, tied by the API
       driver's D op); reload (save+load) and the expiry sweep keep it.
   Hypotheses that are not discharged inside Coq (stated in DESIGN.md, checked on the implementation by the line monitor):
   ban reasons of a posted configuration (network password holder only) are clean, and two texts the model masks as
   constants (captcha URL, server creation date).
   The head ":prefix command" of every line survives the 510-byte cut (C15_command_intact): cmd_user.go keeps at most
   32 bytes of the user name (repair of finding c15:nocommand), nicknames are bounded by their syntax, the host part by
   64-bit session ids; hypotheses: network name <= 255 bytes, services lines carry prefixes / NICK / SERVER parameters
   of at most 63 bytes (services are trusted; the property is about what clients post). *)
From stdpp Require Import gmap.
From Coq Require Import Strings.String List.
From RV Require Import Irc.Str Irc.Parse Irc.State Irc.Cmds Irc.Apply Api.Auth Api.Post.
From RV Require Import IrcProofs.Outputs Api.PostProofs.
From Coq Require Import ZArith NArith.
From RV Require Import Base.Text Irc.Monad.
From RV Require Import IrcProofs.Top IrcProofs.Clean IrcProofs.CleanHandlers IrcProofs.Intact.
Local Open Scope string_scope.

Theorem C15_length : forall e sv en sv' out,
  RV.Irc.Apply.apply_entry e sv en = OOk sv' out -> Forall (fun o => slen (o_data o) <= max_length) out.
Proof. exact outputs_short. Qed.
Print Assumptions C15_length.

Theorem C15_rendered : forall e sv en sv' out,
  RV.Irc.Apply.apply_entry e sv en = OOk sv' out -> Forall (fun o => exists m, o_data o = msg_bytes m) out.
Proof. exact outputs_rendered. Qed.
Print Assumptions C15_rendered.

Theorem C15_command_present : forall m, exists rest,
  msg_bytes_full m = (match m_prefix m with Some p => ":" ++ prefix_string p ++ " " | None => "" end) ++ m_cmd m ++ rest.
Proof. exact msg_bytes_full_shape. Qed.
Print Assumptions C15_command_present.

(* [clean s]: s contains no CR, LF, NUL — with exactly the POST handler's predicate *)
Theorem C15_clean_spec : forall s, clean s <-> forall c, is_line_end c = true -> contains_char c s = false.
Proof. exact clean_forall. Qed.
Print Assumptions C15_clean_spec.

(* one entry, any state whose strings are clean: the state stays clean and every output is clean *)
Theorem C15_clean_step : forall e sv en,
  CleanState sv -> clean_entry en -> clean_outcome (RV.Irc.Apply.apply_entry e sv en).
Proof. exact clean_step. Qed.
Print Assumptions C15_clean_step.

(* every history from the initial state *)
Theorem C15_no_control_characters : forall e net es sv en sv' out,
  clean net -> Forall clean_entry es -> clean_entry en ->
  RV.IrcProofs.Top.run e (init_server net) es = Some sv -> RV.Irc.Apply.apply_entry e sv en = OOk sv' out ->
  CleanState sv' /\ Forall (fun o => clean (o_data o)) out.
Proof. exact clean_run. Qed.
Print Assumptions C15_no_control_characters.

Theorem C15_clean_trace : forall e sv es,
  CleanState sv -> Forall clean_entry es ->
  Forall (fun p => CleanState (fst p) /\ Forall (fun o => clean (o_data o)) (snd p)) (trace e sv es).
Proof. exact clean_trace. Qed.
Print Assumptions C15_clean_trace.

(* what the POST handler puts into the log is clean, whatever JSON string was posted *)
Theorem C15_post_handler_clean : forall json_decode st sid body pe,
  post_handler json_decode st sid body = PPropose pe -> clean (e_data pe).
Proof. exact post_handler_clean. Qed.
Print Assumptions C15_post_handler_clean.

Theorem C15_posted_entry_clean : forall id un session cmid ra d,
  clean_entry (RV.Irc.Apply.EMessage id un session cmid ra (cut_line d)).
Proof. exact clean_posted_entry. Qed.
Print Assumptions C15_posted_entry_clean.

Theorem C15_delete_handler_clean : forall json_quit st sid body pe,
  delete_handler json_quit st sid body = PPropose pe -> clean (e_data pe).
Proof. exact delete_handler_clean. Qed.
Print Assumptions C15_delete_handler_clean.

Theorem C15_deleted_entry_clean : forall id un session d,
  clean_entry (RV.Irc.Apply.EDelete id un session (cut_line d)).
Proof. exact clean_deleted_entry. Qed.
Print Assumptions C15_deleted_entry_clean.

Theorem C15_reload_clean : forall sv, CleanState sv -> CleanState (reload sv).
Proof. exact clean_reload. Qed.
Print Assumptions C15_reload_clean.

Theorem C15_expire_clean : forall sv now, Forall (fun p => clean (snd p)) (expire_sessions sv now).
Proof. exact clean_expire_sessions. Qed.
Print Assumptions C15_expire_clean.

(* what the invariant says *)
Theorem C15_CleanState_spec : forall sv,
  CleanState sv <->
  (forall k s, sv_sessions sv !! k = Some s -> clean_session_fields s) /\
  (forall lc c, sv_channels sv !! lc = Some c -> clean_chan_fields c) /\
  (forall n h, sv_svsholds sv !! n = Some h -> clean (h_reason h)) /\
  clean (sv_netname sv) /\
  (forall addr reason, g_banned (sv_config sv) !! addr = Some reason -> clean reason).
Proof. exact CleanState_spec. Qed.
Print Assumptions C15_CleanState_spec.

(* non-vacuity: the example history is clean and produces output; the hypothesis is needed *)
Theorem C15_nonvacuous : Forall clean_entry Examples.ex_history.
Proof. exact ex_history_clean. Qed.
Print Assumptions C15_nonvacuous.

(* truncation to 510 bytes never cuts into ":prefix command": in every state reachable by a history whose session ids
   are 64-bit and whose trusted lines (services links, SERVER with a services password) carry small prefixes and
   NICK/SERVER parameters, every line an entry produces starts with its complete head *)
Theorem C15_command_intact : forall e net es1 en es2 sv sv' out,
  slen net <= 255 -> intact_history e (init_server net) (es1 ++ en :: es2) ->
  run e (init_server net) es1 = Some sv -> apply_entry e sv en = OOk sv' out ->
  forall o, In o out ->
    exists m, o_data o = msg_bytes m /\ slen (head m) <= 510 /\ Str.has_prefix (head m) (o_data o) = true.
Proof. exact command_intact. Qed.
Print Assumptions C15_command_intact.

(* the consequence used above, for any message: a head that fits and whose command word is a non-empty ASCII word
   survives Message.Bytes and the removal of a trailing UTF-8 fragment (every line the handlers emit has such a
   command word: part of the relation proved for all handlers) *)
Theorem C15_head_kept : forall m,
  slen (head m) <= 510 -> cmd_ok (m_cmd m) = true -> Str.has_prefix (head m) (msg_bytes m) = true.
Proof. exact head_kept. Qed.
Print Assumptions C15_head_kept.

(* send() removes the fragment of a UTF-8 sequence which the cut after 510 bytes may leave at the end of a line
   (repair of finding c15:len-delivered: the JSON encoder of GET /messages replaces every byte of such a fragment by
   U+FFFD, 3 bytes, and the client received up to 516 bytes): what is removed is a suffix of at most 3 bytes, all of
   them non-ASCII, or nothing *)
Theorem C15_trim_spec : forall s,
  trim_partial_rune s = s \/
  exists i, i < slen s /\ slen s <= i + 3 /\ trim_partial_rune s = stake i s /\ RV.IrcProofs.Trim.all_high (sdrop i s) = true.
Proof. exact RV.IrcProofs.Trim.trim_partial_rune_trimmed. Qed.
Print Assumptions C15_trim_spec.

(* one entry, from any state in which the stored names are bounded *)
Theorem C15_command_intact_entry : forall net e sv en sv' out,
  slen net <= 255 -> BI net sv -> small_entry_ok sv en -> apply_entry e sv en = OOk sv' out ->
  Forall outI out /\ (id_entry_ok en -> BI net sv').
Proof. exact intact_entry. Qed.
Print Assumptions C15_command_intact_entry.

Theorem C15_stored_names_bounded : forall e net es sv,
  slen net <= 255 -> intact_history e (init_server net) es -> run e (init_server net) es = Some sv ->
  forall (k : N * N) s, sv_sessions sv !! k = Some s ->
    slen (s_nick s) <= 63 /\ slen (s_user s) <= 63 /\ slen (prefix_string (s_prefix s)) <= 400.
Proof. exact stored_names_bounded. Qed.
Print Assumptions C15_stored_names_bounded.

(* ---- the purpose of the trimming: every line is well-formed UTF-8, so the JSON encoder of GET /messages delivers it
   unchanged and what the client holds is at most 510 bytes (repair of finding c15:len-delivered, /repo cb22549).
   Hypotheses: the log entries carry valid UTF-8 (the API decodes JSON, which guarantees it) and so does the network name. *)
From RV Require Import IrcProofs.Utf8 IrcProofs.Utf8Handlers IrcProofs.Utf8Trim IrcProofs.Utf8Out.

Theorem C15_trim_purpose : forall n s, utf8 s -> utf8 (trim_partial_rune (stake n s)).
Proof. exact utf8_trim_stake. Qed.
Print Assumptions C15_trim_purpose.

Theorem C15_outputs_utf8 : forall e net es sv en sv' out,
  utf8 net -> Forall utf8_entry es -> utf8_entry en ->
  RV.IrcProofs.Top.run e (init_server net) es = Some sv -> RV.Irc.Apply.apply_entry e sv en = OOk sv' out ->
  Forall (fun o => utf8 (o_data o)) out.
Proof. exact outputs_utf8. Qed.
Print Assumptions C15_outputs_utf8.

Theorem C15_delivered_is_stored : forall e net es sv en sv' out,
  utf8 net -> Forall utf8_entry es -> utf8_entry en ->
  RV.IrcProofs.Top.run e (init_server net) es = Some sv -> RV.Irc.Apply.apply_entry e sv en = OOk sv' out ->
  Forall (fun o => json_delivered (o_data o) = o_data o) out.
Proof. exact delivered_is_stored. Qed.
Print Assumptions C15_delivered_is_stored.

Theorem C15_delivered_length : forall e net es sv en sv' out,
  utf8 net -> Forall utf8_entry es -> utf8_entry en ->
  RV.IrcProofs.Top.run e (init_server net) es = Some sv -> RV.Irc.Apply.apply_entry e sv en = OOk sv' out ->
  Forall (fun o => slen (json_delivered (o_data o)) <= max_length) out.
Proof. exact delivered_length. Qed.
Print Assumptions C15_delivered_length.

Theorem C15_utf8_step : forall e sv en, O8State sv -> utf8_entry en -> o8_outcome (RV.Irc.Apply.apply_entry e sv en).
Proof. exact o8_step. Qed.
Print Assumptions C15_utf8_step.

Theorem C15_json_delivered_utf8 : forall s, utf8 s -> json_delivered s = s.
Proof. exact json_delivered_utf8. Qed.
Print Assumptions C15_json_delivered_utf8.

Theorem C15_example_history_utf8 : Forall utf8_entry RV.IrcProofs.Examples.ex_history.
Proof. exact ex_history_utf8. Qed.
Print Assumptions C15_example_history_utf8.

(* without the trimming the statement fails: a 510-byte cut inside U+1F600 arrives as 516 bytes *)
Theorem C15_cut_alone_grows : slen (stake 510 long_line) = 510 /\ slen (json_delivered (stake 510 long_line)) = 516.
Proof. exact cut_grows. Qed.
Print Assumptions C15_cut_alone_grows.

Theorem C15_long_say_trimmed : long_say_check = true.
Proof. exact long_say_trimmed. Qed.
Print Assumptions C15_long_say_trimmed.

Theorem C15_untrimmed_refuted :
  exists m, u8 m /\ u8 (m_cmd m) /\ ~ utf8 (stake max_length (msg_bytes_full m)) /\
            max_length < slen (json_delivered (stake max_length (msg_bytes_full m))) /\
            utf8 (msg_bytes m) /\ slen (json_delivered (msg_bytes m)) <= max_length.
Proof. exact untrimmed_refuted. Qed.
Print Assumptions C15_untrimmed_refuted.
