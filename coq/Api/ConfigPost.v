(* Api/ConfigPost.v — POST /config (internal/api/postconfig.go: handlePostConfig + applyConfig)
   and the Config case of FSM.applyRobustMessage (statemachine.go), with GLINE
   (internal/ircserver/cmd_gline.go) as the one IRC command that writes the replicated
   configuration.  BurntSushi/toml is an oracle: [toml_parse body] is what
   config.FromString / toml.DecodeReader make of the body — [None] when they return an error,
   otherwise the decoded network configuration split into everything-but-Banned (an abstract
   [base]) and the Banned map (an association list sorted by key).
   Revisions are N: the wrap-around of uint64 at 2^64-1 is outside the modelled domain.
   Executable definitions only. *)
From Coq Require Import List Bool NArith Ascii String.
From RV Require Import Base.Text Api.Auth.
Import ListNotations.
Local Open Scope string_scope.

Section Config.
Variable base : Type.
Variable toml_parse : string -> option (base * list (string * string)).

Record cstate := mkC {
  cs_rev : N;                            (* IRCServer.Config.Revision *)
  cs_base : base;                        (* every other field of config.Network except Banned *)
  cs_banned : list (string * string);    (* Config.Banned, sorted by address *)
  cs_leader : bool }.

(* Banned[addr] = reason *)
Fixpoint ban_insert (a r : string) (l : list (string * string)) : list (string * string) :=
  match l with
  | [] => [(a, r)]
  | (k, v) :: tl =>
      match String.compare a k with
      | Eq => (a, r) :: tl
      | Lt => (a, r) :: (k, v) :: tl
      | Gt => (k, v) :: ban_insert a r tl
      end
  end.
Fixpoint ban_lookup (a : string) (l : list (string * string)) : option string :=
  match l with
  | [] => None
  | (k, v) :: tl => if String.eqb k a then Some v else ban_lookup a tl
  end.

Inductive cfg_outcome :=
| CBadHeader                 (* 400: X-RobustIRC-Config-Revision does not parse *)
| CBadToml                   (* 400: the body is not a valid configuration *)
| CProxy                     (* not the leader *)
| CMismatch (got want : N)   (* 400: "Revision mismatch" *)
| CPropose (body : string) (rev : N).   (* applyMessageWait(Config, body, Revision = rev) *)

Definition post_config (st : cstate) (hdr body : string) : cfg_outcome :=
  match parse_uint0 hdr with
  | None => CBadHeader
  | Some rev =>
      match toml_parse body with
      | None => CBadToml
      | Some _ =>
          if negb (cs_leader st) then CProxy
          else if N.eqb rev (cs_rev st) then CPropose body (rev + 1)%N
          else CMismatch rev (cs_rev st)
      end
  end.

Inductive centry :=
| CEConfig (data : string) (rev : N)   (* robust.Config *)
| CEGline (addr reason : string)       (* an IRCFromClient entry whose processing reached cmdGline's write *)
| CEOther.                             (* anything else: does not touch the configuration *)

(* FSM.applyRobustMessage on the configuration.  A Config entry takes effect only if it parses
   AND its revision is the revision in force + 1 (commit b3bad2c: the handler that proposed it
   may have compared the posted revision with a state that lagged behind the log, D20); any other
   Config entry is skipped by every node (and its proposer gets "Revision mismatch"). *)
Definition takes_effect (st : cstate) (e : centry) : bool :=
  match e with
  | CEConfig data rev =>
      match toml_parse data with
      | None => false
      | Some _ => N.eqb rev (cs_rev st + 1)%N
      end
  | _ => false
  end.

Definition capply (st : cstate) (e : centry) : cstate :=
  match e with
  | CEConfig data rev =>
      match toml_parse data with
      | None => st                                         (* "Skipping unexpectedly invalid configuration" *)
      | Some (b, bl) =>
          if N.eqb rev (cs_rev st + 1)%N then mkC rev b bl (cs_leader st)
          else st                                          (* "Skipping configuration update with revision ..." *)
      end
  | CEGline a r => mkC (cs_rev st) (cs_base st) (ban_insert a r (cs_banned st)) (cs_leader st)
  | CEOther => st
  end.

Fixpoint creplay (l : list centry) (st : cstate) : cstate :=
  match l with [] => st | e :: r => creplay r (capply st e) end.

(* the revisions of the entries that take effect while a log is replayed, in order *)
Fixpoint ceffects (l : list centry) (st : cstate) : list N :=
  match l with
  | [] => []
  | e :: r => (if takes_effect st e then [cs_rev (capply st e)] else []) ++ ceffects r (capply st e)
  end.

(* a post answered by a handler that sees the state [view] — any state, e.g. a strict prefix
   replay on a node that restarts — whose proposal is committed and applied on [st] *)
Definition cfg_step_from (view st : cstate) (hdr body : string) : cstate :=
  match post_config view hdr body with
  | CPropose d r => capply st (CEConfig d r)
  | _ => st
  end.

(* a post handled by this node, its proposal applied before the next one is issued *)
Definition cfg_step (st : cstate) (hdr body : string) : cstate := cfg_step_from st st hdr body.
End Config.

Arguments mkC {base} _ _ _ _.
Arguments cs_rev {base} _.
Arguments cs_base {base} _.
Arguments cs_banned {base} _.
Arguments cs_leader {base} _.
