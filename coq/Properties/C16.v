(* C16 — configuration updates.  Two layers:
   (a) the handler (postconfig.go), when it answers from the state of the node that applies:
       accepted iff the body parses and names the revision in force; an accepted update raises
       the revision by exactly one and installs the parsed configuration; anything else changes
       nothing (C16_accept, C16_step, C16_reject, C16_revision_counts);
   (b) the state machine alone, for ANY log — whatever the proposing handlers saw (lagging
       behind the log after a restart, D20; commit b3bad2c): a Config entry takes effect only
       if it parses and carries the revision in force + 1; the revision moves by 0 or +1 per
       entry; the configuration changes only together with the revision; copies of one update
       take effect at most once; the updates in effect carry consecutive revisions; a post
       answered from any state has an effect only if it names the revision in force on the
       applying node; every replica of a log agrees at every position (C16_fsm_*,
       C16_entry_revision_step, C16_config_with_revision, C16_log_effects, C16_same_revision_once,
       C16_duplicate, C16_log_revision_steps, C16_stale_post, C16_replicas).
   GLINE writes the replicated configuration (C16_gline).
   Statements over Api/ConfigPost.v for every TOML parser [toml_parse]. *)
From Coq Require Import List Bool NArith String.
From RV Require Import Base.Text Api.Auth Api.ConfigPost Api.ConfigPostProofs.
Import ListNotations.
Local Open Scope string_scope.

Theorem C16_accept : forall base toml_parse (st : cstate base) hdr body,
  cs_leader st = true ->
  (accepted base toml_parse st hdr body <-> toml_parse body <> None /\ parse_uint0 hdr = Some (cs_rev st)).
Proof. exact accept_iff. Qed.
Print Assumptions C16_accept.

Theorem C16_step : forall base toml_parse (st : cstate base) hdr body,
  accepted base toml_parse st hdr body ->
  exists b bl, toml_parse body = Some (b, bl) /\
    cs_rev (cfg_step base toml_parse st hdr body) = (cs_rev st + 1)%N /\
    cs_base (cfg_step base toml_parse st hdr body) = b /\ cs_banned (cfg_step base toml_parse st hdr body) = bl.
Proof. exact accepted_step. Qed.
Print Assumptions C16_step.

Theorem C16_reject : forall base toml_parse (st : cstate base) hdr body,
  ~ accepted base toml_parse st hdr body -> cfg_step base toml_parse st hdr body = st.
Proof. exact rejected_unchanged. Qed.
Print Assumptions C16_reject.

Theorem C16_fsm_skip : forall base toml_parse (st : cstate base) d r,
  toml_parse d = None -> capply base toml_parse st (CEConfig d r) = st.
Proof. exact fsm_skips_invalid. Qed.
Print Assumptions C16_fsm_skip.

Theorem C16_fsm_install : forall base toml_parse (st : cstate base) d r b bl,
  toml_parse d = Some (b, bl) -> r = (cs_rev st + 1)%N ->
  capply base toml_parse st (CEConfig d r) = mkC r b bl (cs_leader st).
Proof. exact fsm_installs_valid. Qed.
Print Assumptions C16_fsm_install.

Theorem C16_fsm_out_of_sequence : forall base toml_parse (st : cstate base) d r,
  r <> (cs_rev st + 1)%N -> capply base toml_parse st (CEConfig d r) = st.
Proof. exact fsm_skips_out_of_sequence. Qed.
Print Assumptions C16_fsm_out_of_sequence.

Theorem C16_entry_revision_step : forall base toml_parse (st : cstate base) e,
  cs_rev (capply base toml_parse st e) = cs_rev st \/
  cs_rev (capply base toml_parse st e) = (cs_rev st + 1)%N.
Proof. exact entry_revision_step. Qed.
Print Assumptions C16_entry_revision_step.

Theorem C16_config_with_revision : forall base toml_parse (st : cstate base) e,
  cs_rev (capply base toml_parse st e) = cs_rev st ->
  cs_base (capply base toml_parse st e) = cs_base st /\
  (forall d r, e = CEConfig d r -> capply base toml_parse st e = st).
Proof. exact config_changes_only_with_revision. Qed.
Print Assumptions C16_config_with_revision.

(* any log: the updates in effect carry the revisions rev0+1, rev0+2, ... in order, and the
   final revision counts them *)
Theorem C16_log_effects : forall base toml_parse l (st : cstate base),
  ceffects base toml_parse l st = seqN (cs_rev st + 1)%N (List.length (ceffects base toml_parse l st)) /\
  cs_rev (creplay base toml_parse l st) = (cs_rev st + N.of_nat (List.length (ceffects base toml_parse l st)))%N.
Proof. exact log_effects_consecutive. Qed.
Print Assumptions C16_log_effects.

Theorem C16_same_revision_once : forall base toml_parse l (st : cstate base),
  NoDup (ceffects base toml_parse l st).
Proof. exact same_revision_once. Qed.
Print Assumptions C16_same_revision_once.

Theorem C16_duplicate : forall base toml_parse (st : cstate base) d d' r,
  takes_effect base toml_parse st (CEConfig d r) = true ->
  capply base toml_parse (capply base toml_parse st (CEConfig d r)) (CEConfig d' r) = capply base toml_parse st (CEConfig d r).
Proof. exact duplicate_has_no_effect. Qed.
Print Assumptions C16_duplicate.

Theorem C16_log_revision_steps : forall base toml_parse l e (st : cstate base),
  cs_rev (creplay base toml_parse (l ++ [e]) st) = cs_rev (creplay base toml_parse l st) \/
  cs_rev (creplay base toml_parse (l ++ [e]) st) = (cs_rev (creplay base toml_parse l st) + 1)%N.
Proof. exact log_revision_steps. Qed.
Print Assumptions C16_log_revision_steps.

(* a post answered from ANY state [view]: effect on the applying node only if the header names
   the revision in force there and the body parses *)
Theorem C16_stale_post : forall base toml_parse (view st : cstate base) hdr body,
  cfg_step_from base toml_parse view st hdr body = st \/
  (parse_uint0 hdr = Some (cs_rev st) /\ exists b bl, toml_parse body = Some (b, bl) /\
   cfg_step_from base toml_parse view st hdr body = mkC (cs_rev st + 1)%N b bl (cs_leader st)).
Proof. exact stale_post_harmless. Qed.
Print Assumptions C16_stale_post.

Theorem C16_gline : forall base toml_parse (st : cstate base) a r,
  let st' := capply base toml_parse st (CEGline a r) in
  cs_rev st' = cs_rev st /\ cs_base st' = cs_base st /\
  ban_lookup a (cs_banned st') = Some r /\
  (forall x, x <> a -> ban_lookup x (cs_banned st') = ban_lookup x (cs_banned st)).
Proof. exact gline_writes_config. Qed.
Print Assumptions C16_gline.

Theorem C16_replicas : forall base toml_parse l (s1 s2 : cstate base) n,
  same_config base s1 s2 ->
  same_config base (creplay base toml_parse (firstn n l) s1) (creplay base toml_parse (firstn n l) s2).
Proof. exact replicas_same_config. Qed.
Print Assumptions C16_replicas.

Theorem C16_revision_counts : forall base toml_parse ps (st : cstate base),
  cs_leader st = true ->
  exists k, (k <= List.length ps)%nat /\
            cs_rev (run_posts base toml_parse ps st) = (cs_rev st + N.of_nat k)%N.
Proof. exact revision_counts_accepted. Qed.
Print Assumptions C16_revision_counts.
