(* IrcProofs/ReloadLive.v — the recipients that save + load drops are dead, and stay dead (C03, part 3 continued).

   ReloadSim.v / Reload.v show that the run from [reload sv] and the run from [sv] agree on every output up to
   recipients that are STALE ids of [sv]: ids still listed in sv_serverSessions whose services link has quit (D13).
   Here: under the id discipline of raft (entry ids = log indices strictly increase, and an entry names a session
   created by an earlier entry: Misc.history_ids_ok) and for well-formed histories,
     - a stale id names no session at all in [sv]                                      (stale_dead),
     - and never names one again in any continuation                                     (stale_stay_dead),
   so that for every session that exists when an output is produced, membership in the recipient set is the same in
   both runs                                                                             (reload_invisible_live):
   "exactly the same output to every live session, for every continuation".
   Both hypotheses are needed: with a re-used id (Reload.reuse_visible) or with a services NICK line whose nickname
   hashes to Reply = 0 (excluded by Top.conforming), a listed id can name a live non-link session.

   KInv Z hi:  every listed id that names a session names a services link; listed ids are <= hi; the ids in Z name no
   session.  The proof is once more a unary logical relation over the handler monad; ProcessMessage needs a Hoare
   triple that carries the Server flag of the acting session across the ban check. *)
From stdpp Require Import gmap.
From Coq Require Import Strings.String Strings.Ascii ZArith NArith Lia.
From RV Require Import Base.Text Irc.Str Irc.Parse Irc.State Irc.Monad Irc.Cmds Irc.SCmds Irc.Apply.
From RV Require Import IrcProofs.StrLemmas IrcProofs.Inv IrcProofs.Top IrcProofs.Outputs IrcProofs.Misc.
From RV Require Import IrcProofs.Examples IrcProofs.ReloadInv IrcProofs.ReloadSim IrcProofs.Reload.
Local Open Scope string_scope.

Record KInv (Z : N -> Prop) (hi : N) (sv : server) : Prop := {
  k_flag : forall x s, In x (sv_serverSessions sv) -> sv_sessions sv !! (x, 0%N) = Some s -> s_server s = true;
  k_bound : forall x, In x (sv_serverSessions sv) -> (x <= hi)%N;
  k_dead : forall x, Z x -> sv_sessions sv !! (x, 0%N) = None;
}.

Lemma KInv_init Z hi net : KInv Z hi (init_server net).
Proof. split; cbn; intros; try contradiction. apply lookup_empty. Qed.

Lemma KInv_mono Z hi hi' sv : (hi <= hi')%N -> KInv Z hi sv -> KInv Z hi' sv.
Proof. intros Hle [F B Dd]. split; auto. intros x Hx. specialize (B x Hx). lia. Qed.

(* every session of [m'] is a session of [m] under the same key with the same Server flag *)
Definition sess_leK (m' m : gmap (N * N) session) : Prop :=
  forall k s', m' !! k = Some s' -> exists s, m !! k = Some s /\ s_server s' = s_server s.

Lemma KInv_leK Z hi sv sv' :
  sess_leK (sv_sessions sv') (sv_sessions sv) -> sv_serverSessions sv' = sv_serverSessions sv ->
  KInv Z hi sv -> KInv Z hi sv'.
Proof.
  intros Hle Hl [F B Dd]. split; rewrite ?Hl.
  - intros x s' Hx Hs'. destruct (Hle _ _ Hs') as (s & Hs & E). rewrite E. eapply F; eauto.
  - exact B.
  - intros x Hx. destruct (sv_sessions sv' !! (x, 0%N)) as [s'|] eqn:Hs'; [|reflexivity].
    destruct (Hle _ _ Hs') as (s & Hs & _). rewrite (Dd x Hx) in Hs. discriminate.
Qed.

Lemma KInv_le Z hi sv sv' :
  sess_le (sv_sessions sv') (sv_sessions sv) -> sv_serverSessions sv' = sv_serverSessions sv ->
  KInv Z hi sv -> KInv Z hi sv'.
Proof.
  intros Hle. apply KInv_leK. intros k s' Hs'. destruct (Hle _ _ Hs') as (s & Hs & _ & _ & _ & E). eauto.
Qed.

Lemma KInv_insert_new Z hi sv (key : N * N) auth ts :
  snd key <> 0%N \/ (~ In (fst key) (sv_serverSessions sv) /\ ~ Z (fst key)) ->
  KInv Z hi sv -> KInv Z hi (set_sessions (<[key := new_session key auth ts]>) sv).
Proof.
  intros Hk [F B Dd]. split; cbn [sv_sessions sv_serverSessions set_sessions].
  - intros x s Hx. destruct (decide (key = (x, 0%N))) as [->|Hne].
    + cbn in Hk. destruct Hk as [Hk|[Hk _]]; [congruence|contradiction].
    + rewrite lookup_insert_ne by assumption. now apply F.
  - exact B.
  - intros x Hx. destruct (decide (key = (x, 0%N))) as [->|Hne].
    + cbn in Hk. destruct Hk as [Hk|[_ Hk]]; [congruence|contradiction].
    + rewrite lookup_insert_ne by assumption. now apply Dd.
Qed.

(* ---- Hoare triples over the handler monad ----------------------------------------------------------------------- *)
Definition triple {A} (P : server -> Prop) (m : M A) (Q : A -> server -> Prop) : Prop :=
  forall sv r, P sv -> match m sv r with Ok (a, sv', _) => Q a sv' | _ => True end.

Lemma triple_ret {A} (P : server -> Prop) (a : A) (Q : A -> server -> Prop) : (forall sv, P sv -> Q a sv) -> triple P (retM a) Q.
Proof. intros H sv r HP. now apply H. Qed.
Lemma triple_bind {A B} P (m : M A) Q (f : A -> M B) Q' :
  triple P m Q -> (forall a, triple (Q a) (f a) Q') -> triple P (bindM m f) Q'.
Proof.
  intros Hm Hf sv r HP. unfold bindM. specialize (Hm sv r HP).
  destruct (m sv r) as [[[a sv'] r']|?|?]; [|exact Logic.I|exact Logic.I]. now apply Hf.
Qed.
Lemma triple_conseq {A} (P P' : server -> Prop) (m : M A) (Q Q' : A -> server -> Prop) :
  (forall sv, P' sv -> P sv) -> (forall a sv, Q a sv -> Q' a sv) -> triple P m Q -> triple P' m Q'.
Proof.
  intros HP HQ Hm sv r H. specialize (Hm sv r (HP sv H)). destruct (m sv r) as [[[a sv'] r']|?|?]; auto.
Qed.
Lemma triple_pure {A} (phi : Prop) P (m : M A) Q : (phi -> triple P m Q) -> triple (fun sv => P sv /\ phi) m Q.
Proof. intros H sv r [HP Hphi]. now apply H. Qed.

Section Live.
  Variable Z : N -> Prop.
  Variable hi : N.
  Notation KI := (KInv Z hi).

  Definition presK {A} (m : M A) : Prop := triple KI m (fun _ => KI).

  Lemma presK_ret {A} (a : A) : presK (retM a).
  Proof. intros sv r H. exact H. Qed.
  Lemma presK_bind {A B} (m : M A) (f : A -> M B) : presK m -> (forall a, presK (f a)) -> presK (bindM m f).
  Proof. intros Hm Hf. eapply triple_bind; [exact Hm|]. intros a. apply Hf. Qed.
  Lemma presK_bind_ret {A B} (a : A) (f : A -> M B) : presK (f a) -> presK (bindM (retM a) f).
  Proof. intros H sv r HK. exact (H sv r HK). Qed.
  Lemma presK_bind_panic {A B} s (f : A -> M B) : presK (bindM (panicM s) f).
  Proof. intros sv r HK. exact Logic.I. Qed.
  Lemma presK_panic {A} s : presK (@panicM A s).
  Proof. intros sv r H. exact Logic.I. Qed.
  Lemma presK_gap {A} s : presK (@gapM A s).
  Proof. intros sv r H. exact Logic.I. Qed.
  Lemma presK_getS : presK getS. Proof. intros sv r H. exact H. Qed.
  Lemma presK_modS f : (forall sv, KI sv -> KI (f sv)) -> presK (modS f).
  Proof. intros Hf sv r H. apply Hf, H. Qed.
  Lemma presK_updSess k g : sess_keep g -> presK (updSess k g).
  Proof.
    intros Hg sv r H. unfold updSess, modS. eapply KInv_le; [| |exact H]; cbn [sv_sessions sv_serverSessions set_sessions].
    - now apply sess_le_upd.
    - reflexivity.
  Qed.
  Lemma presK_create_session (key : N * N) auth ts :
    (forall sv, KI sv -> snd key <> 0%N \/ (~ In (fst key) (sv_serverSessions sv) /\ ~ Z (fst key))) ->
    presK (create_session key auth ts).
  Proof.
    intros Hk sv r H. unfold create_session, bindM, getS, retM, modS. destruct (_ && _); cbn; [exact H|].
    apply KInv_insert_new; [now apply Hk|exact H].
  Qed.
  Lemma presK_liftR {A} (x : res A) : presK (liftR x).
  Proof. intros sv r H. unfold liftR. destruct x; [exact H|exact Logic.I|exact Logic.I]. Qed.
  Lemma presK_replyCount : presK replyCount. Proof. intros sv r H. exact H. Qed.
  Lemma presK_emit rc m : presK (emit rc m).
  Proof. intros sv r H. exact H. Qed.
  Lemma presK_whenM b m : presK m -> presK (whenM b m).
  Proof. intros Hm. destruct b; [exact Hm|apply presK_ret]. Qed.
  Lemma presK_forM {A} (l : list A) (f : A -> M unit) : (forall x, presK (f x)) -> presK (forM l f).
  Proof. intros Hf. induction l as [|x l IH]; cbn [forM]; [apply presK_ret|]. apply presK_bind; [apply Hf|intros _; exact IH]. Qed.
  Lemma presK_seq2 {A B} (m1 : M unit) (m2 : M A) (f : A -> M B) :
    presK (m1 ;;; m2) -> (forall a, presK (f a)) -> presK (m1 ;;; (DO a <- m2 IN f a)).
  Proof.
    intros H12 Hf sv r H. specialize (H12 sv r H). unfold bindM in *.
    destruct (m1 sv r) as [[[u sv1] r1]|?|?]; [|exact Logic.I|exact Logic.I].
    destruct (m2 sv1 r1) as [[[a sv2] r2]|?|?]; [|exact Logic.I|exact Logic.I]. apply Hf. exact H12.
  Qed.

  Ltac solve_modK :=
    let sv := fresh "sv" in let H := fresh "H" in
    intros sv H;
    first [ exact H
          | eapply KInv_le; [| |exact H];
            cbn [sv_sessions sv_serverSessions set_sessions set_nicks set_channels set_svsholds set_config
                 set_serverSessions set_lastProcessed];
            [ first [ apply sess_le_refl
                    | apply sess_le_fmap; solve_keep
                    | unfold drop_invites; apply sess_le_fmap; solve_keep
                    | apply sess_le_delete
                    | apply sess_le_filter ]
            | reflexivity ] ].

  Ltac presK_step :=
    lazymatch goal with
    | |- presK (bindM _ _) => apply presK_bind; [|intros ?]
    | |- presK (retM _) => apply presK_ret
    | |- presK (panicM _) => apply presK_panic
    | |- presK (gapM _) => apply presK_gap
    | |- presK getS => apply presK_getS
    | |- presK (updSess _ _) => apply presK_updSess; solve_keep
    | |- presK (modS _) => apply presK_modS; solve_modK
    | |- presK (liftR _) => apply presK_liftR
    | |- presK replyCount => apply presK_replyCount
    | |- presK (emit _ _) => apply presK_emit
    | |- presK (whenM _ _) => apply presK_whenM
    | |- presK (forM _ _) => apply presK_forM; intros ?
    | |- presK (if ?b then _ else _) => destruct b
    | |- presK (match ?x with _ => _ end) => destruct x
    | |- presK (let _ := _ in _) => cbv zeta
    end.

  Ltac unf := unfold reply_num, reply_svc, sessM, updChan, chanM, nickM, cfgM, param, prefix_name, msg_prefix,
                chanop_of, captcha_url_check, add_member, leave_channel, maybe_delete_channel,
                remove_nick_everywhere, rename_in_channels, change_nick.
  Ltac go := repeat (first [ presK_step | assumption | progress unf ]).

  Lemma k_delete_session k : presK (delete_session k).
  Proof. unfold delete_session. unf. go. Qed.
  Lemma k_verify_captcha e k c : presK (verify_captcha e k c).
  Proof. unfold verify_captcha. unf. go. Qed.
  Lemma k_cmd_motd k m : presK (cmd_motd k m).
  Proof. unfold cmd_motd. unf. go. Qed.
  Lemma k_cmd_oper k m : presK (cmd_oper k m).
  Proof. unfold cmd_oper. unf. go. Qed.
  Lemma k_maybe_login e k m : presK (maybe_login e k m).
  Proof. unfold maybe_login. unf. go; try apply k_verify_captcha; try apply k_cmd_oper; try apply k_cmd_motd. Qed.
  Lemma k_cmd_nick e k m : presK (cmd_nick e k m).
  Proof. unfold cmd_nick. unf. go; try apply k_maybe_login. Qed.
  Lemma k_cmd_user e k m : presK (cmd_user e k m).
  Proof. unfold cmd_user. unf. go; try apply k_maybe_login. Qed.
  Lemma k_cmd_pass e k m : presK (cmd_pass e k m).
  Proof. unfold cmd_pass. unf. go; try apply k_maybe_login. Qed.
  Lemma k_mode_step k lc ch op md q : presK (cmd_mode_chan_step k lc ch op md q).
  Proof. unfold cmd_mode_chan_step. unf. go. Qed.
  Lemma k_mode_loop k lc ch op mds q : presK (cmd_mode_chan_loop k lc ch op mds q).
  Proof.
    revert q. induction mds as [|md mds IH]; intros q; cbn [cmd_mode_chan_loop]; [apply presK_ret|].
    apply presK_bind; [apply k_mode_step|]. intros st. destruct (fst st); [apply presK_ret|apply IH].
  Qed.
  Lemma k_cmd_mode k m : presK (cmd_mode k m).
  Proof. unfold cmd_mode. unf. go; try apply k_mode_loop. Qed.
  Lemma k_cmd_topic k m : presK (cmd_topic k m).
  Proof. unfold cmd_topic. unf. go. Qed.
  Lemma k_cmd_names k m : presK (cmd_names k m).
  Proof. unfold cmd_names. unf. go. Qed.
  Lemma k_join_one e k ch key : presK (join_one e k ch key).
  Proof. unfold join_one. unf. go; try apply k_verify_captcha; try apply k_cmd_mode; try apply k_cmd_topic; try apply k_cmd_names. Qed.
  Lemma k_cmd_join e k m : presK (cmd_join e k m).
  Proof. unfold cmd_join. unf. go; try apply k_join_one. Qed.
  Lemma k_cmd_part k m : presK (cmd_part k m).
  Proof. unfold cmd_part. unf. go. Qed.
  Lemma k_cmd_kick k m : presK (cmd_kick k m).
  Proof. unfold cmd_kick. unf. go. Qed.
  Lemma k_cmd_invite k m : presK (cmd_invite k m).
  Proof. unfold cmd_invite. unf. go. Qed.
  Lemma k_cmd_privmsg k m : presK (cmd_privmsg k m).
  Proof. unfold cmd_privmsg. unf. go. Qed.
  Lemma k_cmd_service_alias k m : presK (cmd_service_alias k m).
  Proof. unfold cmd_service_alias. unf. go; try apply k_cmd_privmsg. Qed.
  Lemma k_cmd_who k m : presK (cmd_who k m).
  Proof. unfold cmd_who. unf. go. Qed.
  Lemma k_cmd_whois k m : presK (cmd_whois k m).
  Proof. unfold cmd_whois. unf. go. Qed.
  Lemma k_cmd_list k m : presK (cmd_list k m).
  Proof. unfold cmd_list. unf. go. Qed.
  Lemma k_cmd_away k m : presK (cmd_away k m).
  Proof. unfold cmd_away. unf. go. Qed.
  Lemma k_cmd_ison k m : presK (cmd_ison k m).
  Proof. unfold cmd_ison. unf. go. Qed.
  Lemma k_cmd_userhost k m : presK (cmd_userhost k m).
  Proof. unfold cmd_userhost. unf. go. Qed.
  Lemma k_cmd_knock k m : presK (cmd_knock k m).
  Proof. unfold cmd_knock. unf. go. Qed.
  Lemma k_cmd_ping k m : presK (cmd_ping k m).
  Proof. unfold cmd_ping. unf. go. Qed.
  Lemma k_cmd_quit k m : presK (cmd_quit k m).
  Proof. unfold cmd_quit. unf. go; try apply k_delete_session. Qed.
  Lemma k_cmd_kill k m : presK (cmd_kill k m).
  Proof. unfold cmd_kill. unf. go; try apply k_delete_session. Qed.
  Lemma k_cmd_gline k m : presK (cmd_gline k m).
  Proof. unfold cmd_gline. unf. go; try apply k_cmd_kill. Qed.
  Lemma k_burst_one sv t : presK (burst_one sv t).
  Proof. unfold burst_one. unf. go. Qed.

  (* SERVER: the flag is set and the id is listed in one step; the id is that of the acting session *)
  Lemma k_become_server (k : N * N) p :
    snd k = 0%N -> (fst k <= hi)%N ->
    presK (updSess k (fun s => ss_prefix p (ss_server true s)) ;;; modS (set_serverSessions (fun l => (l ++ [fst k])%list))).
  Proof.
    intros Hk0 Hle sv r [F B Dd]. unfold bindM, updSess, modS.
    split; cbn [sv_sessions sv_serverSessions set_sessions set_serverSessions].
    - intros x s' Hx. rewrite lookup_upd_sess. destruct (decide (k = (x, 0%N))) as [->|Hne].
      + rewrite bool_decide_true by reflexivity. destruct (sv_sessions sv !! (x, 0%N)); [|discriminate]. cbn. intros [= <-]. reflexivity.
      + rewrite bool_decide_false by assumption. intros Hs'. apply in_app_or in Hx. destruct Hx as [Hx|[<-|[]]].
        * eapply F; eauto.
        * exfalso. apply Hne. destruct k as [a b]. cbn in *. now subst b.
    - intros x Hx. apply in_app_or in Hx. destruct Hx as [Hx|[<-|[]]]; [now apply B|exact Hle].
    - intros x Hx. rewrite lookup_upd_sess. rewrite (Dd x Hx). now destruct (bool_decide _).
  Qed.
  Lemma k_cmd_server (k : N * N) m : snd k = 0%N -> (fst k <= hi)%N -> presK (cmd_server k m).
  Proof.
    intros Hk0 Hle. unfold cmd_server. apply presK_bind; [unf; go|]. intros s. apply presK_bind; [unf; go|]. intros g.
    destruct (negb _); [apply presK_emit|]. apply presK_bind; [unf; go|]. intros p0.
    apply presK_seq2; [now apply k_become_server|]. intros _. unf. go; try apply k_burst_one.
  Qed.

  (* NICK of a services link: the pseudo-client gets Reply = fnv64(nick), which must not be 0 *)
  Definition nick_ok (m : imsg) : Prop :=
    nparams m = 1 \/ forall p0, nth_error (m_params m) 0 = Some p0 -> fnv64 p0 <> 0%N.

  Lemma k_cmd_server_nick (k : N * N) m : nick_ok m -> presK (cmd_server_nick k m).
  Proof.
    intros Hn. unfold cmd_server_nick. destruct (Nat.eqb (nparams m) 1) eqn:E1; [apply presK_ret|].
    destruct Hn as [Hn|Hn]; [apply Nat.eqb_neq in E1; contradiction|].
    unfold param at 1. destruct (nth_error (m_params m) 0) as [p0|] eqn:Hp0; [|apply presK_bind_panic].
    apply presK_bind_ret. apply presK_bind; [apply presK_getS|]. intros sv0. apply presK_bind; [unf; go|]. intros s.
    destruct (bool_decide _); [unf; go|]. cbv zeta.
    apply presK_bind; [apply presK_create_session; intros sv1 _; left; cbn; now apply Hn|]. intros ok.
    destruct (negb ok); [apply presK_ret|]. unf. go.
  Qed.
  Lemma k_quit_pseudo tk m : presK (quit_pseudo tk m).
  Proof. unfold quit_pseudo. unf. go; try apply k_delete_session. Qed.
  Lemma k_cmd_server_quit k m : presK (cmd_server_quit k m).
  Proof. unfold cmd_server_quit. unf. go; try apply k_delete_session; try apply k_quit_pseudo. Qed.
  Lemma k_cmd_server_kill k m : presK (cmd_server_kill k m).
  Proof. unfold cmd_server_kill. unf. go; try apply k_delete_session. Qed.
  Lemma k_cmd_server_join k m : presK (cmd_server_join k m).
  Proof. unfold cmd_server_join. unf. go. Qed.
  Lemma k_cmd_server_part k m : presK (cmd_server_part k m).
  Proof. unfold cmd_server_part. unf. go. Qed.
  Lemma k_cmd_server_kick k m : presK (cmd_server_kick k m).
  Proof. unfold cmd_server_kick. unf. go. Qed.
  Lemma k_cmd_server_svsjoin k m : presK (cmd_server_svsjoin k m).
  Proof. unfold cmd_server_svsjoin. unf. go; try apply k_cmd_topic; try apply k_cmd_names. Qed.
  Lemma k_cmd_server_svspart k m : presK (cmd_server_svspart k m).
  Proof. unfold cmd_server_svspart. unf. go. Qed.
  Lemma k_cmd_server_svsnick k m : presK (cmd_server_svsnick k m).
  Proof. unfold cmd_server_svsnick. unf. go. Qed.
  Lemma k_cmd_server_mode k m : presK (cmd_server_mode k m).
  Proof. unfold cmd_server_mode. unf. go. Qed.
  Lemma k_cmd_server_topic k m : presK (cmd_server_topic k m).
  Proof. unfold cmd_server_topic. unf. go. Qed.
  Lemma k_cmd_server_invite k m : presK (cmd_server_invite k m).
  Proof. unfold cmd_server_invite. unf. go. Qed.
  Lemma k_cmd_server_privmsg k m : presK (cmd_server_privmsg k m).
  Proof. unfold cmd_server_privmsg. unf. go. Qed.
  Lemma k_cmd_server_svshold k m : presK (cmd_server_svshold k m).
  Proof. unfold cmd_server_svshold. unf. go. Qed.
  Lemma k_cmd_server_svsmode k m : presK (cmd_server_svsmode k m).
  Proof. unfold cmd_server_svsmode. unf. go. Qed.

  Lemma k_dispatch name minp (f : handler) e (k : N * N) m :
    In (name, (minp, f)) commands -> snd k = 0%N -> (fst k <= hi)%N -> (name = "server_NICK" -> nick_ok m) ->
    presK (f e k m).
  Proof.
    intros Hin Hk0 Hle Hn. unfold commands in Hin.
    repeat (destruct Hin as [Hin|Hin]; [injection Hin as <- <- <-|]); try contradiction; unfold noenv;
      first [ apply k_cmd_service_alias | apply k_cmd_away | apply k_cmd_gline | apply k_cmd_invite | apply k_cmd_ison
            | apply k_cmd_join | apply k_cmd_kick | apply k_cmd_kill | apply k_cmd_knock | apply k_cmd_list | apply k_cmd_mode
            | apply k_cmd_motd | apply k_cmd_names | apply k_cmd_nick | apply k_cmd_oper | apply k_cmd_part | apply k_cmd_pass
            | apply k_cmd_ping | apply k_cmd_privmsg | apply k_cmd_quit | apply k_cmd_topic | apply k_cmd_user
            | apply k_cmd_userhost | apply k_cmd_who | apply k_cmd_whois | apply k_cmd_server; assumption
            | apply k_cmd_server_invite | apply k_cmd_server_join | apply k_cmd_server_kick | apply k_cmd_server_kill
            | apply k_cmd_server_mode | apply k_cmd_server_nick; apply Hn; reflexivity | apply k_cmd_server_part | apply k_cmd_server_privmsg
            | apply k_cmd_server_quit | apply k_cmd_server_svshold | apply k_cmd_server_svsjoin | apply k_cmd_server_svsmode
            | apply k_cmd_server_svsnick | apply k_cmd_server_svspart | apply k_cmd_server_topic ].
  Qed.

  (* the Server flag of session [k] is [b] *)
  Definition flag (k : N * N) (b : bool) (sv : server) : Prop :=
    forall s, sv_sessions sv !! k = Some s -> s_server s = b.

  Lemma triple_sessM_flag k b :
    triple (fun sv => KI sv /\ flag k b sv) (sessM k) (fun s sv => (KI sv /\ flag k b sv) /\ s_server s = b).
  Proof.
    intros sv r [HK Hf]. unfold sessM; unfold bindM, getS, retM, gapM; cbv beta iota.
    destruct (sv_sessions sv !! k) as [s|] eqn:Hs; [|exact Logic.I]. split; [split; assumption|now apply Hf].
  Qed.
  Lemma triple_cfgM (P : server -> Prop) : triple P cfgM (fun _ => P).
  Proof. intros sv r HP. exact HP. Qed.
  Lemma triple_emit (P : server -> Prop) rc m : triple P (emit rc m) (fun _ => P).
  Proof. intros sv r HP. exact HP. Qed.
  Lemma triple_updSess_flag k b g :
    sess_keep g -> triple (fun sv => KI sv /\ flag k b sv) (updSess k g) (fun _ sv => KI sv /\ flag k b sv).
  Proof.
    intros Hg sv r [HK Hf]. split; [exact (presK_updSess k g Hg sv r HK)|].
    unfold updSess, modS. intros s'. cbn [sv_sessions set_sessions]. rewrite lookup_upd_sess, bool_decide_true by reflexivity.
    destruct (sv_sessions sv !! k) as [s|] eqn:Hs; [|discriminate]. cbn. intros [= <-].
    destruct (Hg s) as (_ & _ & _ & ->). now apply Hf.
  Qed.

  Lemma k_process_message e (k : N * N) ra ircmsg b :
    snd k = 0%N -> (fst k <= hi)%N ->
    (b = true -> forall m, ircmsg = Some m -> to_upper (m_cmd m) = "NICK" -> nick_ok m) ->
    triple (fun sv => KI sv /\ flag k b sv) (process_message e k ra ircmsg) (fun _ sv => KI sv).
  Proof.
    intros Hk0 Hle Hconf. unfold process_message.
    eapply triple_bind; [apply triple_sessM_flag|]. intros s. apply triple_pure. intros Hsb.
    assert (Hweak : forall A (m : M A), presK m -> triple (fun sv => KI sv /\ flag k b sv) m (fun _ sv => KI sv)).
    { intros A m0 H0. eapply triple_conseq; [| |exact H0]; [intros sv0 [H1 _]; exact H1|auto]. }
    destruct ircmsg as [m|]; [|apply Hweak; unf; go]. cbv zeta.
    eapply (triple_bind _ _ (fun banned sv => KI sv /\ (banned = false -> flag k b sv))).
    { destruct (_ && _); [|apply triple_ret; intros sv0 [H1 H2]; auto].
      eapply triple_bind; [apply triple_updSess_flag; solve_keep|]. intros ?; cbv beta.
      eapply triple_bind; [apply triple_cfgM|]. intros g. cbv beta.
      destruct (g_banned g !! ra) as [reason|]; [|apply triple_ret; intros sv0 [H1 H2]; auto].
      destruct (is_empty reason); [apply triple_ret; intros sv0 [H1 H2]; auto|].
      eapply triple_bind; [apply triple_emit|]. intros ?; cbv beta.
      eapply triple_bind; [apply Hweak, k_delete_session|]. intros ?; cbv beta.
      apply triple_ret. intros sv0 H1. split; [exact H1|discriminate]. }
    intros banned. destruct banned.
    { apply triple_ret. intros sv0 [H1 _]. exact H1. }
    eapply triple_conseq; [intros sv0 [H1 H2]; exact (conj H1 (H2 eq_refl))|intros a sv0 H0; exact H0|].
    eapply triple_bind; [apply triple_sessM_flag|]. intros s1. apply triple_pure. intros Hs1b.
    apply Hweak.
    destruct (_ && _ && _).
    { unf. go; apply k_delete_session. }
    destruct (assoc_str _ commands) as [[minp f]|] eqn:Hc; [|unf; go].
    destruct (Nat.ltb _ _); [unf; go|].
    eapply k_dispatch; [eapply assoc_str_In; exact Hc|exact Hk0|exact Hle|].
    intros Hname. destruct (s_server s1) eqn:Hsrv.
    - apply (Hconf (eq_sym Hs1b) m eq_refl). cbn [String.append] in Hname. now injection Hname.
    - exfalso. cbn [String.append] in Hname. exact (to_upper_not_s _ _ Hname).
  Qed.
End Live.


(* ---- log entries and histories --------------------------------------------------------------------------------------- *)
Lemma update_last_cmid_KInv Z hi k ts data cmid sv sv' :
  KInv Z hi sv -> update_last_cmid k ts data cmid sv = Some sv' ->
  KInv Z hi sv' /\ forall b, flag k b sv -> flag k b sv'.
Proof.
  intros HK. unfold update_last_cmid. destruct (sv_sessions sv !! k) as [s|] eqn:Hs; [|discriminate]. intros [= <-]. split.
  - eapply KInv_leK; [| |exact HK]; cbn [sv_sessions sv_serverSessions set_sessions]; [|reflexivity].
    intros k' s'. destruct (decide (k = k')) as [<-|Hne].
    + rewrite lookup_insert. intros [= <-]. exists s. split; [exact Hs|reflexivity].
    + rewrite lookup_insert_ne by assumption. intros Hs'. exists s'. auto.
  - intros b Hf s'. cbn [sv_sessions set_sessions]. rewrite lookup_insert. intros [= <-]. cbn. now apply Hf.
Qed.

Lemma maybe_delete_session_KInv Z hi k sv : KInv Z hi sv -> KInv Z hi (maybe_delete_session k sv).
Proof.
  intros H. unfold maybe_delete_session. destruct (sv_sessions sv !! k) as [s|]; [|exact H].
  eapply KInv_le; [| |exact H].
  - destruct (s_server s || s_operator s), (s_deleted s); cbn [sv_sessions set_sessions].
    + eapply sess_le_trans; [apply sess_le_delete|apply sess_le_filter].
    + apply sess_le_filter.
    + apply sess_le_delete.
    + apply sess_le_refl.
  - destruct (s_server s || s_operator s), (s_deleted s); reflexivity.
Qed.

Lemma run_handler_KInv Z hi e (k : N * N) ra ircmsg sv msgid finish b sv' out :
  snd k = 0%N -> (fst k <= hi)%N ->
  (b = true -> forall m, ircmsg = Some m -> to_upper (m_cmd m) = "NICK" -> nick_ok m) ->
  KInv Z hi sv -> flag k b sv -> (forall sv0, KInv Z hi sv0 -> KInv Z hi (finish sv0)) ->
  run_handler sv msgid (process_message e k ra ircmsg) finish = OOk sv' out -> KInv Z hi sv'.
Proof.
  intros Hk0 Hle Hconf HK Hf Hfin. unfold run_handler.
  pose proof (k_process_message Z hi e k ra ircmsg b Hk0 Hle Hconf sv (RCtx msgid []) (conj HK Hf)) as Hp.
  destruct (process_message e k ra ircmsg sv (RCtx msgid [])) as [[[[] sv1] r1]|?|?]; try discriminate.
  intros [= <- _]. apply Hfin, Hp.
Qed.

Lemma run_handler_OOk sv msgid (act : M unit) finish o :
  run_handler sv msgid act finish = o -> forall sv', entry_result o = Some sv' -> exists out, o = OOk sv' out.
Proof.
  unfold run_handler. destruct (act sv _) as [[[[] sv1] r1]|?|?]; intros <- sv'; cbn; try discriminate.
  intros [= <-]. eauto.
Qed.

Theorem apply_entry_KInv Z e sv en hi sv' :
  KInv Z hi sv -> (forall x, Z x -> (x <= hi)%N) -> entry_ids_ok hi en -> wf_entry sv en ->
  entry_result (apply_entry e sv en) = Some sv' -> KInv Z (entry_id en) sv'.
Proof.
  intros HK HZ [Hlt Hsess] Hwf.
  assert (Hmono : forall sv0, KInv Z hi sv0 -> KInv Z (entry_id en) sv0) by (intros sv0; apply KInv_mono; lia).
  destruct en as [id un auth|id un session q|id un session cmid ra data|id un session cmid data|id un rev parsed];
    cbn [apply_entry entry_id wf_entry] in *.
  - assert (Hp : presK Z hi (create_session (id, 0%N) auth (timestamp id un))).
    { apply presK_create_session. intros sv0 HK0. right. cbn [fst]. split.
      - intros Hin. pose proof (k_bound _ _ _ HK0 _ Hin). lia.
      - intros Hz. pose proof (HZ _ Hz). lia. }
    specialize (Hp sv (RCtx id []) HK).
    destruct (create_session _ _ _ sv _) as [[[[] sv1] r1]|?|?]; cbn; try discriminate; intros [= <-]; now apply Hmono.
  - destruct (sv_sessions sv !! (session, 0%N)) as [s|] eqn:Hs; [|cbn; intros [= <-]; now apply Hmono].
    destruct (run_handler _ _ _ _) as [sv1 out| | | |] eqn:Hr; intros Hres;
      destruct (run_handler_OOk _ _ _ _ _ Hr _ Hres) as [out' Ho]; try discriminate Ho. injection Ho as -> ->.
    destruct (parse_quit q) as [ps Hq]. rewrite Hq in Hr.
    eapply (run_handler_KInv Z id e (session, 0%N) _ _ sv id _ (s_server s)); [reflexivity|cbn; lia| |now apply Hmono| | |exact Hr].
    + intros _ m [= <-]. cbn. discriminate.
    + intros s' Hs'. rewrite Hs in Hs'. now injection Hs' as <-.
    + intros sv0 H0. apply maybe_delete_session_KInv. eapply KInv_le; [| |exact H0]; [apply sess_le_refl|reflexivity].
  - destruct (is_retry _ _ sv); [cbn; intros [= <-]; now apply Hmono|].
    destruct (update_last_cmid _ _ _ _ sv) as [sv1|] eqn:Hu; [|cbn; intros [= <-]; now apply Hmono].
    destruct (update_last_cmid_KInv Z hi _ _ _ _ _ _ HK Hu) as [HK1 Hfl].
    assert (Hs : exists s, sv_sessions sv !! (session, 0%N) = Some s).
    { unfold update_last_cmid in Hu. destruct (sv_sessions sv !! (session, 0%N)) as [s|]; [now exists s|discriminate]. }
    destruct Hs as [s Hs].
    destruct (run_handler _ _ _ _) as [sv2 out| | | |] eqn:Hr; intros Hres;
      destruct (run_handler_OOk _ _ _ _ _ Hr _ Hres) as [out' Ho]; try discriminate Ho. injection Ho as -> ->.
    eapply (run_handler_KInv Z id e (session, 0%N) _ _ sv1 id _ (s_server s)); [reflexivity|cbn; lia| |now apply Hmono| | |exact Hr].
    + intros Hb m Hm Hcmd. pose proof (Hwf s m Hs Hb Hm) as C. rewrite Hcmd in C.
      destruct (cf_nick _ _ _ _ C eq_refl) as [H1|[_ H4]]; [now left|right]. intros p0 Hp0. apply (H4 p0 Hp0).
    + apply Hfl. intros s' Hs'. rewrite Hs in Hs'. now injection Hs' as <-.
    + intros sv0 H0. apply maybe_delete_session_KInv. eapply KInv_le; [| |exact H0]; [apply sess_le_refl|reflexivity].
  - destruct (update_last_cmid _ _ _ _ sv) as [sv1|] eqn:Hu; cbn; intros [= <-]; [|now apply Hmono].
    apply Hmono. now destruct (update_last_cmid_KInv Z hi _ _ _ _ _ _ HK Hu).
  - destruct (config_in_force _ _ _); cbn; intros [= <-]; apply Hmono; [|exact HK].
    eapply KInv_le; [| |exact HK]; [apply sess_le_refl|reflexivity].
Qed.

Theorem run_KInv Z e es : forall hi sv sv',
  KInv Z hi sv -> (forall x, Z x -> (x <= hi)%N) -> history_ids_ok hi es -> wf_history e sv es ->
  run e sv es = Some sv' -> KInv Z (last_id hi es) sv'.
Proof.
  induction es as [|en es IH]; intros hi sv sv' HK HZ Hids Hwf Hrun; cbn [run last_id] in *.
  - injection Hrun as <-. exact HK.
  - destruct Hids as [Hid Hids]. destruct Hwf as [Hen Hrest].
    destruct (entry_result (apply_entry e sv en)) as [sv1|] eqn:Hr; [|discriminate].
    eapply IH; [| |exact Hids|now apply Hrest|exact Hrun].
    + eapply apply_entry_KInv; eauto.
    + intros x Hx. specialize (HZ x Hx). destruct Hid as [Hlt _]. lia.
Qed.

(* ---- stale ids are dead ------------------------------------------------------------------------------------------------ *)
Theorem stale_dead e net es sv :
  wf_history e (init_server net) es -> history_ids_ok 0 es -> run e (init_server net) es = Some sv ->
  forall x, stale sv x = true -> sv_sessions sv !! (x, 0%N) = None /\ (x <= last_id 0 es)%N.
Proof.
  intros Hwf Hids Hrun x Hst. apply stale_spec in Hst. destruct Hst as [Hin Hn].
  pose proof (run_KInv (fun _ => False) e es 0 _ sv (KInv_init _ _ net) (fun _ F => match F with end) Hids Hwf Hrun) as HK.
  split; [|now apply (k_bound _ _ _ HK)].
  unfold is_server_id in Hn. destruct (sv_sessions sv !! (x, 0%N)) as [s|] eqn:Hs; [|reflexivity].
  rewrite (k_flag _ _ _ HK x s Hin Hs) in Hn. discriminate.
Qed.

Lemma KInv_stale e net es sv :
  wf_history e (init_server net) es -> history_ids_ok 0 es -> run e (init_server net) es = Some sv ->
  KInv (fun x => stale sv x = true) (last_id 0 es) sv.
Proof.
  intros Hwf Hids Hrun.
  pose proof (run_KInv (fun _ => False) e es 0 _ sv (KInv_init _ _ net) (fun _ F => match F with end) Hids Hwf Hrun) as [F B _].
  split; [exact F|exact B|]. intros x Hx. now apply (stale_dead e net es sv Hwf Hids Hrun).
Qed.

Theorem stale_stay_dead e net es sv :
  wf_history e (init_server net) es -> history_ids_ok 0 es -> run e (init_server net) es = Some sv ->
  forall es' sv', wf_history e sv es' -> history_ids_ok (last_id 0 es) es' -> run e sv es' = Some sv' ->
  forall x, stale sv x = true -> sv_sessions sv' !! (x, 0%N) = None.
Proof.
  intros Hwf Hids Hrun es' sv' Hwf' Hids' Hrun' x Hst.
  pose proof (run_KInv _ e es' _ sv sv' (KInv_stale e net es sv Hwf Hids Hrun)
                (fun x Hx => proj2 (stale_dead e net es sv Hwf Hids Hrun x Hx)) Hids' Hwf' Hrun') as HK.
  now apply (k_dead _ _ _ HK).
Qed.

(* ---- the same output to every live session ------------------------------------------------------------------------------- *)
Definition live_id (sv : server) (x : N) : Prop := is_Some (sv_sessions sv !! (x, 0%N)).

(* entry by entry: the same kind of outcome and the same messages; a session that exists before or after the entry is
   a recipient of a message in one run iff it is in the other *)
Fixpoint live_equiv (e : env) (s1 s2 : server) (es : list entry) : Prop :=
  match es with
  | [] => True
  | en :: r =>
      match apply_entry e s1 en, apply_entry e s2 en with
      | OOk s1' out1, OOk s2' out2 =>
          Forall2 (fun o1 o2 => o_reply o1 = o_reply o2 /\ o_data o1 = o_data o2 /\
                                forall x, live_id s2 x \/ live_id s2' x -> (In x (o_rcpt o1) <-> In x (o_rcpt o2))) out1 out2 /\
          live_equiv e s1' s2' r
      | OSessionLimit s1', OSessionLimit s2' => live_equiv e s1' s2' r
      | OSkip s1', OSkip s2' => live_equiv e s1' s2' r
      | OPanic x, OPanic y => x = y
      | OGap x, OGap y => x = y
      | _, _ => False
      end
  end.

Lemma same_out_live D (P : N -> Prop) out1 : forall out2,
  same_out D out1 out2 -> (forall x, P x -> D x = false) ->
  Forall2 (fun o1 o2 => o_reply o1 = o_reply o2 /\ o_data o1 = o_data o2 /\
                        forall x, P x -> (In x (o_rcpt o1) <-> In x (o_rcpt o2))) out1 out2.
Proof.
  unfold same_out. induction out1 as [|o1 out1 IH]; intros [|o2 out2] H HP; cbn [map] in H; try discriminate; [constructor|].
  injection H as Hrep Hdat Hrc Hrest. constructor; [|now apply IH].
  split; [exact Hrep|]. split; [exact Hdat|].
  intros x Hx. assert (Hn : nD D x = true) by (unfold nD; now rewrite (HP x Hx)).
  split; intros Hin.
  - assert (Hf : In x (List.filter (nD D) (o_rcpt o1))) by (apply filter_In; auto).
    rewrite Hrc in Hf. apply filter_In in Hf. apply Hf.
  - assert (Hf : In x (List.filter (nD D) (o_rcpt o2))) by (apply filter_In; auto).
    rewrite <- Hrc in Hf. apply filter_In in Hf. apply Hf.
Qed.

Lemma live_equiv_gen e (sv0 : server) es : forall s1 s2 hi,
  R (stale sv0) s1 s2 -> KInv (fun x => stale sv0 x = true) hi s2 -> (forall x, stale sv0 x = true -> (x <= hi)%N) ->
  EInv s2 -> wf_history e s2 es -> history_ids_ok hi es -> live_equiv e s1 s2 es.
Proof.
  induction es as [|en es IH]; intros s1 s2 hi HR HK HZ E Hwf Hids; cbn [live_equiv]; [exact Logic.I|].
  destruct Hwf as [Hen Hrest]. destruct Hids as [Hid Hids].
  pose proof (apply_entry_sim (stale sv0) e s1 s2 en HR) as Hsim.
  destruct (apply_entry_ok e s2 en E Hen) as (s2' & Hres & E').
  pose proof (apply_entry_KInv _ e s2 en hi s2' HK HZ Hid Hen Hres) as HK'.
  pose proof (Hrest _ Hres) as Hwf'.
  assert (HZ' : forall x, stale sv0 x = true -> (x <= entry_id en)%N).
  { intros x Hx. specialize (HZ x Hx). destruct Hid as [Hlt _]. lia. }
  destruct (apply_entry e s1 en) as [t1 o1|t1|t1|x|x], (apply_entry e s2 en) as [t2 o2|t2|t2|y|y];
    try contradiction; cbn [entry_result] in Hres; try discriminate; try (injection Hres as ->).
  - destruct Hsim as [HR' Hout]. split; [|eapply IH; eauto].
    apply (same_out_live (stale sv0)); [exact Hout|].
    intros x [[s Hs]|[s Hs]]; destruct (stale sv0 x) eqn:Hst; try reflexivity; exfalso.
    + rewrite (k_dead _ _ _ HK x Hst) in Hs. discriminate.
    + rewrite (k_dead _ _ _ HK' x Hst) in Hs. discriminate.
  - eapply IH; eauto.
  - eapply IH; eauto.
Qed.

Theorem reload_invisible_live e net es sv :
  wf_history e (init_server net) es -> history_ids_ok 0 es -> Forall (fun en => (0 <= entry_un en)%Z) es ->
  run e (init_server net) es = Some sv ->
  forall es', wf_history e sv es' -> history_ids_ok (last_id 0 es) es' -> live_equiv e (reload sv) sv es'.
Proof.
  intros Hwf Hids Hun Hrun es' Hwf' Hids'.
  assert (Hr : reachable e net sv) by (exists es; split; [exact Hwf|]; split; [eapply history_ids_ts_pos; eauto|exact Hrun]).
  eapply (live_equiv_gen e sv es' (reload sv) sv (last_id 0 es)).
  - rewrite (reload_fixpoint e net sv Hr). apply normal_R.
  - eapply KInv_stale; eauto.
  - intros x Hx. now apply (stale_dead e net es sv Hwf Hids Hrun).
  - eapply reachable_EInv; eauto.
  - exact Hwf'.
  - exact Hids'.
Qed.

(* ---- non-vacuity: the history in which the services link has quit (Reload.stale_history) ----------------------------------- *)
Example stale_history_hyps :
  wf_history ex_env (init_server "robustirc.net") stale_history /\ history_ids_ok 0 stale_history /\
  Forall (fun en => (0 <= entry_un en)%Z) stale_history /\
  run ex_env (init_server "robustirc.net") stale_history = Some stale_final /\
  wf_history ex_env stale_final stale_continuation /\ history_ids_ok (last_id 0 stale_history) stale_continuation.
Proof.
  split; [apply wf_history_c_sound; vm_compute; reflexivity|]. split.
  { cbn. unfold entry_ids_ok. cbn. repeat split; lia. }
  split; [unfold stale_history, link_history; cbn [app]; repeat constructor; cbn; lia|].
  split; [vm_compute; reflexivity|]. split; [apply wf_history_c_sound; vm_compute; reflexivity|].
  cbn. unfold entry_ids_ok. cbn. repeat split; lia.
Qed.

Example stale_live_equiv : live_equiv ex_env (reload stale_final) stale_final stale_continuation.
Proof.
  destruct stale_history_hyps as (H1 & H2 & H3 & H4 & H5 & H6).
  exact (reload_invisible_live _ _ _ _ H1 H2 H3 H4 _ H5 H6).
Qed.

Example stale_id_is_dead : stale stale_final 2 = true /\ sv_sessions stale_final !! (2%N, 0%N) = None.
Proof. split; [vm_compute; reflexivity|vm_compute; reflexivity]. Qed.
