(* IrcProofs/RefineSys.v — the sub-models fit together, part 2: the IRC model as the machine component of
   Sys/EndToEnd.v (property C05).

   1. [irc_step]: Apply.apply_entry as a total function server -> entry -> server * list omsg.
   2. The PLAIN instance (lastpost := IRCServer.LastPostMessage) satisfies MarkerInit and ApplySkip, but
      NOT MarkerSet and NOT MarkerOnly as Sys/EndToEnd.v states them: LastPostMessage reads 0 for a session
      that is gone, so an entry for an unknown session does not "set" the marker, and a DeleteSession (or a
      KILL by somebody else, or a message of death) changes it without being a client entry with that id
      ([plain_MarkerSet_refuted], [plain_MarkerOnly_refuted]).  What does hold is stated as
      [irc_MarkerSet_live] / [irc_MarkerOnly_live].
   3. The GHOST instance [irc_sys]: the state carries, beside the IRC server, the client message id of the last
      client entry of every session id (a ghost variable that survives the session).  For it MarkerInit,
      MarkerSet, MarkerOnly and ApplySkip hold LITERALLY, for all states; on well-formed "nice" histories
      (CreateSession ids are fresh, a message of death is not preceded by a copy of itself) the ghost machine
      IS the IRC model ([ghost_run_faithful]) and the ghost marker of a session that exists is
      LastPostMessage ([coh_lastpost]).  Hence C05's theorems apply to every system whose nodes replay the
      IRC model ([irc_C05]); the raft-side and client-side hypotheses stay hypotheses. *)
From stdpp Require Import gmap.
From Coq Require Import Strings.String Strings.Ascii ZArith NArith Lia.
From RV Require Import Base.Text Irc.Str Irc.Parse Irc.State Irc.Monad Irc.Cmds Irc.SCmds Irc.Apply.
From RV Require Import IrcProofs.Top.
From RV Require IrcProofs.Outputs IrcProofs.Examples.
From RV Require Api.Auth Api.Post Api.PostProofs.
From RV Require Import IrcProofs.MarkerFrame IrcProofs.Refine.
From RV Require Sys.EndToEnd Sys.EndToEndProofs.
Local Open Scope string_scope.

(* ---- 1. the step function ------------------------------------------------------------------------------ *)
Definition irc_step (e : env) (sv : server) (en : entry) : server * list omsg :=
  match apply_entry e sv en with
  | OOk sv' out => (sv', out)
  | OSessionLimit sv' | OSkip sv' => (sv', [])
  | OPanic _ | OGap _ => (sv, [])   (* never on a well-formed history: Top.apply_entry_ok *)
  end.

Lemma irc_step_spec e sv en sv' :
  entry_result (apply_entry e sv en) = Some sv' -> irc_step e sv en = (sv', entry_out (apply_entry e sv en)).
Proof. unfold irc_step. destruct (apply_entry e sv en); cbn; intros [= <-] || discriminate; reflexivity. Qed.
Lemma irc_step_fail e sv en : entry_result (apply_entry e sv en) = None -> irc_step e sv en = (sv, []).
Proof. unfold irc_step. destruct (apply_entry e sv en); cbn; discriminate || reflexivity. Qed.

(* determinism is functionality (C01_model_deterministic is about the Go-level nondeterminism the model resolves) *)
Lemma irc_step_deterministic e sv en r1 r2 : irc_step e sv en = r1 -> irc_step e sv en = r2 -> r1 = r2.
Proof. congruence. Qed.

(* on a well-formed entry in a state satisfying the invariant the last branch is not taken *)
Lemma irc_step_wf e sv en :
  EInv sv -> wf_entry sv en -> exists sv', entry_result (apply_entry e sv en) = Some sv' /\ EInv sv' /\
                                           irc_step e sv en = (sv', entry_out (apply_entry e sv en)).
Proof.
  intros E Hwf. destruct (apply_entry_ok e sv en E Hwf) as (sv' & Hr & E'). exists sv'. split; [exact Hr|]. split; [exact E'|].
  now apply irc_step_spec.
Qed.

Definition irc_visible (s : N) (o : omsg) : bool := existsb (N.eqb s) (o_rcpt o).
(* session and client message id of an IRCFromClient entry *)
Definition irc_key (en : entry) : option (N * N) :=
  match en with EMessage _ _ s c _ _ => Some (s, c) | _ => None end.

(* ---- 2. the plain instance ------------------------------------------------------------------------------- *)
Section Plain.
  Variables (e : env) (net : string) (NodeT : Type) (L : list entry) (applied : NodeT -> nat)
            (node_state : NodeT -> server) (node_outs : NodeT -> list omsg)
            (nreq : N -> nat) (r_cmid : N -> nat -> N) (r_len r_seen : N -> nat -> nat)
            (r_idx : N -> nat -> option nat) (r_ack : N -> nat -> bool).

  Definition irc_sys_plain : EndToEnd.Sys :=
    EndToEnd.mkSys server entry omsg N NodeT (init_server net) (irc_step e) irc_visible irc_key last_post_message
                   L applied node_state node_outs nreq r_cmid r_len r_seen r_idx r_ack.

  Theorem plain_MarkerInit : EndToEnd.MarkerInit irc_sys_plain.
  Proof. intros s. reflexivity. Qed.

  (* statemachine.go since 92a4e2e, for ALL states of the model *)
  Theorem plain_ApplySkip : EndToEnd.ApplySkip irc_sys_plain.
  Proof.
    intros sv en s c Hk Hnz Hm. cbn in *. destruct en as [| |i un s0 c0 ra data| |]; cbn in Hk; try discriminate.
    injection Hk as -> ->. unfold last_post_message in Hm.
    destruct (sv_sessions sv !! (s, 0%N)) as [ses|] eqn:Hs; [|congruence].
    destruct (irc_retry_is_noop e sv i un s c ra data ses Hs Hnz Hm) as [Ha _]. unfold irc_step. now rewrite Ha.
  Qed.
End Plain.

(* MarkerSet / MarkerOnly as stated in Sys/EndToEnd.v are false of the plain instance *)
Definition plain0 : EndToEnd.Sys :=
  irc_sys_plain Examples.ex_env "robustirc.net" unit [] (fun _ => 0) (fun _ => init_server "robustirc.net") (fun _ => [])
                (fun _ => 0) (fun _ _ => 0%N) (fun _ _ => 0) (fun _ _ => 0) (fun _ _ => None) (fun _ _ => false).

Theorem plain_MarkerSet_refuted : ~ EndToEnd.MarkerSet plain0.
Proof.
  intros H. pose proof (H (init_server "robustirc.net") (EMessage 1 0 7 5 "" "PING x") 7%N 5%N eq_refl) as H'.
  change (last_post_message (fst (irc_step Examples.ex_env (init_server "robustirc.net") (EMessage 1 0 7 5 "" "PING x"))) 7 = 5%N) in H'.
  vm_compute in H'. discriminate.
Qed.

Theorem plain_MarkerOnly_refuted : ~ EndToEnd.MarkerOnly plain0.
Proof.
  intros H. set (en := EDelete 10 10000 1 "bye").
  assert (Hx : match run Examples.ex_env (init_server "robustirc.net") (firstn 9 Examples.ex_history) with
               | Some sv => last_post_message (fst (irc_step Examples.ex_env sv en)) 1 = 0%N /\ last_post_message sv 1 = 13%N
               | None => False
               end) by (vm_compute; split; reflexivity).
  destruct (run Examples.ex_env (init_server "robustirc.net") (firstn 9 Examples.ex_history)) as [sv|]; [|contradiction].
  destruct Hx as [H1 H2]. pose proof (H sv en 1%N) as H'.
  change (last_post_message (fst (irc_step Examples.ex_env sv en)) 1 <> last_post_message sv 1 ->
          irc_key en = Some (1%N, last_post_message (fst (irc_step Examples.ex_env sv en)) 1)) in H'.
  rewrite H1, H2 in H'. assert (Hne : 0%N <> 13%N) by discriminate. specialize (H' Hne). unfold en in H'. cbn in H'. discriminate.
Qed.

(* what does hold of the plain machine (phrased like the Sys definitions, restricted to sessions that exist) *)
Theorem irc_MarkerSet_live e : forall st en s c,
  EInv st -> wf_entry st en -> irc_key en = Some (s, c) -> is_Some (sv_sessions (fst (irc_step e st en)) !! (s, 0%N)) ->
  last_post_message (fst (irc_step e st en)) s = c.
Proof.
  intros sv en s c E Hwf Hk Hlive. destruct (irc_step_wf e sv en E Hwf) as (sv' & Hr & _ & Hst).
  rewrite Hst in *. cbn [fst] in *. eapply irc_marker_set; eauto.
  destruct en; cbn in Hk; try discriminate. exact Hk.
Qed.

Theorem irc_MarkerOnly_live e : forall st en s,
  wf_entry st en ->
  last_post_message (fst (irc_step e st en)) s <> last_post_message st s ->
  client_msg_of en = Some (s, last_post_message (fst (irc_step e st en)) s) \/
  (is_Some (sv_sessions st !! (s, 0%N)) /\ sv_sessions (fst (irc_step e st en)) !! (s, 0%N) = None).
Proof.
  intros sv en s Hwf Hne. destruct (entry_result (apply_entry e sv en)) as [sv'|] eqn:Hr.
  - rewrite (irc_step_spec _ _ _ _ Hr) in *. cbn [fst] in *. eapply irc_marker_only; eauto.
  - rewrite (irc_step_fail _ _ _ Hr) in Hne. cbn [fst] in Hne. congruence.
Qed.

(* ---- 3. the ghost instance --------------------------------------------------------------------------------- *)
Definition gst : Type := (server * gmap N N)%type.
Definition gget (g : gmap N N) (s : N) : N := default 0%N (g !! s).
(* the ghost marker of session s agrees with the IRC state *)
Definition coh1 (sv : server) (g : gmap N N) (s : N) : bool :=
  match sv_sessions sv !! (s, 0%N) with Some ses => (s_cmid ses =? gget g s)%N | None => true end.

(* The entries the ghost machine does not hand to the IRC model unchanged are exactly those that cannot occur in a
   log RobustIRC writes: a CreateSession whose id was used by an earlier client entry (ids are raft indexes), a
   message of death that follows a copy of itself (the copy would have been skipped, not processed), and client
   entries in states where ghost and IRC marker disagree (unreachable, see ghost_run_faithful). *)
Definition gstep (e : env) (st : gst) (en : entry) : gst * list omsg :=
  let sv := fst st in let g := snd st in
  match en with
  | EMessage _ _ s c _ _ =>
      if coh1 sv g s then ((fst (irc_step e sv en), <[s := c]> g), snd (irc_step e sv en))
      else ((sv, <[s := c]> g), [])
  | EDeath _ _ s c _ =>
      if coh1 sv g s && negb (negb (c =? 0)%N && (gget g s =? c)%N)
      then ((fst (irc_step e sv en), <[s := c]> g), snd (irc_step e sv en))
      else ((sv, <[s := c]> g), [])
  | ECreate id _ _ =>
      if (gget g id =? 0)%N then ((fst (irc_step e sv en), g), snd (irc_step e sv en)) else ((sv, g), [])
  | _ => ((fst (irc_step e sv en), g), snd (irc_step e sv en))
  end.

Section Ghost.
  Variables (e : env) (net : string) (NodeT : Type) (L : list entry) (applied : NodeT -> nat)
            (node_state : NodeT -> gst) (node_outs : NodeT -> list omsg)
            (nreq : N -> nat) (r_cmid : N -> nat -> N) (r_len r_seen : N -> nat -> nat)
            (r_idx : N -> nat -> option nat) (r_ack : N -> nat -> bool).

  (* St = IRC server + ghost markers, Entry = IRC log entry, Out = output message, Sess = session id;
     a client entry is an IRCFromClient or MessageOfDeath entry *)
  Definition irc_sys : EndToEnd.Sys :=
    EndToEnd.mkSys gst entry omsg N NodeT (init_server net, ∅) (gstep e) irc_visible client_msg_of
                   (fun st s => gget (snd st) s)
                   L applied node_state node_outs nreq r_cmid r_len r_seen r_idx r_ack.

  Theorem irc_MarkerInit : EndToEnd.MarkerInit irc_sys.
  Proof. intros s. cbn. unfold gget. now rewrite lookup_empty. Qed.

  (* the ghost component: the last client entry of every session id *)
  Lemma gstep_ghost sv g en :
    snd (fst (gstep e (sv, g) en)) = match client_msg_of en with Some (s, c) => <[s := c]> g | None => g end.
  Proof.
    destruct en as [id un auth| |i un s0 c0 ra data|i un s0 c0 data|]; unfold gstep; cbn [fst snd client_msg_of].
    - now destruct (gget g id =? 0)%N.
    - reflexivity.
    - now destruct (coh1 sv g s0).
    - now destruct (_ && _).
    - reflexivity.
  Qed.

  Theorem irc_MarkerSet : EndToEnd.MarkerSet irc_sys.
  Proof.
    intros [sv g] en s c Hk.
    change (gget (snd (fst (gstep e (sv, g) en))) s = c). change (client_msg_of en = Some (s, c)) in Hk.
    rewrite gstep_ghost, Hk. unfold gget. now rewrite lookup_insert.
  Qed.

  Theorem irc_MarkerOnly : EndToEnd.MarkerOnly irc_sys.
  Proof.
    intros [sv g] en s Hne.
    change (gget (snd (fst (gstep e (sv, g) en))) s <> gget g s) in Hne.
    change (client_msg_of en = Some (s, gget (snd (fst (gstep e (sv, g) en))) s)).
    rewrite gstep_ghost in *. destruct (client_msg_of en) as [[s0 c0]|]; [|congruence].
    unfold gget in *. destruct (decide (s0 = s)) as [->|Hd].
    - now rewrite lookup_insert.
    - rewrite lookup_insert_ne in Hne by exact Hd. congruence.
  Qed.

  Lemma gget_insert_id g s c : gget g s = c -> c <> 0%N -> <[s := c]> g = g.
  Proof.
    unfold gget. intros H Hnz. apply insert_id. destruct (g !! s) as [x|]; cbn in H; congruence.
  Qed.

  Theorem irc_ApplySkip : EndToEnd.ApplySkip irc_sys.
  Proof.
    intros [sv g] en s c Hk Hnz Hm. cbn in *.
    destruct en as [| |i un s0 c0 ra data|i un s0 c0 data|]; cbn in Hk; try discriminate; injection Hk as -> ->;
      unfold gstep; cbn [fst snd]; rewrite (gget_insert_id g s c Hm Hnz).
    - unfold coh1. destruct (sv_sessions sv !! (s, 0%N)) as [ses|] eqn:Hs.
      + destruct (N.eqb_spec (s_cmid ses) (gget g s)) as [Heq|Hd]; [|reflexivity].
        destruct (irc_retry_is_noop e sv i un s c ra data ses Hs Hnz (eq_trans Heq Hm)) as [Ha _].
        unfold irc_step. now rewrite Ha.
      + unfold irc_step. cbn [apply_entry]. unfold is_retry, update_last_cmid. rewrite Hs, andb_false_r. reflexivity.
    - rewrite Hm, N.eqb_refl. apply N.eqb_neq in Hnz. rewrite Hnz. cbn [negb andb]. now rewrite andb_false_r.
  Qed.

  (* C05 for every system whose nodes replay the IRC model: the machine-side hypotheses of [Contract] are
     theorems, the raft-side and client-side ones remain *)
  Theorem irc_C05 :
    EndToEnd.NodeStateIsReplay irc_sys -> EndToEnd.ProposalAppends irc_sys -> EndToEnd.ProposalEntry irc_sys ->
    EndToEnd.LogFromRequests irc_sys -> EndToEnd.AckImpliesCommitted irc_sys ->
    EndToEnd.CmidNonzero irc_sys -> EndToEnd.ClientNoReturn irc_sys -> EndToEnd.EarlierMessagesSettled irc_sys ->
    EndToEnd.SameStream irc_sys /\ EndToEnd.AckDurable irc_sys /\
    EndToEnd.ProcessedOnce irc_sys /\ EndToEnd.SenderOrder irc_sys /\ EndToEnd.DeliveredOnce irc_sys.
  Proof.
    intros H1 H2 H3 H4 H5 H9 H10 H11.
    split; [now apply EndToEndProofs.composition_same_stream|].
    split; [apply EndToEndProofs.composition_ack_durable; auto using irc_MarkerInit, irc_MarkerOnly|].
    apply EndToEndProofs.composition_exactly_once. split; [|exact irc_ApplySkip].
    unfold EndToEnd.ContractWithoutApplySkip. auto 15 using irc_MarkerInit, irc_MarkerSet, irc_MarkerOnly.
  Qed.

  (* ---- the ghost machine IS the IRC model on nice well-formed histories ------------------------------------ *)
  (* ghost and IRC markers agree on every session that exists *)
  Definition coh_all (sv : server) (g : gmap N N) : Prop :=
    forall (s : N) (ses : session), sv_sessions sv !! (s, 0%N) = Some ses -> s_cmid ses = gget g s.

  Lemma coh_all_coh1 sv g s : coh_all sv g -> coh1 sv g s = true.
  Proof. intros H. unfold coh1. destruct (sv_sessions sv !! (s, 0%N)) as [ses|] eqn:Hs; [|reflexivity]. apply N.eqb_eq. now apply H. Qed.

  (* for a session that exists the ghost marker is IRCServer.LastPostMessage: the dedup test of the POST handler
     (AckImpliesCommitted, second disjunct, with a non-zero id) reads the same value *)
  Lemma coh_lastpost sv g s : coh_all sv g -> is_Some (sv_sessions sv !! (s, 0%N)) -> gget g s = last_post_message sv s.
  Proof. intros H [ses Hs]. unfold last_post_message. rewrite Hs. symmetry. now apply H. Qed.

  Definition nice_entry (g : gmap N N) (en : entry) : Prop :=
    match en with
    | ECreate id _ _ => gget g id = 0%N                 (* the id was not used by a client entry before *)
    | EDeath _ _ s c _ => c = 0%N \/ gget g s <> c       (* a message of death does not follow a copy of itself *)
    | _ => True
    end.
  Definition ghost_after (g : gmap N N) (en : entry) : gmap N N :=
    match client_msg_of en with Some (s, c) => <[s := c]> g | None => g end.

  Theorem ghost_step_faithful sv g en sv' :
    coh_all sv g -> wf_entry sv en -> nice_entry g en -> entry_result (apply_entry e sv en) = Some sv' ->
    gstep e (sv, g) en = ((sv', ghost_after g en), entry_out (apply_entry e sv en)) /\ coh_all sv' (ghost_after g en).
  Proof.
    intros Hcoh Hwf Hnice Hr. split.
    - pose proof (irc_step_spec e sv en sv' Hr) as Hst. unfold gstep, ghost_after. cbn [fst snd].
      destruct en as [id un auth| |i un s0 c0 ra data|i un s0 c0 data|]; cbn [client_msg_of nice_entry] in *.
      + apply N.eqb_eq in Hnice. rewrite Hnice, Hst. reflexivity.
      + rewrite Hst. reflexivity.
      + rewrite (coh_all_coh1 _ _ s0 Hcoh), Hst. reflexivity.
      + rewrite (coh_all_coh1 _ _ s0 Hcoh).
        assert (Hg : negb (negb (c0 =? 0)%N && (gget g s0 =? c0)%N) = true).
        { destruct Hnice as [->|Hd]; [reflexivity|]. apply N.eqb_neq in Hd. rewrite Hd. now rewrite andb_false_r. }
        rewrite Hg, Hst. reflexivity.
      + rewrite Hst. reflexivity.
    - intros s ses' Hs'. unfold ghost_after.
      destruct (entry_effect e sv en sv' s ses' Hwf Hr Hs') as [(ses & Hs & _ & Hc)|(un & auth & -> & Hnone & Hmk)].
      + destruct (client_msg_of en) as [[s0 c0]|] eqn:Hk.
        * destruct (decide (s0 = s)) as [->|Hd].
          -- unfold gget. rewrite lookup_insert. cbn. eapply entry_marker_set; eauto.
          -- unfold gget. rewrite lookup_insert_ne by exact Hd. destruct Hc as [Hc|Hc]; [|congruence].
             rewrite Hc. now apply Hcoh.
        * destruct Hc as [Hc|Hc]; [|discriminate]. rewrite Hc. now apply Hcoh.
      + cbn [client_msg_of nice_entry] in *. unfold mk in Hmk. injection Hmk as Hc _. congruence.
  Qed.

  Fixpoint nice_history (sv : server) (g : gmap N N) (es : list entry) : Prop :=
    match es with
    | [] => True
    | en :: r => nice_entry g en /\
                 forall sv', entry_result (apply_entry e sv en) = Some sv' -> nice_history sv' (ghost_after g en) r
    end.

  Theorem ghost_run_faithful es : forall sv g sv' outs,
    coh_all sv g -> wf_history e sv es -> nice_history sv g es -> run_out e sv es = Some (sv', outs) ->
    exists g', EndToEnd.run irc_sys (sv, g) es = ((sv', g'), outs) /\ coh_all sv' g'.
  Proof.
    induction es as [|en es IH]; intros sv g sv' outs Hcoh Hwf Hnice Hrun; cbn [run_out EndToEnd.run] in *.
    - injection Hrun as <- <-. eauto.
    - destruct Hwf as [Hen Hrest]. destruct Hnice as [Hn Hnrest].
      destruct (entry_result (apply_entry e sv en)) as [sv1|] eqn:Hr; [|discriminate].
      destruct (run_out e sv1 es) as [[sv2 o2]|] eqn:Hro; [|discriminate]. injection Hrun as <- <-.
      destruct (ghost_step_faithful sv g en sv1 Hcoh Hen Hn Hr) as [Hst Hcoh1].
      destruct (IH sv1 (ghost_after g en) sv2 o2 Hcoh1 (Hrest sv1 eq_refl) (Hnrest sv1 eq_refl) Hro) as (g' & Hrun' & Hcoh').
      exists g'. split; [|exact Hcoh'].
      change (EndToEnd.step irc_sys (sv, g) en) with (gstep e (sv, g) en). rewrite Hst. cbn [fst snd]. now rewrite Hrun'.
  Qed.

  (* from the initial state: what [Sys] calls state_of / outs_of of a log is the IRC model's replay *)
  Corollary ghost_from_init es sv' outs :
    wf_history e (init_server net) es -> nice_history (init_server net) ∅ es ->
    run_out e (init_server net) es = Some (sv', outs) ->
    fst (EndToEnd.state_of irc_sys es) = sv' /\ EndToEnd.outs_of irc_sys es = outs /\
    coh_all sv' (snd (EndToEnd.state_of irc_sys es)).
  Proof.
    intros Hwf Hnice Hrun.
    destruct (ghost_run_faithful es (init_server net) ∅ sv' outs) as (g' & Hr & Hc); auto.
    { intros s ses H. cbn in H. rewrite lookup_empty in H. discriminate. }
    unfold EndToEnd.state_of, EndToEnd.outs_of. change (EndToEnd.init irc_sys) with (init_server net, (∅ : gmap N N)).
    rewrite Hr. auto.
  Qed.
End Ghost.

(* ---- non-vacuity ---------------------------------------------------------------------------------------------- *)
Definition nice_entry_b (g : gmap N N) (en : entry) : bool :=
  match en with
  | ECreate id _ _ => (gget g id =? 0)%N
  | EDeath _ _ s c _ => (c =? 0)%N || negb (gget g s =? c)%N
  | _ => true
  end.
Fixpoint nice_history_b (e : env) (sv : server) (g : gmap N N) (es : list entry) : bool :=
  match es with
  | [] => true
  | en :: r => nice_entry_b g en &&
               match entry_result (apply_entry e sv en) with
               | Some sv' => nice_history_b e sv' (ghost_after g en) r
               | None => true
               end
  end.
Lemma nice_history_b_sound e es : forall sv g, nice_history_b e sv g es = true -> nice_history e sv g es.
Proof.
  induction es as [|en es IH]; intros sv g H; cbn [nice_history nice_history_b] in *; [exact Logic.I|].
  apply andb_true_iff in H. destruct H as [Hn Hr]. split.
  - destruct en; cbn [nice_entry nice_entry_b] in *; try exact Logic.I.
    + now apply N.eqb_eq.
    + apply orb_true_iff in Hn. destruct Hn as [Hn|Hn]; [left; now apply N.eqb_eq|right; apply negb_true_iff in Hn; now apply N.eqb_neq].
  - intros sv' Hs. rewrite Hs in Hr. now apply IH.
Qed.

(* Examples.ex_history is nice, and so is a history with a message of death followed by retries of the message
   that died (they are skipped); the history of Refine.ex_processed_once_hyps, where a message of death FOLLOWS
   a processed copy of itself, is the kind of log that is excluded *)
Definition ex_death_history : list entry :=
  (firstn 9 Examples.ex_history ++
   [ EDeath 10 10000 4 25 "PRIVMSG #chan :boom"; EMessage 11 11000 4 25 "" "PRIVMSG #chan :boom";
     EMessage 12 12000 1 14 "" "PRIVMSG #chan :still here" ])%list.
Example ex_history_nice :
  nice_history Examples.ex_env (init_server "robustirc.net") ∅ Examples.ex_history /\
  nice_history Examples.ex_env (init_server "robustirc.net") ∅ ex_death_history /\
  wf_history Examples.ex_env (init_server "robustirc.net") ex_death_history /\
  ~ nice_history Examples.ex_env (init_server "robustirc.net") ∅ (ex_l1 ++ ex_e1 :: ex_l2 ++ [ex_e2]).
Proof.
  split; [apply nice_history_b_sound; vm_compute; reflexivity|].
  split; [apply nice_history_b_sound; vm_compute; reflexivity|].
  split; [apply Examples.wf_history_b_sound; vm_compute; reflexivity|].
  intros H.
  assert (Hb : forall es sv g, nice_history Examples.ex_env sv g es -> nice_history_b Examples.ex_env sv g es = true).
  { induction es as [|en es IH]; intros sv g Hn; cbn [nice_history nice_history_b] in *; [reflexivity|].
    destruct Hn as [Hn Hr]. apply andb_true_iff. split.
    - destruct en; cbn [nice_entry nice_entry_b] in *; try reflexivity.
      + now apply N.eqb_eq.
      + destruct Hn as [->|Hd]; [reflexivity|]. apply N.eqb_neq in Hd. rewrite Hd. now rewrite orb_true_r.
    - destruct (entry_result (apply_entry Examples.ex_env sv en)) as [sv'|]; [|reflexivity]. now apply IH, Hr. }
  apply Hb in H. vm_compute in H. discriminate.
Qed.

(* a concrete system over the IRC model: one session; its first post (client message id 11) is committed at
   index 1 but the answer is lost; the retry is answered by a handler that still sees the state before the first
   copy (r_seen = 1) and proposes it again: the log holds the post twice.  Node [true] has applied all three
   entries, node [false] two. *)
Fixpoint grun (e : env) (st : gst) (l : list entry) : gst * list omsg :=
  match l with
  | [] => (st, [])
  | en :: l' => let so := gstep e st en in let r := grun e (fst so) l' in (fst r, (snd so ++ snd r)%list)
  end.
Lemma grun_run e net NodeT L applied node_state node_outs nreq r_cmid r_len r_seen r_idx r_ack st l :
  EndToEnd.run (irc_sys e net NodeT L applied node_state node_outs nreq r_cmid r_len r_seen r_idx r_ack) st l = grun e st l.
Proof. revert st. induction l as [|en l IH]; intros st; cbn [EndToEnd.run grun]; [reflexivity|]. now rewrite IH. Qed.

Definition ex_L : list entry :=
  [ ECreate 1 1000 "0123456789abcdef"; EMessage 2 2000 1 11 "" "NICK Foo"; EMessage 3 3000 1 11 "" "NICK Foo" ].
Definition ex_applied (b : bool) : nat := if b then 3 else 2.
Definition ex_sys : EndToEnd.Sys :=
  irc_sys Examples.ex_env "robustirc.net" bool ex_L ex_applied
    (fun b => fst (grun Examples.ex_env (init_server "robustirc.net", ∅) (firstn (ex_applied b) ex_L)))
    (fun b => snd (grun Examples.ex_env (init_server "robustirc.net", ∅) (firstn (ex_applied b) ex_L)))
    (fun s => if (s =? 1)%N then 2 else 0) (fun _ _ => 11%N) (fun _ n => S n) (fun _ _ => 1)
    (fun _ n => Some (S n)) (fun _ n => match n with 0 => false | _ => true end).

Lemma ex_run_of l :
  EndToEnd.state_of ex_sys l = fst (grun Examples.ex_env (init_server "robustirc.net", ∅) l) /\
  EndToEnd.outs_of ex_sys l = snd (grun Examples.ex_env (init_server "robustirc.net", ∅) l).
Proof. unfold EndToEnd.state_of, EndToEnd.outs_of, ex_sys. rewrite grun_run. split; reflexivity. Qed.

Lemma ex_copy_at s c i : EndToEnd.copy_at ex_sys s c i <-> (s = 1%N /\ c = 11%N /\ (i = 1 \/ i = 2)).
Proof.
  unfold EndToEnd.copy_at. cbn [EndToEnd.L EndToEnd.entry_key ex_sys irc_sys]. split.
  - intros (en & Hn & Hk). destruct i as [|[|[|i]]]; cbn in Hn; try (injection Hn as <-); cbn in Hk; try discriminate.
    + injection Hk as <- <-. auto.
    + injection Hk as <- <-. auto.
    + destruct i; discriminate.
  - intros (-> & -> & [->| ->]); eexists; split; reflexivity.
Qed.

Example ex_sys_contract : EndToEnd.Contract ex_sys /\ EndToEnd.TwoCopies ex_sys.
Proof.
  split; [split; [unfold EndToEnd.ContractWithoutApplySkip; repeat apply conj|apply irc_ApplySkip]|].
  - intros b. destruct (ex_run_of (firstn (EndToEnd.applied ex_sys b) (EndToEnd.L ex_sys))) as [-> ->]. split; reflexivity.
  - intros s n i Hn Hi. cbn in *. injection Hi as <-. lia.
  - intros s n i Hn Hi. apply ex_copy_at. cbn in Hn, Hi. injection Hi as <-.
    destruct (N.eqb_spec s 1) as [->|]; [|lia]. destruct n as [|[|n]]; [auto|auto|lia].
  - intros s c i H. apply ex_copy_at in H. destruct H as (-> & -> & [->| ->]); cbn.
    + exists 0. repeat split; lia.
    + exists 1. repeat split; lia.
  - intros s n Hn _. left. eexists. reflexivity.
  - apply irc_MarkerInit.
  - apply irc_MarkerSet.
  - apply irc_MarkerOnly.
  - intros s n Hn. cbn. discriminate.
  - intros s a b c _ _ _ _. reflexivity.
  - intros s m n i _ _ Hd. exfalso. now apply Hd.
  - exists 1%N, 11%N, 1, 2. split; [discriminate|]. split; [apply ex_copy_at; auto|]. split; [apply ex_copy_at; auto|].
    exists 1. cbn. repeat split; lia.
Qed.

(* hence the conclusions of C05 hold of it; concretely the copy at index 1 is processed, the copy at index 2 is
   skipped by every node — and on this log the ghost machine is the IRC model *)
Example ex_sys_exactly_once :
  EndToEnd.ProcessedOnce ex_sys /\ EndToEnd.SenderOrder ex_sys /\ EndToEnd.DeliveredOnce ex_sys /\
  EndToEnd.effective_at ex_sys 1%N 11%N 1 /\ EndToEnd.skipped_at ex_sys 2 /\
  wf_history Examples.ex_env (init_server "robustirc.net") ex_L /\
  nice_history Examples.ex_env (init_server "robustirc.net") ∅ ex_L.
Proof.
  destruct ex_sys_contract as [Hc _].
  destruct (EndToEndProofs.composition_exactly_once ex_sys Hc) as (H1 & H2 & H3).
  split; [exact H1|]. split; [exact H2|]. split; [exact H3|]. split; [|split; [|split]].
  - eexists. split; [reflexivity|]. split; [reflexivity|]. unfold EndToEnd.state_before.
    rewrite (proj1 (ex_run_of _)). vm_compute. discriminate.
  - eexists. split; [reflexivity|]. destruct Hc as [_ Hskip]. apply (Hskip _ _ 1%N 11%N); [reflexivity|discriminate|].
    unfold EndToEnd.state_before. rewrite (proj1 (ex_run_of _)). vm_compute. reflexivity.
  - apply Examples.wf_history_b_sound. vm_compute. reflexivity.
  - apply nice_history_b_sound. vm_compute. reflexivity.
Qed.

Print Assumptions irc_C05.
Print Assumptions ghost_run_faithful.
Print Assumptions ghost_from_init.
Print Assumptions irc_MarkerInit.
Print Assumptions irc_MarkerSet.
Print Assumptions irc_MarkerOnly.
Print Assumptions irc_ApplySkip.
Print Assumptions plain_ApplySkip.
Print Assumptions plain_MarkerSet_refuted.
Print Assumptions plain_MarkerOnly_refuted.
Print Assumptions irc_MarkerSet_live.
Print Assumptions irc_MarkerOnly_live.
Print Assumptions ex_sys_contract.
Print Assumptions ex_sys_exactly_once.
Print Assumptions ex_history_nice.
