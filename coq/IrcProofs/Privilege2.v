(* IrcProofs/Privilege2.v — C13 as ONE statement over the whole command dispatcher:
   whatever line a plain client that is not a channel operator of a channel sends, the protected
   state of that channel survives; a session gets into an existing channel only through the
   gates of JOIN.  Proved by an invariant-style logical relation over the handler monad: a
   snapshot (c0, s0) of the channel and of the acting session is fixed and every primitive state
   change of every client handler is shown to keep the snapshot relation [Iv]. *)
From stdpp Require Import gmap.
From Coq Require Import Strings.String Strings.Ascii ZArith NArith Lia.
From RV Require Import Base.Text Irc.Str Irc.Parse Irc.State Irc.Monad Irc.Cmds Irc.SCmds Irc.Apply.
From RV Require Import IrcProofs.WP IrcProofs.Inv IrcProofs.InvPrims IrcProofs.StrLemmas IrcProofs.Handlers
                       IrcProofs.SHandlers IrcProofs.Top IrcProofs.Privilege.
From RV Require IrcProofs.Examples.
Local Open Scope string_scope.

(* ---- partial-correctness triples: a run that panics or leaves the domain satisfies everything ------- *)
Definition pw {A} (m : M A) (Q : A -> server -> rctx -> Prop) (sv : server) (r : rctx) : Prop :=
  match m sv r with Ok (a, sv', r') => Q a sv' r' | _ => True end.

Lemma pw_ret {A} (a : A) (Q : A -> server -> rctx -> Prop) sv r : Q a sv r -> pw (retM a) Q sv r.
Proof. intros H; exact H. Qed.
Lemma pw_bind {A B} (m : M A) (f : A -> M B) (Q : B -> server -> rctx -> Prop) sv r :
  pw m (fun a sv' r' => pw (f a) Q sv' r') sv r -> pw (bindM m f) Q sv r.
Proof. unfold pw, bindM. destruct (m sv r) as [[[a sv'] r']|s|s]; auto. Qed.
Lemma pw_mono {A} (m : M A) (Q Q' : A -> server -> rctx -> Prop) sv r :
  pw m Q sv r -> (forall a sv' r', Q a sv' r' -> Q' a sv' r') -> pw m Q' sv r.
Proof. unfold pw. destruct (m sv r) as [[[a sv'] r']|s|s]; auto. Qed.
Lemma pw_unit_r {A} (m : M A) (Q : A -> server -> rctx -> Prop) sv r :
  pw (bindM m (fun a => retM a)) Q sv r -> pw m Q sv r.
Proof. unfold pw, bindM, retM. destruct (m sv r) as [[[a sv'] r']|s|s]; auto. Qed.
Lemma pw_bind_assoc {A B C} (m : M A) (g : A -> M B) (f : B -> M C) (Q : C -> server -> rctx -> Prop) sv r :
  pw (bindM m (fun a => bindM (g a) f)) Q sv r -> pw (bindM (bindM m g) f) Q sv r.
Proof. unfold pw, bindM. destruct (m sv r) as [[[a sv'] r']|s|s]; auto. Qed.
Lemma pw_bind_ret {A B} (a : A) (f : A -> M B) (Q : B -> server -> rctx -> Prop) sv r :
  pw (f a) Q sv r -> pw (bindM (retM a) f) Q sv r.
Proof. intros H; exact H. Qed.
Lemma pw_bind_panic {A B} s (f : A -> M B) (Q : B -> server -> rctx -> Prop) sv r : pw (bindM (panicM s) f) Q sv r.
Proof. exact Logic.I. Qed.
Lemma pw_bind_gap {A B} s (f : A -> M B) (Q : B -> server -> rctx -> Prop) sv r : pw (bindM (gapM s) f) Q sv r.
Proof. exact Logic.I. Qed.
Lemma pw_bind_getS {B} (f : server -> M B) (Q : B -> server -> rctx -> Prop) sv r :
  pw (f sv) Q sv r -> pw (bindM getS f) Q sv r.
Proof. intros H; exact H. Qed.
Lemma pw_bind_cfgM {B} (f : config -> M B) (Q : B -> server -> rctx -> Prop) sv r :
  pw (f (sv_config sv)) Q sv r -> pw (bindM cfgM f) Q sv r.
Proof. intros H; exact H. Qed.
Lemma pw_bind_chanM {B} lc (f : option chan -> M B) (Q : B -> server -> rctx -> Prop) sv r :
  pw (f (sv_channels sv !! lc)) Q sv r -> pw (bindM (chanM lc) f) Q sv r.
Proof. intros H; exact H. Qed.
Lemma pw_bind_nickM {B} lc (f : option (N * N) -> M B) (Q : B -> server -> rctx -> Prop) sv r :
  pw (f (sv_nicks sv !! lc)) Q sv r -> pw (bindM (nickM lc) f) Q sv r.
Proof. intros H; exact H. Qed.
Lemma pw_bind_replyCount {B} (f : nat -> M B) (Q : B -> server -> rctx -> Prop) sv r :
  pw (f (List.length (r_out r))) Q sv r -> pw (bindM replyCount f) Q sv r.
Proof. intros H; exact H. Qed.
Lemma pw_bind_sessM {B} (k : N * N) (f : session -> M B) (Q : B -> server -> rctx -> Prop) sv r :
  (forall s, sv_sessions sv !! k = Some s -> pw (f s) Q sv r) -> pw (bindM (sessM k) f) Q sv r.
Proof.
  intros H. unfold pw, bindM, sessM, getS, bindM. destruct (sv_sessions sv !! k) as [s|] eqn:E; [|exact Logic.I].
  apply (H s eq_refl).
Qed.
Lemma pw_bind_emit {B} rc m (f : unit -> M B) (Q : B -> server -> rctx -> Prop) sv r :
  (forall r', pw (f tt) Q sv r') -> pw (bindM (emit rc m) f) Q sv r.
Proof. intros H. unfold pw, bindM, emit. apply H. Qed.
Lemma pw_bind_reply_num {B} k cmd ps (f : unit -> M B) (Q : B -> server -> rctx -> Prop) sv r :
  (forall r', pw (f tt) Q sv r') -> pw (bindM (reply_num k cmd ps) f) Q sv r.
Proof. intros H. unfold reply_num. apply pw_bind_assoc, pw_bind_getS, pw_bind_emit, H. Qed.
Lemma pw_bind_reply_svc {B} cmd ps (f : unit -> M B) (Q : B -> server -> rctx -> Prop) sv r :
  (forall r', pw (f tt) Q sv r') -> pw (bindM (reply_svc cmd ps) f) Q sv r.
Proof. intros H. unfold reply_svc. apply pw_bind_assoc, pw_bind_getS, pw_bind_emit, H. Qed.
Lemma pw_bind_liftR {A B} (x : res A) (f : A -> M B) (Q : B -> server -> rctx -> Prop) sv r :
  (forall a, x = Ok a -> pw (f a) Q sv r) -> pw (bindM (liftR x) f) Q sv r.
Proof. intros H. unfold pw, bindM, liftR. destruct x as [a|s|s]; [apply (H a eq_refl)|exact Logic.I|exact Logic.I]. Qed.
Lemma pw_bind_param {B} m i (f : string -> M B) (Q : B -> server -> rctx -> Prop) sv r :
  (forall p, nth_error (m_params m) i = Some p -> pw (f p) Q sv r) -> pw (bindM (param m i) f) Q sv r.
Proof. intros H. unfold param. destruct (nth_error (m_params m) i) as [p|]; [apply pw_bind_ret, H; reflexivity|apply pw_bind_panic]. Qed.
Lemma pw_bind_prefix_name {B} m (f : string -> M B) (Q : B -> server -> rctx -> Prop) sv r :
  (forall p, m_prefix m = Some p -> pw (f (p_name p)) Q sv r) -> pw (bindM (prefix_name m) f) Q sv r.
Proof. intros H. unfold prefix_name. destruct (m_prefix m) as [p|]; [apply pw_bind_ret, H; reflexivity|apply pw_bind_panic]. Qed.
Lemma pw_bind_msg_prefix {B} m (f : prefix -> M B) (Q : B -> server -> rctx -> Prop) sv r :
  (forall p, m_prefix m = Some p -> pw (f p) Q sv r) -> pw (bindM (msg_prefix m) f) Q sv r.
Proof. intros H. unfold msg_prefix. destruct (m_prefix m) as [p|]; [apply pw_bind_ret, H; reflexivity|apply pw_bind_panic]. Qed.
Lemma pw_bind_chanop_of {B} c n (f : bool -> M B) (Q : B -> server -> rctx -> Prop) sv r :
  (forall o v, c_nicks c !! n = Some (o, v) -> pw (f o) Q sv r) -> pw (bindM (chanop_of c n) f) Q sv r.
Proof.
  intros H. unfold chanop_of. destruct (c_nicks c !! n) as [[o v]|]; [apply pw_bind_ret, (H o v); reflexivity|apply pw_bind_panic].
Qed.
Lemma pw_bind_modS {B} g (f : unit -> M B) (Q : B -> server -> rctx -> Prop) sv r :
  pw (f tt) Q (g sv) r -> pw (bindM (modS g) f) Q sv r.
Proof. intros H; exact H. Qed.

Create HintDb okdb.

(* the commands an IRC operator is entitled to use beyond a plain client *)
Definition oper_cmd (c : string) : bool := existsb (String.eqb c) ["MODE"; "KILL"; "GLINE"].
(* the (channel, key) pairs a JOIN line offers, position by position *)
Definition offered (m : imsg) (ch key : string) : Prop :=
  In (ch, key) (zip_keys (split_on ","%char (hd EmptyString (m_params m)))
                         (match m_params m with _ :: ks :: _ => split_on ","%char ks | _ => [] end)).

(* ===================================================================================================== *)
Section ChanInv.
  (* the acting session, the nick keys that are free or its own at the start of the step, the channel
     under consideration with its snapshot, the snapshot of the acting session, the (channel, key)
     pairs the line offers, the captcha oracle, and two flags describing the kind of line:
       down   = the line is not a JOIN (no channel is created, memberships do not grow),
       nooper = the acting session is not an IRC operator and the line cannot make it one *)
  Variable e : env.
  Variable k : N * N.
  Variable NK : string -> Prop.
  Hypothesis NK_dec : forall n, NK n \/ ~ NK n.
  Variable lc0 : string.
  Variable c0 : chan.
  Variable s0 : session.
  Variable Offered : string -> string -> Prop.
  Variable down nooper : bool.

  Definition recent (s : session) : bool := (tsub (s_lastActivity s) (s_lastSolvedCaptcha s) <? minute)%Z.
  Definition captcha_valid (s : session) (key : string) : bool :=
    negb (is_empty key) &&
    match assoc_str key (e_captcha e) with
    | Some (Some ns) => negb (5 * minute <? tsub (s_lastActivity s) (Some ns))%Z
    | _ => false
    end.
  Definition CaptchaOK : Prop := recent s0 = true \/ exists ch key, Offered ch key /\ captcha_valid s0 key = true.
  Definition userhost (s : session) : string := s_nick s ++ "!" ++ s_user s ++ "@" ++ s_remoteAddr s.
  (* the gates of JOIN for an existing channel, in the repaired order: a captcha replaces invitation and key,
     never a ban *)
  Definition Gate : Prop :=
    (has_mode 105 (c_modes c0) = true -> lc0 ∈ s_invited s0) /\
    banned (c_bans c0) (prefix_string (s_prefix s0)) (userhost s0) = false /\
    ((has_mode 120 (c_modes c0) = true /\ CaptchaOK) \/
     ((has_mode 120 (c_modes c0) = true -> lc0 ∈ s_invited s0) /\
      (has_mode 107 (c_modes c0) = true -> exists ch, chan_to_lower ch = lc0 /\ Offered ch (c_key c0)))).

  Definition kmem (c : chan) : Prop := exists n, NK n /\ is_Some (c_nicks c !! n).
  Definition topic3 (c : chan) : string * time * string := (c_topicNick c, c_topicTime c, c_topic c).

  Definition ChanOK (c : chan) : Prop :=
    c_name c = c_name c0 /\ c_modes c = c_modes c0 /\ c_key c = c_key c0 /\ c_bans c = c_bans c0 /\
    (forall n, ~ NK n -> c_nicks c !! n = c_nicks c0 !! n) /\
    (forall n o v, NK n -> c_nicks c !! n = Some (o, v) -> o = false) /\
    (topic3 c = topic3 c0 \/ (has_mode 116 (c_modes c0) = false /\ kmem c0 /\ down = true)) /\
    (kmem c -> kmem c0 \/ (down = false /\ Gate)).

  Definition IC (chs : gmap string chan) : Prop :=
    (forall lc c, chs !! lc = Some c -> chan_to_lower (c_name c) = lc) /\
    match chs !! lc0 with
    | Some c => ChanOK c
    | None => down = true /\ forall n, ~ NK n -> c_nicks c0 !! n = None
    end.

  (* the nick index: keys outside NK stay occupied (by their owners); keys in NK are free or point to the acting session *)
  Definition INk (ns : gmap string (N * N)) : Prop :=
    (forall n, ~ NK n -> is_Some (ns !! n)) /\ (forall n k', NK n -> ns !! n = Some k' -> k' = k).

  Definition UpSess (s : session) : Prop :=
    s_nick s = s_nick s0 /\ s_user s = s_user s0 /\ s_prefix s = s_prefix s0 /\ s_remoteAddr s = s_remoteAddr s0 /\
    s_lastActivity s = s_lastActivity s0 /\ (lc0 ∈ s_invited s -> lc0 ∈ s_invited s0) /\
    (recent s = true -> CaptchaOK).
  Definition SessOK (s : session) : Prop :=
    NK (nick_to_lower (s_nick s)) /\ (nooper = true -> s_operator s = false) /\ (down = false -> UpSess s).
  Definition IS (ss : gmap (N * N) session) : Prop := forall s, ss !! k = Some s -> SessOK s.

  Definition Iv (sv : server) : Prop := IC (sv_channels sv) /\ INk (sv_nicks sv) /\ IS (sv_sessions sv).

  Definition ok {A} (m : M A) : Prop := forall sv r, Iv sv -> pw m (fun _ sv' _ => Iv sv') sv r.

  (* ---- composition ---------------------------------------------------------------------------------- *)
  Lemma pw_bind_ok {A B} (m : M A) (f : A -> M B) (Q : B -> server -> rctx -> Prop) sv r :
    ok m -> Iv sv -> (forall a sv' r', Iv sv' -> pw (f a) Q sv' r') -> pw (bindM m f) Q sv r.
  Proof. intros Hm HI Hf. apply pw_bind. eapply pw_mono; [apply Hm, HI|]. intros a sv' r' HI'. now apply Hf. Qed.
  Lemma pw_of_ok {A} (m : M A) sv r : ok m -> Iv sv -> pw m (fun _ sv' _ => Iv sv') sv r.
  Proof. intros H HI. now apply H. Qed.
  Lemma ok_ret {A} (a : A) : ok (retM a).
  Proof. intros sv r HI. exact HI. Qed.
  Lemma ok_bind {A B} (m : M A) (f : A -> M B) : ok m -> (forall a, ok (f a)) -> ok (bindM m f).
  Proof. intros Hm Hf sv r HI. apply pw_bind_ok; [exact Hm|exact HI|]. intros a sv' r' HI'. now apply Hf. Qed.
  Lemma ok_forM {A} (l : list A) (f : A -> M unit) : (forall x, In x l -> ok (f x)) -> ok (forM l f).
  Proof.
    induction l as [|x l IH]; intros Hf; cbn [forM]; [apply ok_ret|].
    apply ok_bind; [apply Hf; now left|]. intros _. apply IH. intros y Hy. apply Hf. now right.
  Qed.
  Lemma ok_whenM b m : ok m -> ok (whenM b m).
  Proof. intros H. destruct b; [exact H|apply ok_ret]. Qed.

  (* ---- the three components under the primitive updates ------------------------------------------------ *)
  Lemma Iv_set_sessions g sv : Iv sv -> IS (g (sv_sessions sv)) -> Iv (set_sessions g sv).
  Proof. intros (HC & HN & _) HS. split; [exact HC|split; [exact HN|exact HS]]. Qed.
  Lemma Iv_set_nicks g sv : Iv sv -> INk (g (sv_nicks sv)) -> Iv (set_nicks g sv).
  Proof. intros (HC & _ & HS) HN. split; [exact HC|split; [exact HN|exact HS]]. Qed.
  Lemma Iv_set_channels g sv : Iv sv -> IC (g (sv_channels sv)) -> Iv (set_channels g sv).
  Proof. intros (_ & HN & HS) HC. split; [exact HC|split; [exact HN|exact HS]]. Qed.
  Lemma Iv_set_svsholds g sv : Iv sv -> Iv (set_svsholds g sv).
  Proof. intros H; exact H. Qed.
  Lemma Iv_set_config g sv : Iv sv -> Iv (set_config g sv).
  Proof. intros H; exact H. Qed.
  Lemma Iv_set_serverSessions g sv : Iv sv -> Iv (set_serverSessions g sv).
  Proof. intros H; exact H. Qed.

  Lemma IS_upd tk f ss :
    (tk = k -> forall s, SessOK s -> SessOK (f s)) -> IS ss ->
    IS (match ss !! tk with Some s => <[tk := f s]> ss | None => ss end).
  Proof.
    intros Hf H s. rewrite lookup_upd_sess. case_bool_decide as E.
    - destruct (ss !! k) as [s1|] eqn:E1; [|discriminate]. cbn. intros [= <-]. apply Hf; [exact E|]. now apply H.
    - apply H.
  Qed.
  Lemma IS_fmap f ss : (forall s, SessOK s -> SessOK (f s)) -> IS ss -> IS (f <$> ss).
  Proof.
    intros Hf H s. rewrite lookup_fmap. destruct (ss !! k) as [s1|] eqn:E1; [|discriminate]. cbn. intros [= <-].
    apply Hf. now apply H.
  Qed.

  Lemma INk_insert n ns : NK n -> INk ns -> INk (<[n := k]> ns).
  Proof.
    intros Hn [H1 H2]. split.
    - intros x Hx. destruct (decide (n = x)) as [->|Hne]; [rewrite lookup_insert; now eexists|].
      rewrite lookup_insert_ne by exact Hne. now apply H1.
    - intros x k' Hx. destruct (decide (n = x)) as [->|Hne]; [rewrite lookup_insert; congruence|].
      rewrite lookup_insert_ne by exact Hne. now apply H2.
  Qed.
  Lemma INk_delete n ns : NK n -> INk ns -> INk (delete n ns).
  Proof.
    intros Hn [H1 H2]. split.
    - intros x Hx. destruct (decide (n = x)) as [->|Hne]; [contradiction|].
      rewrite lookup_delete_ne by exact Hne. now apply H1.
    - intros x k' Hx Hl. apply lookup_delete_Some in Hl. destruct Hl as [_ Hl]. eapply H2; eauto.
  Qed.
  Lemma INk_free ns n : INk ns -> ns !! n = None -> NK n.
  Proof. intros [H _] Hn. destruct (NK_dec n) as [Y|Nn]; [exact Y|]. destruct (H n Nn) as [v Hv]. congruence. Qed.

  Lemma IC_lookup chs lc c : IC chs -> chs !! lc = Some c -> chan_to_lower (c_name c) = lc /\ (lc = lc0 -> ChanOK c).
  Proof.
    intros [Hk H0] Hc. split; [eapply Hk; eauto|]. intros ->. now rewrite Hc in H0.
  Qed.
  Lemma IC_insert chs lc c :
    IC chs -> chan_to_lower (c_name c) = lc -> (lc = lc0 -> ChanOK c) -> IC (<[lc := c]> chs).
  Proof.
    intros [Hk H0] Hn Hc. split.
    - intros lc' c'. destruct (decide (lc = lc')) as [<-|Hne]; [rewrite lookup_insert; intros [= <-]; exact Hn|].
      rewrite lookup_insert_ne by exact Hne. apply Hk.
    - destruct (decide (lc = lc0)) as [E|Hne]; [rewrite E, lookup_insert; now apply Hc|].
      rewrite lookup_insert_ne by exact Hne. exact H0.
  Qed.
  Lemma IC_upd chs lc f :
    IC chs -> (forall c, c_name (f c) = c_name c) -> (lc = lc0 -> forall c, ChanOK c -> ChanOK (f c)) ->
    IC (match chs !! lc with Some c => <[lc := f c]> chs | None => chs end).
  Proof.
    intros H Hn Hf. destruct (chs !! lc) as [c|] eqn:Hc; [|exact H].
    destruct (IC_lookup _ _ _ H Hc) as [Hl Hok]. apply IC_insert; [exact H|now rewrite Hn|].
    intros E. apply Hf; auto.
  Qed.
  Lemma IC_delete chs lc :
    IC chs -> (lc = lc0 -> down = true /\ forall n, ~ NK n -> c_nicks c0 !! n = None) -> IC (delete lc chs).
  Proof.
    intros [Hk H0] Hd. split.
    - intros lc' c'. rewrite lookup_delete_Some. intros [_ H]. now apply Hk.
    - destruct (decide (lc = lc0)) as [E|Hne]; [rewrite E, lookup_delete; apply Hd, E|].
      rewrite lookup_delete_ne by exact Hne. exact H0.
  Qed.

  (* ---- what may be done to the member table of the protected channel --------------------------------------- *)
  Lemma kmem_delete n c : kmem (cc_nicks (delete n) c) -> kmem c.
  Proof.
    intros (x & Hx & [p Hp]). cbn in Hp. apply lookup_delete_Some in Hp. destruct Hp as [_ Hp]. exists x. split; [exact Hx|now exists p].
  Qed.
  Lemma ChanOK_delete n c : NK n -> ChanOK c -> ChanOK (cc_nicks (delete n) c).
  Proof.
    intros Hn (H1 & H2 & H3 & H4 & H5 & H6 & H7 & H8). repeat split; cbn [c_name c_modes c_key c_bans c_nicks cc_nicks]; auto.
    - intros x Hx. rewrite lookup_delete_ne; [now apply H5|]. intros ->. contradiction.
    - intros x o v Hx Hp. apply lookup_delete_Some in Hp. destruct Hp as [_ Hp]. eapply H6; eauto.
    - intros Hm. apply H8. eapply kmem_delete. exact Hm.
  Qed.
  Lemma ChanOK_insert n c : NK n -> ChanOK c -> (kmem c0 \/ (down = false /\ Gate)) -> ChanOK (cc_nicks (<[n := (false, false)]>) c).
  Proof.
    intros Hn (H1 & H2 & H3 & H4 & H5 & H6 & H7 & H8) Hg. repeat split; cbn [c_name c_modes c_key c_bans c_nicks cc_nicks]; auto.
    all: try (intros _; exact Hg).
    - intros x Hx. rewrite lookup_insert_ne; [now apply H5|]. intros ->. contradiction.
    - intros x o v Hx. destruct (decide (n = x)) as [->|Hne]; [rewrite lookup_insert; congruence|].
      rewrite lookup_insert_ne by exact Hne. eapply H6; eauto.
  Qed.
  Lemma rename_other (o n x : string) (ns : gmap string (bool * bool)) :
    x <> o -> x <> n -> rename_member o n ns !! x = ns !! x.
  Proof.
    intros Ho Hn. unfold rename_member. destruct (ns !! o); rewrite lookup_delete_ne by congruence; [|reflexivity].
    now rewrite lookup_insert_ne by congruence.
  Qed.
  Lemma rename_some (o n x : string) (ns : gmap string (bool * bool)) p :
    rename_member o n ns !! x = Some p -> ns !! x = Some p \/ ns !! o = Some p.
  Proof.
    unfold rename_member. destruct (ns !! o) as [q|] eqn:Eo; rewrite lookup_delete_Some; intros [Hxo H]; [|now left].
    destruct (decide (n = x)) as [->|Hne]; [rewrite lookup_insert in H; right; congruence|].
    rewrite lookup_insert_ne in H by exact Hne. now left.
  Qed.
  Lemma ChanOK_rename o n c : NK o -> NK n -> ChanOK c -> ChanOK (cc_nicks (rename_member o n) c).
  Proof.
    intros Ho Hn (H1 & H2 & H3 & H4 & H5 & H6 & H7 & H8). repeat split; cbn [c_name c_modes c_key c_bans c_nicks cc_nicks]; auto.
    - intros x Hx. rewrite rename_other; [now apply H5| |]; intros ->; contradiction.
    - intros x ob v Hx Hp. apply rename_some in Hp. destruct Hp as [Hp|Hp]; (eapply H6; [|exact Hp]; assumption).
    - intros (x & Hx & [p Hp]). apply H8. cbn in Hp. apply rename_some in Hp.
      destruct Hp as [Hp|Hp]; [exists x|exists o]; split; auto; now exists p.
  Qed.

  Lemma IC_rename o n chs : NK o -> NK n -> IC chs -> IC (cc_nicks (rename_member o n) <$> chs).
  Proof.
    intros Ho Hn [Hk H0]. split.
    - intros lc c. rewrite lookup_fmap. destruct (chs !! lc) as [c1|] eqn:E; [|discriminate]. cbn. intros [= <-]. cbn. eapply Hk; eauto.
    - rewrite lookup_fmap. destruct (chs !! lc0) as [c1|]; cbn; [now apply ChanOK_rename|exact H0].
  Qed.

  Lemma IC_remove n chs :
    NK n -> down = true -> IC chs ->
    IC (base.filter (fun kv : string * chan => chan_to_lower (c_name (snd kv)) ∉ (list_to_set (emptied_keys n chs) : gset string))
                    (cc_nicks (delete n) <$> chs)).
  Proof.
    intros Hn Hd [Hk H0]. split.
    - intros lc c. rewrite map_filter_lookup_Some, lookup_fmap_Some. intros [(c1 & <- & Hc1) _]. cbn. eapply Hk; eauto.
    - destruct (chs !! lc0) as [c|] eqn:Hc.
      + destruct (decide (delete n (c_nicks c) = ∅)) as [He|Hne].
        * (* the channel lost its last member *)
          assert (Hnone : base.filter (fun kv : string * chan => chan_to_lower (c_name (snd kv)) ∉ (list_to_set (emptied_keys n chs) : gset string))
                    (cc_nicks (delete n) <$> chs) !! lc0 = None).
          { apply map_filter_lookup_None. right. intros c' Hc'. rewrite lookup_fmap, Hc in Hc'. injection Hc' as <-. cbn [snd c_name cc_nicks].
            intros Hng. apply Hng. apply elem_of_gone. exists lc0, c. split; [exact Hc|]. split; [exact He|]. reflexivity. }
          rewrite Hnone. split; [exact Hd|]. intros x Hx. destruct H0 as (_ & _ & _ & _ & H5 & _). rewrite <- H5 by exact Hx.
          apply (f_equal (fun m => m !! x)) in He. rewrite lookup_empty in He. rewrite lookup_delete_ne in He; [exact He|].
          intros ->. contradiction.
        * assert (Hsome : base.filter (fun kv : string * chan => chan_to_lower (c_name (snd kv)) ∉ (list_to_set (emptied_keys n chs) : gset string))
                    (cc_nicks (delete n) <$> chs) !! lc0 = Some (cc_nicks (delete n) c)).
          { apply map_filter_lookup_Some. split; [rewrite lookup_fmap, Hc; reflexivity|]. cbn [snd c_name cc_nicks].
            intros Hg. apply elem_of_gone in Hg. destruct Hg as (lc2 & c2 & Hc2 & He2 & Heq).
            rewrite (Hk _ _ Hc), (Hk _ _ Hc2) in Heq. destruct Heq. rewrite Hc in Hc2. injection Hc2 as <-. contradiction. }
          rewrite Hsome. now apply ChanOK_delete.
      + assert (Hnone : base.filter (fun kv : string * chan => chan_to_lower (c_name (snd kv)) ∉ (list_to_set (emptied_keys n chs) : gset string))
                    (cc_nicks (delete n) <$> chs) !! lc0 = None).
        { apply map_filter_lookup_None. left. now rewrite lookup_fmap, Hc. }
        rewrite Hnone. exact H0.
  Qed.

  (* ---- the primitive state changes as [ok] computations ---------------------------------------------------- *)
  Lemma ok_modS g : (forall sv, Iv sv -> Iv (g sv)) -> ok (modS g).
  Proof. intros H sv r HI. apply H, HI. Qed.
  Lemma ok_updSess tk f : (tk = k -> forall s, SessOK s -> SessOK (f s)) -> ok (updSess tk f).
  Proof. intros Hf. apply ok_modS. intros sv HI. apply Iv_set_sessions; [exact HI|]. apply IS_upd; [exact Hf|apply HI]. Qed.
  Lemma ok_updChan lc f :
    (forall c, c_name (f c) = c_name c) -> (lc = lc0 -> forall c, ChanOK c -> ChanOK (f c)) -> ok (updChan lc f).
  Proof. intros Hn Hf. apply ok_modS. intros sv HI. apply Iv_set_channels; [exact HI|]. apply IC_upd; [apply HI|exact Hn|exact Hf]. Qed.

  Lemma SessOK_invited_sub (f : gset string -> gset string) s : (forall i, f i ⊆ i) -> SessOK s -> SessOK (ss_invited f s).
  Proof.
    intros Hf (H1 & H2 & H3). split; [exact H1|split; [exact H2|]]. intros Hd. destruct (H3 Hd) as (U1 & U2 & U3 & U4 & U5 & U6 & U7).
    repeat split; auto. cbn. intros Hin. apply U6. eapply Hf; eauto.
  Qed.

  Ltac sess_tac :=
    let Hs1 := fresh in let Hs2 := fresh in let Hs3 := fresh in let Hx := fresh in
    intros _ ? (Hs1 & Hs2 & Hs3);
    split; [exact Hs1|split; [first [exact Hs2|intros Hx; congruence]|first [exact Hs3|intros Hx; congruence]]].

  Ltac harvest :=
    repeat match goal with
    | HI : Iv ?sv, H : sv_sessions ?sv !! k = Some ?s |- _ =>
        lazymatch goal with
        | _ : SessOK s |- _ => fail
        | _ => pose proof (proj2 (proj2 HI) s H : SessOK s);
               let H1 := fresh "Hnk" in let H2 := fresh "Hop" in let H3 := fresh "Hup" in
               destruct (proj2 (proj2 HI) s H) as (H1 & H2 & H3)
        end
    | HI : Iv ?sv, H : sv_channels ?sv !! ?lc = Some ?c |- _ =>
        lazymatch goal with
        | _ : chan_to_lower (c_name c) = lc |- _ => fail
        | _ => let H1 := fresh "Hkey" in let H2 := fresh "Hcok" in
               destruct (IC_lookup _ _ _ (proj1 HI) H) as (H1 & H2)
        end
    end.

  Ltac pw_step :=
    lazymatch goal with
    | |- pw (bindM ?hd _) _ _ _ =>
        lazymatch hd with
        | bindM _ _ => apply pw_bind_assoc
        | getS => apply pw_bind_getS
        | cfgM => apply pw_bind_cfgM
        | chanM _ => apply pw_bind_chanM
        | nickM _ => apply pw_bind_nickM
        | replyCount => apply pw_bind_replyCount
        | sessM _ => apply pw_bind_sessM; intros ? ?
        | retM _ => apply pw_bind_ret
        | panicM _ => apply pw_bind_panic
        | gapM _ => apply pw_bind_gap
        | emit _ _ => apply pw_bind_emit; intros ?
        | reply_num _ _ _ => apply pw_bind_reply_num; intros ?
        | reply_svc _ _ => apply pw_bind_reply_svc; intros ?
        | liftR _ => apply pw_bind_liftR; intros ? ?
        | param _ _ => apply pw_bind_param; intros ? ?
        | prefix_name _ => apply pw_bind_prefix_name; intros ? ?
        | msg_prefix _ => apply pw_bind_msg_prefix; intros ? ?
        | chanop_of _ _ => apply pw_bind_chanop_of; intros ? ? ?
        | whenM ?b _ => destruct b eqn:?; cbn [whenM]
        | updSess _ _ => eapply pw_bind_ok; [apply ok_updSess; first [sess_tac|intros _ ? ?; apply SessOK_invited_sub; [intros ?; set_solver|assumption]]
                                            |eassumption|intros ? ? ? ?]
        | updChan _ _ => eapply pw_bind_ok; [apply ok_updChan; [intros ?; reflexivity|intros ?; exfalso; congruence]|eassumption|intros ? ? ? ?]
        | forM _ _ => eapply pw_bind_ok; [apply ok_forM; intros ? _; intros ? ? ?|eassumption|intros ? ? ? ?]
        | (if ?b then _ else _) => destruct b eqn:?
        | (match ?x with _ => _ end) => destruct x eqn:?
        | (let _ := _ in _) => cbv zeta
        | _ => eapply pw_bind_ok; [solve [eauto with okdb]|eassumption|intros ? ? ? ?]
        end
    | |- pw (retM _) _ _ _ => apply pw_ret; cbv beta
    | |- pw (let _ := _ in _) _ _ _ => cbv zeta
    | |- pw _ _ _ _ => apply pw_unit_r
    end.
  Ltac pws := pw_step; harvest.
  Ltac go := repeat pws; try eassumption.
  Ltac start := intros ? ? ?; harvest.

  (* ---- handlers that only read, reply, or touch the acting session's own record ----------------------------------- *)
  Lemma ok_cmd_motd m : ok (cmd_motd k m).
  Proof. unfold cmd_motd. start. go. Qed.
  Lemma ok_captcha_url_check : ok (captcha_url_check k).
  Proof. unfold captcha_url_check. start. go. Qed.
  Lemma ok_cmd_oper m : nooper = false -> ok (cmd_oper k m).
  Proof. intros Hno. unfold cmd_oper. start. go. Qed.

  #[local] Hint Resolve ok_cmd_motd ok_captcha_url_check ok_cmd_oper : okdb.

  Lemma pwv_verify_captcha captcha sv r :
    Iv sv -> (down = false -> exists ch, Offered ch captcha) ->
    pw (verify_captcha e k captcha) (fun a sv' _ => Iv sv' /\ (a = true -> down = false -> CaptchaOK)) sv r.
  Proof.
    intros HI Hoff. unfold verify_captcha. harvest. repeat pws.
    all: try (split; [exact HI|discriminate]).
    { split; [exact HI|]. intros _ Hd. destruct (Hup Hd) as (_ & _ & _ & _ & _ & _ & U7). apply U7. unfold recent. assumption. }
    unfold pw, bindM, updSess, modS, retM. split.
    - apply Iv_set_sessions; [exact HI|]. apply IS_upd; [|apply HI]. intros _ s1 (S1 & S2 & S3). split; [exact S1|split; [exact S2|]].
      intros Hd. destruct (S3 Hd) as (U1 & U2 & U3 & U4 & U5 & U6 & U7). repeat split; auto. intros _.
      right. destruct (Hoff Hd) as [ch Hch]. exists ch, captcha. split; [exact Hch|]. unfold captcha_valid.
      destruct (Hup Hd) as (_ & _ & _ & _ & V5 & _).
      match goal with Ha : assoc_str captcha _ = _ |- _ => rewrite Ha end.
      match goal with Hb : is_empty captcha = false |- _ => rewrite Hb end. cbn [negb andb]. rewrite <- V5.
      match goal with Hc : (_ <? _)%Z = false |- _ => rewrite Hc end. reflexivity.
    - intros _ Hd. right. destruct (Hoff Hd) as [ch Hch]. exists ch, captcha. split; [exact Hch|]. unfold captcha_valid.
      destruct (Hup Hd) as (_ & _ & _ & _ & V5 & _).
      match goal with Ha : assoc_str captcha _ = _ |- _ => rewrite Ha end.
      match goal with Hb : is_empty captcha = false |- _ => rewrite Hb end. cbn [negb andb]. rewrite <- V5.
      match goal with Hc : (_ <? _)%Z = false |- _ => rewrite Hc end. reflexivity.
  Qed.
  Lemma ok_verify_captcha captcha : (down = false -> exists ch, Offered ch captcha) -> ok (verify_captcha e k captcha).
  Proof. intros H sv r HI. eapply pw_mono; [apply pwv_verify_captcha; auto|]. intros a sv' r' [HI' _]. exact HI'. Qed.

  Lemma ok_maybe_login m : nooper = false -> down = true -> ok (maybe_login e k m).
  Proof.
    intros Hno Hd. unfold maybe_login. start. go.
    all: try (eapply pw_bind_ok; [apply ok_verify_captcha; intros; congruence|eassumption|intros ? ? ? ?]; harvest; go).
  Qed.

  Lemma ok_change_nick nick oldNick onlyCaps :
    down = true -> NK (nick_to_lower nick) -> NK oldNick -> ok (change_nick k nick oldNick onlyCaps).
  Proof.
    intros Hd Hn Ho. unfold change_nick, rename_in_channels.
    apply ok_bind; [apply ok_updSess|intros _].
    { intros _ s (S1 & S2 & S3). split; [exact Hn|split; [exact S2|intros; congruence]]. }
    apply ok_bind; [apply ok_modS; intros sv HI; apply Iv_set_nicks; [exact HI|apply INk_insert; [exact Hn|apply HI]]|intros _].
    apply ok_bind; [apply ok_whenM, ok_bind; [|intros _]|intros _].
    - apply ok_modS; intros sv HI; apply Iv_set_nicks; [exact HI|apply INk_delete; [exact Ho|apply HI]].
    - apply ok_modS; intros sv HI; apply Iv_set_channels; [exact HI|apply IC_rename; [exact Ho|exact Hn|apply HI]].
    - apply ok_updSess. intros _ s (S1 & S2 & S3). split; [exact S1|split; [exact S2|intros; congruence]].
  Qed.

  Lemma ok_set_svsholds g : ok (modS (set_svsholds g)).
  Proof. apply ok_modS. intros sv HI. exact HI. Qed.
  Lemma ok_set_config g : ok (modS (set_config g)).
  Proof. apply ok_modS. intros sv HI. exact HI. Qed.
  Lemma ok_set_serverSessions g : ok (modS (set_serverSessions g)).
  Proof. apply ok_modS. intros sv HI. exact HI. Qed.
  #[local] Hint Resolve ok_maybe_login ok_set_svsholds ok_set_config ok_set_serverSessions : okdb.

  Lemma nick_free_NK sv s nick :
    Iv sv -> SessOK s ->
    bool_decide (is_Some (sv_nicks sv !! nick_to_lower nick)) &&
      negb (s_loggedIn s && String.eqb (nick_to_lower nick) (nick_to_lower (if s_loggedIn s then s_nick s else "*")))
    || is_services_nick nick = false ->
    NK (nick_to_lower nick).
  Proof.
    intros HI (S1 & _) H. apply orb_false_iff in H. destruct H as [H _]. apply andb_false_iff in H. destruct H as [H|H].
    - apply bool_decide_eq_false in H. eapply INk_free; [apply HI|]. destruct (sv_nicks sv !! nick_to_lower nick) eqn:E; [|reflexivity].
      exfalso. apply H. now eexists.
    - apply negb_false_iff, andb_true_iff in H. destruct H as [Hl He]. rewrite Hl in He. apply String.eqb_eq in He. rewrite He. exact S1.
  Qed.

  Lemma ok_cmd_nick m : nooper = false -> down = true -> ok (cmd_nick e k m).
  Proof.
    intros Hno Hd. unfold cmd_nick. start. set (nick := match m_params m with p :: _ => p | [] => EmptyString end). go.
    all: match goal with Hc : _ || is_services_nick ?nk = false, HI : Iv ?sv0, HS : SessOK ?s |- _ =>
           pose proof (nick_free_NK sv0 s nk HI HS Hc) as Hnew end.
    all: repeat (first [pws | eapply pw_bind_ok; [apply ok_change_nick; assumption|eassumption|intros ? ? ? ?]; harvest]); try eassumption.
  Qed.

  Lemma ok_cmd_user m : nooper = false -> down = true -> ok (cmd_user e k m).
  Proof. intros Hno Hd. unfold cmd_user. start. go. Qed.
  Lemma ok_cmd_pass m : nooper = false -> down = true -> ok (cmd_pass e k m).
  Proof. intros Hno Hd. unfold cmd_pass. start. go. Qed.

  (* ---- read-only handlers -------------------------------------------------------------------------------------- *)
  Lemma ok_cmd_names m : ok (cmd_names k m).
  Proof. unfold cmd_names. start. go. Qed.
  Lemma ok_cmd_privmsg m : ok (cmd_privmsg k m).
  Proof. unfold cmd_privmsg. start. go. Qed.
  #[local] Hint Resolve ok_cmd_privmsg ok_cmd_names : okdb.
  Lemma ok_cmd_service_alias m : ok (cmd_service_alias k m).
  Proof. unfold cmd_service_alias. start. go. Qed.
  Lemma ok_cmd_who m : ok (cmd_who k m).
  Proof. unfold cmd_who. start. go. Qed.
  Lemma ok_cmd_whois m : ok (cmd_whois k m).
  Proof. unfold cmd_whois. start. go. Qed.
  Lemma ok_cmd_list m : ok (cmd_list k m).
  Proof. unfold cmd_list. start. go. Qed.
  Lemma ok_cmd_away m : ok (cmd_away k m).
  Proof. unfold cmd_away. start. go. Qed.
  Lemma ok_cmd_ison m : ok (cmd_ison k m).
  Proof. unfold cmd_ison. start. go. Qed.
  Lemma ok_cmd_userhost m : ok (cmd_userhost k m).
  Proof. unfold cmd_userhost. start. go. Qed.
  Lemma ok_cmd_knock m : ok (cmd_knock k m).
  Proof. unfold cmd_knock. start. go. Qed.
  Lemma ok_cmd_ping m : ok (cmd_ping k m).
  Proof. unfold cmd_ping. start. go. Qed.

  (* ---- MODE ------------------------------------------------------------------------------------------------------- *)
  Lemma ok_mode_step lc ch op md q : (op = true -> lc <> lc0) -> ok (cmd_mode_chan_step k lc ch op md q).
  Proof.
    intros Hop. unfold cmd_mode_chan_step. start. destruct op; [pose proof (Hop eq_refl) as Hne|]; cbn [negb]; go.
  Qed.
  Lemma ok_mode_loop lc ch op mds q : (op = true -> lc <> lc0) -> ok (cmd_mode_chan_loop k lc ch op mds q).
  Proof.
    intros Hop. revert q. induction mds as [|md mds IH]; intros q; cbn [cmd_mode_chan_loop]; [apply ok_ret|].
    apply ok_bind; [now apply ok_mode_step|]. intros st. destruct (fst st); [apply ok_ret|apply IH].
  Qed.
  Lemma ok_cmd_mode m : nooper = true -> ok (cmd_mode k m).
  Proof.
    intros Hno. unfold cmd_mode. start. go.
    eapply pw_bind_ok; [apply ok_mode_loop|eassumption|intros ? ? ? ?; go].
    intros Hopt E. rewrite (Hop Hno), orb_false_r in Hopt. rewrite Hopt in H3.
    destruct (Hcok E) as (_ & _ & _ & _ & _ & H6 & _). specialize (H6 _ _ _ Hnk H3). discriminate.
  Qed.

  (* ---- TOPIC ------------------------------------------------------------------------------------------------------ *)
  Lemma ChanOK_topic n t txt c :
    ChanOK c -> has_mode 116 (c_modes c) = false -> kmem c -> down = true -> ChanOK (cc_topic n t txt c).
  Proof.
    intros (H1 & H2 & H3 & H4 & H5 & H6 & H7 & H8) Ht Hm Hd.
    assert (Hm0 : kmem c0) by (destruct (H8 Hm) as [Y|[Hf _]]; [exact Y|congruence]).
    split; [exact H1|split; [exact H2|split; [exact H3|split; [exact H4|split; [exact H5|split; [exact H6|split]]]]]].
    - right. rewrite <- H2. auto.
    - intros _. now left.
  Qed.

  Lemma pw_bind_updChan_at {B} lc f (cont : unit -> M B) (Q : B -> server -> rctx -> Prop) sv r c :
    Iv sv -> sv_channels sv !! lc = Some c -> (forall c, c_name (f c) = c_name c) -> (lc = lc0 -> ChanOK (f c)) ->
    (forall sv' r', Iv sv' -> pw (cont tt) Q sv' r') -> pw (bindM (updChan lc f) cont) Q sv r.
  Proof.
    intros HI Hc Hn Hf Hk. unfold updChan. apply pw_bind_modS. apply Hk. apply Iv_set_channels; [exact HI|].
    rewrite Hc. destruct (IC_lookup _ _ _ (proj1 HI) Hc) as [Hl _]. apply IC_insert; [apply HI|now rewrite Hn|exact Hf].
  Qed.

  Lemma ok_cmd_topic m : down = true \/ nparams m = 1 -> ok (cmd_topic k m).
  Proof.
    intros Hq. unfold cmd_topic. start. go.
    all: assert (Hd : down = true) by
      (destruct Hq as [Y|Hq]; [exact Y|exfalso; rewrite Hq in *; cbn in *; rewrite ?andb_false_r in *; discriminate]).
    all: eapply pw_bind_updChan_at; [eassumption|eassumption|intros ?; reflexivity| |intros ? ? ?; go].
    all: intros E; apply ChanOK_topic; auto.
    all: try (exists (nick_to_lower (s_nick s)); split; [assumption|eauto]).
    all: destruct (Hcok E) as (_ & _ & _ & _ & _ & H6 & _); specialize (H6 _ _ _ Hnk H3); rewrite H6, andb_true_r in *; assumption.
  Qed.

  (* ---- leaving: PART, KICK, QUIT, KILL ------------------------------------------------------------------------------ *)
  Lemma ok_maybe_delete_channel lc : (lc = lc0 -> down = true) -> ok (maybe_delete_channel lc).
  Proof.
    intros Hd. unfold maybe_delete_channel. start. go.
    match goal with He : bool_decide (c_nicks ?c = ∅) = true |- _ => apply bool_decide_eq_true in He; rename He into Hemp end.
    rewrite Hkey.
    eapply pw_bind_ok; [apply ok_modS|eassumption|intros ? ? ? ?].
    - intros sv1 HI1. apply Iv_set_channels; [exact HI1|]. apply IC_delete; [apply HI1|]. intros E. split; [auto|].
      intros n Hn. destruct (Hcok E) as (_ & _ & _ & _ & H5 & _). rewrite <- H5 by exact Hn. rewrite Hemp. apply lookup_empty.
    - apply pw_unit_r. eapply pw_bind_ok; [apply ok_modS|eassumption|intros ? ? ? ?; go].
      intros sv1 HI1. apply Iv_set_sessions; [exact HI1|]. unfold drop_invites. apply IS_fmap; [|apply HI1].
      intros s Hs. apply SessOK_invited_sub; [|exact Hs]. intros i. set_solver.
  Qed.
  Lemma ok_leave_channel lc n tk : (lc = lc0 -> NK n /\ down = true) -> ok (leave_channel lc n tk).
  Proof.
    intros Hc. unfold leave_channel. apply ok_bind; [|intros _; apply ok_bind; [|intros _]].
    - apply ok_updChan; [intros ?; reflexivity|]. intros E c Hok. apply ChanOK_delete; [apply Hc, E|exact Hok].
    - apply ok_maybe_delete_channel. intros E. apply Hc, E.
    - apply ok_updSess. sess_tac.
  Qed.
  Lemma ok_remove_nick_everywhere n : NK n -> down = true -> ok (remove_nick_everywhere n).
  Proof.
    intros Hn Hd. unfold remove_nick_everywhere. intros sv r HI. apply pw_bind_getS. apply pw_bind_modS.
    unfold pw, modS. apply Iv_set_sessions; [apply Iv_set_channels; [exact HI|apply IC_remove; [exact Hn|exact Hd|apply HI]]|].
    cbn [sv_sessions set_channels]. apply IS_fmap; [|apply HI].
    intros s Hs. apply SessOK_invited_sub; [|exact Hs]. intros i. set_solver.
  Qed.
  Lemma ok_delete_session_k : down = true -> ok (delete_session k).
  Proof.
    intros Hd. unfold delete_session. start. go.
    eapply pw_bind_ok; [apply ok_remove_nick_everywhere; assumption|eassumption|intros ? ? ? ?].
    repeat apply pw_bind_assoc. eapply pw_bind_ok; [apply ok_modS|eassumption|intros ? ? ? ?; go].
    intros sv1 HI1. apply Iv_set_nicks; [exact HI1|]. apply INk_delete; [assumption|apply HI1].
  Qed.
  #[local] Hint Resolve ok_delete_session_k : okdb.

  Lemma ok_cmd_part m : down = true -> ok (cmd_part k m).
  Proof.
    intros Hd. unfold cmd_part. start. go.
    eapply pw_bind_ok; [apply ok_leave_channel; auto|eassumption|intros ? ? ? ?; go].
  Qed.
  Lemma ok_cmd_kick m : down = true -> ok (cmd_kick k m).
  Proof.
    intros Hd. unfold cmd_kick. start. go.
    eapply pw_bind_ok; [apply ok_leave_channel|eassumption|intros ? ? ? ?; go].
    intros E. exfalso. destruct (Hcok E) as (_ & _ & _ & _ & _ & H6 & _).
    match goal with Hm : c_nicks _ !! nick_to_lower (s_nick _) = Some (?o, _), Ho : negb ?o = false |- _ =>
      specialize (H6 _ _ _ Hnk Hm); rewrite H6 in Ho; discriminate end.
  Qed.
  Lemma ok_cmd_invite m : down = true -> ok (cmd_invite k m).
  Proof. intros Hd. unfold cmd_invite. start. go. Qed.
  Lemma ok_cmd_quit m : down = true -> ok (cmd_quit k m).
  Proof. intros Hd. unfold cmd_quit. start. go. Qed.
  Lemma ok_cmd_kill m : nooper = true -> ok (cmd_kill k m).
  Proof.
    intros Hno. unfold cmd_kill. start. go.
    all: exfalso; match goal with Ho : negb (s_operator _) = false |- _ => rewrite (Hop Hno) in Ho; discriminate end.
  Qed.
  Lemma ok_cmd_gline m : nooper = true -> ok (cmd_gline k m).
  Proof.
    intros Hno. unfold cmd_gline. start. go.
    all: exfalso; match goal with Ho : negb (s_operator _) = false |- _ => rewrite (Hop Hno) in Ho; discriminate end.
  Qed.
  Lemma ok_burst_one sv t : ok (burst_one sv t).
  Proof. unfold burst_one. start. go. Qed.
  #[local] Hint Resolve ok_burst_one : okdb.
  Lemma ok_cmd_server m : down = true -> ok (cmd_server k m).
  Proof. intros Hd. unfold cmd_server. start. go. Qed.

  (* ---- JOIN ---------------------------------------------------------------------------------------------------------- *)
  Lemma ok_cmd_mode_query m : normalize_modes m = [] -> ok (cmd_mode k m).
  Proof.
    intros Hq. unfold cmd_mode. rewrite Hq. cbn [List.length Nat.eqb forM]. start. go.
  Qed.
  Lemma ok_add_member lc c me tk op :
    chan_to_lower (c_name c) = lc -> (lc = lc0 -> ChanOK (cc_nicks (<[me := (op, false)]>) c)) -> ok (add_member lc c me tk op).
  Proof.
    intros Hn Hc. unfold add_member. apply ok_bind; [|intros _; apply ok_updSess; sess_tac].
    apply ok_modS. intros sv HI. apply Iv_set_channels; [exact HI|]. apply IC_insert; [apply HI|exact Hn|exact Hc].
  Qed.

  Lemma gate_from_checks s c ch key :
    chan_to_lower ch = lc0 -> ChanOK c -> UpSess s -> Offered ch key ->
    has_mode 105 (c_modes c) && negb (in_set lc0 (s_invited s)) = false ->
    banned (c_bans c) (prefix_string (s_prefix s)) (s_nick s ++ "!" ++ s_user s ++ "@" ++ s_remoteAddr s) = false ->
    ((has_mode 120 (c_modes c) = true /\ CaptchaOK) \/
     (has_mode 120 (c_modes c) && negb (in_set lc0 (s_invited s)) = false /\
      has_mode 107 (c_modes c) && negb (String.eqb (c_key c) key) = false)) ->
    Gate.
  Proof.
    intros E (_ & C2 & C3 & C4 & _) (U1 & U2 & U3 & U4 & U5 & U6 & U7) Hoff Hi Hb Hx.
    rewrite C2 in *. rewrite C3 in *. rewrite C4 in *.
    assert (Hinv : forall b, b && negb (in_set lc0 (s_invited s)) = false -> b = true -> lc0 ∈ s_invited s0).
    { intros b Hb1 ->. cbn in Hb1. apply negb_false_iff, in_set_true in Hb1. auto. }
    split; [apply Hinv, Hi|]. split.
    - unfold userhost. rewrite <- U1, <- U2, <- U3, <- U4. exact Hb.
    - destruct Hx as [[Hx Hc]|[Hx Hk]]; [left; auto|right]. split; [apply Hinv, Hx|]. intros H7. rewrite H7 in Hk. cbn in Hk.
      apply negb_false_iff, String.eqb_eq in Hk. exists ch. split; [exact E|]. now rewrite Hk.
  Qed.

  Ltac join_fin :=
    repeat (first [ pws
                  | eapply pw_bind_ok; [apply ok_add_member; [first [assumption|reflexivity]|assumption]|eassumption|intros ? ? ? ?]; harvest
                  | eapply pw_bind_ok; [apply ok_cmd_mode_query; reflexivity|eassumption|intros ? ? ? ?]; harvest
                  | eapply pw_bind_ok; [apply ok_cmd_topic; right; reflexivity|eassumption|intros ? ? ? ?]; harvest ]);
    try eassumption.

  Lemma ok_join_one ch key : down = false -> Offered ch key -> ok (join_one e k ch key).
  Proof.
    intros Hd Hoff. unfold join_one. start. go.
    - (* +x without invitation: the captcha *)
      eapply pw_bind. eapply pw_mono; [apply pwv_verify_captcha; [eassumption|intros _; now exists ch]|].
      intros a sv' r' [HI' Hcap]. cbv beta. go.
      all: assert (HG : chan_to_lower ch = lc0 -> ChanOK (cc_nicks (<[nick_to_lower (s_nick s) := (false, false)]>) c))
        by (intros E; apply ChanOK_insert; [assumption|auto|]; right; split; [exact Hd|];
            eapply (gate_from_checks s c ch key); auto; rewrite <- ?E; auto;
            left; split; [|auto]; apply andb_true_iff in Heqb1; tauto).
      all: join_fin.
    - assert (HG : chan_to_lower ch = lc0 -> ChanOK (cc_nicks (<[nick_to_lower (s_nick s) := (false, false)]>) c))
        by (intros E; apply ChanOK_insert; [assumption|auto|]; right; split; [exact Hd|];
            eapply (gate_from_checks s c ch key); auto; rewrite <- ?E; auto).
      join_fin.
    - assert (HG : chan_to_lower ch = lc0 -> ChanOK (cc_nicks (<[nick_to_lower (s_nick s) := (false, false)]>) c))
        by (intros E; apply ChanOK_insert; [assumption|auto|]; right; split; [exact Hd|];
            eapply (gate_from_checks s c ch key); auto; rewrite <- ?E; auto).
      join_fin.
    - assert (HG : chan_to_lower ch = lc0 ->
                   ChanOK (cc_nicks (<[nick_to_lower (s_nick s) := (true, false)]>) (new_chan ch {[110%N; 116%N]}))).
      { intros E. exfalso. destruct H as ((_ & Hc0) & _). rewrite E in Heqo. rewrite Heqo in Hc0. destruct Hc0. congruence. }
      join_fin.
    - assert (HG : chan_to_lower ch = lc0 ->
                   ChanOK (cc_nicks (<[nick_to_lower (s_nick s) := (true, false)]>) (new_chan ch {[110%N; 116%N]}))).
      { intros E. exfalso. destruct H as ((_ & Hc0) & _). rewrite E in Heqo. rewrite Heqo in Hc0. destruct Hc0. congruence. }
      join_fin.
  Qed.

  Lemma ok_cmd_join m :
    down = false ->
    (forall ch key, In (ch, key) (zip_keys (split_on ","%char (hd EmptyString (m_params m)))
                                           (match m_params m with _ :: ks :: _ => split_on ","%char ks | _ => [] end)) -> Offered ch key) ->
    ok (cmd_join e k m).
  Proof.
    intros Hd Hoff. unfold cmd_join. start. pws.
    assert (Hp : hd EmptyString (m_params m) = p) by (destruct (m_params m); [discriminate|cbn in *; congruence]).
    rewrite Hp in Hoff. apply pw_of_ok; [|assumption]. apply ok_forM. intros [c ky] Hin. apply ok_join_one; [exact Hd|]. now apply Hoff.
  Qed.

  (* ---- the command table, client part ------------------------------------------------------------------------------------ *)
  Lemma ok_dispatch name minp (f : handler) m :
    In (name, (minp, f)) commands -> has_prefix "server_" name = false ->
    down = negb (String.eqb name "JOIN") -> nooper = oper_cmd name ->
    (name = "JOIN" -> forall ch key, offered m ch key -> Offered ch key) ->
    ok (f e k m).
  Proof.
    intros Hin Hpre Hd Hno Hoff. unfold commands in Hin.
    repeat (destruct Hin as [Hin|Hin]; [injection Hin as <- <- <-|]); try contradiction; try (cbn in Hpre; discriminate);
      cbn in Hd, Hno; unfold noenv.
    all: first [ apply ok_cmd_service_alias | apply ok_cmd_away | apply ok_cmd_gline; exact Hno | apply ok_cmd_invite; exact Hd
               | apply ok_cmd_ison | apply ok_cmd_join; [exact Hd|apply Hoff; reflexivity] | apply ok_cmd_kick; exact Hd
               | apply ok_cmd_kill; exact Hno | apply ok_cmd_knock | apply ok_cmd_list | apply ok_cmd_mode; exact Hno
               | apply ok_cmd_motd | apply ok_cmd_names | apply ok_cmd_nick; [exact Hno|exact Hd] | apply ok_cmd_oper; exact Hno
               | apply ok_cmd_part; exact Hd | apply ok_cmd_pass; [exact Hno|exact Hd] | apply ok_cmd_ping | apply ok_cmd_privmsg
               | apply ok_cmd_quit; exact Hd | apply ok_cmd_topic; left; exact Hd | apply ok_cmd_user; [exact Hno|exact Hd]
               | apply ok_cmd_userhost | apply ok_cmd_who | apply ok_cmd_whois | apply ok_cmd_server; exact Hd ].
  Qed.
End ChanInv.

(* ===================================================================================================== *)
(* ---- from the invariant to the statement about one line --------------------------------------------- *)
(* nick keys that are free or the acting session's own in [sv]; all other keys belong to other sessions *)
Definition NKof (sv : server) (k : N * N) (n : string) : Prop :=
  sv_nicks sv !! n = None \/ sv_nicks sv !! n = Some k.
Lemma NKof_dec sv k n : NKof sv k n \/ ~ NKof sv k n.
Proof.
  unfold NKof. destruct (sv_nicks sv !! n) as [k'|]; [|now left; left].
  destruct (decide (k' = k)) as [->|Hne]; [left; now right|right]. intros [H|H]; congruence.
Qed.
Lemma NKof_other sv k n : ~ NKof sv k n <-> exists k', sv_nicks sv !! n = Some k' /\ k' <> k.
Proof.
  unfold NKof. split.
  - intros H. destruct (sv_nicks sv !! n) as [k'|]; [|exfalso; apply H; now left]. exists k'. split; [reflexivity|].
    intros ->. apply H. now right.
  - intros (k' & Hk & Hne) [H|H]; congruence.
Qed.

(* the acting session as the handler sees it: ProcessMessage first records a changed remote address *)
Definition acting_view (ra : string) (s : session) : session :=
  if negb (is_empty ra) && negb (String.eqb ra (s_remoteAddr s)) then ss_remoteAddr ra s else s.

(* the gates of JOIN into the existing channel [c] stored under [lc], for the session record [s] and the
   (channel, key) pairs [Off] of the line *)
Definition may_join (e : env) (s : session) (lc : string) (c : chan) (Off : string -> string -> Prop) : Prop :=
  Gate e lc c s Off.

Definition chan_kept (NK : string -> Prop) (G : Prop) (c c' : chan) : Prop :=
  c_name c' = c_name c /\ c_modes c' = c_modes c /\ c_key c' = c_key c /\ c_bans c' = c_bans c /\
  (forall n, ~ NK n -> c_nicks c' !! n = c_nicks c !! n) /\
  (forall n o v, NK n -> c_nicks c' !! n = Some (o, v) -> o = false) /\
  (topic3 c' = topic3 c \/ (has_mode 116 (c_modes c) = false /\ kmem NK c)) /\
  (kmem NK c' -> kmem NK c \/ G).

(* the nick key of the acting session after the step is one that was free or its own before *)
Definition own_nick (k : N * N) (sv sv' : server) : Prop :=
  (forall s', sv_sessions sv' !! k = Some s' -> NKof sv k (nick_to_lower (s_nick s'))) /\
  (* and no other session takes a nick key that was free or the acting session's *)
  (forall n k', NKof sv k n -> sv_nicks sv' !! n = Some k' -> k' = k).

Definition chan_protected_same (k : N * N) (lc : string) (G : chan -> Prop) (sv sv' : server) : Prop :=
  forall c, sv_channels sv !! lc = Some c ->
    own_nick k sv sv' /\
    ((sv_channels sv' !! lc = None /\ forall n, ~ NKof sv k n -> c_nicks c !! n = None) \/
     (exists c', sv_channels sv' !! lc = Some c' /\ chan_kept (NKof sv k) (G c) c c')).

Lemma Iv_final e k NK lc c s0 Off down nooper sv' :
  Iv e k NK lc c s0 Off down nooper sv' ->
  ((forall s', sv_sessions sv' !! k = Some s' -> NK (nick_to_lower (s_nick s'))) /\
   (forall n k', NK n -> sv_nicks sv' !! n = Some k' -> k' = k)) /\
  ((sv_channels sv' !! lc = None /\ forall n, ~ NK n -> c_nicks c !! n = None) \/
   (exists c', sv_channels sv' !! lc = Some c' /\ chan_kept NK (down = false /\ Gate e lc c s0 Off) c c')).
Proof.
  intros ((_ & H0) & (_ & HN) & HS). split; [split; [intros s' Hs'; apply (HS s' Hs')|exact HN]|]. destruct (sv_channels sv' !! lc) as [c'|].
  - right. exists c'. split; [reflexivity|]. destruct H0 as (H1 & H2 & H3 & H4 & H5 & H6 & H7 & H8).
    repeat split; auto.
    + destruct H7 as [H7|(H7 & H7' & _)]; [now left|right; auto].
  - left. split; [reflexivity|apply H0].
Qed.

Lemma Iv_init e k sv lc c s s1 Off down nooper sv1 :
  InvM sv -> sv_sessions sv !! k = Some s -> s_deleted s = false ->
  sv_channels sv !! lc = Some c -> ~ is_chanop sv k lc ->
  sv_channels sv1 = sv_channels sv -> sv_nicks sv1 = sv_nicks sv -> sv_sessions sv1 !! k = Some s1 ->
  s_nick s1 = s_nick s -> (nooper = true -> s_operator s1 = false) ->
  Iv e k (NKof sv k) lc c s1 Off down nooper sv1.
Proof.
  intros I Hs Hd Hc Hno Hch Hni Hs1 Hn Hop.
  assert (Hown : NKof sv k (nick_to_lower (s_nick s))).
  { destruct (decide (s_nick s = "")) as [E|E].
    - left. rewrite E. destruct (sv_nicks sv !! nick_to_lower "") as [k'|] eqn:E'; [|reflexivity].
      destruct (i_idx_sound sv I _ _ E') as [Hne _]. exfalso. apply Hne. reflexivity.
    - right. eapply i_idx_complete; eauto. }
  split; [|split].
  - rewrite Hch. split; [intros lc' c' Hc'; apply (i_chan sv I _ _ Hc')|]. rewrite Hc.
    split; [reflexivity|split; [reflexivity|split; [reflexivity|split; [reflexivity|split; [reflexivity|split; [|split]]]]]].
    + intros n o v Hnk Hm. destruct o; [|reflexivity]. exfalso. apply Hno.
      destruct (i_memb_c sv I _ _ _ _ Hc Hm) as (k' & s' & Hk' & Hs' & _).
      destruct Hnk as [Hnk|Hnk]; [congruence|]. rewrite Hnk in Hk'. injection Hk' as <-.
      destruct (i_idx_sound sv I _ _ Hnk) as (_ & s2 & Hs2 & _ & Hl). rewrite Hs in Hs2. injection Hs2 as <-.
      exists s, c, v. rewrite Hl. auto.
    + now left.
    + intros Hm. now left.
  - rewrite Hni. split.
    + intros n Hn'. destruct (sv_nicks sv !! n) as [k'|] eqn:E; [now eexists|]. exfalso. apply Hn'. now left.
    + intros n k' [Hn'|Hn'] Hl; congruence.
  - intros s' Hs'. rewrite Hs1 in Hs'. injection Hs' as <-. split; [rewrite Hn; exact Hown|split; [exact Hop|]].
    intros _. repeat split; auto. intros Hr. now left.
Qed.

(* ---- what ProcessMessage does with a line of a session that is not a services link ---------------------- *)
Lemma pw_self {A} (m : M A) sv r : pw m (fun a sv' r' => m sv r = Ok (a, sv', r')) sv r.
Proof. unfold pw. destruct (m sv r) as [[[a sv'] r']|?|?]; auto. Qed.

Definition pm_outcome (e : env) (k : N * N) (m : imsg) (sv1 sv' : server) : Prop :=
  (exists r1 r2, delete_session k sv1 r1 = Ok (tt, sv', r2)) \/ sv' = sv1 \/
  (exists minp (f : handler) r1 r2, assoc_str (to_upper (m_cmd m)) commands = Some (minp, f) /\ f e k m sv1 r1 = Ok (tt, sv', r2)).

Definition view_state (k : N * N) (ra : string) (s : session) (sv : server) : server :=
  if negb (is_empty ra) && negb (String.eqb ra (s_remoteAddr s))
  then set_sessions (fun m => match m !! k with Some s => <[k := ss_remoteAddr ra s]> m | None => m end) sv else sv.

Lemma pm_inv e k ra m sv r s :
  sv_sessions sv !! k = Some s -> s_server s = false ->
  pw (process_message e k ra (Some m)) (fun _ sv' _ => pm_outcome e k m (view_state k ra s sv) sv') sv r.
Proof.
  intros Hs Hsrv. unfold process_message. apply pw_bind_sessM. intros s' Hs'. rewrite Hs in Hs'. injection Hs' as <-. cbv zeta.
  set (sv1 := view_state k ra s sv).
  assert (Hs1 : sv_sessions sv1 !! k = Some (acting_view ra s)).
  { unfold sv1, view_state, acting_view. destruct (_ && _); [|exact Hs]. cbn [sv_sessions set_sessions]. rewrite Hs. apply lookup_insert. }
  apply pw_bind.
  apply (pw_mono _ (fun banned sv2 _ => (banned = true /\ exists r1 r2, delete_session k sv1 r1 = Ok (tt, sv2, r2)) \/
                                        (banned = false /\ sv2 = sv1))).
  { unfold sv1, view_state. destruct (negb (is_empty ra) && negb (String.eqb ra (s_remoteAddr s))).
    - unfold updSess. apply pw_bind_modS. apply pw_bind_cfgM.
      match goal with |- pw _ _ ?st _ => set (sv2 := st) end.
      destruct (g_banned (sv_config sv2) !! ra) as [reason|]; [|apply pw_ret; now right].
      destruct (is_empty reason); [apply pw_ret; now right|].
      apply pw_bind_emit. intros r1. apply pw_bind. eapply pw_mono; [apply pw_self|]. intros [] sv3 r3 Hdel. apply pw_ret. left.
      split; [reflexivity|]. eauto.
    - apply pw_ret. now right. }
  intros banned sv2 r2 [[-> (r1 & r2' & Hdel)]|[-> ->]]; cbv beta.
  - apply pw_ret. left. eauto.
  - apply pw_bind_sessM. intros s1 Hs1'. rewrite Hs1 in Hs1'. injection Hs1' as <-.
    assert (Hsrv1 : s_server (acting_view ra s) = false) by (unfold acting_view; destruct (_ && _); exact Hsrv).
    rewrite Hsrv1. cbn [negb andb].
    destruct (negb (s_loggedIn (acting_view ra s)) && true && negb (pre_registration (to_upper (m_cmd m)))).
    + apply pw_bind_reply_num. intros r3. destruct (_ <? _)%Z; cbn [whenM].
      * apply pw_bind_emit. intros r4. eapply pw_mono; [apply pw_self|]. intros [] sv3 r5 Hdel. left. eauto.
      * apply pw_ret. right. now left.
    + change (EmptyString ++ to_upper (m_cmd m)) with (to_upper (m_cmd m)). destruct (assoc_str (to_upper (m_cmd m)) commands) as [[minp f]|] eqn:Hcmd.
      * destruct (Nat.ltb (nparams m) minp).
        -- apply pw_unit_r, pw_bind_reply_num. intros r3. apply pw_ret. right. now left.
        -- eapply pw_mono; [apply pw_self|]. intros [] sv3 r5 Hf. right. right. exists minp, f. eauto.
      * apply pw_unit_r, pw_bind_reply_num. intros r3. apply pw_ret. right. now left.
Qed.

Lemma no_server_prefix x : has_prefix "server_" (to_upper x) = false.
Proof.
  destruct (to_upper x) as [|c r] eqn:E; [reflexivity|]. cbn [has_prefix].
  destruct (Ascii.eqb "s" c) eqn:Ec; [|reflexivity]. apply Ascii.eqb_eq in Ec. subst c. exfalso. eapply to_upper_not_s. exact E.
Qed.

(* THE FRAME THEOREM for one line: a session that is neither a services link nor a channel operator of [lc]
   (and, if it is an IRC operator, does not use MODE/KILL/GLINE) leaves the protected state of [lc] as it was *)
Theorem line_frame e k ra m sv r sv' r' s lc :
  InvM sv -> sv_sessions sv !! k = Some s -> s_deleted s = false -> s_server s = false ->
  (s_operator s = false \/ oper_cmd (to_upper (m_cmd m)) = false) ->
  process_message e k ra (Some m) sv r = Ok (tt, sv', r') ->
  ~ is_chanop sv k lc ->
  chan_protected_same k lc (fun c => to_upper (m_cmd m) = "JOIN" /\ may_join e (acting_view ra s) lc c (offered m)) sv sv'.
Proof.
  intros I Hs Hd Hsrv Hop Hpm Hno c Hc.
  pose proof (pm_inv e k ra m sv r s Hs Hsrv) as Hinv. unfold pw in Hinv. rewrite Hpm in Hinv.
  set (sv1 := view_state k ra s sv) in *. set (s1 := acting_view ra s).
  assert (Hs1 : sv_sessions sv1 !! k = Some s1).
  { unfold sv1, s1, view_state, acting_view. destruct (_ && _); [|exact Hs]. cbn [sv_sessions set_sessions]. rewrite Hs. apply lookup_insert. }
  assert (Hch1 : sv_channels sv1 = sv_channels sv) by (unfold sv1, view_state; destruct (_ && _); reflexivity).
  assert (Hni1 : sv_nicks sv1 = sv_nicks sv) by (unfold sv1, view_state; destruct (_ && _); reflexivity).
  assert (Hn1 : s_nick s1 = s_nick s) by (unfold s1, acting_view; destruct (_ && _); reflexivity).
  assert (Ho1 : s_operator s1 = s_operator s) by (unfold s1, acting_view; destruct (_ && _); reflexivity).
  set (down := negb (String.eqb (to_upper (m_cmd m)) "JOIN")).
  set (nooper := oper_cmd (to_upper (m_cmd m))).
  assert (Hinit : forall d, Iv e k (NKof sv k) lc c s1 (offered m) d nooper sv1).
  { intros d. eapply Iv_init; eauto. intros Hn. rewrite Ho1. destruct Hop as [Y|Hf]; [exact Y|]. unfold nooper in Hn. congruence. }
  assert (Hfin : forall d, Iv e k (NKof sv k) lc c s1 (offered m) d nooper sv' -> (d = false -> to_upper (m_cmd m) = "JOIN") ->
    own_nick k sv sv' /\
    ((sv_channels sv' !! lc = None /\ forall n, ~ NKof sv k n -> c_nicks c !! n = None) \/
     (exists c', sv_channels sv' !! lc = Some c' /\
       chan_kept (NKof sv k) (to_upper (m_cmd m) = "JOIN" /\ may_join e s1 lc c (offered m)) c c'))).
  { intros d HI Hdj. destruct (Iv_final _ _ _ _ _ _ _ _ _ _ HI) as [Hown [Y|(c' & Hc' & K)]]; (split; [exact Hown|]); [now left|right].
    exists c'. split; [exact Hc'|].
    destruct K as (K1 & K2 & K3 & K4 & K5 & K6 & K7 & K8). repeat split; auto.
    intros Hm. destruct (K8 Hm) as [Y|[Hdf G]]; [now left|right]. split; [now apply Hdj|exact G]. }
  destruct Hinv as [(r1 & r2 & Hdel)|[->|(minp & f & r1 & r2 & Hcmd & Hf)]].
  - apply (Hfin true); [|discriminate].
    pose proof (ok_delete_session_k e k (NKof sv k) (NKof_dec sv k) lc c s1 (offered m) true nooper eq_refl sv1 r1 (Hinit true)) as H.
    unfold pw in H. rewrite Hdel in H. exact H.
  - apply (Hfin true); [apply Hinit|discriminate].
  - apply (Hfin down).
    + pose proof (ok_dispatch e k (NKof sv k) (NKof_dec sv k) lc c s1 (offered m) down nooper (to_upper (m_cmd m)) minp f m
                    (assoc_str_In _ _ _ Hcmd) (no_server_prefix _) eq_refl eq_refl (fun _ ch key H => H) sv1 r1 (Hinit down)) as H.
      unfold pw in H. rewrite Hf in H. exact H.
    + unfold down. intros Hdn. apply negb_false_iff, String.eqb_eq in Hdn. exact Hdn.
Qed.

(* ---- one log entry ------------------------------------------------------------------------------------------- *)
Lemma cps_transfer k lc G sva svb sv svb' :
  sv_channels sva = sv_channels sv -> sv_nicks sva = sv_nicks sv -> sv_channels svb' = sv_channels svb ->
  sv_nicks svb' = sv_nicks svb ->
  (forall s', sv_sessions svb' !! k = Some s' -> sv_sessions svb !! k = Some s') ->
  chan_protected_same k lc G sva svb -> chan_protected_same k lc G sv svb'.
Proof.
  intros Hc Hn Hc' Hn' Hss H c Hcc. unfold chan_protected_same, own_nick, NKof in *. rewrite Hc, Hn in H. rewrite Hc', Hn'.
  destruct (H c Hcc) as [[O1 O2] Hrest]. split; [|exact Hrest]. split; [|exact O2]. intros s' Hs'. apply O1, Hss, Hs'.
Qed.

Lemma cps_refl k lc G sv s :
  InvM sv -> sv_sessions sv !! k = Some s -> s_deleted s = false -> ~ is_chanop sv k lc -> chan_protected_same k lc G sv sv.
Proof.
  intros I Hs Hd Hno c Hc.
  pose proof (Iv_init (Env []) k sv lc c s s (fun _ _ => False) true false sv I Hs Hd Hc Hno eq_refl eq_refl Hs eq_refl
               (fun H => match Bool.diff_false_true H with end)) as HI.
  destruct (Iv_final _ _ _ _ _ _ _ _ _ _ HI) as [Hown [Y|(c' & Hc' & K)]]; (split; [exact Hown|]); [now left|right]. exists c'. split; [exact Hc'|].
  destruct K as (K1 & K2 & K3 & K4 & K5 & K6 & K7 & K8). repeat split; auto.
  intros Hm. destruct (K8 Hm) as [Y|[Hdf _]]; [now left|discriminate].
Qed.

Lemma mds_channels k sv : sv_channels (maybe_delete_session k sv) = sv_channels sv.
Proof.
  unfold maybe_delete_session. destruct (sv_sessions sv !! k) as [s|]; [|reflexivity].
  destruct (s_server s || s_operator s), (s_deleted s); reflexivity.
Qed.

Lemma mds_nicks k sv : sv_nicks (maybe_delete_session k sv) = sv_nicks sv.
Proof.
  unfold maybe_delete_session. destruct (sv_sessions sv !! k) as [s|]; [|reflexivity].
  destruct (s_server s || s_operator s), (s_deleted s); reflexivity.
Qed.
Lemma mds_sessions k sv k' s' :
  sv_sessions (maybe_delete_session k sv) !! k' = Some s' -> sv_sessions sv !! k' = Some s'.
Proof.
  unfold maybe_delete_session. destruct (sv_sessions sv !! k) as [s|]; [|auto].
  destruct (s_server s || s_operator s), (s_deleted s); cbn [sv_sessions set_sessions]; auto.
  - intros H. apply lookup_delete_Some in H. destruct H as [_ H]. apply map_filter_lookup_Some in H. tauto.
  - intros H. apply map_filter_lookup_Some in H. tauto.
  - intros H. apply lookup_delete_Some in H. tauto.
Qed.

(* the session record the handler works with: the entry's time stamp and client message id are recorded first *)
Definition stamped (ts : time) (data : string) (cmid : N) (s : session) : session :=
  ss_activity ts (if has_prefix "ping" (to_lower data) then s_lastNonPing s else ts) cmid s.

Lemma is_chanop_stamped sv k s f lc :
  sv_sessions sv !! k = Some s -> s_nick (f s) = s_nick s ->
  is_chanop (set_sessions (<[k := f s]>) sv) k lc -> is_chanop sv k lc.
Proof.
  intros Hs Hn (s' & c & v & Hs' & Hc & Hm). cbn [sv_sessions set_sessions] in Hs'. rewrite lookup_insert in Hs'. injection Hs' as <-.
  exists s, c, v. rewrite <- Hn. auto.
Qed.

Lemma handler_frame e k ra pm sv msgid finish sv' out s lc :
  InvM sv -> sv_sessions sv !! k = Some s -> s_deleted s = false -> s_server s = false ->
  (s_operator s = false \/ forall m, pm = Some m -> oper_cmd (to_upper (m_cmd m)) = false) ->
  (forall x, sv_channels (finish x) = sv_channels x) -> (forall x, sv_nicks (finish x) = sv_nicks x) ->
  (forall x s', sv_sessions (finish x) !! k = Some s' -> sv_sessions x !! k = Some s') ->
  run_handler sv msgid (process_message e k ra pm) finish = OOk sv' out ->
  ~ is_chanop sv k lc ->
  chan_protected_same k lc (fun c => exists m, pm = Some m /\ to_upper (m_cmd m) = "JOIN" /\
                                               may_join e (acting_view ra s) lc c (offered m)) sv sv'.
Proof.
  intros I Hs Hd Hsrv Hop Hfin Hfn Hfs Hrun Hno. unfold run_handler in Hrun.
  destruct (process_message e k ra pm sv (RCtx msgid [])) as [[[[] sv2] r2]|?|?] eqn:Hpm; try discriminate.
  injection Hrun as <- _. eapply (cps_transfer _ _ _ sv sv2); [reflexivity|reflexivity|apply Hfin|apply Hfn|apply Hfs|].
  destruct pm as [m|].
  - intros c Hc. assert (Hop' : s_operator s = false \/ oper_cmd (to_upper (m_cmd m)) = false) by (destruct Hop; auto).
    destruct (line_frame e k ra m sv _ sv2 r2 s lc I Hs Hd Hsrv Hop' Hpm Hno c Hc) as [Hown [Y|(c' & Hc' & K)]];
      (split; [exact Hown|]); [now left|right].
    exists c'. split; [exact Hc'|]. destruct K as (K1 & K2 & K3 & K4 & K5 & K6 & K7 & K8). repeat split; auto.
    intros Hm. destruct (K8 Hm) as [Y|[Hj G]]; [now left|right]. exists m. auto.
  - (* a line that does not parse only earns a 421 *)
    unfold process_message, bindM, sessM, getS, reply_num, bindM, getS, emit in Hpm. rewrite Hs in Hpm. cbn in Hpm.
    injection Hpm as <- _. eapply cps_refl; eauto.
Qed.

Theorem entry_frame e sv id un session cmid ra data sv' out s lc :
  EInv sv -> apply_entry e sv (EMessage id un session cmid ra data) = OOk sv' out ->
  sv_sessions sv !! (session, 0%N) = Some s -> s_server s = false ->
  (s_operator s = false \/ forall m, parse_message data = Some m -> oper_cmd (to_upper (m_cmd m)) = false) ->
  ~ is_chanop sv (session, 0%N) lc ->
  chan_protected_same (session, 0%N) lc
    (fun c => exists m, parse_message data = Some m /\ to_upper (m_cmd m) = "JOIN" /\
                        may_join e (acting_view ra (stamped (timestamp id un) data cmid s)) lc c (offered m)) sv sv'.
Proof.
  intros E Hap Hs Hsrv Hop Hno. cbn [apply_entry] in Hap.
  destruct (is_retry (session, 0%N) cmid sv).
  { injection Hap as <- _. eapply cps_refl; eauto; [apply E|eapply (e_live sv E); eauto]. }
  destruct (update_last_cmid (session, 0%N) (timestamp id un) data cmid sv) as [sv1|] eqn:Hu; [|discriminate].
  destruct (update_last_cmid_EInv _ _ _ _ _ _ E Hu) as (E1 & _).
  unfold update_last_cmid in Hu. rewrite Hs in Hu. injection Hu as <-.
  fold (stamped (timestamp id un) data cmid s) in *.
  set (s1 := stamped (timestamp id un) data cmid s) in *.
  eapply (cps_transfer _ _ _ (set_sessions (<[(session, 0%N) := s1]>) sv) sv'); [reflexivity|reflexivity|reflexivity|reflexivity|auto|].
  eapply handler_frame. 9: exact Hap. 1: apply E1.
  - cbn [sv_sessions set_sessions]. apply lookup_insert.
  - eapply (e_live _ E1). cbn [sv_sessions set_sessions]. apply lookup_insert.
  - exact Hsrv.
  - exact Hop.
  - intros x. cbv beta. rewrite mds_channels. reflexivity.
  - intros x. cbv beta. rewrite mds_nicks. reflexivity.
  - intros x s' H. apply mds_sessions in H. exact H.
  - intros Hc. apply Hno. eapply (is_chanop_stamped sv _ s (stamped (timestamp id un) data cmid)); eauto.
Qed.

(* a session deleted by the API (ping timeout, client gone) leaves through QUIT: the same frame *)
Theorem entry_frame_delete e sv id un session quitmsg sv' out s lc :
  EInv sv -> apply_entry e sv (EDelete id un session quitmsg) = OOk sv' out ->
  sv_sessions sv !! (session, 0%N) = Some s -> s_server s = false ->
  ~ is_chanop sv (session, 0%N) lc ->
  chan_protected_same (session, 0%N) lc (fun _ => False) sv sv'.
Proof.
  intros E Hap Hs Hsrv Hno. cbn [apply_entry] in Hap. rewrite Hs in Hap.
  destruct (parse_quit quitmsg) as [ps Hq]. rewrite Hq in Hap.
  assert (Hq2 : forall m0, Some (IMsg None "QUIT" ps) = Some m0 -> oper_cmd (to_upper (m_cmd m0)) = false)
    by (intros m0 [= <-]; reflexivity).
  pose proof (handler_frame e (session, 0%N) "" (Some (IMsg None "QUIT" ps)) sv id _ sv' out s lc (e_inv sv E) Hs
                (e_live sv E _ _ Hs) Hsrv (or_intror Hq2)
                (fun x => mds_channels (session, 0%N) (set_lastProcessed (id, 0%N) x))
                (fun x => mds_nicks (session, 0%N) (set_lastProcessed (id, 0%N) x))
                (fun x s' H => mds_sessions (session, 0%N) (set_lastProcessed (id, 0%N) x) _ s' H) Hap Hno) as H.
  intros c Hc. destruct (H c Hc) as [Hown [Y|(c' & Hc' & K)]]; (split; [exact Hown|]); [now left|right]. exists c'. split; [exact Hc'|].
  destruct K as (K1 & K2 & K3 & K4 & K5 & K6 & K7 & K8). repeat split; auto.
  intros Hm. destruct (K8 Hm) as [Y|(m & Hm' & Hj & _)]; [now left|exfalso]. injection Hm' as <-. cbn in Hj. discriminate.
Qed.

(* ---- the frame in the words of the property ----------------------------------------------------------------------- *)
Lemma kmem_before sv k s lc c :
  InvM sv -> sv_sessions sv !! k = Some s -> sv_channels sv !! lc = Some c ->
  kmem (NKof sv k) c -> is_Some (c_nicks c !! nick_to_lower (s_nick s)).
Proof.
  intros I Hs Hc (n & Hn & [p Hp]). destruct (i_memb_c sv I _ _ _ _ Hc Hp) as (k' & s' & Hk' & Hs' & _).
  destruct Hn as [Hn|Hn]; [congruence|]. rewrite Hn in Hk'. injection Hk' as <-.
  destruct (i_idx_sound sv I _ _ Hn) as (_ & s2 & Hs2 & _ & Hl). rewrite Hs in Hs2. injection Hs2 as <-. rewrite Hl. now exists p.
Qed.

Record frame_words (k : N * N) (lc : string) (G : chan -> Prop) (sv sv' : server) (s : session) (c : chan) : Prop := {
  (* the channel disappears only when its last member — the acting session itself — leaves *)
  fw_gone : sv_channels sv' !! lc = None -> forall n, is_Some (c_nicks c !! n) -> n = nick_to_lower (s_nick s);
  (* name, modes, key and ban list are untouched *)
  fw_fields : forall c', sv_channels sv' !! lc = Some c' ->
      c_name c' = c_name c /\ c_modes c' = c_modes c /\ c_key c' = c_key c /\ c_bans c' = c_bans c;
  (* nobody else joins, leaves, gains or loses operator status or voice *)
  fw_others : forall c' n k', sv_channels sv' !! lc = Some c' -> sv_nicks sv !! n = Some k' -> k' <> k ->
      c_nicks c' !! n = c_nicks c !! n;
  (* the acting session is not a channel operator afterwards either *)
  fw_not_op : ~ is_chanop sv' k lc;
  (* the topic changes only if the channel is not +t and the acting session was on it *)
  fw_topic : forall c', sv_channels sv' !! lc = Some c' ->
      (c_topic c' = c_topic c /\ c_topicNick c' = c_topicNick c /\ c_topicTime c' = c_topicTime c) \/
      (has_mode 116 (c_modes c) = false /\ is_Some (c_nicks c !! nick_to_lower (s_nick s)));
  (* MEMBERSHIP GATE: the acting session is a member afterwards only if it was one before or the line was a JOIN
     that passed every gate *)
  fw_gate : forall c' s', sv_channels sv' !! lc = Some c' -> sv_sessions sv' !! k = Some s' ->
      is_Some (c_nicks c' !! nick_to_lower (s_nick s')) ->
      is_Some (c_nicks c !! nick_to_lower (s_nick s)) \/ G c;
  (* the member table changes at most in the acting session's own entry (consistency of the new state is what
     apply_entry_ok provides for well-formed entries) *)
  fw_members : InvM sv' -> forall c' n, sv_channels sv' !! lc = Some c' -> is_Some (c_nicks c' !! n) ->
      (exists k', sv_nicks sv !! n = Some k' /\ k' <> k /\ c_nicks c' !! n = c_nicks c !! n) \/
      (exists s', sv_sessions sv' !! k = Some s' /\ n = nick_to_lower (s_nick s'));
}.

Lemma cps_words k lc G sv sv' s c :
  InvM sv -> sv_sessions sv !! k = Some s -> sv_channels sv !! lc = Some c ->
  chan_protected_same k lc G sv sv' -> frame_words k lc G sv sv' s c.
Proof.
  intros I Hs Hc H. destruct (H c Hc) as [Hown Hrest]. split.
  - intros Hnone n [p Hp]. destruct Hrest as [[_ Hg]|(c' & Hc' & _)]; [|congruence].
    destruct (NKof_dec sv k n) as [Hn|Hn]; [|rewrite (Hg n Hn) in Hp; discriminate].
    destruct (i_memb_c sv I _ _ _ _ Hc Hp) as (k' & s' & Hk' & Hs' & _).
    destruct Hn as [Hn|Hn]; [congruence|]. rewrite Hn in Hk'. injection Hk' as <-.
    destruct (i_idx_sound sv I _ _ Hn) as (_ & s2 & Hs2 & _ & Hl). rewrite Hs in Hs2. injection Hs2 as <-. now rewrite Hl.
  - intros c' Hc'. destruct Hrest as [[Hn _]|(c2 & Hc2 & K)]; [congruence|]. rewrite Hc' in Hc2. injection Hc2 as <-.
    destruct K as (K1 & K2 & K3 & K4 & _). auto.
  - intros c' n k' Hc' Hn Hne. destruct Hrest as [[Hnn _]|(c2 & Hc2 & K)]; [congruence|]. rewrite Hc' in Hc2. injection Hc2 as <-.
    destruct K as (_ & _ & _ & _ & K5 & _). apply K5. apply NKof_other. eauto.
  - intros (s' & c' & v & Hs' & Hc' & Hm). destruct Hrest as [[Hnn _]|(c2 & Hc2 & K)]; [congruence|]. rewrite Hc' in Hc2. injection Hc2 as <-.
    destruct K as (_ & _ & _ & _ & _ & K6 & _). specialize (K6 _ _ _ (proj1 Hown s' Hs') Hm). discriminate.
  - intros c' Hc'. destruct Hrest as [[Hnn _]|(c2 & Hc2 & K)]; [congruence|]. rewrite Hc' in Hc2. injection Hc2 as <-.
    destruct K as (_ & _ & _ & _ & _ & _ & K7 & _). destruct K7 as [K7|[Ht Hm]].
    + left. unfold topic3 in K7. injection K7 as -> -> ->. auto.
    + right. split; [exact Ht|]. eapply kmem_before; eauto.
  - intros c' s' Hc' Hs' Hm. destruct Hrest as [[Hnn _]|(c2 & Hc2 & K)]; [congruence|]. rewrite Hc' in Hc2. injection Hc2 as <-.
    destruct K as (_ & _ & _ & _ & _ & _ & _ & K8).
    destruct K8 as [Y|Y]; [exists (nick_to_lower (s_nick s')); split; [apply (proj1 Hown), Hs'|exact Hm]|left; eapply kmem_before; eauto|now right].
  - intros I' c' n Hc' [p Hp]. destruct Hrest as [[Hnn _]|(c2 & Hc2 & K)]; [congruence|]. rewrite Hc' in Hc2. injection Hc2 as <-.
    destruct K as (_ & _ & _ & _ & K5 & _). destruct (NKof_dec sv k n) as [Hn|Hn].
    + right. destruct (i_memb_c sv' I' _ _ _ _ Hc' Hp) as (k2 & s2 & Hk2 & Hs2 & _).
      pose proof (proj2 Hown _ _ Hn Hk2) as ->. destruct (i_idx_sound sv' I' _ _ Hk2) as (_ & s3 & Hs3 & _ & Hl). exists s3. auto.
    + left. pose proof (proj1 (NKof_other sv k n) Hn) as (k' & Hk' & Hne). exists k'. split; [exact Hk'|]. split; [exact Hne|]. now apply K5.
Qed.

(* C13, global frame and membership gate, for every client line in the log *)
Theorem C13_frame e sv id un session cmid ra data sv' out s lc c :
  EInv sv -> apply_entry e sv (EMessage id un session cmid ra data) = OOk sv' out ->
  sv_sessions sv !! (session, 0%N) = Some s -> s_server s = false ->
  (s_operator s = false \/ forall m, parse_message data = Some m -> oper_cmd (to_upper (m_cmd m)) = false) ->
  sv_channels sv !! lc = Some c -> ~ is_chanop sv (session, 0%N) lc ->
  frame_words (session, 0%N) lc
    (fun c => exists m, parse_message data = Some m /\ to_upper (m_cmd m) = "JOIN" /\
                        may_join e (acting_view ra (stamped (timestamp id un) data cmid s)) lc c (offered m)) sv sv' s c.
Proof.
  intros E Hap Hs Hsrv Hop Hc Hno. eapply cps_words; [apply E|exact Hs|exact Hc|]. eapply entry_frame; eauto.
Qed.

Lemma may_join_unfold e s lc c Off :
  may_join e s lc c Off <->
  (has_mode 105 (c_modes c) = true -> lc ∈ s_invited s) /\
  banned (c_bans c) (prefix_string (s_prefix s)) (s_nick s ++ "!" ++ s_user s ++ "@" ++ s_remoteAddr s) = false /\
  ((has_mode 120 (c_modes c) = true /\
    (recent s = true \/ exists ch key, Off ch key /\ captcha_valid e s key = true)) \/
   ((has_mode 120 (c_modes c) = true -> lc ∈ s_invited s) /\
    (has_mode 107 (c_modes c) = true -> exists ch, chan_to_lower ch = lc /\ Off ch (c_key c)))).
Proof. reflexivity. Qed.

Print Assumptions line_frame.
Print Assumptions C13_frame.
Print Assumptions entry_frame_delete.
