//go:build verif

package ircserver

// C15 — the way from a rendered line to what a client holds: irc.Message.Bytes (cut after 510 bytes), send()
// (trimPartialRune) and the JSON encoding of GET /messages (encoding/json on robust.Message, decoded again the way
// a client does).  Ties the model's stake 510 / trim_partial_rune / json_delivered to the real functions on
// arbitrary byte strings.  Injected into internal/ircserver by `go test -overlay`; never part of /repo.
//
// Input ($VERIF_IN): one hex string per line.  Output ($VERIF_OUT), per line:
//   "ircline <hex stored> <hex delivered(uncut)> <hex delivered(cut)> <hex delivered(stored)>"

import (
	"bufio"
	"encoding/hex"
	"encoding/json"
	"fmt"
	"os"
	"strings"
	"testing"
	"time"

	"github.com/robustirc/robustirc/internal/robust"
	"gopkg.in/sorcix/irc.v2"
)

func verifLineHex(s string) string {
	if s == "" {
		return "-"
	}
	return hex.EncodeToString([]byte(s))
}

// what getmessages.go does with a message (json.NewEncoder(w).Encode(msg)) and what the client's decoder keeps
func verifDelivered(t *testing.T, data string) string {
	var sb strings.Builder
	if err := json.NewEncoder(&sb).Encode(&robust.Message{Id: robust.Id{Id: 1, Reply: 1}, Type: robust.IRCToClient, Data: data}); err != nil {
		t.Fatal(err)
	}
	var out robust.Message
	if err := json.Unmarshal([]byte(sb.String()), &out); err != nil {
		t.Fatal(err)
	}
	return out.Data
}

func TestVerifLines(t *testing.T) {
	in, err := os.Open(os.Getenv("VERIF_IN"))
	if err != nil {
		t.Fatal(err)
	}
	defer in.Close()
	out, err := os.Create(os.Getenv("VERIF_OUT"))
	if err != nil {
		t.Fatal(err)
	}
	defer out.Close()
	w := bufio.NewWriter(out)
	defer w.Flush()
	i := NewIRCServer("verif.net", time.Unix(1700000000, 0))
	sc := bufio.NewScanner(in)
	sc.Buffer(make([]byte, 1<<20), 1<<20)
	for sc.Scan() {
		h := strings.TrimSpace(sc.Text())
		if h == "-" {
			h = ""
		}
		raw, err := hex.DecodeString(h)
		if err != nil {
			t.Fatal(err)
		}
		s := string(raw)
		// a message whose rendering is exactly s: Bytes() writes the command verbatim
		msg := &irc.Message{Command: s}
		cut := string(msg.Bytes())
		reply := &Replyctx{msgid: 1}
		stored := i.send(reply, msg).Data
		fmt.Fprintf(w, "ircline %s %s %s %s\n", verifLineHex(stored), verifLineHex(verifDelivered(t, s)),
			verifLineHex(verifDelivered(t, cut)), verifLineHex(verifDelivered(t, stored)))
	}
}
