(* Api/AuthProofs.v — proofs about Api/Auth.v (property C11).  Every statement about the
   dispatchers is proved for an ARBITRARY route table [rt] with [forallb gated rt = true]; the
   table of the current source (Gen/Routes.v) satisfies that premise by a generated obligation. *)
From Coq Require Import List Bool NArith Ascii String Lia.
From RV Require Import Base.Text Api.Auth.
Import ListNotations.
Local Open Scope string_scope.

Lemma is_empty_false s : is_empty s = false -> s <> "".
Proof. destruct s; simpl; congruence. Qed.

(* ---- HTTP.session() ---------------------------------------------------------------------- *)
Lemma session_check_sound st hdr sid id :
  session_check st hdr sid = inl id ->
  exists h s, hdr = Some h /\ h <> "" /\ parse_uint0 sid = Some id /\
              get_session st id = GsOk s /\ h = s_auth s.
Proof.
  unfold session_check. destruct (parse_uint0 sid) as [n|] eqn:Hp; [|discriminate].
  destruct hdr as [h|]; simpl.
  - destruct (is_empty h) eqn:He; [discriminate|].
    destruct (get_session st n) as [s| |] eqn:Hg; try discriminate.
    destruct (String.eqb h (s_auth s)) eqn:Heq; [|discriminate].
    intros H. inversion H; subst. apply String.eqb_eq in Heq.
    exists h, s. repeat split; auto. now apply is_empty_false.
  - discriminate.
Qed.

Lemma get_session_ok_alive st id s : get_session st id = GsOk s -> alive st id = true /\ auth_of st id = Some (s_auth s).
Proof. unfold alive, auth_of. intros ->. auto. Qed.

Lemma get_session_ok_lookup st id s :
  get_session st id = GsOk s -> lookup id (st_sessions st) = Some s /\ s_alive s = true.
Proof.
  unfold get_session. destruct (lookup id (st_sessions st)) as [s'|]; [destruct (s_alive s') eqn:Ha|];
    try (destruct (N.ltb id (st_lastproc st)); discriminate).
  intros H. inversion H; subst. auto.
Qed.

(* a wrong, empty or missing header never passes, whatever the rest of the state *)
Lemma session_check_complete st hdr sid id :
  session_check st hdr sid = inl id <->
  (parse_uint0 sid = Some id /\ exists s, get_session st id = GsOk s /\ hdr = Some (s_auth s) /\ s_auth s <> "").
Proof.
  split.
  - intros H. destruct (session_check_sound _ _ _ _ H) as (h & s & -> & Hne & Hp & Hg & ->). eauto 6.
  - intros (Hp & s & Hg & -> & Hne). unfold session_check. rewrite Hp. simpl.
    destruct (is_empty (s_auth s)) eqn:He.
    { destruct (s_auth s); [congruence|discriminate]. }
    rewrite Hg. now rewrite String.eqb_refl.
Qed.

(* ---- the route interpreter ---------------------------------------------------------------- *)
Lemma find_route_spec keep d m rest rt r idopt :
  find_route keep d m rest rt = Some (r, idopt) ->
  In r rt /\ r_disp r = d /\ keep r = true /\ pat_match (r_pat r) rest = Some idopt.
Proof.
  induction rt as [|x tl IH]; simpl; [discriminate|].
  destruct (disp_eqb (r_disp x) d && keep x && meth_match (r_meth x) m) eqn:Hc.
  - destruct (pat_match (r_pat x) rest) as [io|] eqn:Hp.
    + intros H. inversion H; subst. apply andb_prop in Hc. destruct Hc as [Hc _].
      apply andb_prop in Hc. destruct Hc as [Hd Hk].
      repeat split; auto. destruct (r_disp r), d; simpl in Hd; congruence.
    + intros H. destruct (IH H) as (Hin & ?). split; [now right|assumption].
  - intros H. destruct (IH H) as (Hin & ?). split; [now right|assumption].
Qed.

Lemma pat_match_id p rest sid : pat_match p rest = Some (Some sid) -> exists suf, p = PIdSuffix suf.
Proof.
  destruct p; simpl.
  - destruct (String.eqb rest s); discriminate.
  - destruct (has_prefix s rest); discriminate.
  - eauto.
  - discriminate.
Qed.
Lemma pat_match_unknown s rest : pat_match (PUnknown s) rest = None.
Proof. reflexivity. Qed.

Section Table.
Variable rt : list route.
Hypothesis rt_gated : forallb gated rt = true.

Lemma in_gated r : In r rt -> gated r = true.
Proof. intros H. rewrite forallb_forall in rt_gated. now apply rt_gated. Qed.

Lemma gate_session_handled lm st q h sid h' id :
  gate_session lm st q h sid = Handled h' (Some id) ->
  h' = h /\ session_check st (q_hdr q) sid = inl id.
Proof.
  unfold gate_session. destruct (session_check st (q_hdr q) sid) as [n|e] eqn:Hs.
  - intros H. inversion H; subst. auto.
  - destruct e, lm; try destruct (st_leader st); discriminate.
Qed.

(* C11, session routes: a handler acting for session [id] is entered only if the request
   carries a non-empty X-Session-Auth header equal to the secret of exactly that session,
   and that session is alive. *)
Theorem public_session_gate st q h id :
  dispatch_public rt st q = Handled h (Some id) ->
  exists hd s, q_hdr q = Some hd /\ hd <> "" /\ get_session st id = GsOk s /\ hd = s_auth s /\
               alive st id = true /\ auth_of st id = Some hd.
Proof.
  unfold dispatch_public. destruct (negb (has_prefix public_prefix (q_path q))); [discriminate|].
  destruct (find_route _ Pub (q_meth q) _ rt) as [[r idopt]|] eqn:Hf; [|discriminate].
  apply find_route_spec in Hf. destruct Hf as (Hin & Hd & _ & Hp).
  pose proof (in_gated _ Hin) as Hg.
  destruct idopt as [sid|].
  - destruct (pat_match_id _ _ _ Hp) as [suf Hpat].
    unfold gated in Hg. rewrite Hpat, Hd in Hg.
    destruct (r_gate r) eqn:Hgate; try discriminate.
    + intros H. apply gate_session_handled in H. destruct H as [_ H].
      apply session_check_sound in H. destruct H as (hd & s & Hh & Hne & _ & Hgs & Hau).
      destruct (get_session_ok_alive _ _ _ Hgs) as [Ha Hao]. exists hd, s. subst hd. repeat split; auto.
    + intros H. apply gate_session_handled in H. destruct H as [_ H].
      apply session_check_sound in H. destruct H as (hd & s & Hh & Hne & _ & Hgs & Hau).
      destruct (get_session_ok_alive _ _ _ Hgs) as [Ha Hao]. exists hd, s. subst hd. repeat split; auto.
  - destruct (r_gate r); discriminate.
Qed.

Lemma private_never_for_session st q h id : dispatch_private rt st q <> Handled h (Some id).
Proof.
  unfold dispatch_private.
  destruct (find_route _ Priv _ _ rt) as [[r io]|]; [discriminate|].
  destruct (basic_ok st q); [|discriminate].
  destruct (find_route _ Priv _ _ rt) as [[r io]|]; discriminate.
Qed.

(* C11, private routes: without the correct basic-auth credentials the answer is 401,
   for every method and every path, existing or not. *)
Theorem private_needs_password st q :
  basic_ok st q = false -> dispatch_private rt st q = Unauthorized.
Proof.
  intros Hb. unfold dispatch_private.
  destruct (find_route _ Priv (q_meth q) (q_path q) rt) as [[r io]|] eqn:Hf.
  - exfalso. apply find_route_spec in Hf. destruct Hf as (Hin & Hd & Hk & Hp).
    pose proof (in_gated _ Hin) as Hg. unfold gated in Hg. rewrite Hd in Hg.
    destruct (r_pat r) eqn:Hpat; try (destruct (r_gate r); simpl in *; discriminate).
  - now rewrite Hb.
Qed.

Theorem private_handled_means_password st q h sid :
  dispatch_private rt st q = Handled h sid ->
  exists p, q_basic q = Some (basic_user, p) /\ p = st_password st.
Proof.
  intros H. destruct (basic_ok st q) eqn:Hb.
  - unfold basic_ok in Hb. destruct (q_basic q) as [[u p]|]; [|discriminate].
    apply andb_prop in Hb. destruct Hb as [Hu Hp]. apply String.eqb_eq in Hu, Hp. subst. eauto.
  - rewrite (private_needs_password _ _ Hb) in H. discriminate.
Qed.

(* ---- through the mux that is served -------------------------------------------------------- *)
Lemma mux_lookup_aux_in m path best e :
  mux_lookup_aux m path best = Some e -> In e m \/ best = Some e.
Proof.
  revert best. induction m as [|x tl IH]; simpl; intros best H; [now right|].
  apply IH in H. destruct H as [H|H]; [left; now right|].
  destruct (mux_pat_match (fst x) path && _); [inversion H; subst; left; now left|now right].
Qed.

Section Mux.
Variable m : list mux_entry.
Hypothesis m_gated : forallb mux_gated m = true.

Theorem served_never_foreign st q w : serve m rt st q <> Foreign w.
Proof.
  unfold serve, mux_lookup. destruct (mux_lookup_aux m (q_path q) None) as [e|] eqn:He.
  - apply mux_lookup_aux_in in He. destruct He as [He|He]; [|discriminate].
    rewrite forallb_forall in m_gated. specialize (m_gated _ He). unfold mux_gated in m_gated.
    destruct (snd e) eqn:Ht; try discriminate.
    + unfold dispatch_public. destruct (negb _); [discriminate|].
      destruct (find_route _ _ _ _ _) as [[r [sid|]]|]; try discriminate.
      * destruct (r_gate r); try discriminate; unfold gate_session;
          destruct (session_check _ _ _) as [n|[]]; try destruct (st_leader st); discriminate.
      * destruct (r_gate r); discriminate.
    + unfold dispatch_private. destruct (find_route _ _ _ _ _) as [[r io]|]; [discriminate|].
      destruct (basic_ok st q); [|discriminate]. destruct (find_route _ _ _ _ _) as [[r io]|]; discriminate.
  - discriminate.
Qed.

(* whatever route the mux picks: acting for a session requires that session's secret *)
Theorem served_session_gate st q h id :
  serve m rt st q = Handled h (Some id) ->
  exists hd s, q_hdr q = Some hd /\ hd <> "" /\ get_session st id = GsOk s /\ hd = s_auth s /\
               alive st id = true /\ auth_of st id = Some hd.
Proof.
  unfold serve. destruct (mux_lookup m (q_path q)) as [[| |w]|]; try discriminate.
  - apply public_session_gate.
  - intros H. exfalso. eapply private_never_for_session; eauto.
Qed.
End Mux.

(* no other session's secret ever works.  The hypothesis says that distinct live sessions have
   distinct secrets; it comes from createsession.go, which draws 128 bytes from crypto/rand
   for every session (a collision has probability 2^-1024 per pair). *)
Definition distinct_secrets (st : state) : Prop :=
  forall i j si sj, get_session st i = GsOk si -> get_session st j = GsOk sj -> i <> j ->
                    s_auth si <> s_auth sj.

Theorem other_sessions_secret_refused st q h i j sj :
  distinct_secrets st ->
  get_session st j = GsOk sj -> q_hdr q = Some (s_auth sj) ->
  dispatch_public rt st q = Handled h (Some i) -> i = j.
Proof.
  intros Hd Hj Hh H. apply public_session_gate in H.
  destruct H as (hd & si & Hq & _ & Hi & Hau & _). rewrite Hh in Hq. injection Hq as Hq'. rewrite <- Hq' in Hau.
  destruct (N.eq_dec i j) as [|Hne]; [assumption|]. exfalso. exact (Hd i j si sj Hi Hj Hne (eq_sym Hau)).
Qed.

(* without the hypothesis the exact statement is: another session's secret works only if it
   happens to be byte-identical to the target's own secret *)
Theorem wrong_secret_refused st q h i si :
  get_session st i = GsOk si -> q_hdr q <> Some (s_auth si) ->
  dispatch_public rt st q <> Handled h (Some i).
Proof.
  intros Hi Hne H. apply public_session_gate in H. destruct H as (hd & s & Hq & _ & Hg & Hau & _).
  rewrite Hi in Hg. inversion Hg; subst. now apply Hne.
Qed.

Theorem dead_or_unknown_session_refused st q h i :
  alive st i = false -> dispatch_public rt st q <> Handled h (Some i).
Proof.
  intros Ha H. apply public_session_gate in H. destruct H as (_ & _ & _ & _ & _ & _ & Ha' & _). congruence.
Qed.
End Table.

(* ---- refused requests: no handler is entered, the body is a fixed text --------------------- *)
Definition is_refusal (d : decision) : Prop :=
  match d with Refused _ _ | Unauthorized | NotFound => True | _ => False end.

Theorem refused_pure t d :
  is_refusal d ->
  rs_handler_entered (respond t d) = false /\ exists txt, rs_body (respond t d) = BErrorText txt.
Proof. destruct d; simpl; intros H; try contradiction; eauto. Qed.

(* the response to a refused request is the same in any two states that refuse it the same way:
   it is a function of the request text and the refusal kind, not of any stored secret or message *)
Theorem refused_response_state_independent rt st1 st2 q t :
  is_refusal (dispatch_public rt st1 q) ->
  dispatch_public rt st1 q = dispatch_public rt st2 q ->
  respond t (dispatch_public rt st1 q) = respond t (dispatch_public rt st2 q).
Proof. intros _ ->. reflexivity. Qed.

(* ---- the concrete tables ------------------------------------------------------------------- *)
Lemma model_routes_gated : forallb gated model_routes = true.
Proof. reflexivity. Qed.
Lemma model_mux_gated : forallb mux_gated model_mux = true.
Proof. reflexivity. Qed.



(* the served mux sends every path either to DispatchPublic (exactly the paths below
   /robustirc/v1/) or to DispatchPrivate (every other path starting with "/") *)
Lemma prefix_head c p s : String.prefix (String c p) s = true -> String.prefix (String c "") s = true.
Proof.
  destruct s as [|d r]; [discriminate|].
  change (String.prefix (String c p) (String d r)) with (if ascii_dec c d then String.prefix p r else false).
  change (String.prefix (String c "") (String d r)) with (if ascii_dec c d then String.prefix "" r else false).
  destruct (ascii_dec c d); [destruct r; reflexivity|discriminate].
Qed.

Theorem model_mux_total path :
  mux_lookup model_mux path =
    if has_prefix public_prefix path then Some TPublic
    else if has_prefix "/" path then Some TPrivate else None.
Proof.
  unfold mux_lookup, model_mux. cbn [mux_lookup_aux fst snd]. unfold mux_pat_match.
  replace (last_char "/robustirc/v1/") with (Some "/"%char) by reflexivity.
  replace (last_char "/") with (Some "/"%char) by reflexivity.
  cbv beta iota. change public_prefix with "/robustirc/v1/". unfold has_prefix in *.
  set (a := String.prefix "/robustirc/v1/" path) in *. set (b := String.prefix "/" path) in *.
  destruct a, b; reflexivity.
Qed.

Theorem model_served_never_panics rt st q : serve model_mux rt st q <> Panics.
Proof.
  unfold serve. rewrite model_mux_total.
  destruct (has_prefix public_prefix (q_path q)) eqn:Hp.
  - unfold dispatch_public. rewrite Hp. simpl.
    destruct (find_route _ _ _ _ _) as [[r [sid|]]|]; try discriminate.
    + destruct (r_gate r); try discriminate; unfold gate_session;
        destruct (session_check _ _ _) as [n|[]]; try destruct (st_leader st); discriminate.
    + destruct (r_gate r); discriminate.
  - destruct (has_prefix "/" (q_path q)); [|discriminate].
    unfold dispatch_private. destruct (find_route _ _ _ _ _) as [[r io]|]; [discriminate|].
    destruct (basic_ok st q); [|discriminate]. destruct (find_route _ _ _ _ _) as [[r io]|]; discriminate.
Qed.

(* C11, second sentence, through the served mux: every path outside /robustirc/v1/ answers 401
   without the network password *)
Theorem model_served_private rt st q :
  forallb gated rt = true ->
  has_prefix public_prefix (q_path q) = false -> has_prefix "/" (q_path q) = true ->
  basic_ok st q = false ->
  serve model_mux rt st q = Unauthorized.
Proof.
  intros Hg Hp Hs Hb. unfold serve. rewrite model_mux_total, Hp, Hs.
  now apply private_needs_password.
Qed.

(* ---- non-vacuity ------------------------------------------------------------------------------ *)
Definition ex_state : state :=
  mkState [(7%N, mkSess "aa11" true 0%N); (9%N, mkSess "bb22" true 5%N); (11%N, mkSess "cc33" false 0%N)] 12%N "pw" true.
Definition ex_req (m p : string) (h : option string) (b : option (string * string)) := mkReq m p h b "".

Example ex_handled_post :
  serve model_mux model_routes ex_state (ex_req "POST" "/robustirc/v1/0x7/message" (Some "aa11") None)
  = Handled "handlePostMessage" (Some 7%N).
Proof. reflexivity. Qed.
Example ex_other_secret :
  serve model_mux model_routes ex_state (ex_req "POST" "/robustirc/v1/0x7/message" (Some "bb22") None)
  = Refused RBadAuth 404%N.
Proof. reflexivity. Qed.
Example ex_deleted :
  serve model_mux model_routes ex_state (ex_req "DELETE" "/robustirc/v1/11" (Some "cc33") None)
  = Refused RNoSuch 404%N.
Proof. reflexivity. Qed.
Example ex_not_yet_get :
  serve model_mux model_routes ex_state (ex_req "GET" "/robustirc/v1/99/messages" (Some "x") None)
  = Refused RNotYet 500%N.
Proof. reflexivity. Qed.
Example ex_private_401 :
  serve model_mux model_routes ex_state (ex_req "GET" "/debug/pprof/cmdline" None None) = Unauthorized.
Proof. reflexivity. Qed.
Example ex_private_ok :
  serve model_mux model_routes ex_state (ex_req "GET" "/debug/pprof/cmdline" None (Some ("robustirc", "pw")))
  = Handled "http.DefaultServeMux.ServeHTTP" None.
Proof. reflexivity. Qed.
Example ex_distinct : distinct_secrets ex_state.
Proof.
  intros i j si sj Hi Hj Hne. apply get_session_ok_lookup in Hi, Hj. destruct Hi as [Hi Hai], Hj as [Hj Haj].
  unfold ex_state in Hi, Hj. cbn [st_sessions lookup] in Hi, Hj.
  destruct (N.eqb_spec 7 i), (N.eqb_spec 7 j), (N.eqb_spec 9 i), (N.eqb_spec 9 j),
           (N.eqb_spec 11 i), (N.eqb_spec 11 j); subst; try congruence; try discriminate;
    inversion Hi; inversion Hj; subst; simpl in *; congruence.
Qed.
(* the pinned tree's mux is NOT gated: this is defect D17 *)
Example ex_pinned_mux_breach :
  serve (model_mux ++ [("/debug/pprof/", TForeign "net/http/pprof")]) model_routes ex_state
        (ex_req "GET" "/debug/pprof/cmdline" None None) = Foreign "net/http/pprof".
Proof. reflexivity. Qed.
