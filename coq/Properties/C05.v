(* C05 — acknowledged messages survive crashes and fail-over, exactly once, everywhere (PARTIAL).

   Statements over Sys/EndToEnd.v: a composition over an ASSUMED raft contract.  [M : Sys] is any
   system: any deterministic machine [step] (what C01_model_deterministic provides for the IRC
   model), any committed log [L M], any set of nodes each having applied a prefix of it, any set
   of sessions with any number of POST requests and retries.  The named hypotheses ([Contract]):

     NodeStateIsReplay      a node's state/stored output = plain replay of the prefix it applied,
                            however it got there (snapshot, restore, restart): C02_state,
                            C02_output, C02_exact; resume across nodes/restarts: C04_exactly_once
     ProposalAppends, ProposalEntry, LogFromRequests
                            raft: one totally ordered log, append-only, nothing invented
     AckImpliesCommitted    api.go applyMessageWait: HTTP 200 only after the raft future
                            succeeded, or on the dedup path
     MarkerInit/Set/Only    the marker rule (C10_marker, C10_marker_inv)
     ApplySkip              statemachine.go since /repo 92a4e2e (repair of D14): a client entry whose
                            non-zero client message id equals the session's marker is skipped by
                            every node (no state change, no output)
     CmidNonzero, ClientNoReturn
                            client protocol: non-zero ids, retries of a message are contiguous
     EarlierMessagesSettled timing, NOT enforced by the code: when a client sends a request for a
                            NEW message, what its requests for EARLIER messages proposed is
                            committed or never will be.

   No longer needed since ApplySkip: HandlerCaughtUp (the node answering a retry has applied
   everything committed before the retry arrived — D14), HandlerDedup, SeenLeLen, and the part of
   EarlierRequestsSettled that spoke about retries of the SAME message.  The log MAY now hold a post
   twice (C05_two_copies_processed_once); exactly one copy is processed.

   What cannot be exhibited by these theorems or by the single-node harness: raft's own safety,
   fsync/LevelDB durability under power loss, network partitions, timing of leader changes. *)
From Coq Require Import List NArith.
From RV Require Import Sys.EndToEnd Sys.EndToEndProofs.

(* for any two nodes and any session the served streams are prefix-related
   (outputs of a prefix of the log are a prefix of the outputs) *)
Theorem C05_same_stream : forall M : Sys, NodeStateIsReplay M ->
  forall (i j : Node M) (s : Sess M),
    prefix_of (served M i s) (served M j s) \/ prefix_of (served M j s) (served M i s).
Proof. exact composition_same_stream. Qed.
Print Assumptions C05_same_stream.

(* an acknowledged post is in the committed log.  This IS the raft-contract hypothesis
   AckImpliesCommitted composed with the handler model (dedup path: a non-zero marker was written
   by an applied entry of the log). *)
Theorem C05_ack_durable : forall M : Sys,
  ProposalEntry M -> AckImpliesCommitted M -> MarkerInit M -> MarkerOnly M -> CmidNonzero M ->
  forall s n, n < nreq M s -> r_ack M s n = true -> exists i, copy_at M s (r_cmid M s n) i.
Proof. exact composition_ack_durable. Qed.
Print Assumptions C05_ack_durable.

(* each acknowledged post is PROCESSED exactly once: one copy in L finds a different marker, every
   other copy lies behind it and is skipped by every node; all copies of an earlier message of a
   session precede all copies of a later one; and every node that has reached the processed copy
   serves its output exactly once, at the place the log determines.  No HandlerCaughtUp. *)
Theorem C05_exactly_once : forall M : Sys, Contract M ->
  ProcessedOnce M /\ SenderOrder M /\ DeliveredOnce M.
Proof. exact composition_exactly_once. Qed.
Print Assumptions C05_exactly_once.

(* D14 after the repair: the hypotheses are satisfiable by a history whose log holds an acknowledged
   post TWICE (the retry reached a leader that lagged its own log) — which is why the apply rule is
   needed — and the conclusions hold of it *)
Theorem C05_two_copies_processed_once : exists M : Sys, Contract M /\ TwoCopies M /\
  ProcessedOnce M /\ SenderOrder M /\ DeliveredOnce M.
Proof. exact two_copies_processed_once. Qed.
Print Assumptions C05_two_copies_processed_once.

(* D14 before the repair: the same history on the machine without the apply rule satisfies every other
   hypothesis and both copies are processed *)
Theorem C05_refuted_without_apply_skip : exists M : Sys,
  ContractWithoutApplySkip M /\ TwoCopies M /\ ~ ProcessedOnce M.
Proof. exact refuted_without_apply_skip. Qed.
Print Assumptions C05_refuted_without_apply_skip.

(* the hypotheses of C05_exactly_once are satisfiable (tiny concrete machines, two nodes):
   an orderly history, and the D14 history with a duplicated log entry *)
Theorem C05_hypotheses_satisfiable : Contract tiny_ok /\ Contract tiny_lagging /\ TwoCopies tiny_lagging.
Proof. exact hypotheses_satisfiable. Qed.
Print Assumptions C05_hypotheses_satisfiable.
